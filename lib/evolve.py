"""evolve — schema-valid evolutions of the committed metamodel (property C06): systematic families (one evolved model per
edit kind x target family, exhaustive over targets) and seeded random edit sequences.  Every model is validated against
lsp.schema.json under root MetaModel before it is used.  Only edits listed in the property text are applied."""
import copy
import json
import keyword
import os

import vcommon as V


def base(n):
    return {"kind": "base", "name": n}


def ref(n):
    return {"kind": "reference", "name": n}


STR, INT, UINT, DEC, BOOL, NULL, DURI, URI = (base(x) for x in ("string", "integer", "uinteger", "decimal", "boolean", "null", "DocumentUri", "URI"))

CONTEXTS = {
    "req": lambda t: {"name": "p", "type": t},
    "opt": lambda t: {"name": "p", "type": t, "optional": True},
    "arr": lambda t: {"name": "p", "type": {"kind": "array", "element": t}},
    "map": lambda t: {"name": "p", "type": {"kind": "map", "key": STR, "value": t}},
    "nul": lambda t: {"name": "p", "type": {"kind": "or", "items": [t, NULL]}},
    "kw": lambda t: {"name": "class", "type": t},
}


def load():
    return json.load(open(os.path.join(V.REPO, "generator", "lsp.json")))


def fam_refs(mm, targets, tag):
    m = copy.deepcopy(mm)
    for kind, name in targets:
        t = base(name) if kind == "base" else ref(name)
        for cn, f in CONTEXTS.items():
            m["structures"].append({"name": "Zz%s%s%s" % (tag, name.replace("_", ""), cn.title()), "properties": [f(t)]})
    return m


def fam_props(mm):
    m = copy.deepcopy(mm)
    m["structures"].append({"name": "ZzBase", "properties": [{"name": "baseProp", "type": STR}, {"name": "shared", "type": INT}]})
    m["structures"].append({"name": "ZzMix", "properties": [{"name": "mixProp", "type": BOOL, "optional": True}, {"name": "shared", "type": STR}]})
    # two structures one of whose names is a PREFIX of the other, sharing a property name that is plain optional in the shorter-named and
    # null-admitting (always written) in the longer-named: per-class tables keyed by "<Class>.<property>" strings must not be read by prefix
    m["structures"].append({"name": "ZzFileFilter", "properties": [{"name": "scheme", "type": STR, "optional": True}, {"name": "pattern", "type": STR, "optional": True}]})
    m["structures"].append({"name": "ZzFileFilterOptions", "properties": [{"name": "pattern", "type": {"kind": "or", "items": [STR, NULL]}},
                                                                         {"name": "scheme", "type": {"kind": "or", "items": [STR, NULL]}, "optional": True}]})
    m["enumerations"].append({"name": "ZzKind", "type": STR, "values": [{"name": "alpha", "value": "alpha"}, {"name": "betaGamma", "value": "beta-gamma"}]})
    m["enumerations"].append({"name": "ZzNum", "type": UINT, "values": [{"name": "One", "value": 1}, {"name": "Two", "value": 2}], "proposed": True})
    m["structures"].append({"name": "ZzNew", "extends": [ref("ZzBase")], "mixins": [ref("ZzMix")], "properties": [
        {"name": "class", "type": STR},
        {"name": "arr", "type": {"kind": "array", "element": ref("Position")}, "optional": True},
        {"name": "mp", "type": {"kind": "map", "key": STR, "value": ref("Range")}},
        {"name": "tup", "type": {"kind": "tuple", "items": [UINT, UINT]}},
        {"name": "nul", "type": {"kind": "or", "items": [ref("Range"), NULL]}},
        {"name": "lit", "type": {"kind": "literal", "value": {"properties": [{"name": "innerA", "type": STR}, {"name": "innerB", "type": UINT, "optional": True}]}}},
        {"name": "litArr", "type": {"kind": "array", "element": {"kind": "literal", "value": {"properties": [{"name": "elemX", "type": DEC}]}}}, "optional": True},
        {"name": "dep", "type": STR, "optional": True, "deprecated": "use something else", "since": "3.18.0", "proposed": True},
        {"name": "zk", "type": ref("ZzKind")},
        {"name": "zn", "type": ref("ZzNum"), "optional": True},
        {"name": "multiNull", "type": {"kind": "or", "items": [STR, INT, NULL]}},
        {"name": "multiNullOpt", "type": {"kind": "or", "items": [ref("Position"), ref("Range"), NULL]}, "optional": True},
        # null-admitting types BELOW the top level of a property type (array element, map value)
        {"name": "nullElems", "type": {"kind": "array", "element": {"kind": "or", "items": [STR, NULL]}}},
        {"name": "nullVals", "type": {"kind": "map", "key": STR, "value": {"kind": "or", "items": [ref("Range"), NULL]}}, "optional": True},
        # an anonymous literal whose OPTIONAL members come first / in the middle (position of a member must not matter to any plugin)
        {"name": "litOrder", "type": {"kind": "literal", "value": {"properties": [{"name": "optFirst", "type": STR, "optional": True}, {"name": "limit", "type": UINT},
                                                                                  {"name": "optMid", "type": BOOL, "optional": True}, {"name": "last", "type": STR}]}}},
    ]})
    # structures that INHERIT anonymous-literal members (extends and mixins): generators that name / cache literal types per declaration
    # must give the heir the same member types as the declaring structure
    m["structures"].append({"name": "ZzNewChild", "extends": [ref("ZzNew")], "properties": [{"name": "childOnly", "type": STR, "optional": True}]})
    m["structures"].append({"name": "ZzNewMixUser", "mixins": [ref("ZzNew")], "properties": [{"name": "userOnly", "type": UINT}]})
    return m


def fam_messages(mm, with_typename):
    m = fam_props(mm)
    req = {"method": "zz/doThing", "messageDirection": "clientToServer", "params": ref("ZzNew"), "result": {"kind": "or", "items": [ref("ZzBase"), NULL]}}
    nt = {"method": "zz/didThing", "messageDirection": "serverToClient", "params": ref("ZzNew")}
    nop = {"method": "zz/ping", "messageDirection": "both", "result": NULL}
    if with_typename:
        req["typeName"], nt["typeName"], nop["typeName"] = "ZzDoThingRequest", "ZzDidThingNotification", "ZzPingRequest"
    m["requests"] += [req, nop]
    m["notifications"].append(nt)
    if not with_typename:
        # a method with an upper-case run (an acronym): the plugins camel-case method names with three different functions
        m["requests"].append({"method": "zz/executeLSPCommand", "messageDirection": "clientToServer", "params": ref("ZzNew"), "result": NULL})
    if with_typename:
        # a typeName that contains "Request" / "Notification" BEFORE the suffix as well (GitHub-style "pull request"): the names of the
        # request / response / params classes derive from it by removing the SUFFIX only
        m["requests"].append({"method": "zz/pullRequestInfo", "typeName": "ZzPullRequestInfoRequest", "messageDirection": "clientToServer",
                              "params": ref("ZzNew"), "result": {"kind": "or", "items": [ref("ZzBase"), NULL]}})
        m["notifications"].append({"method": "zz/notificationCenterChanged", "typeName": "ZzNotificationCenterChangedNotification",
                                   "messageDirection": "serverToClient", "params": ref("ZzNew")})
    return m


def fam_remove_optional(mm):
    m = copy.deepcopy(mm)
    for s in m["structures"]:
        if s["name"] == "Diagnostic":
            s["properties"] = [p for p in s["properties"] if p["name"] != "codeDescription"]
        if s["name"] == "CompletionItem":
            s["properties"] = [p for p in s["properties"] if p["name"] != "labelDetails"]
    return m


def fam_literal_union_member(mm):
    m = copy.deepcopy(mm)
    m["structures"].append({"name": "ZzLitUnion", "properties": [
        {"name": "choice", "type": {"kind": "or", "items": [STR, {"kind": "literal", "value": {"properties": [{"name": "litKey", "type": UINT}]}}]}},
        {"name": "choices", "type": {"kind": "array", "element": {"kind": "or", "items": [ref("Position"), {"kind": "literal", "value": {"properties": [{"name": "otherKey", "type": STR}]}}]}}, "optional": True}]})
    return m


def fam_variant_literals(mm):
    """unions of anonymous literals of the `notebookSelector` shape of LSP 3.17: every member of the first alternative occurs in all of
    them and is optional somewhere ("variant" literals, which the .NET plugin merges into one record), LATER alternatives declare more"""
    m = copy.deepcopy(mm)
    cells = {"kind": "array", "element": {"kind": "literal", "value": {"properties": [{"name": "language", "type": STR}]}}}
    m["structures"].append({"name": "ZzVariantOwner", "properties": [
        {"name": "selector", "type": {"kind": "array", "element": {"kind": "or", "items": [
            {"kind": "literal", "value": {"properties": [{"name": "notebook", "type": STR}, {"name": "cells", "type": cells, "optional": True}]}},
            {"kind": "literal", "value": {"properties": [{"name": "notebook", "type": STR, "optional": True}, {"name": "cells", "type": cells},
                                                          {"name": "executionSummarySupport", "type": BOOL, "optional": True}]}}]}}},
        {"name": "single", "type": {"kind": "or", "items": [
            {"kind": "literal", "value": {"properties": [{"name": "alpha", "type": UINT, "optional": True}, {"name": "beta", "type": STR}]}},
            {"kind": "literal", "value": {"properties": [{"name": "alpha", "type": UINT}, {"name": "beta", "type": STR, "optional": True}, {"name": "gamma", "type": STR}]}}]},
         "optional": True}]})
    return m


def fam_keywords(mm):
    m = copy.deepcopy(mm)
    kws = [k for k in keyword.kwlist if k.islower()]
    m["structures"].append({"name": "ZzKeywords", "properties": [{"name": k, "type": STR, "optional": (i % 2 == 0)} for i, k in enumerate(kws)]})
    # keyword names on special (null-admitting / literal) properties, on a structure and inside an anonymous literal
    m["structures"].append({"name": "ZzKeywordSpecial", "properties": [
        {"name": "global", "type": {"kind": "or", "items": [STR, NULL]}},
        {"name": "class", "type": {"kind": "stringLiteral", "value": "zz"}},
        {"name": "nonlocal", "type": {"kind": "or", "items": [ref("Range"), NULL]}, "optional": True},
        {"name": "lambda", "type": {"kind": "literal", "value": {"properties": [{"name": "import", "type": {"kind": "or", "items": [UINT, NULL]}}, {"name": "pass", "type": STR, "optional": True}]}}}]})
    return m


def fam_inherit_redeclare(mm):
    """inheritance chains of depth 3 where a middle structure re-declares (narrows) a property of its base: nearest wins"""
    m = copy.deepcopy(mm)
    m["structures"].append({"name": "ZzTraceBase", "properties": [{"name": "level", "type": {"kind": "or", "items": [INT, NULL]}}, {"name": "tag", "type": STR, "optional": True}]})
    m["structures"].append({"name": "ZzTraceMid", "extends": [ref("ZzTraceBase")], "properties": [{"name": "level", "type": INT}]})
    m["structures"].append({"name": "ZzTraceLeaf", "extends": [ref("ZzTraceMid")], "properties": [{"name": "leaf", "type": BOOL}]})
    m["structures"].append({"name": "ZzCreateFileFromTemplate", "extends": [ref("CreateFile")], "properties": [{"name": "template", "type": STR}]})
    m["structures"].append({"name": "ZzMixA", "properties": [{"name": "shared", "type": STR}, {"name": "onlyA", "type": UINT, "optional": True}]})
    m["structures"].append({"name": "ZzMixB", "mixins": [ref("ZzMixA")], "properties": [{"name": "shared", "type": {"kind": "or", "items": [STR, NULL]}}]})
    m["structures"].append({"name": "ZzMixC", "extends": [ref("VersionedTextDocumentIdentifier")], "mixins": [ref("ZzMixB")], "properties": [{"name": "version", "type": {"kind": "or", "items": [INT, NULL]}}]})
    return m


def fam_marks(mm):
    m = copy.deepcopy(mm)
    m["structures"].append({"name": "ZzMarked", "proposed": True, "since": "3.18.0", "deprecated": "old", "documentation": "doc", "properties": [
        {"name": "a", "type": STR, "proposed": True}, {"name": "b", "type": UINT, "optional": True, "since": "3.18.0"}, {"name": "c", "type": BOOL, "deprecated": "x", "optional": True}]})
    m["enumerations"].append({"name": "ZzMarkedKind", "type": UINT, "proposed": True, "since": "3.18.0", "values": [{"name": "A", "value": 1, "proposed": True}, {"name": "B", "value": 2, "since": "3.18.0"}]})
    m["requests"].append({"method": "zz/marked", "typeName": "ZzMarkedRequest", "messageDirection": "both", "params": ref("ZzMarked"), "result": ref("ZzMarked"), "proposed": True, "since": "3.18.0"})
    return m


def fam_enums(mm):
    m = copy.deepcopy(mm)
    m["enumerations"].append({"name": "ZzClosedStr", "type": STR, "values": [{"name": "one", "value": "one"}, {"name": "TwoWords", "value": "two-words"}]})
    m["enumerations"].append({"name": "ZzClosedInt", "type": INT, "values": [{"name": "Neg", "value": -5}, {"name": "Pos", "value": 7}]})
    for e in m["enumerations"]:
        if e["name"] == "SymbolKind":
            e["values"].append({"name": "ZzExtra", "value": 99})
        if e["name"] == "MarkupKind":
            e["values"].append({"name": "ZzRst", "value": "rst"})
    m["structures"].append({"name": "ZzUsesEnums", "properties": [{"name": "a", "type": ref("ZzClosedStr")}, {"name": "b", "type": ref("ZzClosedInt"), "optional": True},
                                                                   {"name": "c", "type": {"kind": "array", "element": ref("ZzClosedStr")}, "optional": True}]})
    return m


def fam_core(mm):
    """one combined model with the most bug-prone edits, used by the quick tier on every run"""
    m = fam_messages(mm, True)
    for f in (fam_keywords, fam_inherit_redeclare, fam_enums):
        x = f(mm)
        for sec in ("structures", "enumerations", "requests", "notifications", "typeAliases"):
            have = {json.dumps(e, sort_keys=True) for e in m[sec]}
            names = {e.get("name", e.get("method")) for e in m[sec]}
            for e in x[sec]:
                key = e.get("name", e.get("method"))
                if key not in names:
                    m[sec].append(copy.deepcopy(e))
                    names.add(key)
                elif json.dumps(e, sort_keys=True) not in have:
                    # an existing declaration that the family edits (enum values added): take the edited one
                    for i, old in enumerate(m[sec]):
                        if old.get("name", old.get("method")) == key and len(json.dumps(e)) > len(json.dumps(old)):
                            m[sec][i] = copy.deepcopy(e)
    return m


def systematic(mm):
    """[(name, model)] — the systematic part, exhaustive over targets"""
    al = [("alias", a["name"]) for a in mm["typeAliases"] if a["name"] != "LSPObject"]
    en = [("enum", e["name"]) for e in mm["enumerations"] if not e.get("supportsCustomValues")]
    eo = [("enum", e["name"]) for e in mm["enumerations"] if e.get("supportsCustomValues")]
    st = [("struct", n) for n in ("Position", "Range", "Command", "TextEdit", "Location", "MarkupContent")] + [("base", b) for b in ("string", "integer", "uinteger", "decimal", "boolean", "DocumentUri", "URI")]
    return [
        ("identity", copy.deepcopy(mm)),
        ("core", fam_core(mm)),
        ("props", fam_props(mm)),
        ("msgs-typename", fam_messages(mm, True)),
        ("msgs-no-typename", fam_messages(mm, False)),
        ("remove-optional", fam_remove_optional(mm)),
        ("literal-union-member", fam_literal_union_member(mm)),
        ("variant-literals", fam_variant_literals(mm)),
        ("keywords", fam_keywords(mm)),
        ("inherit-redeclare", fam_inherit_redeclare(mm)),
        ("marks", fam_marks(mm)),
        ("enums", fam_enums(mm)),
        ("refs-structs-base", fam_refs(mm, st, "S")),
        ("refs-enums", fam_refs(mm, en, "E")),
        ("refs-open-enums", fam_refs(mm, eo, "O")),
        ("refs-aliases", fam_refs(mm, al, "A")),
    ]


# ---------------------------------------------------------------------------------------------- random edit sequences
def rand_type(mm, rng, depth=0):
    names_s = [s["name"] for s in mm["structures"] if s["name"] not in ("LSPObject",) and not s["name"].startswith("_")]
    names_e = [e["name"] for e in mm["enumerations"] if not e.get("supportsCustomValues")]   # open enums need a hand-written union hook: family refs-open-enums
    r = rng.random()
    if depth > 1 or r < 0.35:
        return rng.choice([STR, INT, UINT, DEC, BOOL, DURI, URI])
    if r < 0.55:
        return ref(rng.choice(names_s))
    if r < 0.65:
        return ref(rng.choice(names_e))
    if r < 0.75:
        return {"kind": "array", "element": rand_type(mm, rng, depth + 1)}
    if r < 0.82:
        return {"kind": "map", "key": STR, "value": rand_type(mm, rng, depth + 1)}
    if r < 0.88:
        return {"kind": "tuple", "items": [rng.choice([UINT, INT, STR]) for _ in range(2)]}
    if r < 0.94:
        return {"kind": "or", "items": [rand_type(mm, rng, depth + 2), NULL]}
    return {"kind": "literal", "value": {"properties": [{"name": "zzLit%d" % i, "type": rng.choice([STR, UINT, BOOL])} for i in range(rng.choice([1, 2]))]}}


def random_model(mm, rng, n_edits):
    m = copy.deepcopy(mm)
    log = []
    for i in range(n_edits):
        k = rng.choice(["struct", "prop", "enum", "enumval", "request", "notification", "remove", "mark"])
        if k == "struct":
            name = "ZzR%d" % rng.randrange(10**6)
            props = [{"name": rng.choice(["alpha", "betaGamma", "class", "from", "x1Y", "uri"]) + str(j), "type": rand_type(m, rng)} for j in range(rng.choice([1, 2, 3]))]
            for p in props:
                if rng.random() < 0.5:
                    p["optional"] = True
            s = {"name": name, "properties": props}
            if rng.random() < 0.3:
                s["extends"] = [ref(rng.choice(["Position", "Range", "WorkDoneProgressOptions", "TextDocumentRegistrationOptions"]))]
            m["structures"].append(s)
            log.append(("struct", name))
        elif k == "prop":
            s = rng.choice([s for s in m["structures"] if s["name"] != "LSPObject"])
            pn = "zzProp%d" % rng.randrange(10**6)
            s["properties"].append({"name": pn, "type": rand_type(m, rng), "optional": True})
            log.append(("prop", s["name"], pn))
        elif k == "enum":
            name = "ZzE%d" % rng.randrange(10**6)
            if rng.random() < 0.5:
                m["enumerations"].append({"name": name, "type": STR, "values": [{"name": "vOne", "value": "v-one"}, {"name": "vTwo", "value": "vTwo"}]})
            else:
                m["enumerations"].append({"name": name, "type": UINT, "values": [{"name": "A", "value": 1}, {"name": "B", "value": 3}]})
            log.append(("enum", name))
        elif k == "enumval":
            e = rng.choice([e for e in m["enumerations"] if e["name"] not in ("LanguageKind", "ErrorCodes", "LSPErrorCodes")])
            if e["type"]["name"] == "string":
                v = "zz-%d" % rng.randrange(10**6)
            else:
                v = max(x["value"] for x in e["values"]) + 1 + rng.randrange(50)
            e["values"].append({"name": "Zz%d" % rng.randrange(10**6), "value": v})
            log.append(("enumval", e["name"], v))
        elif k == "request":
            mth = "zz/req%d" % rng.randrange(10**6)
            r = {"method": mth, "messageDirection": rng.choice(["clientToServer", "serverToClient", "both"]), "result": rng.choice([NULL, ref("Range"), {"kind": "or", "items": [ref("Position"), NULL]}]),
                 "typeName": "ZzReq%dRequest" % rng.randrange(10**6)}
            if rng.random() < 0.7:
                r["params"] = ref(rng.choice(["Position", "Range", "TextDocumentIdentifier"]))
            m["requests"].append(r)
            log.append(("request", mth))
        elif k == "notification":
            mth = "zz/ntf%d" % rng.randrange(10**6)
            n = {"method": mth, "messageDirection": rng.choice(["clientToServer", "serverToClient", "both"]), "typeName": "ZzNtf%dNotification" % rng.randrange(10**6)}
            if rng.random() < 0.7:
                n["params"] = ref(rng.choice(["Position", "Range", "TextDocumentIdentifier"]))
            m["notifications"].append(n)
            log.append(("notification", mth))
        elif k == "remove":
            cands = [(s, p) for s in m["structures"] for p in s["properties"] if p.get("optional") and p["type"]["kind"] == "base"]
            if cands:
                s, p = rng.choice(cands)
                s["properties"].remove(p)
                log.append(("remove", s["name"], p["name"]))
        elif k == "mark":
            s = rng.choice(m["structures"])
            if s["properties"]:
                p = rng.choice(s["properties"])
                p[rng.choice(["since", "deprecated"])] = "3.18.0"
                log.append(("mark", s["name"], p["name"]))
    return m, log


def schema_valid(model):
    import jsonschema
    schema = json.load(open(os.path.join(V.REPO, "generator", "lsp.schema.json")))
    schema = dict(schema)
    schema["$ref"] = "#/definitions/MetaModel"
    try:
        jsonschema.validate(model, schema)
        return True, ""
    except jsonschema.ValidationError as e:
        return False, str(e)[:300]
