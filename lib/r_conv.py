"""Real-code runner for the converter stream.
stdin: JSON {"cases":[{"target":name,"input":json,["ctor":spec]}...], "str_of":[json...]}
stdout: JSON {"results":[{"ok":bool,"dump":..,"unstr":..|null,"unstr_ok":bool,"err":str}], "str_of":[str...]}
Targets are names in lsprotocol.types.ALL_TYPES_MAP (classes or module-level alias objects)."""
import enum
import json
import os
import sys

import attrs

from lsprotocol import converters
from lsprotocol import types as T



conv = None      # created in main(): the warm-up of the 'after-foreign' configuration needs the cases (lib/conv_cfg.py)


def dump(v):
    if v is None or isinstance(v, (bool, str)):
        if isinstance(v, enum.Enum):
            return {"$e": type(v).__name__, "v": v.value}
        return v
    if isinstance(v, enum.Enum):
        return {"$e": type(v).__name__, "v": v.value}
    if isinstance(v, int):
        return v
    if isinstance(v, float):
        return {"$f": list(v.as_integer_ratio())}
    if isinstance(v, list):
        return [dump(x) for x in v]
    if isinstance(v, tuple):
        return {"$t": [dump(x) for x in v]}
    if isinstance(v, dict):
        return {"$d": [[dump(k), dump(x)] for k, x in v.items()]}
    if attrs.has(type(v)):
        return {"$c": type(v).__name__, "f": {a.name: dump(getattr(v, a.name)) for a in attrs.fields(type(v))}}
    return {"$unknown": repr(v)}


import collections.abc
import typing


def typed(v, t, path, errs):
    """C03 oracle on the real object graph against the resolved annotations."""
    NoneT = type(None)
    if isinstance(t, typing.ForwardRef):       # module-level alias objects keep ForwardRefs
        t = T.ALL_TYPES_MAP.get(t.__forward_arg__, t)
    if isinstance(t, str):
        t = T.ALL_TYPES_MAP.get(t, t)
    o = typing.get_origin(t)
    if t is typing.Any:
        return True
    if isinstance(t, type) and not attrs.has(t) and not issubclass(t, (enum.Enum, int, str, float, bool)) and t is not NoneT:
        return True          # opaque class (LSPObject): uninterpreted JSON allowed
    if t is NoneT:
        return v is None
    if o is typing.Union:
        ok = any(typed(v, a, path, []) for a in typing.get_args(t))
        if not ok:
            errs.append([path, "union", type(v).__name__, str(t)[:100]])
        return ok
    if o in (collections.abc.Sequence, list):
        if not isinstance(v, (list, tuple)):
            errs.append([path, "seq", type(v).__name__])
            return False
        return all(typed(x, typing.get_args(t)[0], path + "[]", errs) for x in v)
    if o is dict:
        if not isinstance(v, dict):
            errs.append([path, "dict", type(v).__name__])
            return False
        return all(typed(x, typing.get_args(t)[1], path + "{}", errs) for x in v.values())
    if o is tuple:
        if not isinstance(v, tuple) or len(v) != len(typing.get_args(t)):
            errs.append([path, "tuple", type(v).__name__])
            return False
        return all(typed(x, a, path + "()", errs) for x, a in zip(v, typing.get_args(t)))
    if o is typing.Literal:
        return v in typing.get_args(t)
    if isinstance(t, type) and issubclass(t, enum.Enum):
        ok = isinstance(v, t) or any(v == m.value and type(v) is type(m.value) for m in t)
        if not ok:
            errs.append([path, "enum", repr(v)[:60]])
        return ok
    if isinstance(t, type) and attrs.has(t):
        if not isinstance(v, t):
            errs.append([path, "class", type(v).__name__, t.__name__])
            return False
        return all(typed(getattr(v, a.name), a.type, path + "." + a.name, errs) for a in attrs.fields(t))
    if t is float:
        return isinstance(v, float)
    if t is bool:
        return isinstance(v, bool)
    if t is int:
        return isinstance(v, int)
    if t is str:
        return isinstance(v, str)
    errs.append([path, "?", str(t)[:80]])
    return False


def fl(j):
    """floats -> exact ratio marker (JSON text would round-trip anyway, this keeps the harness independent of it)"""
    if isinstance(j, enum.Enum) and isinstance(j, (str, int)):
        return j.value          # a str/int-based member left in place by cattrs' identity hook serialises as its value
    if isinstance(j, float):
        return {"$f": list(j.as_integer_ratio())}
    if isinstance(j, dict):
        return {k: fl(v) for k, v in j.items()}
    if isinstance(j, (list, tuple)):
        return [fl(x) for x in j]
    if isinstance(j, enum.Enum) and isinstance(j, (str, int)):
        return j.value          # a str/int-based member left in place by cattrs' identity hook serialises as its value
    if j is None or isinstance(j, (bool, int, str)):
        return j
    return {"$unjson": repr(j)}


_UNIONS = {}


def _union_types():
    """every union type a user can meet: in attribute types (through sequences / dicts / tuples / members) and among the keys the
    hooks are registered under; keyed by its pty string"""
    if _UNIONS:
        return _UNIONS
    import pyty
    import cattrs
    from lsprotocol import _hooks
    found = []

    def walk(t):
        o = typing.get_origin(t)
        if o is typing.Union:
            if t not in found:
                found.append(t)
                for a in typing.get_args(t):
                    walk(a)
        elif o in (collections.abc.Sequence, list, dict, tuple):
            for a in typing.get_args(t):
                if a is not Ellipsis:
                    walk(a)
    for obj in T.ALL_TYPES_MAP.values():
        if isinstance(obj, type) and attrs.has(obj):
            for a in attrs.fields(obj):
                walk(a.type)

    class Rec(cattrs.Converter):
        def register_structure_hook(self, cl, func=None):
            if typing.get_origin(cl) is typing.Union:
                walk(cl)
            return super().register_structure_hook(cl, func)
    try:
        _hooks.register_hooks(Rec())
    except Exception:
        pass
    for u in found:
        try:
            _UNIONS.setdefault(pyty.ty(u), u)
        except Exception:
            pass
    return _UNIONS


def target(name):
    if name.startswith("("):
        return _union_types()[name]
    if name in T.ALL_TYPES_MAP:
        return T.ALL_TYPES_MAP[name]
    return getattr(T, name)


def _walk_exc(e, seen):
    if e is None or id(e) in seen:
        return
    seen.add(id(e))
    yield e
    for s in getattr(e, "exceptions", ()) or ():
        yield from _walk_exc(s, seen)
    yield from _walk_exc(e.__cause__, seen)
    yield from _walk_exc(e.__context__, seen)


def _reachable_unions(t, seen, out):
    """union types reachable from annotation t (through classes, sequences, dicts, tuples, union members)"""
    if isinstance(t, typing.ForwardRef):
        t = T.ALL_TYPES_MAP.get(t.__forward_arg__, t)
    o = typing.get_origin(t)
    if o is typing.Union:
        if t in out:
            return
        out.append(t)
        for a in typing.get_args(t):
            _reachable_unions(a, seen, out)
    elif o in (collections.abc.Sequence, list, dict, tuple):
        for a in typing.get_args(t):
            if a is not Ellipsis:
                _reachable_unions(a, seen, out)
    elif isinstance(t, type) and attrs.has(t) and t not in seen:
        seen.add(t)
        for a in attrs.fields(t):
            _reachable_unions(a.type, seen, out)


def fail_unions(e):
    """union types met on the way down to each leaf failure, read from the notes cattrs attaches to the exception tree
    ('Structuring class C @ attribute a' carries the attribute's type): pty strings.  Used to attribute a failure to a
    recorded finding when the model (and so the dispatch trace) is unavailable."""
    import pyty
    out, seen = [], set()

    def rec(x):
        if x is None or id(x) in seen:
            return
        seen.add(id(x))
        for n in getattr(x, "__notes__", ()) or ():
            t = getattr(n, "type", None)
            if t is not None and typing.get_origin(t) is typing.Union:
                try:
                    s = pyty.ty(t)
                    if s not in out:
                        out.append(s)
                except Exception:
                    pass
        for sub in getattr(x, "exceptions", ()) or ():
            rec(sub)
        rec(x.__cause__)
        rec(x.__context__)
    rec(e)
    return out


def no_handler(e, target_name):
    """union types without a structure handler that the failure of this case is due to (pty strings): the type_ of every
    StructureHandlerNotFoundError in the exception tree; for cattrs' own 'no usable non-default attributes' TypeError (raised while
    it builds a disambiguator, the union is not named) the reachable unions for which get_structure_hook raises."""
    import pyty
    import cattrs.errors
    out = []
    probe = False
    for x in _walk_exc(e, set()):
        if isinstance(x, cattrs.errors.StructureHandlerNotFoundError):
            try:
                out.append(pyty.ty(x.type_))
            except Exception:
                pass
        elif isinstance(x, TypeError) and "no usable non-default attributes" in str(x):
            probe = True
    if probe:
        us = []
        try:
            _reachable_unions(target(target_name), set(), us)
        except Exception:
            us = []
        for u in us:
            try:
                conv.get_structure_hook(u)
            except Exception:
                try:
                    out.append(pyty.ty(u))
                except Exception:
                    pass
    return sorted(set(out))


def main():
    global conv
    req = json.load(sys.stdin)
    import conv_cfg
    warm = []
    if os.environ.get("VERIF_CONV_CFG") == "after-foreign":
        for c in req["cases"]:
            if c["target"] in T.ALL_TYPES_MAP:          # named targets only: union targets are resolved through the converter under test
                warm.append((T.ALL_TYPES_MAP[c["target"]], c["input"]))
    conv = conv_cfg.make_converter(warm)
    res = []
    for c in req["cases"]:
        try:
            t = target(c["target"])
            o = conv.structure(c["input"], t)
        except BaseException as e:  # noqa
            res.append({"ok": False, "err": type(e).__name__, "msg": str(e)[:160], "no_handler": no_handler(e, c["target"]), "fail_unions": fail_unions(e)})
            continue
        r = {"ok": True, "dump": dump(o)}
        errs = []
        try:
            r["typed"] = bool(typed(o, t, c["target"], errs))
        except BaseException as e:  # noqa
            r["typed"] = False
            errs.append(["", "typed-check-raised", repr(e)[:100]])
        r["type_errors"] = errs[:3]
        try:
            r["unstr"] = fl(conv.unstructure(o, t))
            r["unstr_ok"] = True
        except BaseException as e:  # noqa
            r["unstr"] = None
            r["unstr_ok"] = False
            r["err"] = type(e).__name__
        res.append(r)
    json.dump({"results": res, "str_of": [str(x) for x in req.get("str_of", [])]}, sys.stdout)



if __name__ == "__main__":
    main()
