"""Real-code runner for the converter stream.
stdin: JSON {"cases":[{"target":name,"input":json,["ctor":spec]}...], "str_of":[json...]}
stdout: JSON {"results":[{"ok":bool,"dump":..,"unstr":..|null,"unstr_ok":bool,"err":str}], "str_of":[str...]}
Targets are names in lsprotocol.types.ALL_TYPES_MAP (classes or module-level alias objects)."""
import enum
import json
import sys

import attrs

from lsprotocol import converters
from lsprotocol import types as T

conv = converters.get_converter()


def dump(v):
    if v is None or isinstance(v, (bool, str)):
        if isinstance(v, enum.Enum):
            return {"$e": type(v).__name__, "v": v.value}
        return v
    if isinstance(v, enum.Enum):
        return {"$e": type(v).__name__, "v": v.value}
    if isinstance(v, int):
        return v
    if isinstance(v, float):
        return {"$f": list(v.as_integer_ratio())}
    if isinstance(v, list):
        return [dump(x) for x in v]
    if isinstance(v, tuple):
        return {"$t": [dump(x) for x in v]}
    if isinstance(v, dict):
        return {"$d": [[dump(k), dump(x)] for k, x in v.items()]}
    if attrs.has(type(v)):
        return {"$c": type(v).__name__, "f": {a.name: dump(getattr(v, a.name)) for a in attrs.fields(type(v))}}
    return {"$unknown": repr(v)}


def fl(j):
    """floats -> exact ratio marker (JSON text would round-trip anyway, this keeps the harness independent of it)"""
    if isinstance(j, enum.Enum) and isinstance(j, (str, int)):
        return j.value          # a str/int-based member left in place by cattrs' identity hook serialises as its value
    if isinstance(j, float):
        return {"$f": list(j.as_integer_ratio())}
    if isinstance(j, dict):
        return {k: fl(v) for k, v in j.items()}
    if isinstance(j, (list, tuple)):
        return [fl(x) for x in j]
    if isinstance(j, enum.Enum) and isinstance(j, (str, int)):
        return j.value          # a str/int-based member left in place by cattrs' identity hook serialises as its value
    if j is None or isinstance(j, (bool, int, str)):
        return j
    return {"$unjson": repr(j)}


def target(name):
    if name in T.ALL_TYPES_MAP:
        return T.ALL_TYPES_MAP[name]
    return getattr(T, name)


def main():
    req = json.load(sys.stdin)
    res = []
    for c in req["cases"]:
        try:
            t = target(c["target"])
            o = conv.structure(c["input"], t)
        except BaseException as e:  # noqa
            res.append({"ok": False, "err": type(e).__name__})
            continue
        r = {"ok": True, "dump": dump(o)}
        try:
            r["unstr"] = fl(conv.unstructure(o, t))
            r["unstr_ok"] = True
        except BaseException as e:  # noqa
            r["unstr"] = None
            r["unstr_ok"] = False
            r["err"] = type(e).__name__
        res.append(r)
    json.dump({"results": res, "str_of": [str(x) for x in req.get("str_of", [])]}, sys.stdout)


main()
