"""Shared infrastructure of the lsprotocol verification framework.

Everything here is plumbing: paths, subprocess environment, Coq compilation of
regenerated files, the violation protocol, known findings, evidence files.
"""
import contextlib
import fcntl
import hashlib
import json
import os
import re
import shutil
import subprocess
import sys
import tempfile
import time

VERIF = os.path.dirname(os.path.dirname(os.path.abspath(__file__)))
REPO = os.environ.get("VERIF_REPO", "/repo")
PY = os.environ.get("VERIF_PYTHON", "/venv/bin/python")
_ALT = os.path.realpath(REPO) != "/repo"
# a scratch worktree of /repo (mutation testing: VERIF_REPO=<dir>) gets its own build / evidence / replay directories
BUILD = os.path.join(VERIF, "build") if not _ALT else os.path.join(VERIF, "build-" + hashlib.sha1(os.path.realpath(REPO).encode()).hexdigest()[:8])
GEN = os.path.join(BUILD, "gen")
PROPS_SRC = os.path.join(VERIF, "coq", "props")
PROPS_OUT = os.path.join(BUILD, "props")
COQ = os.path.join(VERIF, "coq")
EVIDENCE = os.path.join(VERIF, "evidence") if not _ALT else os.path.join(BUILD, "evidence")
REPLAYS = os.path.join(VERIF, "replays") if not _ALT else os.path.join(BUILD, "replays")
KNOWN = os.path.join(VERIF, "known_findings.txt")
SCRATCH_ROOT = os.environ.get("VERIF_SCRATCH", "/var/tmp")
GUARD = "LSPROTOCOL_VERIF"

COQ_TIMEOUT = int(os.environ.get("VERIF_COQ_TIMEOUT", "600"))


def repo_env(extra=None):
    """Environment for every subprocess that imports code from /repo."""
    env = dict(os.environ)
    env["PYTHONPATH"] = os.pathsep.join([REPO, os.path.join(REPO, "packages", "python"), os.path.join(VERIF, "lib")])
    env["PYTHONHASHSEED"] = "0"
    env["PYTHONDONTWRITEBYTECODE"] = "1"
    env[GUARD] = "1"
    env.pop("PYTHONSTARTUP", None)
    if extra:
        env.update(extra)
    return env


def run_py(script, args=(), input_=None, timeout=1800, extra_env=None, cwd=None):
    """Run a helper script of /verif/lib with the repository's interpreter."""
    p = subprocess.run([PY, "-B", os.path.join(VERIF, "lib", script), *map(str, args)], input=input_, text=True,
                       capture_output=True, timeout=timeout, env=repo_env(extra_env), cwd=cwd or VERIF)
    return p


@contextlib.contextmanager
def build_lock(name="build"):
    os.makedirs(BUILD, exist_ok=True)
    f = open(os.path.join(BUILD, "." + name + ".lock"), "w")
    try:
        fcntl.flock(f, fcntl.LOCK_EX)
        yield
    finally:
        fcntl.flock(f, fcntl.LOCK_UN)
        f.close()


@contextlib.contextmanager
def scratch(prefix="verif-"):
    os.makedirs(SCRATCH_ROOT, exist_ok=True)
    d = tempfile.mkdtemp(prefix=prefix, dir=SCRATCH_ROOT)
    try:
        yield d
    finally:
        shutil.rmtree(d, ignore_errors=True)


def write_if_changed(path, text):
    os.makedirs(os.path.dirname(path), exist_ok=True)
    try:
        if open(path).read() == text:
            return False
    except FileNotFoundError:
        pass
    tmp = path + ".tmp%d" % os.getpid()
    with open(tmp, "w") as f:
        f.write(text)
    os.replace(tmp, path)
    return True


COQ_ARGS = ["-Q", COQ, "LSP", "-Q", GEN, "Gen", "-Q", PROPS_OUT, "Props"]


def ensure_theory():
    """The generic theory (coq/*.v) is compiled by setup_cmd; rebuild it if something is stale."""
    with open(os.path.join(COQ, ".theory.lock"), "w") as lf:
        fcntl.flock(lf, fcntl.LOCK_EX)
        p = subprocess.run(["make", "-C", COQ, "-j16", "-s"], capture_output=True, text=True, timeout=3600)
        if p.returncode != 0:
            raise RuntimeError("generic theory does not build:\n" + p.stdout[-3000:] + p.stderr[-3000:])


class CoqResult:
    def __init__(self, ok, out, err, wall):
        self.ok, self.out, self.err, self.wall = ok, out, err, wall

    @property
    def text(self):
        return self.out + self.err


def coqc(path, timeout=None):
    """Compile one .v file (full .vo build) unless an up-to-date .vo exists. Returns CoqResult."""
    t0 = time.time()
    vo = path[:-2] + ".vo"
    stamp = path[:-2] + ".stamp"
    h = dep_hash(path)
    if os.path.exists(vo) and os.path.exists(stamp):
        try:
            st = json.load(open(stamp))
            if st.get("hash") == h:
                return CoqResult(True, st.get("out", ""), "", 0.0)
        except Exception:
            pass
    for f in (vo, stamp):
        with contextlib.suppress(FileNotFoundError):
            os.remove(f)
    try:
        p = subprocess.run(["timeout", str(timeout or COQ_TIMEOUT), "coqc", "-q", *COQ_ARGS, path], capture_output=True, text=True)
        ok = p.returncode == 0
        out, err = p.stdout, p.stderr
    except Exception as e:  # pragma: no cover
        ok, out, err = False, "", repr(e)
    if ok:
        json.dump({"hash": h, "out": out}, open(stamp, "w"))
    return CoqResult(ok, out, err, time.time() - t0)


_REQ = re.compile(r"(?:From\s+(\w+)\s+)?Require\s+(?:Import\s+|Export\s+)?([^.]*(?:\.[A-Za-z_][^.\s]*)*)\.")


def _deps(path):
    """Direct dependencies among our own files (LSP.*, Gen.*, Props.*), by a light scan of Require lines."""
    txt = open(path).read()
    res = []
    for m in re.finditer(r"^\s*(?:From\s+(\w+)\s+)?Require\s+(?:Import|Export)?\s*([^\n]*?)\.\s*$", txt, re.M):
        frm, names = m.group(1), m.group(2).split()
        for n in names:
            parts = n.split(".")
            root = frm or parts[0]
            base = parts[-1]
            d = {"LSP": COQ, "Gen": GEN, "Props": PROPS_OUT}.get(root)
            if d and os.path.exists(os.path.join(d, base + ".v")):
                res.append(os.path.join(d, base + ".v"))
    return res


def dep_hash(path, seen=None):
    seen = seen if seen is not None else {}
    if path in seen:
        return seen[path]
    seen[path] = ""
    h = hashlib.sha256(open(path, "rb").read())
    for d in _deps(path):
        h.update(dep_hash(d, seen).encode())
    seen[path] = h.hexdigest()
    return seen[path]


def compile_chain(paths, timeout=None):
    """Compile files in order; stop at the first failure. Returns (ok, [(path, CoqResult)])."""
    res = []
    for p in paths:
        r = coqc(p, timeout)
        res.append((p, r))
        if not r.ok:
            return False, res
    return True, res


def stage_prop(name):
    """Copy coq/props/<name>.v to build/props (so .vo files never land in tracked directories)."""
    src = os.path.join(PROPS_SRC, name + ".v")
    dst = os.path.join(PROPS_OUT, name + ".v")
    write_if_changed(dst, open(src).read())
    return dst


def prove(chk, prop, gen_files, extra_props=()):
    """Stage coq/props/<prop>.v, compile gen files + it, record one obligation per theorem.
    Returns (ok, failed) where failed is a list of (what, name, detail)."""
    failed = []
    path = stage_prop(prop)
    for e in extra_props:
        stage_prop(e)
    ok, res = compile_chain(list(gen_files) + [os.path.join(PROPS_OUT, e + ".v") for e in extra_props] + [path])
    names = theorems_in(path)
    last_path, last = res[-1]
    out = last.text
    if ok:
        for n in names:
            chk.obligation(n, True)
        ax = parse_assumptions(out)
        chk.assumptions.append("Print Assumptions (%s.v): %d results 'Closed under the global context'; axioms listed: %s"
                               % (prop, ax.get("closed", 0), ax.get("axioms", "none")))
        return True, failed
    bad = None
    if last_path == path:
        m = re.search(r"\(in proof ([A-Za-z0-9_']+)\)", out)
        bad = m.group(1) if m else None
        if not bad:
            m = re.search(r"line (\d+)", out)
            if m:
                ln = int(m.group(1))
                txt = open(path).read().split("\n")
                for i in range(min(ln, len(txt)) - 1, -1, -1):
                    mm_ = re.match(r"\s*(?:Theorem|Lemma|Corollary|Example)\s+([A-Za-z0-9_']+)", txt[i])
                    if mm_:
                        bad = mm_.group(1)
                        break
        seen_bad = False
        for n in names:
            if n == bad:
                seen_bad = True
                chk.obligation(n, False, "coqc: " + out[-400:])
            else:
                chk.obligation(n, not seen_bad and bad is not None, "" if not seen_bad and bad is not None else "not reached")
        failed.append(("proof", bad or (prop + ".v"), out[-1500:]))
    else:
        for n in names:
            chk.obligation(n, False, "not reached: %s does not compile" % os.path.basename(last_path))
        extra_paths = {os.path.join(PROPS_OUT, e + ".v"): e for e in extra_props}
        if last_path in extra_paths:
            # a shared property file (e.g. Cover.v): name the theorem that no longer checks
            bad = None
            m = re.search(r"line (\d+)", out)
            if m:
                txt = open(last_path).read().split("\n")
                for i in range(min(int(m.group(1)), len(txt)) - 1, -1, -1):
                    mm_ = re.match(r"\s*(?:Theorem|Lemma|Corollary|Example)\s+([A-Za-z0-9_']+)", txt[i])
                    if mm_:
                        bad = mm_.group(1)
                        break
            for n in theorems_in(last_path):
                chk.obligation(extra_paths[last_path] + "." + n, n != bad and bad is not None and theorems_in(last_path).index(n) < theorems_in(last_path).index(bad), "" if n != bad else "coqc: " + out[-300:])
            failed.append(("proof", "%s.%s" % (extra_paths[last_path], bad or "v"), out[-1500:]))
        else:
            failed.append(("coqc", os.path.basename(last_path), out[-1500:]))
    return False, failed


def coq_eval(name, header, exprs, timeout=None):
    """Evaluate closed Coq expressions with vm_compute in a scratch file under build/props; returns the raw outputs."""
    f = os.path.join(PROPS_OUT, name + ".v")
    write_if_changed(f, header + "".join("Eval vm_compute in (%s).\n" % e for e in exprs))
    r = coqc(f, timeout)
    if not r.ok:
        raise RuntimeError("coq_eval %s failed: %s" % (name, r.text[-1500:]))
    return [x.strip() for x in re.split(r"(?m)^\s*= ", r.out)[1:]]


def theorems_in(path):
    txt = open(path).read()
    return re.findall(r"^\s*(?:Theorem|Lemma|Corollary|Example)\s+([A-Za-z0-9_']+)", txt, re.M)


def parse_assumptions(coq_output):
    """Split the output of a props file into {theorem: assumptions text} using our 'Print Assumptions' lines."""
    res = {}
    blocks = re.split(r"(?m)^(?=Closed under the global context|Axioms:)", coq_output)
    for b in blocks:
        b = b.strip()
        if b.startswith("Closed under"):
            res.setdefault("closed", 0)
            res["closed"] += 1
        elif b.startswith("Axioms:"):
            res.setdefault("axioms", []).append(b)
    return res


# ----------------------------------------------------------------------------------------------
# known findings

def known_findings(prop):
    """Returns (open_entries, fixed_entries) for a property; each open entry is a dict with key, witness, text."""
    opens, fixed = [], []
    if not os.path.exists(KNOWN):
        return opens, fixed
    for line in open(KNOWN):
        line = line.strip()
        if not line or line.startswith("#"):
            continue
        m = re.match(r"open:\s+property=(\S+)\s+key=(\S+)\s+witness=(\S+)\s+(.*)$", line)
        if m and m.group(1) == prop:
            opens.append({"key": m.group(2), "witness": m.group(3), "text": m.group(4)})
            continue
        m = re.match(r"fixed:\s+property=(\S+)\s+(\S+)\s+(.*)$", line)
        if m and m.group(1) == prop:
            fixed.append({"commit": m.group(2), "text": m.group(3)})
    return opens, fixed


# ----------------------------------------------------------------------------------------------
# result / evidence

class Check:
    """Accumulates what one run of one property's check covered, and turns it into evidence + exit code."""

    def __init__(self, prop, tier, seed, level="proof"):
        self.prop, self.tier, self.seed, self.level = prop, tier, seed, level
        self.t0 = time.time()
        self.obligations = []      # (name, discharged:bool, note)
        self.violations = []       # (replay_path, no_input:bool)
        self.known_printed = []
        self.cov = {"samples": []}
        self.assumptions = []
        self.trusted = []
        self.evaluations = 0
        self.distinct = set()
        self.checker_cmd = ""
        self.rule = ""
        self.extra = {}
        self.exhaustive = None

    def obligation(self, name, ok, note=""):
        self.obligations.append((name, bool(ok), note))

    def sample(self, s, limit=6):
        if len(self.cov["samples"]) < limit:
            self.cov["samples"].append(s)

    def count(self, case_key, nontrivial=True):
        self.evaluations += 1
        if nontrivial:
            self.distinct.add(hashlib.sha1(repr(case_key).encode()).hexdigest())

    def violation(self, replay_obj, no_input=False, tag=None):
        os.makedirs(REPLAYS, exist_ok=True)
        cs = sys.modules.get("conv_stream")
        if cs is not None and getattr(cs, "HISTORY_DEVIANTS", None):
            replay_obj = dict(replay_obj, converter_history={
                "cfg": cs.HISTORY_DEVIANTS[0][0],
                "meaning": "some results of this run were observed on a converter with another past or configuration (lib/conv_cfg.py): "
                           "'after-foreign' = a DEFAULT get_converter() created after a customised user converter (forbid_extra_keys, "
                           "omit_if_default, own enum / Position hooks) and same-named application classes went through the package's hooks in the "
                           "same process; 'user-omit' = get_converter(cattrs.Converter(omit_if_default=True)); 'nodetail' = "
                           "get_converter(cattrs.Converter(detailed_validation=False)).  The plain default converter gives a different result on these inputs",
                "affected_inputs": [{"cfg": g, "target": t, "input": i} for g, t, i in cs.HISTORY_DEVIANTS[:5]],
                "how_to_replay": "./check <id> --replay <this file> re-runs the input under the recorded configuration (VERIF_CONV_CFG=<cfg>)"})
        body = json.dumps(replay_obj, indent=1, sort_keys=True, default=str)
        h = hashlib.sha1(body.encode()).hexdigest()[:10]
        path = os.path.join(REPLAYS, "%s-%s%s.json" % (self.prop, (tag + "-") if tag else "", h))
        with open(path, "w") as f:
            f.write(body + "\n")
        self.violations.append((path, no_input))
        print("VIOLATION property=%s replay=%s%s" % (self.prop, path, " no-failing-input-found" if no_input else ""), flush=True)
        return path

    def known(self, text):
        self.known_printed.append(text)
        print("KNOWN-FINDING: property=%s %s" % (self.prop, text), flush=True)

    def finish(self, rule="", extra=None, exhaustive=None):
        rule = self.rule or rule
        extra = dict(self.extra, **(extra or {}))
        exhaustive = self.exhaustive if exhaustive is None else exhaustive
        os.makedirs(EVIDENCE, exist_ok=True)
        cov = dict(self.cov)
        cov["obligations"] = len(self.obligations)
        cov["discharged"] = sum(1 for o in self.obligations if o[1])
        cov["obligation_list"] = [{"name": n, "discharged": ok, "note": note} for n, ok, note in self.obligations]
        cov["checker_cmd"] = self.checker_cmd or ("coqc -q " + " ".join(COQ_ARGS) + " <gen/*.v> <props/%s.v>" % self.prop)
        cov["trusted_base"] = self.trusted
        cov["evaluations"] = self.evaluations
        cov["distinct_nontrivial"] = len(self.distinct)
        cov["rule"] = rule
        if exhaustive is not None:
            cov["exhaustive"] = exhaustive
        if extra:
            cov.update(extra)
        if not cov["samples"]:
            cov["samples"] = [o[0] for o in self.obligations[:5]]
        ev = {"property_id": self.prop, "tier": self.tier, "seed": self.seed, "level": self.level, "coverage": cov,
              "assumptions": self.assumptions, "wall_s": round(time.time() - self.t0, 2),
              "violations": len(self.violations), "known_findings_reported": self.known_printed}
        with open(os.path.join(EVIDENCE, self.prop + ".json"), "w") as f:
            json.dump(ev, f, indent=1, default=str)
            f.write("\n")
        return 1 if self.violations else 0


STD_TRUSTED = [
    "Coq 8.16.1 kernel incl. its vm_compute machine (no native_compute)",
    "CPython 3.12 / attrs 24.2 / cattrs 24.1.2 as installed in /venv execute the repository code for the translators and the correspondence runs",
]


def q(s):
    """Coq string literal."""
    return '"' + s.replace('"', '""') + '"'


def coq_z(n):
    return "(%d)%%Z" % n


def sh(cmd, **kw):
    return subprocess.run(cmd, shell=True, capture_output=True, text=True, **kw)
