"""strictpy — strict metamodel validity of a JSON value (independent Python reference; no repository import)."""
I32 = (-2**31, 2**31 - 1)


def isint(j):
    return isinstance(j, int) and not isinstance(j, bool)


class Strict:
    def __init__(self, mmv):
        self.mmv = mmv
        self.OPEN = {e["name"] for e in mmv.doc["enumerations"] if e.get("supportsCustomValues")} | {"CompletionItemKind"}

    # strict validity (independent Python reference), used only to pick "an alternative for which the value is valid"
    def props_ok(self, ps, j):
        if not isinstance(j, dict):
            return False
        if not ps:
            return True
        if any(k not in ps for k in j):
            return False
        return all((self.valid(p["type"], j[n]) if n in j else bool(p.get("optional"))) for n, p in ps.items())

    def valid(self, t, j):
        k = t["kind"]
        m = self.mmv
        if k == "base":
            n = t["name"]
            if n in ("string", "DocumentUri", "URI", "RegExp"):
                return isinstance(j, str)
            if n == "integer":
                return isint(j) and I32[0] <= j <= I32[1]
            if n == "uinteger":
                return isint(j) and 0 <= j <= I32[1]
            if n == "decimal":
                return isinstance(j, (int, float)) and not isinstance(j, bool)
            if n == "boolean":
                return isinstance(j, bool)
            if n == "null":
                return j is None
        if k == "reference":
            n = t["name"]
            if n == "LSPAny":
                return True
            if n == "LSPObject":
                return isinstance(j, dict)
            if n == "LSPArray":
                return isinstance(j, list)
            if n in m.S:
                return self.props_ok(m.flat(n), j)
            if n in m.A:
                return self.valid(m.A[n]["type"], j)
            if n in m.E:
                e = m.E[n]
                if any(type(v["value"]) is type(j) and v["value"] == j for v in e["values"]):
                    return True
                return n in self.OPEN and (isinstance(j, str) if e["type"]["name"] == "string" else isint(j))
        if k == "array":
            return isinstance(j, list) and all(self.valid(t["element"], x) for x in j)
        if k == "map":
            return isinstance(j, dict) and all(self.valid(t["value"], v) for v in j.values())
        if k == "or":
            return any(self.valid(i, j) for i in t["items"])
        if k == "tuple":
            return isinstance(j, list) and len(j) == len(t["items"]) and all(self.valid(a, b) for a, b in zip(t["items"], j))
        if k == "literal":
            return self.props_ok({p["name"]: p for p in t["value"]["properties"]}, j)
        if k == "stringLiteral":
            return j == t["value"]
        if k == "and":
            ps = {}
            for i in t["items"]:
                for kk, vv in m.flat(i["name"]).items():
                    ps.setdefault(kk, vv)
            return self.props_ok(ps, j)
        return False

