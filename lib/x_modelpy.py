"""x_modelpy — translate generator/model.py to Coq data for LSP.Loader (property C18): Gen/ModelPyData.v.

Per attrs class: the field list (name, converter, default, validator) and the __eq__ body (isinstance guard + the compared
attributes); the converter factories (partial_apply, list_converter), the kind -> class dispatch functions with the kinds
they know, the validator functions, and create_lsp_model (root class + which list fields are extended, in order).
Grammar of the helpers (recognised by their bodies, names are free):
  partial application   def P(f): def apply(x): <if isinstance(x, dict): return f(**x)> <else:> return x ; return apply
                        def P(f): return lambda x: f(**x) if isinstance(x, dict) else x
  list converter        def L(f): [def apply ... | apply = P(f)] ; def conv(x): return list(map(apply, x)) | [apply(e) for e in x]
                                  | [P(f)(e) for e in x] | [f(**e) if isinstance(e, dict) else e for e in x] ; return conv   (or return lambda x: ...)
  keyword dispatch      def D(**info): [if info is None: return None]  [T = {"k": Class, ...}]  [key = info["kind"]]  c = T.get(info["kind"] | key)
                                  if c / c is not None: return c(**info) [else:] raise ..   |   if not c / c is None: raise .. ; return c(**info)
                                  | c = T[info["kind"] | key] ; return c(**info)   |   return T[info["kind"] | key](**info)
                        T is the local dict literal or a module-level CLASS TABLE (see "class tables" below)
  positional dispatch   def D(info): { t = info["kind"] == "k" | c = <class expr> | if <test>: return <class expr>(**info) } ; return <class expr>(**info)
                        <test> := info["kind"] == "k" | t      <class expr> := Class | c | <class expr> if <test> else <class expr>
                        read as the function  value of info["kind"] -> class  it computes (see "decision trees" below)
  no-op validator       def V(instance, attribute, value): return <constant> | isinstance(value, Class | (Class, ...) | tuple(T.values()))
create_lsp_model and the __eq__ methods are normalised first (see "constant tables, unrolled" below, with the soundness argument):
  NAME = ("a", ...) at module level, bound once  ->  `for x in NAME` unrolled, all(E for x in NAME) -> and-chain, getattr(o, "a") -> o.a
A `converter=` that is none of: P(target), L(target), lambda x: C(**x), the uuid lambda, a positional dispatch function - is rejected
(a new converter function would change what loading does; the search streams of the check then look for the input).
Fail-closed: anything outside the grammar aborts (exit 3, "REJECT: why").  The AST is cross-checked against the imported
module (attrs.fields per class, origin of each __eq__).
usage: x_modelpy.py <out.v> [<info.json>]
"""
import ast
import json
import os
import sys

from vcommon import REPO, q, write_if_changed

PTYPES = {"str": "TyStr", "bool": "TyBool", "int": "TyInt", "list": "TyList"}


class Reject(Exception):
    pass


def U(e):
    return ast.unparse(e)


def strip_doc(body):
    return [s for s in body if not (isinstance(s, ast.Expr) and isinstance(s.value, ast.Constant) and isinstance(s.value.value, str))]


def is_name(e, n=None):
    return isinstance(e, ast.Name) and (n is None or e.id == n)


def is_call_starstar(e, arg):
    """F(**arg) -> F name or None"""
    if (isinstance(e, ast.Call) and is_name(e.func) and not e.args and len(e.keywords) == 1 and e.keywords[0].arg is None
            and is_name(e.keywords[0].value, arg)):
        return e.func.id
    return None


# ------------------------------------------------------------------------------------------------ constant tables, unrolled
# Grammar extension (create_lsp_model and the __eq__ methods are NORMALISED before the grammar above is applied):
#   NAME = ("a", "b", ...)  |  ["a", "b", ...]      at module level, string literals only                      (a constant table)
#   for x in NAME: <body>                  ->  <body>[x := "a"] ; <body>[x := "b"] ; ...
#   all(E for x in NAME)                   ->  E[x := "a"] and E[x := "b"] and ...        (True when NAME is empty)
#   tuple(E for x in NAME), [E for x in NAME]  ->  (E[x := "a"], ...), [E[x := "a"], ...]
#   getattr(o, "ident")                    ->  o.ident
# Soundness (each rewrite yields a function with the same behaviour - the same attribute reads, comparisons and calls in the same
# order, the same exceptions, results equal up to bool() where the grammar downstream only admits `==` comparisons, which are bools):
#  * NAME denotes that literal whenever the function runs: it is bound EXACTLY ONCE in the whole module (every binding construct
#    is counted: assignment, del, augmented assignment, for/with/except/import targets, def/class names, parameters, comprehension
#    targets, global/nonlocal, match captures; a star-import disables the extension), so no function can shadow or re-bind it;
#    a tuple of strings is immutable; a list is accepted only if EVERY read of NAME in the module is the iterable of a for /
#    comprehension (it is never passed on, so nothing can mutate it).  Re-binding from outside the module is covered like every
#    other fact read from the AST: crosscheck() compares the imported module's value of NAME with the literal.
#  * `for x in NAME` evaluates NAME once and runs the body once per element, in order, with x bound to it: the unrolled copies
#    do the same provided the body does not bind x, has no break/continue and the loop no else, x is not read under a
#    lambda / def / class / generator expression (late binding), and x is not used outside the loop (after the loop it would
#    still hold the last element).  Anything else is left alone and then REJECTED by the grammar downstream.
#  * `all(g)` consumes the generator at once, in order, stopping at the first falsy element: that is the short-circuit `and` of
#    the instances (E must not contain a lambda / generator / walrus / yield / await, and must not bind x).  A LIST comprehension
#    inside all(...) evaluates every element before testing any: it becomes all([..]), which the __eq__ grammar rejects.
#  * getattr(o, "ident") with two arguments and a literal identifier IS o.ident (same lookup, same AttributeError), except for
#    the name-mangled `__private` spelling, which is not rewritten.  getattr / all / tuple must not be bound anywhere in the
#    module (checked on the AST, and on the imported module by crosscheck()).
LAZY = (ast.Lambda, ast.FunctionDef, ast.AsyncFunctionDef, ast.ClassDef, ast.GeneratorExp)


def bound_names(node):
    """every identifier bound by some construct under `node`, with multiplicity"""
    out = []
    for n in ast.walk(node):
        if isinstance(n, ast.Name) and isinstance(n.ctx, (ast.Store, ast.Del)):
            out.append(n.id)
        elif isinstance(n, ast.arg):
            out.append(n.arg)
        elif isinstance(n, ast.alias):
            out.append((n.asname or n.name).split(".")[0])
        elif isinstance(n, (ast.FunctionDef, ast.AsyncFunctionDef, ast.ClassDef)):
            out.append(n.name)
        elif isinstance(n, ast.ExceptHandler) and n.name:
            out.append(n.name)
        elif isinstance(n, (ast.Global, ast.Nonlocal)):
            out += n.names
        elif isinstance(n, (ast.MatchAs, ast.MatchStar)) and n.name:
            out.append(n.name)
        elif isinstance(n, ast.MatchMapping) and n.rest:
            out.append(n.rest)
    return out


def module_constants(tree):
    """-> ({NAME: ("tuple" | "list", [str, ...])}, all bound names of the module)"""
    allb = bound_names(tree)
    if "*" in allb:
        return {}, allb
    iter_nodes = set()
    for n in ast.walk(tree):
        if isinstance(n, (ast.For, ast.AsyncFor, ast.comprehension)):
            iter_nodes.add(id(n.iter))
    consts = {}
    for n in tree.body:
        if isinstance(n, ast.Assign) and len(n.targets) == 1:
            tgt, val = n.targets[0], n.value
        elif isinstance(n, ast.AnnAssign) and n.value is not None:
            tgt, val = n.target, n.value
        else:
            continue
        if not (is_name(tgt) and isinstance(val, (ast.Tuple, ast.List)) and all(isinstance(x, ast.Constant) and isinstance(x.value, str) for x in val.elts)):
            continue
        if allb.count(tgt.id) != 1:
            continue
        if isinstance(val, ast.List):
            reads = [x for x in ast.walk(tree) if isinstance(x, ast.Name) and x.id == tgt.id and isinstance(x.ctx, ast.Load)]
            if not all(id(x) in iter_nodes for x in reads):
                continue
        consts[tgt.id] = ("tuple" if isinstance(val, ast.Tuple) else "list", [x.value for x in val.elts])
    return consts, allb


class _SubstConst(ast.NodeTransformer):
    def __init__(self, name, value):
        self.name, self.value = name, value

    def visit_Name(self, node):
        if node.id == self.name and isinstance(node.ctx, ast.Load):
            return ast.copy_location(ast.Constant(value=self.value), node)
        return node


def _reads(nodes, x):
    return sum(1 for st in nodes for n in ast.walk(st) if isinstance(n, ast.Name) and n.id == x)


def _escapes(fn, x):
    """x occurs in fn somewhere else than as the target / in the body of a `for x in ..` or inside a comprehension binding x"""
    covered = set()
    for n in ast.walk(fn):
        if isinstance(n, ast.For) and is_name(n.target, x):
            covered.add(id(n.target))
            covered |= {id(m) for st in n.body for m in ast.walk(st)}
        elif isinstance(n, (ast.ListComp, ast.SetComp, ast.GeneratorExp, ast.DictComp)) and any(is_name(g.target, x) for g in n.generators):
            first = {id(m) for m in ast.walk(n.generators[0].iter)}       # evaluated in the enclosing scope
            covered |= {id(m) for m in ast.walk(n)} - first
    return any(isinstance(n, ast.Name) and n.id == x and id(n) not in covered for n in ast.walk(fn))


def _lazy_read(nodes, x):
    return any(isinstance(n, LAZY) and _reads([n], x) for st in nodes for n in ast.walk(st))


class Normalise(ast.NodeTransformer):
    """the rewrites listed above, applied to one function; records which constants / builtins it relied on"""

    def __init__(self, fn, consts, allb, used):
        self.fn, self.consts, self.allb, self.used = fn, consts, allb, used

    def builtin(self, name):
        if name in self.allb:
            return False
        self.used["builtins"].add(name)
        return True

    def instances(self, nodes, x, cname):
        import copy as _copy
        self.used["constants"].add(cname)
        out = []
        for c in self.consts[cname][1]:
            out.append([_SubstConst(x, c).visit(_copy.deepcopy(n)) for n in nodes])
        return out

    def visit_For(self, node):
        if not (is_name(node.iter) and node.iter.id in self.consts):
            return self.generic_visit(node)
        why = None
        if node.orelse or not is_name(node.target):
            why = "else clause / target is not a name"
        else:
            x = node.target.id
            if any(isinstance(n, (ast.Break, ast.Continue)) for st in node.body for n in ast.walk(st)):
                why = "break / continue"
            elif x in [b for st in node.body for b in bound_names(st)]:
                why = "the body binds the loop variable"
            elif _lazy_read(node.body, x):
                why = "the loop variable is read under a lambda / def / generator expression"
            elif _escapes(self.fn, x) or x in [a.arg for a in ast.walk(self.fn.args) if isinstance(a, ast.arg)]:
                why = "the loop variable is used outside the loops / comprehensions that bind it"
        if why:
            raise Reject("%s: loop over the constant %s cannot be unrolled (%s): %s" % (self.fn.name, node.iter.id, why, U(node)[:80]))
        out = []
        for inst in self.instances(node.body, x, node.iter.id):
            for st in inst:
                r = self.visit(st)
                out += r if isinstance(r, list) else [r]
        return out or [ast.copy_location(ast.Pass(), node)]

    def comp_instances(self, comp):
        """[elt instances] for a generator expression / list comprehension over a constant table, or None"""
        if not (len(comp.generators) == 1 and not comp.generators[0].ifs and not comp.generators[0].is_async and is_name(comp.generators[0].target)
                and is_name(comp.generators[0].iter) and comp.generators[0].iter.id in self.consts):
            return None
        x, elt = comp.generators[0].target.id, comp.elt
        if (any(isinstance(n, LAZY + (ast.NamedExpr, ast.Yield, ast.YieldFrom, ast.Await)) for n in ast.walk(elt)) or x in bound_names(elt)
                or x in self.consts):
            return None
        return [self.visit(i[0]) for i in self.instances([elt], x, comp.generators[0].iter.id)]

    def visit_ListComp(self, node):
        vals = self.comp_instances(node)
        if vals is None:
            return self.generic_visit(node)
        return ast.copy_location(ast.List(elts=vals, ctx=ast.Load()), node)

    def visit_Call(self, node):
        if is_name(node.func) and node.func.id in ("all", "tuple") and len(node.args) == 1 and not node.keywords and isinstance(node.args[0], ast.GeneratorExp):
            vals = self.comp_instances(node.args[0]) if node.func.id not in self.allb else None
            if vals is not None and self.builtin(node.func.id):
                if node.func.id == "tuple":
                    return ast.copy_location(ast.Tuple(elts=vals, ctx=ast.Load()), node)
                if not vals:
                    return ast.copy_location(ast.Constant(value=True), node)
                return vals[0] if len(vals) == 1 else ast.copy_location(ast.BoolOp(op=ast.And(), values=vals), node)
        node = self.generic_visit(node)
        if (is_name(node.func, "getattr") and len(node.args) == 2 and not node.keywords and isinstance(node.args[1], ast.Constant)
                and isinstance(node.args[1].value, str) and node.args[1].value.isidentifier() and not node.args[1].value.startswith("__")
                and not __import__("keyword").iskeyword(node.args[1].value) and self.builtin("getattr")):
            return ast.copy_location(ast.Attribute(value=node.args[0], attr=node.args[1].value, ctx=ast.Load()), node)
        return node


def normalise(fn, consts, allb, used):
    """the function with loops over constant tables unrolled and constant getattr calls turned into attribute reads"""
    import copy as _copy
    if not any(isinstance(n, ast.Name) and (n.id in consts or n.id == "getattr") for n in ast.walk(fn)):
        return fn
    new = _copy.deepcopy(fn)
    nz = Normalise(new, consts, allb, used)
    body = []
    for st in new.body:
        r = nz.visit(st)
        body += r if isinstance(r, list) else [r]
    new.body = body
    return ast.fix_missing_locations(new)


# ------------------------------------------------------------------------------------------------ class tables
# Grammar extension:  NAME = {"k1": Class1, "k2": Class2, ...}   (or NAME: <annotation> = {...})   at module level    (a class table)
# read inside functions as      NAME[e]        NAME.get(e)        tuple(NAME.values())
# stands for the same dict literal written at the place of the read (the form `lut = {...}` local to the dispatch function that the
# grammar had from the start), and tuple(NAME.values()) for the tuple (Class1, Class2, ...).
# Soundness - NAME denotes, at every read, a dict with exactly these keys bound to exactly these class objects, in this order:
#  * it is bound EXACTLY ONCE in the whole module (bound_names: every binding construct counts, parameters and locals of every function
#    included; a star-import disables the extension), so no function shadows or re-binds it;
#  * a dict is mutable, so EVERY occurrence of NAME in the module other than its binding must be one of the three read forms above
#    (a subscript in Load context - not a store or del -, a one-argument .get call, a no-argument .values() call that is the sole argument of
#    tuple(...)): the dict object is never stored, passed on, iterated lazily or updated, so nothing in the module can change it, and
#    tuple(...) copies the view at once;
#  * every read sits inside a function body, and the module-level grammar of translate() admits no call of a module function while the
#    module body runs (only imports, classes whose bodies are attrs.field(...) declarations, defs and upper-case constants without calls;
#    the converter factories called inside attrs.field(...) build closures and do not call their argument), so a read happens only after the
#    module body - and with it the binding of NAME - is complete, wherever the table is written relative to the functions that use it;
#  * the values are names of classes of this module whose `class` statement PRECEDES the table (otherwise the import raises NameError), and a
#    class name is bound once (translate() rejects a class defined twice; bound_names must count it once), so the table holds the objects
#    that `Class1`, ... denote when a function runs - the decorated classes, since `@attrs.define class C` binds C after decoration;
#  * keys are distinct string literals (a duplicate is rejected, as for the local literal).
#  Re-binding or mutation from OUTSIDE the module is covered like every other fact read from the AST: crosscheck() compares the imported
#  module's value (type dict, key order, `is` identity of each value with the module attribute of that name, which must be a class of
#  this module) with the literal; `tuple` must not be bound in the module (checked on the AST and on the imported module).
# A read in any other form leaves NAME unrecognised: the function that uses it is then REJECTED by the grammar downstream.
def class_tables(tree, classes, allb):
    """-> {NAME: [(key, class name), ...]} for the module-level class tables that satisfy the conditions above"""
    if "*" in allb:
        return {}
    parent = {}
    for n in ast.walk(tree):
        for c in ast.iter_child_nodes(n):
            parent[id(c)] = n
    class_pos = {n.name: i for i, n in enumerate(tree.body) if isinstance(n, ast.ClassDef)}
    out = {}
    for pos, n in enumerate(tree.body):
        if isinstance(n, ast.Assign) and len(n.targets) == 1:
            tgt, val = n.targets[0], n.value
        elif isinstance(n, ast.AnnAssign) and n.value is not None:
            tgt, val = n.target, n.value
        else:
            continue
        if not (is_name(tgt) and isinstance(val, ast.Dict) and val.keys and allb.count(tgt.id) == 1):
            continue
        rows = []
        for k, v in zip(val.keys, val.values):
            if not (isinstance(k, ast.Constant) and isinstance(k.value, str) and is_name(v) and v.id in classes and allb.count(v.id) == 1
                    and class_pos[v.id] < pos):
                rows = None
                break
            rows.append((k.value, v.id))
        if rows is None or len({k for k, _ in rows}) != len(rows):
            continue
        ok = True
        for x in ast.walk(tree):
            if not (isinstance(x, ast.Name) and x.id == tgt.id) or x is tgt:
                continue
            p = parent.get(id(x))
            pp = parent.get(id(p)) if p is not None else None
            ppp = parent.get(id(pp)) if pp is not None else None
            form = None
            if isinstance(x.ctx, ast.Load):
                if isinstance(p, ast.Subscript) and p.value is x and isinstance(p.ctx, ast.Load):
                    form = "index"
                elif (isinstance(p, ast.Attribute) and p.attr == "get" and isinstance(pp, ast.Call) and pp.func is p and len(pp.args) == 1
                      and not pp.keywords and not isinstance(pp.args[0], ast.Starred)):
                    form = "get"
                elif (isinstance(p, ast.Attribute) and p.attr == "values" and isinstance(pp, ast.Call) and pp.func is p and not pp.args and not pp.keywords
                      and isinstance(ppp, ast.Call) and is_name(ppp.func, "tuple") and ppp.args == [pp] and not ppp.keywords and "tuple" not in allb):
                    form = "values"
            inside, a = False, x
            while id(a) in parent:        # in the BODY of a def (a default value or a decorator is evaluated while the module body runs)
                a, child = parent[id(a)], a
                if isinstance(a, (ast.FunctionDef, ast.AsyncFunctionDef)) and any(child is st for st in a.body):
                    inside = True
            if form is None or not inside:
                ok = False
                break
        if ok:
            out[tgt.id] = rows
    return out


def table_values(e, ctabs, used):
    """tuple(NAME.values()) for a class table NAME -> NAME, else None"""
    if (isinstance(e, ast.Call) and is_name(e.func, "tuple") and len(e.args) == 1 and not e.keywords and isinstance(e.args[0], ast.Call)
            and isinstance(e.args[0].func, ast.Attribute) and e.args[0].func.attr == "values" and not e.args[0].args and not e.args[0].keywords
            and is_name(e.args[0].func.value) and e.args[0].func.value.id in ctabs):
        used["class_tables"].add(e.args[0].func.value.id)
        used["builtins"].add("tuple")
        return e.args[0].func.value.id
    return None


# ------------------------------------------------------------------------------------------------ decision trees (positional dispatch)
# Grammar extension: the body of a one-parameter dispatch function D(info) is a block
#     t = info[KEY] == "k"            a test bound to a local            c = <class expr>       a class expression bound to a local
#     if <test>: return <class expr>(**info)   [else: <block>]           return <class expr>(**info)
#     <test> := info[KEY] == "k" | t           <class expr> := Class | c | <class expr> if <test> else <class expr>
# (before: only `if info[KEY] == "k": return C(**info)` statements and a final `return Default(**info)`).  It is executed SYMBOLICALLY to a
# decision tree (test, subtree-if-true, subtree-if-false) with class leaves, and the tree is turned into the table the Coq model takes: for
# each constant k that occurs, the class the tree yields when info[KEY] == k, and the class it yields for any other value (the default).
# Soundness:
#  * locals: a bound name is assigned exactly once in the function (bound_names), is not the parameter, a class or a module function, and is
#    only read after its assignment in straight-line order (a read of a name that is not bound yet is rejected), so substituting the bound
#    expression for the name is the function's meaning provided the expression is pure - it is: a class name is a load of a module global that
#    is bound once, a conditional expression evaluates its test and then ONE operand, and a test is `info[KEY] == "k"`;
#  * tests: every test of the function reads the SAME key.  If info has no such key, the first test that is evaluated raises KeyError; at
#    least one test is evaluated on every path before any class is called (the root of the tree must be a test, and bound tests are evaluated
#    even earlier), and nothing but pure expressions precedes it: the function raises KeyError and has done nothing else, which is what the
#    model's dispatch does on a missing key.  If the key is present every test is total (a dict subscript of a present key and `==` against
#    a str constant; a bound test that a path does not use was evaluated without effect), so eager evaluation of bound tests and the lazy
#    evaluation of the tree agree, and the function calls exactly one class, once, with **info: the leaf the tree selects;
#  * a name bound inside a branch of an `if` is visible in that branch only (the branch always returns, so the code after the `if` runs
#    only when the branch was not entered); a block that can fall off its end (implicit `return None`) is rejected.
def decision_tree(fn, info, classes, funs):
    """-> (key, cases, default) of the one-parameter function fn, whose returns all have the form <class expr>(**info)"""
    local = bound_names(fn)
    keys, consts = [], []

    def test_of(e, env):
        if (isinstance(e, ast.Compare) and len(e.ops) == 1 and isinstance(e.ops[0], ast.Eq) and isinstance(e.left, ast.Subscript)
                and is_name(e.left.value, info) and isinstance(e.left.slice, ast.Constant) and isinstance(e.left.slice.value, str)
                and isinstance(e.comparators[0], ast.Constant) and isinstance(e.comparators[0].value, str)):
            keys.append(e.left.slice.value)
            if e.comparators[0].value not in consts:
                consts.append(e.comparators[0].value)
            return e.comparators[0].value
        if is_name(e) and env.get(e.id, (None,))[0] == "test":
            return env[e.id][1]
        return None

    def tree_of(e, env):
        if is_name(e) and e.id in classes and e.id not in local:
            return ("leaf", e.id)
        if is_name(e) and env.get(e.id, (None,))[0] == "tree":
            return env[e.id][1]
        if isinstance(e, ast.IfExp):
            t, a, b = test_of(e.test, env), tree_of(e.body, env), tree_of(e.orelse, env)
            if t is not None and a and b:
                return ("if", t, a, b)
        return None

    def ret_tree(st, env):
        v = st.value
        if (isinstance(v, ast.Call) and not v.args and len(v.keywords) == 1 and v.keywords[0].arg is None and is_name(v.keywords[0].value, info)):
            return tree_of(v.func, env)
        return None

    def block(stmts, env):
        if not stmts:
            raise Reject("dispatch function %s can fall off its end" % fn.name)
        st, rest = stmts[0], stmts[1:]
        if isinstance(st, ast.Return):
            t = ret_tree(st, env)
            if t is None or rest:
                raise Reject("dispatch function %s outside grammar: %s" % (fn.name, U(st)))
            return t
        if isinstance(st, ast.Assign) and len(st.targets) == 1 and is_name(st.targets[0]):
            x = st.targets[0].id
            if x == info or x in classes or x in funs or x in env or local.count(x) != 1:
                raise Reject("dispatch function %s: local %s is not a single-assignment name" % (fn.name, x))
            t = test_of(st.value, env)
            if t is not None:
                return block(rest, dict(env, **{x: ("test", t)}))
            c = tree_of(st.value, env)
            if c is not None:
                return block(rest, dict(env, **{x: ("tree", c)}))
            raise Reject("dispatch function %s outside grammar: %s" % (fn.name, U(st)))
        if isinstance(st, ast.If):
            t = test_of(st.test, env)
            if t is None or (st.orelse and rest):
                raise Reject("dispatch function %s outside grammar: %s" % (fn.name, U(st)[:100]))
            return ("if", t, block(st.body, env), block(st.orelse or rest, env))
        raise Reject("dispatch function %s outside grammar: %s" % (fn.name, U(st)[:100]))

    tree = block(strip_doc(fn.body), {})
    if not keys or tree[0] != "if":
        raise Reject("function %s: no dispatch key" % fn.name)
    if len(set(keys)) != 1:
        raise Reject("dispatch function %s tests more than one key: %s" % (fn.name, sorted(set(keys))))

    def value(t, k):
        while t[0] == "if":
            t = t[2] if t[1] == k else t[3]
        return t[1]
    dflt = value(tree, None)
    # one entry per constant, in the order the tests are written (keys are distinct, so the order does not matter to the model's look-up)
    cases = [(k, value(tree, k)) for k in consts]
    return keys[0], cases, dflt


def flatten_and(e):
    """(a and b) and c  ==  a and b and c  (same evaluation order, same value)"""
    if isinstance(e, ast.BoolOp) and isinstance(e.op, ast.And):
        return [y for x in e.values for y in flatten_and(x)]
    return [e]


def match_apply(fn, outer_arg):
    """def apply(x): if isinstance(x, dict): return callable(**x) else: return x"""
    if not (isinstance(fn, ast.FunctionDef) and len(fn.args.args) == 1 and not fn.decorator_list):
        return False
    x = fn.args.args[0].arg
    body = strip_doc(fn.body)
    if len(body) == 2 and isinstance(body[0], ast.If) and not body[0].orelse and isinstance(body[1], ast.Return):
        iff, els = body[0], [body[1]]
    elif len(body) == 1 and isinstance(body[0], ast.If):
        iff, els = body[0], body[0].orelse
    else:
        return False
    t = iff.test
    ok = (isinstance(t, ast.Call) and is_name(t.func, "isinstance") and len(t.args) == 2 and is_name(t.args[0], x) and is_name(t.args[1], "dict")
          and len(iff.body) == 1 and isinstance(iff.body[0], ast.Return) and is_call_starstar(iff.body[0].value, x) == outer_arg
          and len(els) == 1 and isinstance(els[0], ast.Return) and is_name(els[0].value, x))
    return ok


def is_partial_of(e, c, funs):
    """P(c) where P is a function already classified as factory-partial -> True"""
    return (isinstance(e, ast.Call) and is_name(e.func) and funs.get(e.func.id, (None,))[0] == "factory-partial" and len(e.args) == 1
            and not e.keywords and is_name(e.args[0], c))


def elementwise(v, x, apply_name, c, funs):
    """the value `v` is the list of apply(e) for e in x, in order, always a new list: list(map(apply, x)) | [apply(e) for e in x] |
    [c(**e) if isinstance(e, dict) else e for e in x]; `apply_name` is a local bound to the apply closure (or None), and a call
    P(c) of a factory-partial function may stand for it."""
    def is_apply(f):
        return (apply_name is not None and is_name(f, apply_name)) or is_partial_of(f, c, funs)
    if (isinstance(v, ast.Call) and is_name(v.func, "list") and len(v.args) == 1 and not v.keywords and isinstance(v.args[0], ast.Call)
            and is_name(v.args[0].func, "map") and len(v.args[0].args) == 2 and not v.args[0].keywords and is_apply(v.args[0].args[0])
            and is_name(v.args[0].args[1], x)):
        return True
    if isinstance(v, ast.ListComp) and len(v.generators) == 1 and not v.generators[0].ifs and not v.generators[0].is_async \
            and is_name(v.generators[0].iter, x) and is_name(v.generators[0].target):
        e = v.generators[0].target.id
        if e in (x, c, apply_name):
            return False
        el = v.elt
        if isinstance(el, ast.Call) and is_apply(el.func) and len(el.args) == 1 and not el.keywords and is_name(el.args[0], e):
            return True
        if (isinstance(el, ast.IfExp) and U(el.test) == "isinstance(%s, dict)" % e and is_call_starstar(el.body, e) == c and is_name(el.orelse, e)):
            return True
    return False


def classify_function(fn, classes, funs=None, ctabs=None, used=None):
    """-> (kind, data).  kinds: factory-partial, factory-list, dispatch-kw, dispatch-pos, vld-noop, vld-cross, create, other
    ctabs: the module's class tables (class_tables), used: record of the tables / builtins the reading relied on (for crosscheck)"""
    funs = funs or {}
    ctabs = ctabs or {}
    used = used if used is not None else {"constants": set(), "builtins": set(), "class_tables": set()}
    body = strip_doc(fn.body)
    a = fn.args
    plain = not (a.vararg or a.kwonlyargs or a.posonlyargs or a.defaults or a.kw_defaults) and not fn.decorator_list
    # converter factories
    if plain and not a.kwarg and len(a.args) == 1:
        c = a.args[0].arg
        if len(body) == 2 and match_apply(body[0], c) and isinstance(body[1], ast.Return) and is_name(body[1].value, body[0].name):
            return "factory-partial", None
        if (len(body) == 1 and isinstance(body[0], ast.Return) and isinstance(body[0].value, ast.Lambda)):
            lam = body[0].value
            la = lam.args
            if (len(la.args) == 1 and not (la.vararg or la.kwarg or la.kwonlyargs or la.posonlyargs or la.defaults) and la.args[0].arg != c
                    and isinstance(lam.body, ast.IfExp) and U(lam.body.test) == "isinstance(%s, dict)" % la.args[0].arg
                    and is_call_starstar(lam.body.body, la.args[0].arg) == c and is_name(lam.body.orelse, la.args[0].arg)):
                return "factory-partial", None
        # list_converter: [the apply closure, defined here or obtained from a factory-partial function;] a one-argument converter
        # that maps it over its argument; return the converter
        b = list(body)
        apply_name = None
        if b and match_apply(b[0], c):
            apply_name, b = b[0].name, b[1:]
        elif (b and isinstance(b[0], ast.Assign) and len(b[0].targets) == 1 and is_name(b[0].targets[0]) and is_partial_of(b[0].value, c, funs)
              and b[0].targets[0].id != c):
            apply_name, b = b[0].targets[0].id, b[1:]
        if len(b) == 2 and isinstance(b[0], ast.FunctionDef) and isinstance(b[1], ast.Return) and is_name(b[1].value, b[0].name):
            conv = b[0]
            cb = strip_doc(conv.body)
            ca = conv.args
            if (len(ca.args) == 1 and not (ca.vararg or ca.kwarg or ca.kwonlyargs or ca.posonlyargs or ca.defaults) and not conv.decorator_list
                    and len(cb) == 1 and isinstance(cb[0], ast.Return) and ca.args[0].arg not in (c, apply_name)
                    and elementwise(cb[0].value, ca.args[0].arg, apply_name, c, funs)):
                return "factory-list", None
            raise Reject("list-converter factory %s has an unmodelled converter body: %s" % (fn.name, U(conv)))
        if (len(b) == 1 and isinstance(b[0], ast.Return) and isinstance(b[0].value, ast.Lambda) and len(b[0].value.args.args) == 1
                and not (b[0].value.args.vararg or b[0].value.args.kwarg or b[0].value.args.kwonlyargs or b[0].value.args.defaults)
                and b[0].value.args.args[0].arg not in (c, apply_name)
                and elementwise(b[0].value.body, b[0].value.args.args[0].arg, apply_name, c, funs)):
            return "factory-list", None
    # dispatch by lookup table:
    #   def f(**info): [if info is None: return None]  [lut = {"k": C, ...}]  [kind = info[key]]  c = lut.get(info[key] | kind)
    #   then   if c: return c(**info)  raise ...      |   if c: return c(**info) else: raise ...
    #   or     if c is None / not c: raise ...   return c(**info)
    #   or     c = lut[info[key] | kind] ; return c(**info) (or one of the if-forms: c is a class, hence true)   |   return lut[info[key] | kind](**info)
    # lut is the local literal or a module-level class table (class_tables: the same literal, see there).  An unknown / unhashable kind
    # raises in every form (ValueError from the raise statement, KeyError / TypeError from the look-up): the model says "raises".
    if not a.args and a.kwarg and not (a.vararg or a.kwonlyargs or a.posonlyargs) and not fn.decorator_list:
        info = a.kwarg.arg
        b = list(body)
        if b and isinstance(b[0], ast.If) and U(b[0].test) == "%s is None" % info and len(b[0].body) == 1 and U(b[0].body[0]) == "return None" and not b[0].orelse:
            b = b[1:]      # dead for a **kwargs parameter
        cases = lut = None
        if b and isinstance(b[0], (ast.Assign, ast.AnnAssign)) and isinstance(b[0].value, ast.Dict):
            lutname = (b[0].targets[0] if isinstance(b[0], ast.Assign) and len(b[0].targets) == 1 else getattr(b[0], "target", None))
            d = b[0].value
            cases = []
            for k, v in zip(d.keys, d.values):
                if not (isinstance(k, ast.Constant) and isinstance(k.value, str) and is_name(v) and v.id in classes):
                    raise Reject("dispatch table entry outside grammar in %s: %s" % (fn.name, U(k) if k else "**"))
                cases.append((k.value, v.id))
            if len({k for k, _ in cases}) != len(cases):
                raise Reject("duplicate key in dispatch table of " + fn.name)
            if not is_name(lutname) or lutname.id == info:
                raise Reject("dispatch function %s outside grammar (table name)" % fn.name)
            lut, b = lutname.id, b[1:]
        else:
            tabs = sorted({n.id for n in ast.walk(fn) if isinstance(n, ast.Name) and n.id in ctabs})
            if len(tabs) == 1:
                lut, cases = tabs[0], list(ctabs[tabs[0]])
                used["class_tables"].add(lut)
        if cases is not None:
            def key_of(e):
                if isinstance(e, ast.Subscript) and is_name(e.value, info) and isinstance(e.slice, ast.Constant) and isinstance(e.slice.value, str):
                    return e.slice.value
                return None
            keyvar = key = None
            if (b and isinstance(b[0], ast.Assign) and len(b[0].targets) == 1 and is_name(b[0].targets[0]) and key_of(b[0].value)
                    and b[0].targets[0].id not in (info, lut)):
                keyvar, key, b = b[0].targets[0].id, key_of(b[0].value), b[1:]

            def lookup(g):
                """lut.get(K) -> ("get", key) | lut[K] -> ("index", key) | None;  K = info["key"], or the key variable"""
                if (isinstance(g, ast.Call) and isinstance(g.func, ast.Attribute) and g.func.attr == "get" and is_name(g.func.value, lut)
                        and len(g.args) == 1 and not g.keywords):
                    how, k = "get", g.args[0]
                elif isinstance(g, ast.Subscript) and is_name(g.value, lut) and isinstance(g.ctx, ast.Load):
                    how, k = "index", g.slice
                else:
                    return None
                if keyvar is not None and is_name(k, keyvar):
                    return how, key
                if keyvar is None and key_of(k):
                    return how, key_of(k)
                return None
            ok = False
            # return lut[K](**info)
            if (len(b) == 1 and isinstance(b[0], ast.Return) and isinstance(b[0].value, ast.Call) and not b[0].value.args and len(b[0].value.keywords) == 1
                    and b[0].value.keywords[0].arg is None and is_name(b[0].value.keywords[0].value, info)):
                lk = lookup(b[0].value.func)
                if lk and lk[0] == "index":
                    ok, key = True, lk[1]
            if not ok and b and isinstance(b[0], ast.Assign) and len(b[0].targets) == 1 and is_name(b[0].targets[0]):
                cname = b[0].targets[0].id
                lk = lookup(b[0].value) if cname not in (info, lut, keyvar) else None
                if lk:
                    key = lk[1]
                    rest = b[1:]

                    def truthy(t):
                        return is_name(t, cname) or U(t) == "%s is not None" % cname

                    def falsy(t):
                        return U(t) in ("not %s" % cname, "%s is None" % cname)

                    def is_ret(sts):
                        return len(sts) == 1 and isinstance(sts[0], ast.Return) and is_call_starstar(sts[0].value, info) == cname

                    def is_raise(sts):
                        return len(sts) == 1 and isinstance(sts[0], ast.Raise) and sts[0].exc is not None
                    if lk[0] == "index" and is_ret(rest):
                        ok = True
                    elif rest and isinstance(rest[0], ast.If):
                        iff, tail = rest[0], rest[1:]
                        if truthy(iff.test) and is_ret(iff.body) and ((not iff.orelse and is_raise(tail)) or (is_raise(iff.orelse) and not tail)):
                            ok = True
                        elif falsy(iff.test) and is_raise(iff.body) and ((not iff.orelse and is_ret(tail)) or (is_ret(iff.orelse) and not tail)):
                            ok = True
            if not ok:
                raise Reject("dispatch function %s outside grammar" % fn.name)
            return "dispatch-kw", {"key": key, "cases": cases, "default": None}
        raise Reject("**kwargs function %s outside the dispatch grammar" % fn.name)
    # dispatch by comparison:  def f(info): if info[key] == "k": return C(**info) ...; return D(**info)   and the let / conditional-expression
    # forms of "decision trees" above.  Tried for a one-parameter function one of whose returns is a call with **<its parameter>.
    if plain and not a.kwarg and len(a.args) == 1 and any(
            isinstance(n, ast.Return) and isinstance(n.value, ast.Call) and not n.value.args and len(n.value.keywords) == 1
            and n.value.keywords[0].arg is None and is_name(n.value.keywords[0].value, a.args[0].arg) for n in ast.walk(fn)):
        key, cases, dflt = decision_tree(fn, a.args[0].arg, classes, funs)
        return "dispatch-pos", {"key": key, "cases": cases, "default": dflt}
    # validators: (instance, attribute, value)
    if plain and not a.kwarg and len(a.args) == 3:
        inst, _, val = [x.arg for x in a.args]
        if not any(isinstance(n, (ast.Raise, ast.Assert)) for n in ast.walk(fn)):
            if len(body) == 1 and isinstance(body[0], ast.Return):
                v = body[0].value
                if (isinstance(v, ast.Constant) or
                        (isinstance(v, ast.Call) and is_name(v.func, "isinstance") and len(v.args) == 2 and is_name(v.args[0], val)
                         and (is_name(v.args[1]) or (isinstance(v.args[1], ast.Tuple) and all(is_name(x) for x in v.args[1].elts))
                              or table_values(v.args[1], ctabs, used)))):          # tuple(TABLE.values()): the tuple of the table's classes
                    return "vld-noop", None
            raise Reject("validator %s never raises but is outside the no-op grammar" % fn.name)
        # t = A if instance.S.N == "c" else B ; for e in value: if not isinstance(e.V, t): raise ValueError(...)
        if len(body) == 2 and isinstance(body[0], ast.Assign) and isinstance(body[0].value, ast.IfExp) and isinstance(body[1], ast.For):
            ie, loop = body[0].value, body[1]
            t = ie.test
            ok = (len(body[0].targets) == 1 and is_name(body[0].targets[0]) and is_name(ie.body) and ie.body.id in PTYPES and is_name(ie.orelse)
                  and ie.orelse.id in PTYPES and isinstance(t, ast.Compare) and len(t.ops) == 1 and isinstance(t.ops[0], ast.Eq)
                  and isinstance(t.left, ast.Attribute) and isinstance(t.left.value, ast.Attribute) and is_name(t.left.value.value, inst)
                  and isinstance(t.comparators[0], ast.Constant) and isinstance(t.comparators[0].value, str)
                  and is_name(loop.iter, val) and is_name(loop.target) and not loop.orelse and len(loop.body) == 1 and isinstance(loop.body[0], ast.If))
            if ok:
                tv, e, iff = body[0].targets[0].id, loop.target.id, loop.body[0]
                c = iff.test
                ok = (not iff.orelse and len(iff.body) == 1 and isinstance(iff.body[0], ast.Raise) and isinstance(c, ast.UnaryOp) and isinstance(c.op, ast.Not)
                      and isinstance(c.operand, ast.Call) and is_name(c.operand.func, "isinstance") and len(c.operand.args) == 2
                      and isinstance(c.operand.args[0], ast.Attribute) and is_name(c.operand.args[0].value, e) and is_name(c.operand.args[1], tv))
                if ok:
                    return "vld-cross", {"sel": t.left.value.attr, "sel_attr": t.left.attr, "const": t.comparators[0].value,
                                         "iter_attr": c.operand.args[0].attr, "then": PTYPES[ie.body.id], "else": PTYPES[ie.orelse.id]}
        raise Reject("validator function %s outside grammar" % fn.name)
    return "other", None


def ptype(e, classes):
    if is_name(e) and e.id in PTYPES:
        return [PTYPES[e.id]]
    if is_name(e) and e.id in classes:
        return ["(TyCls %s)" % q(e.id)]
    if isinstance(e, ast.Tuple):
        return [x for el in e.elts for x in ptype(el, classes)]
    raise Reject("instance_of argument outside grammar: " + U(e))


def is_attrs_validators(e, name):
    return (isinstance(e, ast.Call) and isinstance(e.func, ast.Attribute) and e.func.attr == name and U(e.func.value) in ("attrs.validators", "validators")
            and len(e.args) == 1 and not e.keywords)


def validator(e, funs, classes):
    if is_attrs_validators(e, "instance_of"):
        return "(VInst [%s])" % "; ".join(ptype(e.args[0], classes))
    if is_attrs_validators(e, "optional") and is_attrs_validators(e.args[0], "instance_of"):
        return "(VOptInst [%s])" % "; ".join(ptype(e.args[0].args[0], classes))
    if is_attrs_validators(e, "in_") and isinstance(e.args[0], (ast.List, ast.Tuple)) and all(isinstance(x, ast.Constant) and isinstance(x.value, str) for x in e.args[0].elts):
        return "(VIn [%s])" % "; ".join(q(x.value) for x in e.args[0].elts)
    if is_name(e) and e.id in funs:
        k, d = funs[e.id]
        if k == "vld-noop":
            return "VNoop"
        if k == "vld-cross":
            return ("(VCross {| xv_sel := %s; xv_sel_attr := %s; xv_const := %s; xv_iter_attr := %s; xv_then := %s; xv_else := %s |})"
                    % (q(d["sel"]), q(d["sel_attr"]), q(d["const"]), q(d["iter_attr"]), d["then"], d["else"]))
    raise Reject("validator outside grammar: " + U(e))


def callee(e, funs, classes):
    if is_name(e) and e.id in classes:
        return "(CClass %s)" % q(e.id)
    if is_name(e) and e.id in funs and funs[e.id][0] == "dispatch-kw":
        return "(CFun %s)" % q(e.id)
    raise Reject("converter target outside grammar (a class or a **kwargs dispatch function is expected): " + U(e))


def converter(e, funs, classes):
    if isinstance(e, ast.Call) and is_name(e.func) and e.func.id in funs and len(e.args) == 1 and not e.keywords:
        k = funs[e.func.id][0]
        if k == "factory-partial":
            return "(KPartial %s)" % callee(e.args[0], funs, classes)
        if k == "factory-list":
            return "(KList %s)" % callee(e.args[0], funs, classes)
    if isinstance(e, ast.Lambda) and len(e.args.args) == 1 and not (e.args.vararg or e.args.kwarg or e.args.kwonlyargs or e.args.defaults):
        x = e.args.args[0].arg
        if U(e.body) in ("str(uuid.uuid4())", "str(uuid4())"):
            return "KUuid"
        c = is_call_starstar(e.body, x)
        if c:
            return "(KCall %s)" % callee(ast.Name(id=c), funs, classes)
    if is_name(e) and e.id in funs and funs[e.id][0] == "dispatch-pos":
        return "(KDirect %s)" % q(e.id)
    raise Reject("converter outside grammar: " + U(e))


def field(stmt, funs, classes, cname):
    if not (isinstance(stmt, ast.AnnAssign) and is_name(stmt.target) and stmt.value is not None):
        raise Reject("class %s: statement outside grammar: %s" % (cname, U(stmt)[:80]))
    v = stmt.value
    if not (isinstance(v, ast.Call) and U(v.func) in ("attrs.field", "field", "attr.ib", "attrs.ib") and not v.args):
        raise Reject("class %s.%s: not an attrs.field(...)" % (cname, stmt.target.id))
    conv, vld, dfl = "KId", "VNone", "None"
    for kw in v.keywords:
        if kw.arg == "converter":
            conv = converter(kw.value, funs, classes)
        elif kw.arg == "validator":
            vld = validator(kw.value, funs, classes)
        elif kw.arg == "default":
            if isinstance(kw.value, ast.Constant) and kw.value.value is None:
                dfl = "(Some DNone)"
            elif isinstance(kw.value, ast.List) and not kw.value.elts:
                dfl = "(Some DEmptyList)"
            else:
                raise Reject("class %s.%s: default outside grammar: %s" % (cname, stmt.target.id, U(kw.value)))
        else:
            raise Reject("class %s.%s: attrs.field argument outside grammar: %s" % (cname, stmt.target.id, kw.arg))
    return stmt.target.id, "{| f_name := %s; f_conv := %s; f_default := %s; f_vld := %s |}" % (q(stmt.target.id), conv, dfl, vld), dfl != "None"


def eq_method(fn, cname):
    a = fn.args
    if len(a.args) != 2 or a.vararg or a.kwarg or a.kwonlyargs or a.defaults or fn.decorator_list:
        raise Reject("%s.__eq__ signature" % cname)
    s, o = a.args[0].arg, a.args[1].arg
    body = strip_doc(fn.body)

    def guard(t):
        if isinstance(t, ast.Call) and is_name(t.func, "isinstance") and len(t.args) == 2 and is_name(t.args[0], o) and is_name(t.args[1]):
            return t.args[1].id
        return None

    def is_false(st):
        return isinstance(st, ast.Return) and ((isinstance(st.value, ast.Constant) and st.value.value is False) or is_name(st.value, "NotImplemented"))
    expr = g = None
    if len(body) == 2 and isinstance(body[0], ast.If) and not body[0].orelse and len(body[0].body) == 1 and isinstance(body[0].body[0], ast.Return):
        if guard(body[0].test) and is_false(body[1]):
            g, expr = guard(body[0].test), body[0].body[0].value
        elif (isinstance(body[0].test, ast.UnaryOp) and isinstance(body[0].test.op, ast.Not) and guard(body[0].test.operand)
              and is_false(body[0].body[0]) and isinstance(body[1], ast.Return)):
            g, expr = guard(body[0].test.operand), body[1].value
    elif (len(body) == 1 and isinstance(body[0], ast.If) and guard(body[0].test) and len(body[0].body) == 1 and isinstance(body[0].body[0], ast.Return)
          and len(body[0].orelse) == 1 and is_false(body[0].orelse[0])):
        g, expr = guard(body[0].test), body[0].body[0].value
    if g is None or expr is None:
        raise Reject("%s.__eq__ outside grammar (isinstance guard + one return expected)" % cname)

    def attr_of(e, who):
        if isinstance(e, ast.Attribute) and is_name(e.value, who):
            return e.attr
        raise Reject("%s.__eq__: operand outside grammar: %s" % (cname, U(e)))

    def pair(c):
        if not (isinstance(c, ast.Compare) and len(c.ops) == 1 and isinstance(c.ops[0], ast.Eq)):
            raise Reject("%s.__eq__: conjunct outside grammar: %s" % (cname, U(c)))
        return c.left, c.comparators[0]
    conj = flatten_and(expr)
    form, attrs = "EConj", []
    if len(conj) == 1 and isinstance(conj[0], ast.Compare) and isinstance(conj[0].left, ast.Tuple):
        le, ri = pair(conj[0])
        if not isinstance(ri, ast.Tuple) or len(le.elts) != len(ri.elts):
            raise Reject("%s.__eq__: tuple comparison of different shapes" % cname)
        form = "ETuple"
        for x, y in zip(le.elts, ri.elts):
            ax, ay = attr_of(x, s), attr_of(y, o)
            if ax != ay:
                raise Reject("%s.__eq__ compares self.%s with other.%s" % (cname, ax, ay))
            attrs.append(ax)
    else:
        for c in conj:
            le, ri = pair(c)
            ax, ay = attr_of(le, s), attr_of(ri, o)
            if ax != ay:
                raise Reject("%s.__eq__ compares self.%s with other.%s" % (cname, ax, ay))
            attrs.append(ax)
    return g, form, attrs, fn.lineno


def create_fn(fn, classes):
    a = fn.args
    if len(a.args) != 1 or a.vararg or a.kwarg or a.kwonlyargs or fn.decorator_list:
        raise Reject("create_lsp_model signature")
    ms = a.args[0].arg
    body = strip_doc(fn.body)
    if not (body and isinstance(body[-1], ast.Return) and is_name(body[-1].value)):
        raise Reject("create_lsp_model: last statement is not `return <name>`")
    spec = body[-1].value.id
    body = body[:-1]

    def unwrap(st, n):
        """if len(models) >= n: <body>   ->  body"""
        if isinstance(st, ast.If) and not st.orelse and U(st.test) in ("len(%s) >= %d" % (ms, n), "len(%s) > %d" % (ms, n - 1)):
            return st.body
        return None
    if len(body) != 2:
        raise Reject("create_lsp_model: two statements expected before the return")
    first = unwrap(body[0], 1) or [body[0]]
    if not (len(first) == 1 and isinstance(first[0], ast.Assign) and len(first[0].targets) == 1 and is_name(first[0].targets[0], spec)):
        raise Reject("create_lsp_model: first model is not bound to the returned name")
    c0 = first[0].value
    if not (isinstance(c0, ast.Call) and is_name(c0.func) and not c0.args and len(c0.keywords) == 1 and c0.keywords[0].arg is None
            and U(c0.keywords[0].value) == "%s[0]" % ms and c0.func.id in classes):
        raise Reject("create_lsp_model: first model outside grammar: " + U(first[0]))
    root = c0.func.id
    rest = unwrap(body[1], 2) or [body[1]]
    if not (len(rest) == 1 and isinstance(rest[0], ast.For) and not rest[0].orelse and is_name(rest[0].target) and U(rest[0].iter) == "%s[1:]" % ms):
        raise Reject("create_lsp_model: loop over the other models outside grammar")
    m = rest[0].target.id
    lb = rest[0].body
    if not (lb and isinstance(lb[0], ast.Assign) and len(lb[0].targets) == 1 and is_name(lb[0].targets[0]) and is_call_starstar(lb[0].value, m) == root):
        raise Reject("create_lsp_model: the other models are not loaded with the same class")
    add = lb[0].targets[0].id
    merged = []
    for st in lb[1:]:
        c = st.value if isinstance(st, ast.Expr) else None
        ok = (isinstance(c, ast.Call) and isinstance(c.func, ast.Attribute) and c.func.attr == "extend" and isinstance(c.func.value, ast.Attribute)
              and is_name(c.func.value.value, spec) and len(c.args) == 1 and not c.keywords and isinstance(c.args[0], ast.Attribute)
              and is_name(c.args[0].value, add))
        if not ok:
            raise Reject("create_lsp_model: statement outside grammar: " + U(st))
        if c.func.value.attr != c.args[0].attr:
            raise Reject("create_lsp_model extends %s with %s" % (c.func.value.attr, c.args[0].attr))
        merged.append(c.func.value.attr)
    return root, merged


def translate():
    path = os.path.join(REPO, "generator", "model.py")
    tree = ast.parse(open(path).read())
    classes = [n.name for n in tree.body if isinstance(n, ast.ClassDef)]
    if len(set(classes)) != len(classes):
        raise Reject("a class is defined twice")
    funs, create = {}, None
    consts, allb = module_constants(tree)
    ctabs = class_tables(tree, classes, allb)
    used = {"constants": set(), "builtins": set(), "class_tables": set()}
    for n in tree.body:
        if isinstance(n, ast.FunctionDef):
            if n.name == "create_lsp_model":
                create = create_fn(normalise(n, consts, allb, used), classes)
            else:
                funs[n.name] = classify_function(n, classes, funs, ctabs, used)
        elif isinstance(n, ast.ClassDef) or isinstance(n, (ast.Import, ast.ImportFrom)):
            pass
        elif isinstance(n, ast.Expr) and isinstance(n.value, ast.Constant):
            pass
        elif isinstance(n, (ast.Assign, ast.AnnAssign)):
            tgt = n.targets[0] if isinstance(n, ast.Assign) else n.target
            if not (is_name(tgt) and tgt.id.isupper()):
                raise Reject("module-level assignment outside grammar: " + U(n)[:80])
            if any(isinstance(x, (ast.Call, ast.Lambda)) for x in ast.walk(n.value)):
                raise Reject("module-level assignment with a call: " + U(n)[:80])
        else:
            raise Reject("module-level statement outside grammar: " + U(n)[:80])
    if create is None:
        raise Reject("create_lsp_model not found")
    info, rows = {"classes": {}, "funs": {}, "root": create[0], "merge": create[1]}, []
    for n in tree.body:
        if not isinstance(n, ast.ClassDef):
            continue
        if n.bases or n.keywords:
            raise Reject("class %s has bases" % n.name)
        if [U(d) for d in n.decorator_list] not in (["attrs.define"], ["define"]):
            raise Reject("class %s: decorators outside grammar: %s" % (n.name, [U(d) for d in n.decorator_list]))
        fields, names, eq, seen_default = [], [], None, False
        for st in strip_doc(n.body):
            if isinstance(st, ast.FunctionDef):
                if st.name == "__eq__":
                    eq = eq_method(normalise(st, consts, allb, used), n.name)
                elif st.name.startswith("__") and st.name.endswith("__"):
                    raise Reject("unmodelled special method %s.%s" % (n.name, st.name))
                elif st.decorator_list:
                    raise Reject("decorated method %s.%s (a validator/default decorator would change the loader)" % (n.name, st.name))
                continue
            fname, term, has_d = field(st, funs, classes, n.name)
            if seen_default and not has_d:
                raise Reject("class %s: mandatory field after a defaulted one" % n.name)
            seen_default = seen_default or has_d
            fields.append(term)
            names.append(fname)
        if eq is None:
            raise Reject("class %s has no __eq__ (attrs would generate a field-wise one including id_)" % n.name)
        rows.append((n.name, fields, eq))
        info["classes"][n.name] = {"fields": names, "eq_guard": eq[0], "eq_form": eq[1], "eq_attrs": eq[2], "eq_line": eq[3]}
    for f, (k, d) in funs.items():
        if k.startswith("dispatch"):
            info["funs"][f] = dict(d, style=k)
    info["constants"] = {c: list(consts[c]) for c in sorted(used["constants"])}
    info["builtins"] = sorted(used["builtins"])
    info["class_tables"] = {t: [list(r) for r in ctabs[t]] for t in sorted(used["class_tables"])}
    return rows, funs, create, info


def crosscheck(info):
    """the imported module must agree with what the AST said"""
    import attrs
    import generator.model as M
    if os.path.realpath(M.__file__) != os.path.realpath(os.path.join(REPO, "generator", "model.py")):
        raise Reject("generator.model imported from %s" % M.__file__)
    for c, (kind, vals) in info.get("constants", {}).items():       # the tables that were unrolled are what the module holds
        v = M.__dict__.get(c)
        if type(v) is not {"tuple": tuple, "list": list}[kind] or list(v) != vals or not all(type(x) is str for x in v):
            raise Reject("module constant %s is %r at run time, the source says %s %r" % (c, v, kind, vals))
    for t, rows in info.get("class_tables", {}).items():              # the class tables that were read as literals are what the module holds
        v = M.__dict__.get(t)
        if type(v) is not dict or list(v) != [k for k, _ in rows] or not all(type(k) is str for k in v):
            raise Reject("module constant %s is %r at run time, the source says a dict with the keys %r" % (t, v, [k for k, _ in rows]))
        for k, c in rows:
            if v[k] is not M.__dict__.get(c) or not isinstance(v[k], type) or v[k].__name__ != c or v[k].__module__ != M.__name__:
                raise Reject("module constant %s[%r] is %r at run time, the source says the class %s of generator.model" % (t, k, v[k], c))
    import builtins
    for b in info.get("builtins", []):
        bd = M.__dict__.get("__builtins__")
        bd = bd if isinstance(bd, dict) else vars(bd)
        if b in M.__dict__ or bd.get(b) is not getattr(builtins, b):
            raise Reject("builtin %s is re-bound in generator.model" % b)
    for cn, ci in info["classes"].items():
        cls = getattr(M, cn)
        fs = attrs.fields(cls)
        if [a.name for a in fs] != ci["fields"]:
            raise Reject("attrs.fields(%s) = %s differs from the class body %s" % (cn, [a.name for a in fs], ci["fields"]))
        for a in fs:
            if not a.init or a.kw_only or (a.alias and a.alias != a.name):
                raise Reject("%s.%s: init/kw_only/alias outside the model" % (cn, a.name))
        code = getattr(cls.__dict__.get("__eq__"), "__code__", None)
        if code is None or code.co_firstlineno != ci["eq_line"] or not code.co_filename.endswith("model.py"):
            raise Reject("%s.__eq__ at run time is not the method of the class body" % cn)
        if cls.__dict__.get("__ne__") is not None and getattr(cls.__dict__["__ne__"], "__code__", None) is not None \
                and cls.__dict__["__ne__"].__code__.co_filename.endswith("model.py"):
            raise Reject("%s defines __ne__" % cn)


def main(out, info_path=None):
    rows, funs, create, info = translate()
    crosscheck(info)
    lines = ["(* generated by lib/x_modelpy.py from generator/model.py — do not edit *)",
             "From LSP Require Import Base JSchema Loader.", "Open Scope string_scope."]
    for cn, fields, eq in rows:
        lines.append("Definition cls_%s : cls := {| c_name := %s; c_fields := [\n  %s];\n  c_eq := Some {| e_guard := %s; e_form := %s; e_attrs := [%s] |} |}."
                     % (cn, q(cn), ";\n  ".join(fields), q(eq[0]), eq[1], "; ".join(q(a) for a in eq[2])))
    fl = []
    for f, (k, d) in funs.items():
        if k.startswith("dispatch"):
            fl.append("(%s, {| d_key := %s; d_cases := [%s]; d_default := %s |})"
                      % (q(f), q(d["key"]), "; ".join("(%s, %s)" % (q(a), q(b)) for a, b in d["cases"]), ("Some %s" % q(d["default"])) if d["default"] else "None"))
    lines.append("Definition model_py : tables := {| t_classes := [%s];\n  t_funs := [%s];\n  t_root := %s; t_merge := [%s] |}."
                 % ("; ".join("cls_" + r[0] for r in rows), ";\n    ".join(fl), q(create[0]), "; ".join(q(x) for x in create[1])))
    write_if_changed(out, "\n".join(lines) + "\n")
    if info_path:
        write_if_changed(info_path, json.dumps(info, indent=1, sort_keys=True) + "\n")
    print(json.dumps({"classes": len(rows), "dispatch": {f: len(d["cases"]) for f, d in info["funs"].items()}, "merge": create[1]}))


if __name__ == "__main__":
    try:
        main(*sys.argv[1:3])
    except Reject as e:
        print("REJECT: %s" % e)
        sys.exit(3)
