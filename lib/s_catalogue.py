"""s_catalogue — search on the real package for C09: the live catalogue/registry objects against the metamodel.
Prints a JSON list of issues {"method"/"name", "component", "expected", "observed"}."""
import json
import os
import sys

import attrs

from lsprotocol import converters
from lsprotocol import types as T

from vcommon import REPO

MM = json.load(open(sys.argv[1] if len(sys.argv) > 1 else os.path.join(REPO, "generator", "lsp.json")))
issues = []
try:
    converters.get_converter()
except BaseException as ex:  # the first converter cannot be created: forward references do not resolve
    issues.append({"method": "get_converter()", "component": "raises", "expected": "a converter", "observed": "%s: %s" % (type(ex).__name__, str(ex)[:150])})


def issue(m, comp, exp=None, obs=None):
    issues.append({"method": m, "component": comp, "expected": str(exp)[:200], "observed": str(obs)[:200]})


def fields(c):
    return {a.name: a for a in attrs.fields(c)} if isinstance(c, type) and attrs.has(c) else {}


consts = {k: v for k, v in vars(T).items() if isinstance(v, str) and k.isupper() and not k.startswith("_")}
methods = {}
for r in MM["requests"]:
    methods[r["method"]] = ("request", r)
for n in MM["notifications"]:
    methods[n["method"]] = ("notification", n)
for m, (kind, e) in methods.items():
    row = T.METHOD_TO_TYPES.get(m)
    if row is None:
        issue(m, "row missing")
        continue
    cls, resp = row[0], row[1]
    fs = fields(cls)
    if "method" not in fs or fs["method"].default != m:
        issue(m, "message class default method", m, fs["method"].default if "method" in fs else None)
    if kind == "request":
        if "id" not in fs:
            issue(m, "request class has no id")
        rf = fields(resp)
        if "result" not in rf or "id" not in rf:
            issue(m, "response class", "id,result", sorted(rf))
        # the response class is the one that belongs to THIS request: its name is the request class's name with Request -> Response
        # (or <typeName>Response), and it is the class whose module-level definition sits next to the request's
        cn = getattr(cls, "__name__", "")
        want = (cn[:-len("Request")] if cn.endswith("Request") else cn) + "Response"
        if getattr(resp, "__name__", None) != want:
            issue(m, "response class of the request", want, getattr(resp, "__name__", resp))
    else:
        if resp is not None:
            issue(m, "notification has a response class", None, resp)
        if "id" in fs:
            issue(m, "notification class has id")
    if ("params" in e) != (row[2] is not None):
        issue(m, "params presence", "params" in e, row[2])
    if "params" in e and e["params"]["kind"] == "reference":
        exp = getattr(T, e["params"]["name"], None)
        if exp is None or (row[2] is not exp and row[2] != exp):
            issue(m, "params type", e["params"]["name"], row[2])
    if "params" in e and "params" in fs and fs["params"].type is not row[2] and fs["params"].type != row[2]:
        issue(m, "params type differs from message class annotation", fs["params"].type, row[2])
    if ("registrationOptions" in e) != (row[3] is not None):
        issue(m, "registration options presence", "registrationOptions" in e, row[3])
    if "registrationOptions" in e and e["registrationOptions"]["kind"] == "reference":
        exp = getattr(T, e["registrationOptions"]["name"], None)
        if exp is None or (row[3] is not exp and row[3] != exp):
            issue(m, "registration options type", e["registrationOptions"]["name"], row[3])
    try:
        d = T.message_direction(m)
    except Exception as ex:
        d = repr(ex)
    if d != e["messageDirection"]:
        issue(m, "direction", e["messageDirection"], d)
    if m not in consts.values():
        issue(m, "constant missing")
for m in T.METHOD_TO_TYPES:
    if m not in methods:
        issue(m, "extra catalogue row")
for m in T._MESSAGE_DIRECTION:
    if m not in methods:
        issue(m, "extra direction entry")
for k, v in consts.items():
    if v not in methods:
        issue(k, "extra constant", None, v)
import typing as _typing


def _defined(k, v):
    if isinstance(v, type):
        return v.__module__ == T.__name__
    if k.startswith("__") or k.isupper() or getattr(_typing, k, None) is v:
        return False
    return _typing.get_origin(v) is not None or isinstance(v, _typing.ForwardRef)


# after the first converter was created no annotation of a protocol class may still hold an unresolved forward reference, at any depth
# (Optional / Union / Sequence / Dict / Tuple arguments included)
def _unresolved(t, depth=0):
    if isinstance(t, (str, _typing.ForwardRef)):
        return True
    if depth > 8 or _typing.get_origin(t) is _typing.Literal:      # the arguments of Literal[...] are values, not types
        return False
    return any(_unresolved(a, depth + 1) for a in _typing.get_args(t))


for k, v in list(T.ALL_TYPES_MAP.items()):
    if isinstance(v, type) and attrs.has(v):
        for a in attrs.fields(v):
            if _unresolved(a.type):
                issue("%s.%s" % (k, a.name), "annotation still holds a forward reference after get_converter()", "resolved classes", repr(a.type)[:160])

# the registry is read here AFTER the first converter was created (top of this file) and, in a fresh interpreter, right after import
for k, v in vars(T).items():
    if _defined(k, v) and k not in T.ALL_TYPES_MAP:
        issue(k, "type not in registry", "present (history: import lsprotocol.types; converters.get_converter(); read ALL_TYPES_MAP)", "absent")
import subprocess
_p = subprocess.run([sys.executable, "-c", "import json, typing\nimport lsprotocol.types as T\n"
                     "d=[k for k,v in vars(T).items() if ((isinstance(v,type) and v.__module__==T.__name__) or (not isinstance(v,type) and not k.startswith('__') and not k.isupper() "
                     "and getattr(typing,k,None) is not v and (typing.get_origin(v) is not None or isinstance(v,typing.ForwardRef)))) and k not in T.ALL_TYPES_MAP]\nprint(json.dumps(d))"],
                    capture_output=True, text=True)
try:
    for k in json.loads(_p.stdout.strip().splitlines()[-1]):
        issue(k, "type not in registry", "present (history: import lsprotocol.types; read ALL_TYPES_MAP)", "absent")
except Exception:
    issue("registry", "fresh-interpreter probe failed", None, (_p.stdout + _p.stderr)[-200:])
print(json.dumps(issues))
