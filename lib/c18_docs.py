"""c18_docs — metamodel DOCUMENTS for the C18 streams (oracle side; independent of generator/model.py).

feature_docs()          deterministic small schema-valid documents, one per feature (every type kind, every annotation, ...)
random_valid(D, rng)    seeded random edits of a sample of the committed document that stay schema-valid
invalid_edits(base)     single edits that violate the metamodel schema, each labelled with its kind
skeleton(doc)           the structural skeleton of a document (DESIGN C18)
sim(readback, doc)      the relation `~` on the Python side
witness_for(schema, site) a schema-valid document exercising one (definition, property | alternative) site of lsp.schema.json
schema_coverage(schema) one small document per (definition, property, SHAPE of the property's schema): every alternative of every
                        anyOf/oneOf, every listed JSON type, every enum value, and arrays of length 0, 1 and 2 wherever the schema
                        allows an array (so `params` as one type, as [], as [T] and as [T, U]) - derived from lsp.schema.json alone
"""
import copy
import json

SKNAMES = {"name", "kind", "type", "properties", "extends", "mixins", "values", "value", "method", "messageDirection", "params", "result",
           "partialResult", "errorData", "registrationOptions", "items", "element", "key", "optional",
           "requests", "notifications", "structures", "enumerations", "typeAliases"}
ANNOT = {"documentation": "Some *doc* with \"quotes\" and é.", "since": "3.17.0", "proposed": True, "deprecated": "use X", "sinceTags": ["3.16.0", "3.17.0"]}
LISTS = ["requests", "notifications", "structures", "enumerations", "typeAliases"]

BASE = {"kind": "base", "name": "string"}
REF = {"kind": "reference", "name": "S0"}


def empty():
    return {"metaData": {"version": "3.17.0"}, "requests": [], "notifications": [], "structures": [], "enumerations": [], "typeAliases": []}


def prop(n="p", t=None, **kw):
    return dict({"name": n, "type": t or dict(BASE)}, **kw)


TYPES = {
    "base": BASE,
    "base-uri": {"kind": "base", "name": "DocumentUri"},
    "base-null": {"kind": "base", "name": "null"},
    "reference": REF,
    "array": {"kind": "array", "element": REF},
    "array-nested": {"kind": "array", "element": {"kind": "array", "element": BASE}},
    "map-basekey": {"kind": "map", "key": {"kind": "base", "name": "DocumentUri"}, "value": {"kind": "array", "element": REF}},
    "map-refkey": {"kind": "map", "key": {"kind": "reference", "name": "K"}, "value": BASE},
    "and": {"kind": "and", "items": [REF, {"kind": "reference", "name": "S1"}]},
    "or": {"kind": "or", "items": [BASE, REF, {"kind": "base", "name": "null"}]},
    "or-empty": {"kind": "or", "items": []},
    "tuple": {"kind": "tuple", "items": [{"kind": "base", "name": "uinteger"}, {"kind": "base", "name": "uinteger"}]},
    "literal": {"kind": "literal", "value": {"properties": [prop("a"), prop("b", REF, optional=True, documentation="d")]}},
    "literal-empty": {"kind": "literal", "value": {"properties": []}},
    "stringLiteral": {"kind": "stringLiteral", "value": "rename"},
    "integerLiteral": {"kind": "integerLiteral", "value": 1},
    "booleanLiteral": {"kind": "booleanLiteral", "value": True},
}
for _k, _v in ANNOT.items():
    TYPES["StructureLiteral." + _k] = {"kind": "literal", "value": {"properties": [prop("a")], _k: _v}}


def feature_docs():
    """[(feature, doc)] — each doc is schema-valid (the harness re-checks that with the real jsonschema and the Coq jsv)"""
    out = []
    for k, t in TYPES.items():
        d = empty()
        d["typeAliases"].append({"name": "A", "type": copy.deepcopy(t)})
        d["structures"].append({"name": "S0", "properties": [prop("p", copy.deepcopy(t)), prop("q", copy.deepcopy(t), optional=True)]})
        d["requests"].append({"method": "x/y", "messageDirection": "clientToServer", "result": copy.deepcopy(t), "params": copy.deepcopy(t)})
        out.append((k, d))
    d = empty(); d["structures"] += [{"name": "S0", "properties": []}, {"name": "S1", "properties": [prop()], "extends": [dict(REF)], "mixins": [dict(REF), dict(REF)]}]
    out.append(("extends-mixins", d))
    d = empty(); d["structures"].append({"name": "S0", "properties": [], "extends": [], "mixins": []})
    out.append(("explicit-empty-extends", d))
    for k, v in ANNOT.items():
        d = empty()
        d["structures"].append(dict({"name": "S0", "properties": [prop("p", None, **{k: v})]}, **{k: v}))
        d["enumerations"].append(dict({"name": "E", "type": {"kind": "base", "name": "string"}, "values": [dict({"name": "a", "value": "A"}, **{k: v})]}, **{k: v}))
        d["typeAliases"].append(dict({"name": "A", "type": dict(BASE)}, **{k: v}))
        d["requests"].append(dict({"method": "m", "messageDirection": "both", "result": dict(BASE)}, **{k: v}))
        d["notifications"].append(dict({"method": "n", "messageDirection": "serverToClient"}, **{k: v}))
        out.append(("annotation-" + k, d))
    d = empty()
    d["enumerations"] += [{"name": "E1", "type": {"kind": "base", "name": "string"}, "values": [{"name": "a", "value": "A"}, {"name": "b", "value": ""}], "supportsCustomValues": True},
                          {"name": "E2", "type": {"kind": "base", "name": "integer"}, "values": [{"name": "neg", "value": -1}, {"name": "big", "value": 2147483647}]},
                          {"name": "E3", "type": {"kind": "base", "name": "uinteger"}, "values": []}]
    out.append(("enumerations", d))
    d = empty()
    d["requests"].append({"method": "a/b", "messageDirection": "both", "result": dict(BASE), "params": dict(REF), "partialResult": {"kind": "array", "element": REF},
                          "errorData": dict(BASE), "registrationOptions": dict(REF), "registrationMethod": "a/c", "typeName": "ABRequest"})
    d["notifications"].append({"method": "n/o", "messageDirection": "clientToServer", "params": dict(REF), "registrationOptions": dict(REF), "registrationMethod": "n/p", "typeName": "NO"})
    out.append(("message-all-optionals", d))
    d = empty()
    d["requests"].append({"method": "a/b", "messageDirection": "both", "result": dict(BASE), "params": [dict(BASE), dict(REF)]})
    d["notifications"].append({"method": "n", "messageDirection": "both", "params": []})
    out.append(("params-array", d))
    d = empty(); d["metaData"] = {"version": "é-✓"}
    out.append(("unicode-version", d))
    out.append(("empty", empty()))
    return out


def shuffle_keys(j, rng):
    if isinstance(j, dict):
        items = [(k, shuffle_keys(v, rng)) for k, v in j.items()]
        rng.shuffle(items)
        return dict(items)
    if isinstance(j, list):
        return [shuffle_keys(x, rng) for x in j]
    return j


def nodes(j, path=()):
    """all (path, dict) nodes"""
    if isinstance(j, dict):
        yield path, j
        for k, v in j.items():
            yield from nodes(v, path + (k,))
    elif isinstance(j, list):
        for i, v in enumerate(j):
            yield from nodes(v, path + (i,))


def sample(D, rng, n=2):
    d = {"metaData": copy.deepcopy(D["metaData"])}
    for k in LISTS:
        xs = D[k]
        idx = sorted(rng.sample(range(len(xs)), min(n, len(xs))))
        d[k] = [copy.deepcopy(xs[i]) for i in idx]
    return d


def random_valid(D, rng, feats):
    """one random schema-valid edit sequence; returns (labels, doc)"""
    d = sample(D, rng, rng.choice([1, 2, 3]))
    labels = []
    for _ in range(rng.choice([1, 2, 3, 4])):
        op = rng.choice(["drop-annotation", "add-annotation", "reorder", "add-feature", "shuffle-keys", "extends"])
        ns = [(p, n) for p, n in nodes(d)]
        if op == "drop-annotation":
            c = [(n, k) for _, n in ns for k in n if k in ANNOT or k in ("typeName", "registrationMethod", "supportsCustomValues", "optional")]
            if c:
                n, k = rng.choice(c); del n[k]
        elif op == "add-annotation":
            c = [n for p, n in ns if ("name" in n and ("properties" in n or "values" in n or "value" in n or ("type" in n and "kind" not in n))) or "method" in n]
            if c:
                n = rng.choice(c); k = rng.choice(sorted(ANNOT)); n[k] = copy.deepcopy(ANNOT[k])
        elif op == "reorder":
            ls = [n[k] for _, n in ns for k in n if isinstance(n[k], list) and len(n[k]) > 1 and k != "sinceTags"]
            if ls:
                rng.shuffle(rng.choice(ls))
        elif op == "add-feature":
            f, fd = rng.choice(feats)
            for k in LISTS:
                for x in fd[k]:
                    d[k].insert(rng.randrange(len(d[k]) + 1), copy.deepcopy(x))
            op = "add-feature:" + f
        elif op == "shuffle-keys":
            d = shuffle_keys(d, rng)
        elif op == "extends":
            if d["structures"]:
                s = rng.choice(d["structures"])
                k = rng.choice(["extends", "mixins"])
                if k in s and rng.random() < 0.5:
                    del s[k]
                else:
                    s[k] = [dict(REF) for _ in range(rng.choice([0, 1, 2]))]
        labels.append(op)
    return labels, d


def invalid_base():
    d = empty()
    d["requests"].append({"method": "a/b", "messageDirection": "both", "result": {"kind": "or", "items": [dict(BASE), dict(REF)]}, "params": dict(REF), "documentation": "doc"})
    d["notifications"].append({"method": "n", "messageDirection": "clientToServer"})
    d["structures"].append({"name": "S0", "properties": [prop("p", {"kind": "array", "element": dict(BASE)}, optional=True), prop("l", copy.deepcopy(TYPES["literal"]))],
                            "sinceTags": ["3.17.0"]})
    d["enumerations"].append({"name": "E", "type": {"kind": "base", "name": "uinteger"}, "values": [{"name": "one", "value": 1}]})
    d["typeAliases"].append({"name": "A", "type": {"kind": "map", "key": {"kind": "base", "name": "string"}, "value": dict(REF)}})
    return d


def invalid_edits():
    """[(label, doc)]: the base document with ONE schema-violating edit"""
    out = []

    def ed(label, f):
        d = invalid_base(); f(d); out.append((label, d))
    ed("missing-result", lambda d: d["requests"][0].pop("result"))
    ed("missing-method", lambda d: d["requests"][0].pop("method"))
    ed("missing-messageDirection", lambda d: d["notifications"][0].pop("messageDirection"))
    ed("missing-structure-name", lambda d: d["structures"][0].pop("name"))
    ed("missing-properties", lambda d: d["structures"][0].pop("properties"))
    ed("missing-property-type", lambda d: d["structures"][0]["properties"][0].pop("type"))
    ed("missing-kind", lambda d: d["structures"][0]["properties"][0]["type"].pop("kind"))
    ed("missing-element", lambda d: d["structures"][0]["properties"][0]["type"].pop("element"))
    ed("missing-enum-values", lambda d: d["enumerations"][0].pop("values"))
    ed("missing-enum-entry-value", lambda d: d["enumerations"][0]["values"][0].pop("value"))
    ed("missing-alias-type", lambda d: d["typeAliases"][0].pop("type"))
    ed("missing-map-key", lambda d: d["typeAliases"][0]["type"].pop("key"))
    ed("missing-version", lambda d: d["metaData"].pop("version"))
    ed("missing-metaData", lambda d: d.pop("metaData"))
    ed("missing-typeAliases", lambda d: d.pop("typeAliases"))
    ed("unknown-property-root", lambda d: d.update(extra=1))
    ed("unknown-property-request", lambda d: d["requests"][0].update(foo="bar"))
    ed("unknown-property-structure", lambda d: d["structures"][0].update(foo=[]))
    ed("unknown-property-property", lambda d: d["structures"][0]["properties"][0].update(foo=None))
    ed("unknown-property-type", lambda d: d["structures"][0]["properties"][0]["type"].update(name="x"))
    ed("unknown-property-enum-entry", lambda d: d["enumerations"][0]["values"][0].update(foo=1))
    ed("unknown-property-metaData", lambda d: d["metaData"].update(foo=1))
    ed("unknown-property-literal-type-name", lambda d: d["structures"][0]["properties"][1]["type"].update(name="Lit"))
    ed("wrong-type-version-number", lambda d: d["metaData"].update(version=3))
    ed("wrong-type-method-number", lambda d: d["requests"][0].update(method=7))
    ed("wrong-type-proposed-string", lambda d: d["requests"][0].update(proposed="yes"))
    ed("wrong-type-documentation-number", lambda d: d["requests"][0].update(documentation=5))
    ed("wrong-type-properties-object", lambda d: d["structures"][0].update(properties={}))
    ed("wrong-type-sinceTags-items", lambda d: d["structures"][0].update(sinceTags=[1, 2]))
    ed("wrong-type-optional-string", lambda d: d["structures"][0]["properties"][0].update(optional="yes"))
    ed("wrong-type-enum-value-bool", lambda d: d["enumerations"][0]["values"][0].update(value=True))
    ed("wrong-type-enum-value-null", lambda d: d["enumerations"][0]["values"][0].update(value=None))
    ed("wrong-type-structures-object", lambda d: d.update(structures={}))
    ed("wrong-type-root-array", lambda d: None)
    out[-1] = ("wrong-type-root-array", [invalid_base()])
    ed("null-annotation", lambda d: d["requests"][0].update(documentation=None))
    ed("bad-enum-messageDirection", lambda d: d["requests"][0].update(messageDirection="sideways"))
    ed("bad-enum-base-name", lambda d: d["structures"][0]["properties"][0]["type"]["element"].update(name="int"))
    ed("bad-enum-enumeration-type", lambda d: d["enumerations"][0]["type"].update(name="decimal"))
    ed("bad-enum-map-key", lambda d: d["typeAliases"][0]["type"]["key"].update(name="boolean"))
    ed("unknown-kind", lambda d: d["structures"][0]["properties"][0]["type"].update(kind="arr"))
    ed("type-is-string", lambda d: d["structures"][0]["properties"][0].update(type="string"))
    ed("type-is-number", lambda d: d["requests"][0].update(result=5))
    ed("type-is-null", lambda d: d["typeAliases"][0].update(type=None))
    ed("element-is-list", lambda d: d["structures"][0]["properties"][0]["type"].update(element=[dict(BASE)]))
    ed("items-is-string", lambda d: d["requests"][0]["result"].update(items="x"))
    ed("params-array-bad-item", lambda d: d["requests"][0].update(params=[{"kind": "bas", "name": "string"}]))
    ed("extends-bad-item", lambda d: d["structures"][0].update(extends=[{"kind": "reference"}]))
    return out


def extension(**over):
    """a small extension model file (one structure), as a second --model argument"""
    d = empty()
    d["structures"] = [{"name": "ExtensionParams", "properties": [prop("label")]}]
    d.update(over)
    return d


def invalid_extensions():
    """[(label, doc)]: extension files whose ONLY schema violation sits at their top level (metaData, extra key)"""
    out = [("ext-metaData-version-number", extension(metaData={"version": 3.17})),
           ("ext-metaData-version-missing", extension(metaData={})),
           ("ext-metaData-unknown-key", extension(metaData={"version": "3.17.0", "extra": 1})),
           ("ext-unknown-top-level-key", extension(extras=[{"anything": 1}]))]
    d = extension(); del d["metaData"]
    out.append(("ext-metaData-missing", d))
    return out


def purity_groups(feats):
    """model groups whose first document has EMPTY sections that later documents extend (and the reverse)"""
    fd = dict(feats)
    only_aliases = empty(); only_aliases["typeAliases"] = copy.deepcopy(fd["or"]["typeAliases"])
    no_aliases = copy.deepcopy(fd["message-all-optionals"]); no_aliases["typeAliases"] = []
    only_enums = empty(); only_enums["enumerations"] = copy.deepcopy(fd["enumerations"]["enumerations"])
    return [("first-file-all-sections-empty", [empty(), fd["or"]]),
            ("first-file-empty-typeAliases", [no_aliases, only_aliases]),
            ("three-files-empty-first", [empty(), only_enums, only_aliases]),
            ("empty-extension", [fd["literal"], empty()]),
            ("no-empty-section", [fd["or"], fd["or"]]),
            ("single-file", [fd["extends-mixins"]])]


def skeleton(j, key=None):
    if isinstance(j, dict):
        r = {k: skeleton(v, k) for k, v in j.items() if k in SKNAMES}
        if "properties" in j and "name" in j and "kind" not in j:     # a structure: absent extends / mixins is []
            r.setdefault("extends", []); r.setdefault("mixins", [])
        return r
    if isinstance(j, list):
        return [skeleton(x, key) for x in j]
    return j


def normal(j):
    """normal form behind `~`: null-valued keys and empty extends/mixins dropped, keys sorted; numbers kept type-strict"""
    if isinstance(j, dict):
        return {k: normal(j[k]) for k in sorted(j) if not (j[k] is None or (k in ("extends", "mixins") and j[k] == []))}
    if isinstance(j, list):
        return [normal(x) for x in j]
    return j


def strict_dumps(j):
    return json.dumps(j, sort_keys=True, ensure_ascii=True)     # 1 and 1.0 print differently; True and 1 too


def sim(a, b):
    return strict_dumps(normal(a)) == strict_dumps(normal(b))


def pinned_ok(doc):
    """the pinned reading: metamodel numbers are integers; enumeration values agree with the declared base type"""
    def walk(j):
        if isinstance(j, dict):
            if j.get("kind") == "integerLiteral" and isinstance(j.get("value"), float):
                return False
            return all(walk(v) for v in j.values())
        if isinstance(j, list):
            return all(walk(v) for v in j)
        return True
    if not isinstance(doc, dict):
        return True
    for e in doc.get("enumerations", []) if isinstance(doc.get("enumerations"), list) else []:
        if not isinstance(e, dict) or not isinstance(e.get("type"), dict) or not isinstance(e.get("values"), list):
            continue
        isstr = e["type"].get("name") == "string"
        for v in e["values"]:
            if isinstance(v, dict) and "value" in v:
                x = v["value"]
                if isinstance(x, float) or isinstance(x, bool) or (isstr != isinstance(x, str)):
                    return False
    return walk(doc)


# ---------------------------------------------------------------------- witness synthesis from the schema file
def minimal(node, defs, depth=0):
    if "$ref" in node:
        return minimal(defs[node["$ref"].split("/")[-1]], defs, depth + 1)
    if node.get("anyOf") or node.get("oneOf"):
        return minimal((node.get("anyOf") or node.get("oneOf"))[0], defs, depth + 1)
    t = node.get("type")
    t = t[0] if isinstance(t, list) else t
    if t == "object":
        return {k: minimal(node["properties"][k], defs, depth + 1) for k in node.get("required", [])}
    if t == "array":
        return []
    if t == "string":
        return node["const"] if "const" in node else node["enum"][0] if "enum" in node else "x"
    if t == "boolean":
        return True
    if t == "number":
        return 1
    return None


def witness_for(schema, site, root="MetaModel", target=None):
    """site = ("prop", Def, key) | ("alt", Def, AltDef): a document valid for `root` that uses that property / alternative;
    with `target` given: a document valid for `root` that holds `target` where an instance of Def is expected"""
    defs = schema["definitions"]
    kind, dname, item = site
    if target is not None:
        pass
    elif kind == "prop":
        target = minimal(defs[dname], defs)
        target[item] = minimal(defs[dname]["properties"][item], defs)
        if target[item] == []:
            target[item] = ["x"] if defs[dname]["properties"][item].get("items", {}).get("type") == "string" else []
    else:
        target = minimal(defs[item], defs)
    seen = set()

    def search(node):
        if "$ref" in node:
            n = node["$ref"].split("/")[-1]
            if n == dname:
                return True, target
            if n in seen:
                return False, None
            seen.add(n)
            return search(defs[n])
        if node.get("anyOf") or node.get("oneOf"):
            for a in node.get("anyOf") or node.get("oneOf"):
                ok, r = search(a)
                if ok:
                    return True, r
            return False, None
        t = node.get("type")
        if t == "object":
            req = node.get("required", [])
            for k in sorted(node.get("properties", {}), key=lambda k: (k not in req, k)):
                ok, r = search(node["properties"][k])
                if ok:
                    inst = minimal(node, defs)
                    inst[k] = r
                    return True, inst
        if t == "array" and "items" in node:
            ok, r = search(node["items"])
            if ok:
                return True, [r]
        return False, None
    if dname == root:
        return target
    seen.add(root)
    ok, r = search(defs[root])
    return r if ok else None


# ---------------------------------------------------------------------- shape coverage derived from the schema file
def _alts(node):
    return node.get("anyOf") or node.get("oneOf")


def variants(node, defs, depth=0):
    """[(shape label, instance)] for one schema node: one instance per alternative / listed type / enum value / boolean, and per
    array length 0, 1, 2 (length 1 once per variant of the items, length 2 as consecutive pairs of them); nested parts minimal."""
    if "$ref" in node:
        n = node["$ref"].split("/")[-1]
        d = defs[n]
        if _alts(d) or "enum" in d or depth == 0:
            sub = variants(d, defs, depth + 1)
            if _alts(d):
                return sub
            return [((n + ":" + l) if l else n, v) for l, v in sub]
        return [(n, minimal(d, defs))]
    if _alts(node):
        out = []
        for i, a in enumerate(_alts(node)):
            nm = a["$ref"].split("/")[-1] if "$ref" in a else None
            for l, v in variants(a, defs, depth + 1):
                out.append((l if (nm is None and l.startswith("array")) or (nm and l.startswith(nm)) else "%s%s" % (nm or "alt%d" % i, (":" + l) if l else ""), v))
        return out
    if "const" in node:
        return [("", node["const"])]
    if "enum" in node:
        return [("=%s" % e, e) for e in node["enum"]]
    t = node.get("type")
    if isinstance(t, list):
        out = []
        for x in t:
            out += [(x + ((":" + l) if l else ""), v) for l, v in variants(dict(node, type=x), defs, depth + 1)]
        return out
    if t == "object":
        base = minimal(node, defs)
        out = [("object", base)]
        if depth > 0:            # an inline object alternative: vary each of its properties once
            for k, ps in node.get("properties", {}).items():
                for l, v in variants(ps, defs, depth + 1):
                    if k in base and strict_dumps(base[k]) == strict_dumps(v):
                        continue
                    out.append(("object.%s%s" % (k, l if l.startswith("=") else (":" + l) if l else ""), dict(base, **{k: v})))
        return out
    if t == "array":
        items = variants(node["items"], defs, depth + 1) if "items" in node else [("any", 1)]
        out = [("array0", [])]
        out += [("array1:" + l, [copy.deepcopy(v)]) for l, v in items]
        out.append(("array2:%s+%s" % (items[0][0], items[0][0]), [copy.deepcopy(items[0][1]), copy.deepcopy(items[0][1])]))
        if len(items) > 1:
            for i in range(len(items)):
                (l1, v1), (l2, v2) = items[i], items[(i + 1) % len(items)]
                out.append(("array2:%s+%s" % (l1, l2), [copy.deepcopy(v1), copy.deepcopy(v2)]))
        return out
    if t == "string":
        return [("string", "x"), ("string-empty", "")]
    if t == "boolean":
        return [("true", True), ("false", False)]
    if t == "number":
        return [("number", 1), ("number-zero", 0), ("number-negative", -1)]
    if t == "null":
        return [("null", None)]
    return [("any", minimal(node, defs))]


def kinds_used(j):
    """the `kind` constants a document uses (to attribute a failure to a recorded finding about that kind)"""
    out = set()
    for _, n in nodes(j):
        if isinstance(n.get("kind"), str):
            out.add(n["kind"])
    return out


def shape_of(label):
    """array1:BaseType -> array1 ; BaseType -> single ; string-empty -> string-empty"""
    head = label.split(":")[0]
    return head if head.startswith("array") else "single" if head[:1].isupper() else label


def schema_coverage(schema, root="MetaModel"):
    """[(label, doc, info)] with info = {site: "Def.prop", shape, uses: [known-finding style names]} - one schema-valid document
    per (object definition reachable from root, property, variant of the property's schema)"""
    defs = schema["definitions"]
    out, seen = [], set()
    for dname in sorted(defs):
        d = defs[dname]
        if d.get("type") != "object" or "properties" not in d:
            continue
        base = minimal(d, defs)
        for pname in sorted(d["properties"]):
            for lab, val in variants(d["properties"][pname], defs):
                inst = dict(copy.deepcopy(base), **{pname: copy.deepcopy(val)})
                doc = inst if dname == root else witness_for(schema, ("prop", dname, pname), root, target=inst)
                if doc is None:
                    continue        # the definition is not reachable from the root
                key = strict_dumps(doc)
                if key in seen:
                    continue
                seen.add(key)
                label = "%s.%s:%s" % (dname, pname, lab or "const")
                out.append((label, doc, {"site": "%s.%s" % (dname, pname), "shape": shape_of(lab or "const"), "variant": lab,
                                         "uses": sorted(kinds_used(doc) | {"%s.%s" % (dname, pname)})}))
    return out
