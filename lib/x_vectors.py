"""x_vectors — the test vectors of the testdata plugin, brought to the verified checker (property C17).

generate(outdir, model=)  run `python -m generator --plugin testdata --output-dir <outdir> [--model <file>]` from the tree under check
parse_name(fn)            <MessageClass>-<True|False>-<hash>.json  ->  (class, label, hash) | None
load_json(path)           JSON text -> Python value; an object with duplicate keys is kept as Dup (pairs preserved)
Ref(mmview)               INDEPENDENT Python reference of the pinned strict reading (port of the round-0 prototype):
                          .why(cls, j) -> None when valid, else the first failing clause (path: reason)
eval_shard(task)          worker: print the vectors of one shard as Coq terms, evaluate LSP.Strict.vector_code on them by
                          vm_compute (coqc with a timeout), return the non-zero codes + the reference verdicts
scan_shard(task)          worker: reference verdicts only (the quick tier uses them to pick candidates for the checker)

Translation trusted here: JSON value -> Coq `json` term (cj_tab below: null/bool/int/float-as-exact-ratio/string/array/object
with pairs in file order, strings as UTF-8 bytes through a per-shard table of string constants).
"""
import concurrent.futures
import json
import os
import re
import subprocess
import sys
import time

import vcommon as V

FUEL = 200
NAME_RE = re.compile(r"^([A-Za-z_][A-Za-z0-9_]*)-(True|False)-([0-9A-Za-z]+)\.json$")
I32 = (-2**31, 2**31 - 1)


def generate(outdir, timeout=1200, model=None):
    """Run the testdata plugin of the tree under check (on the committed metamodel, or on the model file `model`) through the
    real command line; `outdir` is used as it is (empty, or holding an earlier run). Returns (rc, tail of the log, seconds)."""
    t0 = time.time()
    p = subprocess.run([V.PY, "-B", "-m", "generator", "--plugin", "testdata", "--output-dir", outdir] + (["--model", model] if model else []),
                       cwd=V.REPO, env=V.repo_env(), capture_output=True, text=True, timeout=timeout)
    return p.returncode, (p.stdout[-1500:] + p.stderr[-1500:]), time.time() - t0


def parse_name(fn):
    m = NAME_RE.match(fn)
    if not m:
        return None
    return m.group(1), m.group(2) == "True", m.group(3)


class Dup(dict):
    """a JSON object that had duplicate keys: all pairs kept (never a valid instance of anything but LSPAny)"""
    pairs = ()


def _pairs_hook(pairs):
    d = dict(pairs)
    if len(d) != len(pairs):
        d = Dup(d)
        d.pairs = list(pairs)
    return d


def load_json(path):
    with open(path, encoding="utf-8") as f:
        return json.loads(f.read(), object_pairs_hook=_pairs_hook)


# ------------------------------------------------------------------------------------------------ Python reference
def isint(j):
    return isinstance(j, int) and not isinstance(j, bool)


def suffix(s, suf):
    return s if s.endswith(suf) else s + suf


RESPONSE_ERROR = {"code": {"name": "code", "type": {"kind": "base", "name": "integer"}},
                  "message": {"name": "message", "type": {"kind": "base", "name": "string"}},
                  "data": {"name": "data", "type": {"kind": "reference", "name": "LSPAny"}, "optional": True}}


class Ref:
    def __init__(self, mmv):
        self.mm = mmv
        self.byname = {}
        self.unnamed = []
        for r in mmv.doc["requests"]:
            tn = r.get("typeName")
            if not tn:
                self.unnamed.append(r["method"])
                continue
            n = suffix(tn, "Request")
            self.byname[n] = ("request", r)
            self.byname[n[:-len("Request")] + "Response"] = ("response", r)
        for r in mmv.doc["notifications"]:
            tn = r.get("typeName")
            if not tn:
                self.unnamed.append(r["method"])
                continue
            self.byname[suffix(tn, "Notification")] = ("notification", r)
        self._flat = {}

    def flat(self, n):
        if n not in self._flat:
            self._flat[n] = self.mm.flat(n)
        return self._flat[n]

    # every function returns None (valid) or "path: reason"
    def props(self, ps, j, path, open_empty=True):
        if not isinstance(j, dict):
            return "%s: object expected, got %s" % (path, tname(j))
        if isinstance(j, Dup):
            return "%s: duplicate keys" % path
        if not ps and open_empty:
            return None
        for k in j:
            if k not in ps:
                return "%s: property %r is not declared" % (path, k)
        for n, p in ps.items():
            if n in j:
                w = self.valid(p["type"], j[n], path + "." + n)
                if w:
                    return w
            elif not p.get("optional"):
                return "%s: required property %r is missing" % (path, n)
        return None

    def valid(self, t, j, path):
        k = t["kind"]
        if k == "base":
            n = t["name"]
            if n in ("string", "DocumentUri", "URI", "RegExp"):
                return None if isinstance(j, str) else "%s: string expected, got %s" % (path, tname(j))
            if n == "integer":
                return None if isint(j) and I32[0] <= j <= I32[1] else "%s: integer in [-2^31, 2^31-1] expected, got %s" % (path, short(j))
            if n == "uinteger":
                return None if isint(j) and 0 <= j <= I32[1] else "%s: uinteger in [0, 2^31-1] expected, got %s" % (path, short(j))
            if n == "decimal":
                return None if isinstance(j, (int, float)) and not isinstance(j, bool) else "%s: number expected, got %s" % (path, tname(j))
            if n == "boolean":
                return None if isinstance(j, bool) else "%s: boolean expected, got %s" % (path, tname(j))
            if n == "null":
                return None if j is None else "%s: null expected, got %s" % (path, tname(j))
            return "%s: unknown base type %s" % (path, n)
        if k == "reference":
            n = t["name"]
            if n == "LSPAny":
                return None
            if n == "LSPObject":
                return None if isinstance(j, dict) else "%s: object expected (LSPObject), got %s" % (path, tname(j))
            if n == "LSPArray":
                return None if isinstance(j, list) else "%s: array expected (LSPArray), got %s" % (path, tname(j))
            mm = self.mm
            if n in mm.S:
                return self.props(self.flat(n), j, path + "<" + n + ">")
            if n in mm.A:
                return self.valid(mm.A[n]["type"], j, path)
            if n in mm.E:
                e = mm.E[n]
                if any(type(v["value"]) is type(j) and v["value"] == j for v in e["values"]):
                    return None
                if e.get("supportsCustomValues"):
                    return self.valid(e["type"], j, path + "<" + n + " custom>")
                return "%s: %s is not a member of the closed enumeration %s" % (path, short(j), n)
            return "%s: unknown reference %s" % (path, n)
        if k == "array":
            if not isinstance(j, list):
                return "%s: array expected, got %s" % (path, tname(j))
            for i, x in enumerate(j):
                w = self.valid(t["element"], x, "%s[%d]" % (path, i))
                if w:
                    return w
            return None
        if k == "map":
            if not isinstance(j, dict):
                return "%s: object (map) expected, got %s" % (path, tname(j))
            if isinstance(j, Dup):
                return "%s: duplicate keys" % path
            for kk, v in j.items():
                w = self.valid(t["key"], kk, path + "{key " + kk + "}") or self.valid(t["value"], v, path + "{" + kk + "}")
                if w:
                    return w
            return None
        if k == "or":
            ws = []
            for i in t["items"]:
                w = self.valid(i, j, path)
                if w is None:
                    return None
                ws.append(w)
            return "%s: no alternative of the union accepts %s (first: %s)" % (path, short(j), ws[0] if ws else "empty union")
        if k == "and":
            ps = {}
            for i in t["items"]:
                if i["kind"] == "reference":
                    for pn, p in self.flat(i["name"]).items():
                        ps.setdefault(pn, p)
                elif i["kind"] == "literal":
                    for p in i["value"]["properties"]:
                        ps.setdefault(p["name"], p)
            return self.props(ps, j, path + "<and>")
        if k == "tuple":
            if not isinstance(j, list) or len(j) != len(t["items"]):
                return "%s: array of length %d expected" % (path, len(t["items"]))
            for idx, (a, b) in enumerate(zip(t["items"], j)):
                w = self.valid(a, b, "%s[%d]" % (path, idx))
                if w:
                    return w
            return None
        if k == "literal":
            ps = {}
            for p in t["value"]["properties"]:
                ps.setdefault(p["name"], p)
            return self.props(ps, j, path + "<literal>")
        if k in ("stringLiteral", "integerLiteral", "booleanLiteral"):
            return None if type(j) is type(t["value"]) and j == t["value"] else "%s: literal %r expected, got %s" % (path, t["value"], short(j))
        return "%s: unknown type kind %s" % (path, k)

    def why(self, cls, j):
        """None when the message is a valid instance of class `cls` under the pinned reading, else the failing clause."""
        if cls not in self.byname:
            return "$: %s is not a message class of the metamodel" % cls
        kind, r = self.byname[cls]
        if not isinstance(j, dict):
            return "$: object expected, got %s" % tname(j)
        if isinstance(j, Dup):
            return "$: duplicate keys"
        allowed = {"request": ("jsonrpc", "id", "method", "params"), "notification": ("jsonrpc", "method", "params"),
                   "response": ("jsonrpc", "id", "result", "error")}[kind]
        for k in j:
            if k not in allowed:
                return "$: envelope property %r is not declared for a %s" % (k, kind)
        if not (isinstance(j.get("jsonrpc"), str) and j["jsonrpc"] == "2.0"):
            return "$.jsonrpc: \"2.0\" expected, got %s" % (short(j["jsonrpc"]) if "jsonrpc" in j else "nothing")
        if kind in ("request", "response"):
            if "id" not in j:
                return "$.id: required property is missing"
            i = j["id"]
            if not (isinstance(i, str) or (isint(i) and I32[0] <= i <= I32[1])):
                return "$.id: int32 or string expected, got %s" % short(i)
        if kind in ("request", "notification"):
            if not (isinstance(j.get("method"), str) and j["method"] == r["method"]):
                return "$.method: %r expected, got %s" % (r["method"], short(j["method"]) if "method" in j else "nothing")
            if r.get("params") is not None:
                if "params" not in j:
                    return "$.params: required (the metamodel declares params) but missing"
                return self.valid(r["params"], j["params"], "$.params")
            if "params" in j and j["params"] is not None:
                return "$.params: the metamodel declares no params; absent or null expected, got %s" % short(j["params"])
            return None
        if "result" in j:
            w = self.valid(r["result"], j["result"], "$.result")
            if w:
                return w
        if "error" in j:
            return self.props(RESPONSE_ERROR, j["error"], "$.error<ResponseError>", open_empty=False)
        return None


def tname(j):
    return {type(None): "null", bool: "boolean", int: "integer", float: "number", str: "string", list: "array"}.get(type(j), "object")


def short(j):
    s = json.dumps(j, ensure_ascii=False)
    return s if len(s) <= 60 else s[:57] + "..."


# ------------------------------------------------------------------------------------------------ Coq printing
class StrTab:
    def __init__(self):
        self.tab = {}

    def __call__(self, s):
        n = self.tab.get(s)
        if n is None:
            n = self.tab[s] = "s%d" % len(self.tab)
        return n

    def defs(self):
        return "".join("Definition %s := %s.\n" % (n, V.q(s)) for s, n in self.tab.items())


def cj_tab(j, S):
    if j is None:
        return "JNull"
    if isinstance(j, bool):
        return "(JBool %s)" % ("true" if j else "false")
    if isinstance(j, int):
        return "(JInt (%d))" % j
    if isinstance(j, float):
        if j != j or j in (float("inf"), float("-inf")):
            raise ValueError("non-finite number in a vector")
        n, d = j.as_integer_ratio()
        return "(JFlt (%d) (%d))" % (n, d)
    if isinstance(j, str):
        return "(JStr %s)" % S(j)
    if isinstance(j, list):
        return "(JArr [%s])" % "; ".join(cj_tab(x, S) for x in j)
    if isinstance(j, dict):
        pairs = j.pairs if isinstance(j, Dup) else j.items()
        return "(JObj [%s])" % "; ".join("(%s, %s)" % (S(k), cj_tab(v, S)) for k, v in pairs)
    raise TypeError(type(j))


HDR_FOR = ("From LSP Require Import Base MM ValidB Strict.\nFrom Gen Require Import %s.\nOpen Scope string_scope.\n"
           "Set Printing Depth 1000000.\n")
HDR = HDR_FOR % "MMData"


def shard_text(items, base, module="MMData"):
    """items: [(cls, label, json)] -> Coq source evaluating vector_code on each; prints [(index within the shard, code)] for
    code <> 0 (indexes stay small: a large unary nat overflows the stack when read back from the VM)."""
    S = StrTab()
    rows = ["Definition c%d := vector_code mm %d %s %s %s." % (i, FUEL, S(cls), "true" if lab else "false", cj_tab(j, S))
            for i, (cls, lab, j) in enumerate(items)]
    return (HDR_FOR % module + S.defs() + "\n".join(rows) + "\nDefinition codes : list nat := [%s].\n" % "; ".join("c%d" % i for i in range(len(items)))
            + "Definition bad := filter (fun p => negb (Nat.eqb (snd p) 0)) (combine (seq 0 (length codes)) codes).\n"
            + "Eval vm_compute in bad.\nEval vm_compute in (length bad, length codes).\n"
            + "(* kernel-checked when every label of the shard agrees with the verified checker *)\n"
            + "Lemma shard_agrees : bad = []. Proof. vm_compute. reflexivity. Qed.\n")


def coqc_nocache(path, timeout):
    """coqc with a timeout, no .glob; the caller removes the products."""
    p = subprocess.run(["timeout", str(timeout), "coqc", "-q", "-noglob", *V.COQ_ARGS, path], capture_output=True, text=True)
    return p.returncode, p.stdout, p.stderr


def cleanup(path):
    stem = path[:-2]
    d, b = os.path.split(stem)
    for f in (stem + ".v", stem + ".vo", stem + ".vok", stem + ".vos", stem + ".glob", os.path.join(d, "." + b + ".aux")):
        try:
            os.remove(f)
        except FileNotFoundError:
            pass


_REF = {}


def _ref(doc_path=None):
    """the Python reference for the committed metamodel, or for the (evolved) model document at doc_path"""
    if doc_path not in _REF:
        from mmlib import MMView
        _REF[doc_path] = Ref(MMView(path=doc_path) if doc_path else MMView())
    return _REF[doc_path]


def eval_shard(task):
    """task = (shard name, base index, vector dir, [(fn, cls, label)], keep [, (Gen module of the metamodel, its JSON document)]).
    Returns {"codes": {global index: code}, "ref": [reason or None per item], "proved": bool, "secs": float}; raises on machinery failure."""
    name, base, vdir, files, keep = task[:5]
    module, doc_path = task[5] if len(task) > 5 and task[5] else ("MMData", None)
    t0 = time.time()
    ref = _ref(doc_path)
    items, whys = [], []
    for fn, cls, lab in files:
        j = load_json(os.path.join(vdir, fn))
        items.append((cls, lab, j))
        whys.append(ref.why(cls, j))
    path = os.path.join(V.PROPS_OUT, name + ".v")
    os.makedirs(V.PROPS_OUT, exist_ok=True)
    with open(path, "w", encoding="utf-8") as f:
        f.write(shard_text(items, base, module))
    rc, out, err = coqc_nocache(path, V.COQ_TIMEOUT)
    try:
        m = re.search(r"=\s*(\[.*?\])\s*:\s*list \(nat \* nat\)", out, re.S)
        if not m:
            raise RuntimeError("shard %s: no verdict list in the coqc output (rc=%d): %s" % (name, rc, (out + err)[-1200:]))
        codes = {base + int(a): int(b) for a, b in re.findall(r"\(\s*(\d+)\s*,\s*(\d+)\s*\)", m.group(1))}
        m2 = re.search(r"=\s*\(\s*(\d+)\s*,\s*(\d+)\s*\)\s*:\s*nat \* nat", out)
        if not m2 or int(m2.group(1)) != len(codes) or int(m2.group(2)) != len(items):
            raise RuntimeError("shard %s: printed verdict list is incomplete (%d parsed, coq says %s)" % (name, len(codes), m2.groups() if m2 else None))
        if rc != 0 and not codes:
            raise RuntimeError("shard %s: coqc failed although no vector disagrees: %s" % (name, (out + err)[-1200:]))
        if rc == 0 and codes:
            raise RuntimeError("shard %s: lemma shard_agrees went through although codes are non-zero" % name)
    finally:
        if not keep:
            cleanup(path)
    return {"codes": codes, "ref": whys, "proved": rc == 0, "secs": time.time() - t0}


def scan_shard(task):
    """task = (vector dir, [(fn, cls, label)] [, JSON document of the metamodel]) -> [reason or None] by the Python reference only."""
    vdir, files = task[:2]
    ref = _ref(task[2] if len(task) > 2 else None)
    return [ref.why(cls, load_json(os.path.join(vdir, fn))) for fn, cls, lab in files]


def run_parallel(fn, tasks, workers=16):
    if not tasks:
        return []
    with concurrent.futures.ProcessPoolExecutor(min(workers, len(tasks))) as ex:
        return list(ex.map(fn, tasks))


def chunks(lst, n):
    return [lst[i:i + n] for i in range(0, len(lst), n)]


if __name__ == "__main__":      # x_vectors.py <dir of vectors>: reference verdict statistics (debugging aid)
    import collections
    d = sys.argv[1]
    res = collections.Counter()
    ref = _ref()
    for fn in sorted(os.listdir(d)):
        pn = parse_name(fn)
        if not pn:
            res["bad-name"] += 1
            continue
        res[(pn[1], ref.why(pn[0], load_json(os.path.join(d, fn))) is None)] += 1
    print(res)
