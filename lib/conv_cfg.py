"""conv_cfg — how the converter under test is created (runs inside the repository's interpreter; used by r_conv.py and r_ctor.py).
VERIF_CONV_CFG:
  (unset)        converters.get_converter()
  nodetail / detail / user      get_converter(cattrs.Converter(detailed_validation=False / True / default))
  user-omit      get_converter(cattrs.Converter(omit_if_default=True)): the package decides per property what is omitted, whatever the user's
                 converter would do by default
  third          the third converter of the process
  after-foreign  a DEFAULT get_converter() created AFTER a customised user converter went through get_converter(user) and was used on the
                 warm-up inputs: the user converter forbids extra keys, omits defaults, has detailed validation off, tolerant structure
                 hooks for every enumeration (unknown value -> first member) and its own unstructure hooks (Position -> "l:c",
                 enumeration members -> their names).  Whatever lsprotocol keeps between converters (caches of generated functions,
                 module-level tables) is then primed by THAT converter; the default converter must behave as if it were alone."""
import enum
import os


def make_converter(warmup=()):
    from lsprotocol import converters
    from lsprotocol import types as T
    cfg = os.environ.get("VERIF_CONV_CFG", "")
    if cfg in ("nodetail", "detail", "user", "user-omit"):
        import cattrs
        base = {"nodetail": lambda: cattrs.Converter(detailed_validation=False), "detail": lambda: cattrs.Converter(detailed_validation=True),
                "user": lambda: cattrs.Converter(), "user-omit": lambda: cattrs.Converter(omit_if_default=True)}[cfg]()
        return converters.get_converter(base)
    if cfg == "third":
        converters.get_converter()
        converters.get_converter()
    if cfg == "after-foreign":
        import cattrs
        u = cattrs.Converter(forbid_extra_keys=True, omit_if_default=True, detailed_validation=False)
        uc = converters.get_converter(u)
        enums = [v for v in T.ALL_TYPES_MAP.values() if isinstance(v, type) and issubclass(v, enum.Enum)]

        def tolerant(t):
            first = next(iter(t))

            def hook(v, _):
                try:
                    return t(v)
                except Exception:
                    return first
            return hook
        # class hooks (cattrs dispatches on the exact class before it consults predicate hooks / factories)
        for t in enums:
            uc.register_structure_hook(t, tolerant(t))
            uc.register_unstructure_hook(t, lambda m: m.name)
        uc.register_unstructure_hook(T.Position, lambda p: "%d:%d" % (p.line, p.character))
        # the application's OWN attrs classes that happen to share a bare name with a protocol class go through the user converter too
        import attrs
        for name, cls in list(T.ALL_TYPES_MAP.items()):
            if isinstance(cls, type) and attrs.has(cls):
                try:
                    twin = attrs.make_class(name, {"zz_foreign_field": attrs.field(default=None), "zz_other": attrs.field(default=1)})
                    uc.unstructure(twin())
                    uc.structure({"zzForeignField": 1}, twin)
                except BaseException:  # noqa
                    pass
        for target, value in warmup:
            try:
                o = uc.structure(value, target)
                uc.unstructure(o)
            except BaseException:  # noqa
                pass
        for o in warmup_objects(T):
            try:
                uc.unstructure(o)
            except BaseException:  # noqa
                pass
    return converters.get_converter()


def warmup_objects(T):
    p = T.Position(line=1, character=2)
    r = T.Range(start=p, end=T.Position(line=3, character=4))
    return [p, r, T.Location(uri="file:///a", range=r),
            T.Diagnostic(range=r, message="m", severity=T.DiagnosticSeverity.Error),
            T.MarkupContent(kind=T.MarkupKind.Markdown, value="v"),
            T.DocumentSymbol(name="n", kind=T.SymbolKind.Class, range=r, selection_range=r)]
