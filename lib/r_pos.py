"""Real-code runner for C20: evaluates comparison operators and reprs on the real lsprotocol classes.
stdin: JSON {"cases":[[op,a,b],...], "reprs":[v,...]}; values: ["pos",l,c] ["rng",p,p] ["loc",uri,r] ["other"] ["none"] ["int",z] ["str",s] ["tup",[..]]
stdout: JSON {"cases":[code,...], "reprs":[str|null,...]}   codes: 1 True, 0 False, 2 TypeError, 9 other exception / non-bool
"""
import json
import operator
import sys

from lsprotocol import types as T

OPS = {"Lt": operator.lt, "Le": operator.le, "Gt": operator.gt, "Ge": operator.ge, "Eq": operator.eq, "Ne": operator.ne}


class Other:
    pass


def build(v):
    k = v[0]
    if k == "pos":
        return T.Position(line=v[1], character=v[2])
    if k == "rng":
        return T.Range(start=build(v[1]), end=build(v[2]))
    if k == "loc":
        return T.Location(uri=v[1], range=build(v[2]))
    if k == "duck":
        # an object of an UNRELATED type that exposes the same attributes with equal values (structural look-alike)
        import types as _t
        x = build(v[1])
        if v[1][0] == "loc" and len(v) > 2 and v[2] == "lsp":
            return T.CallHierarchyItem(name="n", kind=T.SymbolKind.File, uri=x.uri, range=x.range, selection_range=x.range)
        names = {"pos": ("line", "character"), "rng": ("start", "end"), "loc": ("uri", "range")}[v[1][0]]
        return _t.SimpleNamespace(**{n: getattr(x, n) for n in names})
    if k == "other":
        return Other()
    if k == "none":
        return None
    if k in ("int", "str"):
        return v[1]
    if k == "tup":
        return tuple(build(x) for x in v[1])
    raise ValueError(k)


def main():
    req = json.load(sys.stdin)
    out = []
    for op, a, b in req["cases"]:
        try:
            r = OPS[op](build(a), build(b))
            out.append(1 if r is True else 0 if r is False else 9)
        except TypeError:
            out.append(2)
        except Exception:
            out.append(9)
    # histories: compare (all six operators, so that anything memoised is filled), change an attribute of the first operand in place,
    # compare again — the second answer must be the one for the CHANGED values
    muts = []
    for op, a, b, path, newval in req.get("mutations", []):
        try:
            x, y = build(a), build(b)
            for o_ in OPS.values():
                try:
                    o_(x, y)
                except Exception:
                    pass
            try:
                hash_before = None
                repr(x)
            except Exception:
                pass
            tgt = x
            for name in path[:-1]:
                tgt = getattr(tgt, name)
            setattr(tgt, path[-1], newval)
            r = OPS[op](x, y)
            muts.append(1 if r is True else 0 if r is False else 9)
        except TypeError:
            muts.append(2)
        except Exception:
            muts.append(9)
    reprs = []
    for v in req.get("reprs", []):
        try:
            reprs.append(repr(build(v)))
        except Exception:
            reprs.append(None)
    json.dump({"cases": out, "reprs": reprs, "mutations": muts}, sys.stdout)


main()
