"""Stub generator plugin used by r_loader.captured_main: records that it ran and writes one file (so a run that reaches
the plugin is visible in the output directory)."""
import os

EVENTS = []


def generate(spec, output_dir, test_dir):
    EVENTS.append("plugin")
    os.makedirs(output_dir, exist_ok=True)
    with open(os.path.join(output_dir, "stub.txt"), "w") as f:
        f.write("ran\n")
