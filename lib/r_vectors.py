"""Real-code runner for C17: is a test vector accepted by the real Python converter?
Exactly what tests/python/test_generated_data.py does: the class is `getattr(lsprotocol.types, <first part of the file name>)`,
the data is json.loads of the file, acceptance is `converter.structure(data, cls)` not raising.
stdin : JSON {"dir": <vector dir>, "files": [file name, ...]}   or   {"inline": [[class name, json text], ...]}
stdout: JSON {"results": [[accepted: bool, error text], ...]}
"""
import json
import os
import sys

import lsprotocol.converters as cv
import lsprotocol.types as lsp

converter = cv.get_converter()


def accept(type_name, text):
    try:
        lsp_type = getattr(lsp, type_name)
    except AttributeError:
        return [False, "lsprotocol.types has no attribute %s" % type_name]
    try:
        data = json.loads(text)
        converter.structure(data, lsp_type)
        return [True, ""]
    except Exception as e:  # the test treats every exception as rejection
        return [False, ("%s: %s" % (type(e).__name__, e))[:400]]


def main():
    req = json.load(sys.stdin)
    res = []
    if "inline" in req:
        for type_name, text in req["inline"]:
            res.append(accept(type_name, text))
    else:
        for fn in req["files"]:
            type_name = fn.split("-", 2)[0]
            with open(os.path.join(req["dir"], fn), encoding="utf-8") as f:
                res.append(accept(type_name, f.read()))
    json.dump({"results": res}, sys.stdout)


if __name__ == "__main__":
    main()
