"""emit_modstate — module-level mutable state of the generator (property C16: output must not depend on what the
process generated before).  TRUSTED syntactic analysis, used by lib/x_emit.py; fail-closed.

Scope: every *.py below generator/ (model.py, __main__.py, plugins/*/*.py).  State that survives a generation inside one
Python process is exactly what hangs off the module objects: module-level names, class-level attributes, function attributes,
default-argument values and functools caches.  For each of them one site is produced:

  kind modstate   a module-level name (or class-level attribute `Class.attr`) that is bound to a possibly mutable value
                  (list/dict/set/bytearray/deque/defaultdict literal, constructor or comprehension; iterator / generator /
                  itertools object; any other call result = unknown object), or that ANY function rebinds or mutates
  kind default    a default-argument value that is possibly mutable
  kind memo       a function decorated with functools.lru_cache / cache / cached_property / anything named *cache* / *memo*

Decision (class):
  SModState  (NOT covered)  some function body (code that runs after import) can change the state:
        `global X` + assignment / augmented assignment / del / for-target / with-as / import of X,
        `mod.X = ...` through an import alias of the module,
        a store or delete through the name:  X[...] = v, X.a = v, X[...].a += v, del X[k]          (X the root of the target),
        a mutating method on the name or on anything reached through it:  X.append/extend/insert/pop/remove/clear/sort/
        reverse/add/update/discard/setdefault/popitem/..., next(X), and — for an unknown object — any method that is not a
        known read-only one,
        the same through an alias: a local variable assigned from X, a parameter of a generator function X is passed to, a
        parameter whose default value is X, a loop variable over X / an element X[k] when the elements are not provably immutable,
        an escape the analysis does not follow (passed to a function outside generator/, unpacked with */**, alias depth > 4);
        "shared into run data" — the object is returned, inserted into / stored on some other object — unless the package
        it happens in performs NO in-place mutation of data that was not created in the same function (then nothing can
        mutate it later);
        a functools cache whose function is not provably a pure function of immutable arguments.
  SModConst  (covered by Emit.const_state_history_independent)   possibly mutable, but no function can change it: every use
        in every function of generator/ is a read (iteration, `in`, subscript/attribute load, len/sorted/list/..., comparison,
        formatting, read-only method) — constant after import.  Containers carry a nesting depth computed from their
        import-time definition (list of strings = 1, dict of lists of strings = 2, unknown = follow every element): what is taken
        out of a depth-1 container is immutable and not followed; list(X) / sorted(X) / X + [...] are fresh copies whose own
        mutation is harmless while their elements stay shared.
  SMemoPure  (covered by Emit.memo_history_independent)   functools cache on a function whose parameters are all annotated
        with immutable scalar types (str/int/bool/float/bytes, Optional/Tuple of those) and whose body reads only its
        parameters, builtins, imported library modules, immutable module constants, constant (SModConst) module state and
        other functions of generator/ that are pure in the same sense; no randomness/time/listing call, no global/nonlocal.
Module-level names bound to immutable values (str/int/tuple/frozenset constants, compiled regular expressions, paths, loggers,
typing constructs, functions, classes, imported names) and never rebound by a function produce no site; they are counted.
Loggers / compiled patterns / paths are treated as immutable handles: their internal state does not reach the output
(Emit.view_state_history_independent: state outside the view the output depends on may change).
Import-time code (module body, class bodies, decorators, default values) may mutate freely: it runs once, before any generation.
NOT covered by this analysis (trusted / left to the in-process history stream of lib/props/c16.py): state inside library modules
(logging, re caches, importlib), setattr/getattr/globals()/vars()/exec tricks (reported fail-closed when they name a module:
see `dynamic`), objects reachable only through closures created at import time.
"""
import ast
import os

GEN_PKG = "generator"

MUTATORS = {"append", "extend", "insert", "pop", "remove", "clear", "sort", "reverse", "add", "update", "discard", "setdefault",
            "popitem", "difference_update", "intersection_update", "symmetric_difference_update", "appendleft", "extendleft",
            "popleft", "rotate", "move_to_end", "subtract", "__setitem__", "__delitem__", "__iadd__", "__ior__", "__next__", "send",
            "throw", "close", "write", "writelines", "truncate", "seek", "cache_clear"}
READ_METHODS = {"get", "keys", "values", "items", "copy", "index", "count", "union", "intersection", "difference", "symmetric_difference",
                "issubset", "issuperset", "isdisjoint", "__contains__", "__getitem__", "__len__", "__iter__", "most_common", "elements",
                # str / path / regex / logger style read-only methods (handles)
                "join", "format", "startswith", "endswith", "split", "strip", "lower", "upper", "replace", "match", "search", "sub", "fullmatch",
                "findall", "finditer", "exists", "is_file", "is_dir", "read_text", "read_bytes", "glob", "rglob", "iterdir", "resolve",
                "debug", "info", "warning", "error", "exception", "critical", "log"}
SCALAR_FUNCS = {"len", "any", "all", "sum", "isinstance", "issubclass", "str", "repr", "print", "bool", "type", "format", "int", "float", "callable",
                "hasattr", "dumps", "dump", "fspath", "deepcopy"}
COPY_FUNCS = {"sorted", "list", "tuple", "set", "frozenset", "dict", "enumerate", "zip", "map", "filter", "reversed", "iter", "min", "max",
              "chain", "getattr", "copy"}
INSERTERS = {"append", "add", "extend", "insert", "update", "setdefault", "appendleft", "__setitem__"}
CONTAINER_CTORS = {"list", "dict", "set", "bytearray", "deque", "defaultdict", "OrderedDict", "Counter", "ChainMap", "array"}
ITER_CTORS = {"iter", "map", "filter", "zip", "enumerate", "reversed", "count", "cycle", "repeat", "chain", "islice", "accumulate", "product",
              "permutations", "combinations", "open", "StringIO", "BytesIO", "Random", "SystemRandom"}
HANDLE_CTORS = {"compile", "getLogger", "Path", "PurePath", "PurePosixPath", "PosixPath", "TypeVar", "NewType", "namedtuple", "files", "fspath",
                "join", "dirname", "abspath", "basename", "realpath", "getenv", "str", "int", "float", "bool", "bytes", "tuple", "frozenset", "len",
                "min", "max", "sum", "abs", "round", "ord", "chr", "range", "getcwd", "Literal"}
STR_TO_LIST = {"split", "splitlines", "rsplit"}
STR_TO_STR = {"strip", "lstrip", "rstrip", "lower", "upper", "replace", "format", "join", "title", "capitalize", "encode", "decode", "zfill",
              "removeprefix", "removesuffix", "with_suffix", "with_name", "joinpath", "resolve", "absolute", "expanduser"}
TYPING_NAMES = {"Union", "Optional", "List", "Dict", "Set", "Tuple", "Type", "Callable", "Iterable", "Sequence", "Mapping", "Any", "Literal",
                "FrozenSet", "Iterator", "Generator", "Annotated", "ClassVar", "Final"}
FIELD_CTORS = {"field", "ib", "attrib", "Factory"}
MEMO_WORDS = ("cache", "memo")
PURE_ANNOT = {"str", "int", "bool", "float", "bytes", "None"}
IMPURE_CALLS = {"uuid", "random", "secrets", "time", "datetime", "os", "sys", "subprocess", "glob", "shutil", "tempfile", "socket"}
IMPURE_FUNCS = {"id", "hash", "open", "input", "print", "next", "globals", "locals", "vars", "setattr", "delattr", "exec", "eval", "__import__"}
DYNAMIC_FUNCS = {"setattr", "delattr", "globals", "vars", "exec", "eval"}
FUNC_NODES = (ast.FunctionDef, ast.AsyncFunctionDef, ast.Lambda)
COMP_NODES = (ast.ListComp, ast.SetComp, ast.DictComp, ast.GeneratorExp)
MAXDEPTH = 4


def dotted(e):
    parts = []
    while isinstance(e, ast.Attribute):
        parts.append(e.attr)
        e = e.value
    if isinstance(e, ast.Name):
        parts.append(e.id)
        return ".".join(reversed(parts))
    return None


def parent(n):
    return getattr(n, "_parent", None)


def enclosing(n, kinds):
    p = parent(n)
    while p is not None and not isinstance(p, kinds):
        p = parent(p)
    return p


class Binding:
    def __init__(self, mod, name, owner=None):
        self.mod, self.name, self.owner = mod, name, owner     # owner: ClassDef for class-level attributes
        self.values = []          # (stmt, value expression or None)
        self.kind, self.nest, self.note = "imm", 0, ""
        self.alias_of = None
        self.line = None
        self.results = []         # (verdict, why) of every use inside functions
        self.nuses = 0

    @property
    def qual(self):
        return (self.owner.name + "." if self.owner is not None else "") + self.name


class Mod:
    def __init__(self, name, path, rel, is_pkg):
        self.name, self.path, self.rel, self.is_pkg = name, path, rel, is_pkg
        self.tree = ast.parse(open(path).read(), filename=path)
        for n in ast.walk(self.tree):
            for ch in ast.iter_child_nodes(n):
                ch._parent = n
        self.bindings = {}        # module-level name -> Binding
        self.classattrs = {}      # (class name, attr) -> Binding
        self.imports = {}         # local name -> ("mod", modname) | ("attr", modname, attr) | ("ext", dotted)
        self.package = name if is_pkg else name.rsplit(".", 1)[0]


class Analysis:
    def __init__(self, repo):
        self.repo = repo
        self.root = os.path.join(repo, GEN_PKG)
        self.mods = {}
        for dp, dns, fns in sorted(os.walk(self.root)):
            dns[:] = sorted(d for d in dns if d != "__pycache__")
            for fn in sorted(fns):
                if fn.endswith(".py"):
                    path = os.path.join(dp, fn)
                    rel = os.path.relpath(path, repo)
                    parts = rel[:-3].split(os.sep)
                    is_pkg = parts[-1] == "__init__"
                    if is_pkg:
                        parts = parts[:-1]
                    m = Mod(".".join(parts), path, rel.replace(os.sep, "/"), is_pkg)
                    self.mods[m.name] = m
        self.sites = []
        self.immutable_names = 0
        self.dynamic = []         # setattr / globals() / vars() / exec inside functions
        for m in self.mods.values():
            self.collect(m)
        for m in self.mods.values():
            for b in list(m.bindings.values()) + list(m.classattrs.values()):
                self.kind_binding(b)

    # ------------------------------------------------------------------ import-time bindings
    def import_time_stmts(self, body):
        """statements executed at import, not entering function bodies; class bodies are yielded as ClassDef"""
        for st in body:
            yield st
            for fld in ("body", "orelse", "finalbody", "handlers"):
                if isinstance(st, (ast.If, ast.Try, ast.With, ast.For, ast.While, ast.ExceptHandler)) or (hasattr(ast, "TryStar") and isinstance(st, getattr(ast, "TryStar"))):
                    sub = getattr(st, fld, None)
                    if sub:
                        yield from self.import_time_stmts(sub)

    def abs_module(self, m, node):
        if node.level:
            base = m.name.split(".") if m.is_pkg else m.name.split(".")[:-1]
            base = base[:len(base) - (node.level - 1)] if node.level > 1 else base
            return ".".join(base + ([node.module] if node.module else []))
        return node.module or ""

    def collect(self, m):
        def bind(table, name, stmt, value, owner=None):
            b = table.get(name if owner is None else (owner.name, name))
            if b is None:
                b = Binding(m, name, owner)
                b.line = stmt.lineno
                table[name if owner is None else (owner.name, name)] = b
            b.values.append((stmt, value))

        def targets(t, value, stmt, table, owner):
            if isinstance(t, ast.Name):
                bind(table, t.id, stmt, value, owner)
            elif isinstance(t, (ast.Tuple, ast.List)):
                vs = value.elts if isinstance(value, (ast.Tuple, ast.List)) and len(value.elts) == len(t.elts) else [None] * len(t.elts)
                for tt, vv in zip(t.elts, vs):
                    targets(tt, vv if vv is not None else ast.Call(func=ast.Name(id="<unpacked>", ctx=ast.Load()), args=[], keywords=[]), stmt, table, owner)
            elif isinstance(t, ast.Starred):
                targets(t.value, ast.List(elts=[], ctx=ast.Load()), stmt, table, owner)

        def stmts(body, table, owner):
            for st in self.import_time_stmts(body):
                if isinstance(st, ast.Assign):
                    for t in st.targets:
                        targets(t, st.value, st, table, owner)
                elif isinstance(st, ast.AnnAssign) and st.value is not None:
                    targets(st.target, st.value, st, table, owner)
                elif isinstance(st, ast.AugAssign):
                    targets(st.target, st.value, st, table, owner)
                elif isinstance(st, (ast.For, ast.AsyncFor)):
                    targets(st.target, None if False else ast.Call(func=ast.Name(id="<loop variable>", ctx=ast.Load()), args=[], keywords=[]), st, table, owner)
                elif isinstance(st, (ast.With, ast.AsyncWith)):
                    for it in st.items:
                        if it.optional_vars is not None:
                            targets(it.optional_vars, it.context_expr, st, table, owner)
                elif isinstance(st, (ast.FunctionDef, ast.AsyncFunctionDef, ast.ClassDef)):
                    bind(table, st.name, st, st, owner)
                    if isinstance(st, ast.ClassDef) and owner is None:
                        stmts(st.body, m.classattrs, st)
                elif isinstance(st, ast.Import) and owner is None:
                    for a in st.names:
                        if a.asname:
                            m.imports[a.asname] = ("mod", a.name) if a.name in self.mods else ("ext", a.name)
                        else:
                            top = a.name.split(".")[0]
                            m.imports[top] = ("mod", top) if top in self.mods else ("ext", top)
                elif isinstance(st, ast.ImportFrom) and owner is None:
                    src = self.abs_module(m, st)
                    for a in st.names:
                        local = a.asname or a.name
                        if src + "." + a.name in self.mods:
                            m.imports[local] = ("mod", src + "." + a.name)
                        elif src in self.mods:
                            m.imports[local] = ("attr", src, a.name)
                        else:
                            m.imports[local] = ("ext", src + "." + a.name)
        stmts(m.tree.body, m.bindings, None)

    # ------------------------------------------------------------------ kinds of import-time values
    @staticmethod
    def nest_of(ks):
        """nesting of a container whose elements have the kinds ks: 1 + deepest element, None when an element is unknown"""
        n = 0
        for k in ks:
            if k[0] in ("imm", "handle"):
                continue
            if k[0] in ("container", "alias") and k[1] is not None:
                n = max(n, k[1])
            else:
                return None
        return n + 1

    def kind_of(self, e, m, depth=0):
        """(kind, nest, note); kind in imm | handle | container | iterator | object | alias.
        nest: 0 = immutable value, k >= 1 = container whose elements have nest <= k-1, None = unknown object graph"""
        if e is None or depth > 6:
            return ("object", None, "unknown value")
        if isinstance(e, (ast.FunctionDef, ast.AsyncFunctionDef, ast.ClassDef, ast.Lambda)):
            return ("imm", 0, "function/class")
        if isinstance(e, (ast.Constant, ast.JoinedStr)):
            return ("imm", 0, "constant")
        if isinstance(e, (ast.List, ast.Set)):
            ks = [self.kind_of(x.value if isinstance(x, ast.Starred) else x, m, depth + 1) for x in e.elts]
            if any(isinstance(x, ast.Starred) for x in e.elts):
                ks = [(k[0], (k[1] - 1) if k[1] else k[1], k[2]) if k[0] in ("container", "alias") and k[1] else k for k in ks]
            return ("container", self.nest_of(ks), type(e).__name__.lower() + " literal")
        if isinstance(e, ast.Tuple):
            ks = [self.kind_of(x, m, depth + 1) for x in e.elts]
            if all(k[0] in ("imm", "handle") for k in ks):
                return ("imm", 0, "tuple of immutables")
            return ("container", self.nest_of(ks), "tuple with mutable elements")
        if isinstance(e, ast.Dict):
            ks = [self.kind_of(x, m, depth + 1) for x in e.values if x is not None]
            return ("container", self.nest_of(ks) if all(k is not None for k in e.keys) else None, "dict literal")
        if isinstance(e, (ast.ListComp, ast.SetComp, ast.DictComp)):
            elt = e.value if isinstance(e, ast.DictComp) else e.elt
            k = self.kind_of(elt, m, depth + 1) if isinstance(elt, (ast.Constant, ast.JoinedStr, ast.Tuple)) else ("object", None, "")
            return ("container", 1 if k[0] == "imm" else None, "comprehension")
        if isinstance(e, ast.GeneratorExp):
            return ("iterator", None, "generator expression")
        if isinstance(e, ast.Call):
            d = dotted(e.func)
            last = d.split(".")[-1] if d else (e.func.attr if isinstance(e.func, ast.Attribute) else None)
            if d == "<unpacked>" or d == "<loop variable>":
                return ("object", None, d)
            if isinstance(e.func, ast.Attribute) and d is None:
                recv = self.kind_of(e.func.value, m, depth + 1)
                if recv[0] in ("imm", "handle"):
                    if last in STR_TO_LIST:
                        return ("container", 1, "list of strings from .%s()" % last)
                    return ("handle", 0, "method .%s() of an immutable value" % last)
                return ("object", None, "result of .%s()" % last)
            if last == "frozenset":
                return ("imm", 0, "frozenset")
            if last in CONTAINER_CTORS:
                if not e.args and not e.keywords:
                    return ("container", 1, "empty %s()" % last)
                if last == "defaultdict":
                    return ("container", None, "defaultdict")
                ks = [self.kind_of(x, m, depth + 1) for x in e.args]
                kw = [self.kind_of(k.value, m, depth + 1) for k in e.keywords]
                ns = [k[1] if k[0] in ("container", "alias") else (1 if k[0] in ("imm", "handle") else None) for k in ks] + [self.nest_of([k]) for k in kw]
                return ("container", None if any(n is None for n in ns) else max(ns + [1]), "%s(...)" % last)
            if last in FIELD_CTORS:
                for k in e.keywords:
                    if k.arg == "default":
                        kk = self.kind_of(k.value, m, depth + 1)
                        if kk[0] not in ("imm", "handle"):
                            return (kk[0], kk[1], "field default shared by all instances: " + kk[2])
                return ("imm", 0, "attrs/dataclass field declaration")
            if last in ITER_CTORS and last not in HANDLE_CTORS:
                return ("iterator", None, "%s(...) object with internal position/state" % last)
            if last in HANDLE_CTORS or last in STR_TO_STR:
                return ("handle", 0, "%s(...)" % (d or last))
            if last in STR_TO_LIST:
                return ("container", 1, "list of strings from .%s()" % last)
            return ("object", None, "instance/result of %s(...)" % (d or last or "?"))
        if isinstance(e, ast.Subscript):
            d = dotted(e.value) or ""
            if d.split(".")[-1] in TYPING_NAMES or d.split(".")[0] in ("typing", "t"):
                return ("imm", 0, "typing construct")
            k = self.kind_of(e.value, m, depth + 1)
            if k[0] in ("imm", "handle") or (k[0] in ("container", "alias") and k[1] == 1):
                return ("handle", 0, "element of an immutable value")
            if k[0] in ("container", "alias") and k[1]:
                return ("container", k[1] - 1, "element of a nested container (shared with it)")
            return ("object", None, "element of a mutable value")
        if isinstance(e, ast.Name):
            if e.id in ("True", "False", "None", "__file__", "__name__"):
                return ("imm", 0, "constant")
            b = self.lookup(m, e.id)
            if b is not None and b.values and b.values[0][1] is not e:
                if b.kind == "?":
                    return ("object", None, "cyclic definition")
                self.kind_binding(b)
                if b.kind in ("imm", "handle"):
                    return (b.kind, 0, "same as " + b.name)
                return ("alias", b.nest, b)
            return ("imm", 0, "imported / builtin name")
        if isinstance(e, ast.Attribute):
            b = self.lookup_chain(m, e)
            if b is not None:
                self.kind_binding(b)
                if b.kind in ("imm", "handle"):
                    return (b.kind, 0, "same as " + b.name)
                return ("alias", b.nest, b)
            k = self.kind_of(e.value, m, depth + 1) if not isinstance(e.value, ast.Name) else ("imm", 0, "")
            if k[0] in ("imm", "handle"):
                return ("handle", 0, "attribute of an immutable value / imported module")
            return ("object", None, "attribute of a mutable value")
        if isinstance(e, (ast.BinOp, ast.BoolOp, ast.UnaryOp, ast.Compare, ast.IfExp)):
            subs = [x for x in ast.iter_child_nodes(e) if isinstance(x, ast.expr)]
            ks = [self.kind_of(x, m, depth + 1) for x in subs]
            kinds = {k[0] for k in ks}
            if kinds <= {"imm", "handle"}:
                return ("handle" if "handle" in kinds else "imm", 0, "expression over immutables")
            if kinds <= {"imm", "handle", "container", "alias"}:
                ns = [k[1] for k in ks if k[0] in ("container", "alias")]
                return ("container", None if any(n is None for n in ns) else max(ns), "expression over containers")
            return ("object", None, "expression")
        return ("object", None, type(e).__name__)

    def kind_binding(self, b):
        if getattr(b, "_kinded", False):
            return
        b._kinded = True
        b.kind = "?"
        rank = {"imm": 0, "handle": 1, "container": 2, "iterator": 3, "object": 4}
        best = ("imm", 0, "")
        for stmt, v in b.values:
            k = self.kind_of(v, b.mod)
            if k[0] == "alias":
                b.alias_of = k[2]
                k = (k[2].kind, k[2].nest, "alias of %s.%s" % (k[2].mod.name, k[2].qual))
            if rank.get(k[0], 4) > rank.get(best[0], 0):
                best = k
            elif k[0] == best[0] == "container":
                best = (k[0], None if (k[1] is None or best[1] is None) else max(k[1], best[1]), best[2])
        b.kind, b.nest, b.note = best
        # import-time stores into the container may put deeper values in
        if b.kind == "container" and b.nest is not None and b.owner is None:
            for n in self.import_time_nodes(b.mod):
                vals = None
                if isinstance(n, (ast.Assign, ast.AugAssign)):
                    tg = n.targets if isinstance(n, ast.Assign) else [n.target]
                    if any(isinstance(t, (ast.Subscript, ast.Attribute)) and self.root_name(t) == b.name for t in tg):
                        vals = [n.value]
                if isinstance(n, ast.Call) and isinstance(n.func, ast.Attribute) and n.func.attr in INSERTERS and self.root_name(n.func.value) == b.name:
                    vals = list(n.args) + [k.value for k in n.keywords]
                for v in vals or []:
                    k = self.kind_of(v, b.mod)
                    if k[0] in ("imm", "handle"):
                        continue
                    if k[0] in ("container", "alias") and k[1] is not None and b.nest is not None:
                        b.nest = max(b.nest, k[1] + 1)
                    else:
                        b.nest = None

    def import_time_nodes(self, m):
        stack = list(m.tree.body)
        while stack:
            n = stack.pop()
            if isinstance(n, FUNC_NODES):
                continue
            yield n
            stack.extend(ast.iter_child_nodes(n))

    @staticmethod
    def root_name(e):
        while isinstance(e, (ast.Attribute, ast.Subscript)):
            e = e.value
        return e.id if isinstance(e, ast.Name) else None

    # ------------------------------------------------------------------ name resolution
    def lookup(self, m, name, seen=()):
        """module-level binding that `name` denotes in module m (following from-imports inside generator/)"""
        if name in m.bindings:
            return m.bindings[name]
        imp = m.imports.get(name)
        if imp and imp[0] == "attr" and (imp[1], imp[2]) not in seen:
            return self.lookup(self.mods[imp[1]], imp[2], seen + ((imp[1], imp[2]),))
        return None

    def lookup_chain(self, m, attr_node):
        """binding denoted by an attribute chain  alias.X  /  generator.model.X  (None if it is not module state)"""
        d = dotted(attr_node)
        if not d:
            return None
        parts = d.split(".")
        imp = m.imports.get(parts[0])
        if not imp or imp[0] != "mod":
            return None
        cur = imp[1]
        i = 1
        while i < len(parts) and cur + "." + parts[i] in self.mods:
            cur = cur + "." + parts[i]
            i += 1
        if i == len(parts) - 1 and cur in self.mods:
            return self.lookup(self.mods[cur], parts[i])
        return None

    def local_names(self, fn):
        """names local to a function / lambda / comprehension scope"""
        out, glob = set(), set()
        if isinstance(fn, COMP_NODES):
            for g in fn.generators:
                for n in ast.walk(g.target):
                    if isinstance(n, ast.Name):
                        out.add(n.id)
            return out, glob
        a = fn.args
        for x in a.posonlyargs + a.args + a.kwonlyargs + ([a.vararg] if a.vararg else []) + ([a.kwarg] if a.kwarg else []):
            out.add(x.arg)
        if isinstance(fn, ast.Lambda):
            return out, glob
        stack = list(fn.body)
        while stack:
            n = stack.pop()
            if isinstance(n, (ast.FunctionDef, ast.AsyncFunctionDef, ast.ClassDef)):
                out.add(n.name)
                continue
            if isinstance(n, (ast.Lambda,) + COMP_NODES):
                continue
            if isinstance(n, ast.Global):
                glob.update(n.names)
            elif isinstance(n, ast.Nonlocal):
                out.update(n.names)
            elif isinstance(n, ast.Name) and isinstance(n.ctx, (ast.Store, ast.Del)):
                out.add(n.id)
            elif isinstance(n, (ast.Import, ast.ImportFrom)):
                for al in n.names:
                    out.add((al.asname or al.name).split(".")[0])
            elif isinstance(n, ast.ExceptHandler) and n.name:
                out.add(n.name)
            stack.extend(ast.iter_child_nodes(n))
        return out - glob, glob

    def scopes_of(self, node):
        """enclosing function-like scopes of a node, innermost first; a default value / decorator / annotation of a function
        belongs to the scope that DEFINES the function"""
        out = []
        child, p = node, parent(node)
        while p is not None:
            if isinstance(p, FUNC_NODES):
                in_body = (isinstance(p, ast.Lambda) and child is p.body) or (not isinstance(p, ast.Lambda) and any(child is s for s in p.body))
                if in_body:
                    out.append(p)
            elif isinstance(p, COMP_NODES):
                # the first iterable is evaluated in the enclosing scope
                if not (isinstance(child, ast.comprehension) and False):
                    out.append(p)
            child, p = p, parent(p)
        return out

    def is_global_ref(self, name_node):
        """(True, innermost function) when the Name denotes a module-level name from inside code that runs after import"""
        scopes = self.scopes_of(name_node)
        funcs = [s for s in scopes if isinstance(s, FUNC_NODES)]
        if not funcs:
            return False, None
        for s in scopes:
            key = id(s)
            if key not in self._locals:
                self._locals[key] = self.local_names(s)
            loc, glob = self._locals[key]
            if name_node.id in glob:
                return True, funcs[0]
            if name_node.id in loc:
                return False, None
        return True, funcs[0]

    # ------------------------------------------------------------------ use classification
    def top_chain(self, node):
        """largest Attribute/Subscript chain that has `node` as its root value"""
        top = node
        while isinstance(parent(top), (ast.Attribute, ast.Subscript)) and parent(top).value is top:
            top = parent(top)
        return top

    def fresh_locals(self, fn):
        """local names of fn that only ever hold values created inside fn (literals, comprehensions, constructor calls of
        builtin containers, string operations)"""
        key = ("fresh", id(fn))
        if key in self._locals:
            return self._locals[key]
        cand, bad = set(), set()
        if isinstance(fn, ast.Lambda):
            self._locals[key] = set()
            return set()
        for n in ast.walk(fn):
            tv = []
            if isinstance(n, ast.Assign):
                tv = [(t, n.value) for t in n.targets]
            elif isinstance(n, ast.AnnAssign) and n.value is not None:
                tv = [(n.target, n.value)]
            elif isinstance(n, (ast.For, ast.AsyncFor, ast.comprehension)):
                for x in ast.walk(n.target):
                    if isinstance(x, ast.Name):
                        bad.add(x.id)
            elif isinstance(n, (ast.With, ast.AsyncWith)):
                for it in n.items:
                    if it.optional_vars is not None:
                        for x in ast.walk(it.optional_vars):
                            if isinstance(x, ast.Name):
                                bad.add(x.id)
            for t, v in tv:
                if isinstance(t, ast.Name):
                    fresh = isinstance(v, (ast.List, ast.Dict, ast.Set, ast.ListComp, ast.SetComp, ast.DictComp, ast.Constant, ast.JoinedStr)) or \
                        (isinstance(v, ast.Call) and isinstance(v.func, ast.Name) and v.func.id in CONTAINER_CTORS | {"sorted", "str", "tuple"}) or \
                        (isinstance(v, ast.Call) and (dotted(v.func) or "").split(".")[-1] in CONTAINER_CTORS | {"deepcopy"})
                    (cand if fresh else bad).add(t.id)
                else:
                    for x in ast.walk(t):
                        if isinstance(x, ast.Name) and isinstance(x.ctx, ast.Store):
                            bad.add(x.id)
        a = fn.args
        for x in a.posonlyargs + a.args + a.kwonlyargs + ([a.vararg] if a.vararg else []) + ([a.kwarg] if a.kwarg else []):
            bad.add(x.arg)
        self._locals[key] = cand - bad
        return self._locals[key]

    def foreign_mutations(self, package, skip_call=None):
        """in-place mutations, inside functions of a package, of data that was not created in the same function"""
        out = []
        for m in self.mods.values():
            if m.package != package:
                continue
            for n in ast.walk(m.tree):
                tgt, what = None, None
                if isinstance(n, (ast.Attribute, ast.Subscript)) and isinstance(n.ctx, (ast.Store, ast.Del)):
                    tgt, what = n, "store to " + ast.unparse(n)[:50]
                elif isinstance(n, ast.Call) and isinstance(n.func, ast.Attribute) and n.func.attr in MUTATORS:
                    if n is skip_call:
                        continue
                    tgt, what = n.func, "call of " + ast.unparse(n.func)[:50]
                if tgt is None:
                    continue
                fns = [s for s in self.scopes_of(n) if isinstance(s, FUNC_NODES)]
                if not fns:
                    continue                                   # import time
                root = tgt.value
                depth = 0
                while isinstance(root, (ast.Attribute, ast.Subscript)):
                    root = root.value
                    depth += 1
                if not isinstance(root, ast.Name):
                    if isinstance(root, (ast.List, ast.Dict, ast.Set, ast.ListComp, ast.Constant, ast.JoinedStr)):
                        continue
                    out.append((m.rel, n.lineno, what))
                    continue
                if root.id in ("self", "cls") and depth <= 1:
                    continue                                   # the object's own field
                if any(root.id in self.fresh_locals(f) for f in fns):
                    continue
                out.append((m.rel, n.lineno, what))
        return out

    def callee_params(self, m, call, argnode):
        """[(function node, parameter name)] for the generator functions a call may reach, or None when unknown"""
        f = call.func
        cands = []
        if isinstance(f, ast.Name):
            ok, _ = self.is_global_ref(f)
            b = self.lookup(m, f.id) if ok else None
            if b is not None:
                cands = [v for _, v in b.values if isinstance(v, (ast.FunctionDef, ast.AsyncFunctionDef))]
                cls = [v for _, v in b.values if isinstance(v, ast.ClassDef)]
                for c in cls:
                    cands += [x for x in c.body if isinstance(x, ast.FunctionDef) and x.name == "__init__"]
        elif isinstance(f, ast.Attribute):
            b = self.lookup_chain(m, f)
            if b is not None:
                cands = [v for _, v in b.values if isinstance(v, (ast.FunctionDef, ast.AsyncFunctionDef))]
            else:
                for mm in self.mods.values():
                    if mm.package == m.package:
                        for n in ast.walk(mm.tree):
                            if isinstance(n, ast.ClassDef):
                                cands += [x for x in n.body if isinstance(x, (ast.FunctionDef, ast.AsyncFunctionDef)) and x.name == f.attr]
        if not cands:
            return None
        res = []
        for fn in cands:
            params = [a.arg for a in fn.args.posonlyargs + fn.args.args]
            is_method = isinstance(parent(fn), ast.ClassDef) and not any((dotted(d) or "") == "staticmethod" for d in fn.decorator_list)
            if is_method and (isinstance(f, ast.Attribute) or fn.name == "__init__") and params:
                params = params[1:]
            pname = None
            for i, a in enumerate(call.args):
                if a is argnode:
                    if isinstance(a, ast.Starred):
                        return None
                    pname = params[i] if i < len(params) else (fn.args.vararg.arg if fn.args.vararg else None)
            for k in call.keywords:
                if k.value is argnode:
                    pname = k.arg if k.arg else None
            if pname is None:
                return None
            res.append((fn, pname))
        return res

    def var_uses(self, fn, name):
        return [n for n in ast.walk(fn) if isinstance(n, ast.Name) and n.id == name and isinstance(n.ctx, ast.Load)]

    @staticmethod
    def elem(kind, nest, levels=1):
        """(kind, nest) of what is reached `levels` element/attribute steps below a value"""
        for _ in range(levels):
            if kind in ("imm", "handle") or nest in (0, 1):
                return ("imm", 0)
            if nest is None or kind in ("object", "iterator"):
                return ("object", None)
            kind, nest = "container", nest - 1
        return (kind, nest)

    QUIET_METHODS = ("keys", "index", "count", "issubset", "issuperset", "isdisjoint", "__contains__", "__len__", "join", "format", "startswith", "endswith",
                     "debug", "info", "warning", "error", "exception", "critical", "log")

    def use(self, node, m, kind, nest, depth, what):
        """verdict for one Load occurrence `node` of a value that is (an alias of) module state.
        kind: container | copy (a fresh shallow copy: only its elements are shared) | object | iterator | handle | imm
        -> ("read"|"mut"|"escape"|"shared", why[, extra])"""
        if kind == "imm" or nest == 0:
            return ("read", "immutable value")
        if depth > MAXDEPTH:
            return ("escape", "alias depth exceeded at %s:%d" % (m.rel, node.lineno))
        top = self.top_chain(node)
        p = parent(top)
        here = "%s:%d" % (m.rel, getattr(node, "lineno", 0))
        levels = 0
        x = node
        while x is not top:
            x = parent(x)
            levels += 1
        is_method = isinstance(top, ast.Attribute) and isinstance(p, ast.Call) and p.func is top
        # stores / deletes through the value
        stored = levels > 0 and (isinstance(top.ctx, (ast.Store, ast.Del)) or (isinstance(p, ast.AugAssign) and p.target is top))
        if stored:
            if kind == "copy" and levels == 1:
                return ("read", "store into a fresh copy")
            if kind == "handle":
                return ("mut", "attribute of a module-level handle assigned `%s` at %s" % (ast.unparse(top)[:60], here))
            return ("mut", "%s `%s` at %s" % ("deleted" if isinstance(top.ctx, ast.Del) else "assigned", ast.unparse(p if isinstance(p, ast.AugAssign) else top)[:60], here))
        if is_method:
            meth = top.attr
            rk, rn = self.elem(kind, nest, levels - 1) if levels > 1 else (kind, nest)       # the receiver
            if rk == "imm":
                return ("read", "method of an immutable element")
            if rk == "handle":
                return ("read", "method of a handle")
            if meth in MUTATORS:
                if rk == "copy":
                    return ("read", "mutation of a fresh copy")
                return ("mut", "mutating call `%s(...)` at %s" % (ast.unparse(top)[:60], here))
            if meth in READ_METHODS:
                if meth in self.QUIET_METHODS:
                    return ("read", "read-only method .%s()" % meth)
                if rk in ("container", "copy"):
                    if meth == "items":
                        res = ("copy", None if rn is None else rn + 1)
                    elif meth in ("get", "__getitem__"):
                        res = self.elem(rk, rn)
                    else:
                        res = ("copy", rn)
                else:
                    res = ("object", None)
                if res[0] == "imm" or res[1] in (0, 1):
                    return ("read", "read-only method .%s() yielding immutables" % meth)
                return self.flow(p, m, res[0], res[1], depth, what + " via .%s()" % meth)
            return ("mut", "method `%s(...)` of unknown effect on module-level state at %s" % (ast.unparse(top)[:60], here))
        if levels > 0:
            ek, en = self.elem(kind, nest, levels)
            if ek == "imm":
                return ("read", "immutable element")
            return self.flow(top, m, ek, en, depth, what + " element")
        if kind == "iterator":
            if isinstance(p, ast.Call) and isinstance(p.func, ast.Name) and p.func.id in ("isinstance", "type", "repr", "id") and p.func is not node:
                return ("read", "type test")
            return ("mut", "iterator/stateful object consumed at %s" % here)
        if isinstance(p, ast.Call) and p.func is node:
            if kind == "object":
                return ("mut", "call of a module-level callable object (may carry state) at %s" % here)
            return ("read", "called")
        return self.flow(node, m, kind, nest, depth, what)

    def flow(self, node, m, kind, nest, depth, what):
        """where does the value of expression `node` (a possibly mutable value of the given kind) go"""
        if kind == "imm" or nest == 0:
            return ("read", "immutable value")
        p = parent(node)
        here = "%s:%d" % (m.rel, getattr(node, "lineno", 0))
        elems_imm = kind == "handle" or nest == 1            # whatever is taken OUT of it is immutable
        if p is None:
            return ("escape", "no consumer at " + here)
        if isinstance(p, (ast.Attribute, ast.Subscript)) and p.value is node:
            return self.use(node, m, kind, nest, depth + 1, what)       # an expression that is itself the root of a chain
        if isinstance(p, ast.Subscript) and p.slice is node:
            return ("read", "used as an index")
        if isinstance(p, ast.Compare):
            return ("read", "comparison / membership test")
        if isinstance(p, ast.UnaryOp):
            return ("read", "truth value")
        if isinstance(p, ast.BoolOp):
            if isinstance(parent(p), (ast.If, ast.While, ast.IfExp, ast.BoolOp, ast.UnaryOp, ast.Assert)) and getattr(parent(p), "test", p) is p:
                return ("read", "truth value")
            return self.flow(p, m, kind, nest, depth, what)
        if isinstance(p, (ast.If, ast.While, ast.IfExp, ast.Assert)) and getattr(p, "test", None) is node:
            return ("read", "truth value")
        if isinstance(p, ast.IfExp):
            return self.flow(p, m, kind, nest, depth, what)
        if isinstance(p, (ast.FormattedValue, ast.JoinedStr)):
            return ("read", "formatted")
        if isinstance(p, ast.Expr):
            return ("read", "value discarded")
        if isinstance(p, (ast.For, ast.AsyncFor)) and p.iter is node:
            if elems_imm:
                return ("read", "iteration over immutables")
            ek, en = self.elem(kind, nest)
            return self.target_uses(p.target, p, m, ek, en, depth, what)
        if isinstance(p, ast.comprehension) and p.iter is node:
            if elems_imm:
                return ("read", "iteration over immutables")
            ek, en = self.elem(kind, nest)
            return self.target_uses(p.target, parent(p), m, ek, en, depth, what)
        if isinstance(p, ast.BinOp):
            if elems_imm or (isinstance(p.op, ast.Mod) and p.right is node):
                return ("read", "operand")
            return self.flow(p, m, "copy", nest, depth, what)
        if isinstance(p, ast.Starred):
            if elems_imm:
                return ("read", "unpacked immutables")
            return ("escape", "unpacked with * at " + here)
        if isinstance(p, ast.keyword):
            if p.arg is None:
                return ("read", "unpacked immutables") if elems_imm else ("escape", "unpacked with ** at " + here)
            return self.arg_flow(parent(p), node, m, kind, nest, depth, what)
        if isinstance(p, ast.Call):
            if p.func is node:
                return ("read", "called")
            return self.arg_flow(p, node, m, kind, nest, depth, what)
        if isinstance(p, (ast.Assign, ast.AnnAssign, ast.NamedExpr)) and p.value is node:
            tgs = p.targets if isinstance(p, ast.Assign) else [p.target]
            res = []
            for t in tgs:
                if isinstance(t, ast.Name):
                    fn = next((s for s in self.scopes_of(p) if isinstance(s, FUNC_NODES)), None)
                    if fn is None:
                        res.append(("read", "import-time alias"))
                        continue
                    ok, _ = self.is_global_ref(t)
                    if ok:
                        res.append(("escape", "assigned to the global %s at %s" % (t.id, here)))
                        continue
                    uses = self.var_uses(fn, t.id)
                    res += [self.use(u, m, kind, nest, depth + 1, "%s (as local %s)" % (what, t.id)) for u in uses] or [("read", "alias never used")]
                elif isinstance(t, (ast.Tuple, ast.List)):
                    if elems_imm:
                        res.append(("read", "unpacked immutables"))
                    else:
                        fn = next((s for s in self.scopes_of(p) if isinstance(s, FUNC_NODES)), None)
                        ek, en = self.elem(kind, nest)
                        res.append(self.target_uses(t, fn, m, ek, en, depth, what) if fn is not None else ("read", "import time"))
                else:
                    res.append(("shared", "stored into `%s` at %s" % (ast.unparse(t)[:50], here), (m, None)))
            return worst(res)
        if isinstance(p, (ast.Return, ast.Yield, ast.YieldFrom)):
            if kind == "copy" and elems_imm:
                return ("read", "fresh copy returned")
            return ("shared", "returned at " + here, (m, None))
        if isinstance(p, (ast.List, ast.Tuple, ast.Set, ast.Dict)):
            return ("shared", "put into a new container at " + here, (m, None))
        if isinstance(p, ast.arguments):
            # default value of a parameter: the parameter aliases the module state
            fn = parent(p)
            names = [a.arg for a in p.posonlyargs + p.args]
            pname = None
            if any(node is d for d in p.defaults):
                pname = names[len(names) - len(p.defaults) + [i for i, d in enumerate(p.defaults) if d is node][0]]
            elif any(node is d for d in p.kw_defaults):
                pname = p.kwonlyargs[[i for i, d in enumerate(p.kw_defaults) if d is node][0]].arg
            if pname is None:
                return ("escape", "default value at " + here)
            res = [self.use(u, m, kind, nest, depth + 1, "%s (as default of %s)" % (what, pname)) for u in self.var_uses(fn, pname)]
            return worst(res) if res else ("read", "default never used")
        if isinstance(p, ast.withitem):
            return ("escape", "context manager at " + here)
        return ("escape", "%s at %s" % (type(p).__name__, here))

    def target_uses(self, target, scope, m, kind, nest, depth, what):
        """uses of the names bound by a loop / unpacking target to values of (kind, nest)"""
        if kind == "imm" or nest == 0:
            return ("read", "immutable elements")
        res = []
        if isinstance(target, ast.Name):
            res += [self.use(u, m, kind, nest, depth + 1, "%s (element %s)" % (what, target.id)) for u in self.var_uses(scope, target.id)]
        elif isinstance(target, (ast.Tuple, ast.List)):
            ek, en = self.elem(kind, nest)
            for t in target.elts:
                res.append(self.target_uses(t.value if isinstance(t, ast.Starred) else t, scope, m, ek, en, depth, what))
        else:
            return ("escape", "loop target `%s`" % ast.unparse(target)[:40])
        return worst(res) if res else ("read", "elements never used")

    def arg_flow(self, call, node, m, kind, nest, depth, what):
        here = "%s:%d" % (m.rel, call.lineno)
        f = call.func
        fname = f.id if isinstance(f, ast.Name) else (f.attr if isinstance(f, ast.Attribute) else None)
        elems_imm = kind == "handle" or nest == 1
        if isinstance(f, ast.Name) and fname == "next" and call.args and call.args[0] is node:
            return ("mut", "next(...) at " + here)
        if fname in DYNAMIC_FUNCS and isinstance(f, ast.Name):
            return ("mut", "%s(...) on it at %s" % (fname, here))
        if fname in SCALAR_FUNCS:
            return ("read", "%s(...)" % fname)
        if fname in COPY_FUNCS:
            if elems_imm:
                return ("read", "%s(...) of immutables" % fname)
            if fname in ("min", "max", "getattr"):
                ek, en = self.elem(kind, nest)
                return self.flow(call, m, ek, en, depth + 1, what)
            if fname in ("enumerate", "zip"):
                return self.flow(call, m, "copy", None if nest is None else nest + 1, depth + 1, what)
            if fname in ("map", "filter"):
                return ("escape", "elements handed to %s(...) at %s" % (fname, here))
            return self.flow(call, m, "copy", nest, depth + 1, what)
        if isinstance(f, ast.Attribute) and fname in INSERTERS:
            return ("shared", "inserted into `%s` at %s" % (ast.unparse(f.value)[:50], here), (m, call))
        if isinstance(f, ast.Attribute) and fname in ("join", "format", "debug", "info", "warning", "error", "exception", "critical", "log", "write_text", "write"):
            return ("read", ".%s(...)" % fname)
        cal = self.callee_params(m, call, node)
        if cal is None:
            if kind == "handle":
                return ("read", "handle passed on")
            return ("escape", "passed to %s(...) at %s, which is not a function of generator/" % (ast.unparse(f)[:40], here))
        res = []
        for fn, pname in cal:
            fm = self.mod_of(fn)
            uses = self.var_uses(fn, pname)
            res += [self.use(u, fm, kind, nest, depth + 1, "%s (as parameter %s of %s)" % (what, pname, getattr(fn, "name", "<lambda>"))) for u in uses]
        return worst(res) if res else ("read", "parameter never used")

    def mod_of(self, node):
        while parent(node) is not None:
            node = parent(node)
        for m in self.mods.values():
            if m.tree is node:
                return m
        raise KeyError("module of node")

    # ------------------------------------------------------------------ driver
    def run(self):
        self._locals = {}
        # 1. every reference to a module-level name from code that runs after import
        for m in self.mods.values():
            for n in ast.walk(m.tree):
                if isinstance(n, ast.Name):
                    ok, fn = self.is_global_ref(n)
                    if not ok:
                        continue
                    b, refnode = None, n
                    imp = m.imports.get(n.id)
                    if n.id in m.bindings or (imp and imp[0] == "attr"):
                        b = self.lookup(m, n.id)
                    elif imp and imp[0] == "mod":
                        chain = n
                        while isinstance(parent(chain), ast.Attribute) and parent(chain).value is chain:
                            chain = parent(chain)
                            b = self.lookup_chain(m, chain)
                            if b is not None:
                                refnode = chain
                                break
                    if isinstance(n.ctx, (ast.Store, ast.Del)):
                        # only reachable with a `global` declaration
                        tgt = b if b is not None else self.ensure_binding(m, n.id, n)
                        tgt.results.append(("mut", "rebound by `global %s` in %s() at %s:%d" % (n.id, getattr(fn, "name", "<lambda>"), m.rel, n.lineno)))
                        continue
                    if b is None:
                        # dynamic access to module state
                        if n.id in DYNAMIC_FUNCS and isinstance(parent(n), ast.Call) and parent(n).func is n:
                            self.dynamic.append((m.rel, n.lineno, ast.unparse(parent(n))[:60]))
                        continue
                    self.ref(b, refnode, m)
                    # class-level attribute reached through the class name:  Cls.attr...
                    if any(isinstance(v, ast.ClassDef) for _, v in b.values) and isinstance(parent(refnode), ast.Attribute) and parent(refnode).value is refnode:
                        cb = b.mod.classattrs.get((b.name, parent(refnode).attr))
                        if cb is not None:
                            self.ref(cb, parent(refnode), m)
                elif isinstance(n, ast.Attribute) and isinstance(n.value, ast.Name) and n.value.id in ("self", "cls"):
                    cls = enclosing(n, ast.ClassDef)
                    if cls is not None and parent(cls) is m.tree and (cls.name, n.attr) in m.classattrs:
                        fns = [s for s in self.scopes_of(n) if isinstance(s, FUNC_NODES)]
                        if fns and not self.instance_shadow(cls, n.attr):
                            cb = m.classattrs[(cls.name, n.attr)]
                            if isinstance(n.ctx, ast.Store) and n.value.id == "self":
                                continue
                            self.ref(cb, n, m)
                # stores through a module alias:  mod.X = v
                if isinstance(n, ast.Attribute) and isinstance(n.ctx, (ast.Store, ast.Del)):
                    b = self.lookup_chain(m, n)
                    fns = [s for s in self.scopes_of(n) if isinstance(s, FUNC_NODES)]
                    if b is not None and fns:
                        b.results.append(("mut", "rebound through the module at %s:%d" % (m.rel, n.lineno)))
        # 1b. default values that are module state (evaluated at import, used by the function at every call)
        for m in self.mods.values():
            for fn in ast.walk(m.tree):
                if not isinstance(fn, FUNC_NODES):
                    continue
                a = fn.args
                names = [x.arg for x in a.posonlyargs + a.args]
                pairs = list(zip(names[len(names) - len(a.defaults):], a.defaults)) + [(k.arg, d) for k, d in zip(a.kwonlyargs, a.kw_defaults) if d is not None]
                for pname, d in pairs:
                    k = self.kind_of(d, m)
                    if k[0] == "alias" and not [x for x in self.scopes_of(d) if isinstance(x, FUNC_NODES)]:
                        root = k[2]
                        while root.alias_of is not None:
                            root = root.alias_of
                        root.nuses += 1
                        for u in self.var_uses(fn, pname):
                            root.results.append(self.use(u, m, root.kind, root.nest, 1, "%s (as default of %s)" % (root.qual, pname)))
        # 2. sites
        for m in self.mods.values():
            for b in list(m.bindings.values()) + list(m.classattrs.values()):
                self.site_for(b)
        self.memo_sites()
        self.default_sites()
        for rel, line, what in self.dynamic:
            self.sites.append({"file": rel, "line": line, "what": what, "kind": "modstate", "class": "SModState",
                               "why": "dynamic access to a namespace (setattr/globals/vars/exec) inside a function: cannot be followed"})
        return self.sites

    def ensure_binding(self, m, name, node):
        b = m.bindings.get(name)
        if b is None:
            b = Binding(m, name)
            b.line = node.lineno
            b._kinded = True
            b.kind, b.nest, b.note = "imm", 0, "created by a function through `global`"
            m.bindings[name] = b
        return b

    def instance_shadow(self, cls, attr):
        for st in cls.body:
            if isinstance(st, ast.FunctionDef) and st.name == "__init__":
                for n in ast.walk(st):
                    if isinstance(n, ast.Attribute) and n.attr == attr and isinstance(n.ctx, ast.Store) and isinstance(n.value, ast.Name) and n.value.id == "self":
                        return True
        return False

    def ref(self, b, node, m):
        b.nuses += 1
        root = b
        while root.alias_of is not None:
            root = root.alias_of
        kind, nest = b.kind, b.nest
        if kind in ("imm",) and not any(isinstance(v, (ast.FunctionDef, ast.AsyncFunctionDef, ast.ClassDef)) for _, v in b.values):
            return
        if kind == "imm":
            # function / class object: only stores through it matter (function attributes, class attributes)
            top = self.top_chain(node)
            if top is not node and (isinstance(top.ctx, (ast.Store, ast.Del)) or (isinstance(parent(top), ast.AugAssign) and parent(top).target is top)):
                root.results.append(("mut", "attribute `%s` of a module-level function/class assigned at %s:%d" % (ast.unparse(top)[:50], m.rel, node.lineno)))
            return
        r = self.use(node, m, kind, nest, 0, b.qual)
        root.results.append(r)
        if root is not b:
            b.results.append(r)

    def site_for(self, b):
        is_def = any(isinstance(v, (ast.FunctionDef, ast.AsyncFunctionDef, ast.ClassDef)) for _, v in b.values)
        muts = [r for r in b.results if r[0] == "mut"]
        escs = [r for r in b.results if r[0] == "escape"]
        shared = [r for r in b.results if r[0] == "shared"]
        what = "%s: %s" % (b.qual, b.note or b.kind)
        site = {"file": b.mod.rel, "line": b.line or 1, "what": what[:70], "kind": "modstate"}
        if muts:
            site.update({"class": "SModState", "why": "%s (%s) is changed by code that runs after import: %s" % (b.qual, b.note or b.kind, "; ".join(r[1] for r in muts[:3]))})
        elif b.kind in ("imm", "handle") or is_def:
            self.immutable_names += 1
            return
        elif escs:
            site.update({"class": "SModState", "why": "%s (%s) escapes the analysis: %s" % (b.qual, b.note, "; ".join(r[1] for r in escs[:3]))})
        else:
            bad = None
            for r in shared:
                mm, call = r[2]
                fm = self.foreign_mutations(mm.package, call)
                if fm:
                    bad = "%s, and package %s mutates non-local data in place (%s:%d %s%s)" % (r[1], mm.package, fm[0][0], fm[0][1], fm[0][2], ", +%d more" % (len(fm) - 1) if len(fm) > 1 else "")
                    break
            if bad:
                site.update({"class": "SModState", "why": "%s (%s) is shared into run data: %s" % (b.qual, b.note, bad)})
            else:
                extra = ("; shared into run data (%s) of a package without in-place mutation of non-local data" % shared[0][1]) if shared else ""
                site.update({"class": "SModConst", "why": "%s (%s): %d uses in functions, all read-only%s" % (b.qual, b.note, b.nuses, extra)})
        self.sites.append(site)

    # ------------------------------------------------------------------ functools caches
    def is_memo(self, dec):
        d = dotted(dec.func if isinstance(dec, ast.Call) else dec) or ""
        last = d.split(".")[-1].lower()
        return d if any(w in last for w in MEMO_WORDS) else None

    def pure_annotation(self, a):
        if a is None:
            return False
        if isinstance(a, ast.Constant):
            if a.value is None:
                return True
            if isinstance(a.value, str):
                try:
                    return self.pure_annotation(ast.parse(a.value, mode="eval").body)
                except SyntaxError:
                    return False
            return False
        if isinstance(a, ast.Name):
            return a.id in PURE_ANNOT
        if isinstance(a, ast.Subscript):
            base = (dotted(a.value) or "").split(".")[-1]
            if base in ("Optional", "Tuple", "tuple", "Union", "Literal", "FrozenSet", "frozenset"):
                if base == "Literal":
                    return True
                elts = a.slice.elts if isinstance(a.slice, ast.Tuple) else [a.slice]
                return all(self.pure_annotation(x) or (isinstance(x, ast.Constant) and x.value is Ellipsis) for x in elts)
        if isinstance(a, ast.BinOp) and isinstance(a.op, ast.BitOr):
            return self.pure_annotation(a.left) and self.pure_annotation(a.right)
        return False

    def pure_function(self, fn, m, seen):
        """None when pure, else the reason it is not provably pure"""
        key = id(fn)
        if key in seen:
            return None
        seen = seen | {key}
        a = fn.args
        if a.vararg or a.kwarg:
            return "takes *args/**kwargs"
        for x in a.posonlyargs + a.args + a.kwonlyargs:
            if not self.pure_annotation(x.annotation):
                return "parameter %s is not annotated with an immutable scalar type" % x.arg
        loc, glob = self.local_names(fn)
        if glob:
            return "declares global " + ", ".join(sorted(glob))
        body = fn.body if not isinstance(fn, ast.Lambda) else [fn.body]
        for st in body:
            for n in ast.walk(st):
                if isinstance(n, ast.Nonlocal):
                    return "declares nonlocal"
                if isinstance(n, ast.Call):
                    d = dotted(n.func) or ""
                    parts = d.split(".")
                    if (len(parts) > 1 and parts[0] in IMPURE_CALLS and m.imports.get(parts[0], ("ext",))[0] == "ext" and not d.startswith("os.path.")) or \
                            (len(parts) == 1 and parts[0] in IMPURE_FUNCS and parts[0] not in loc):
                        return "calls %s() at line %d" % (d, n.lineno)
                    if isinstance(n.func, ast.Attribute) and n.func.attr in ("glob", "rglob", "iterdir", "read_text", "read_bytes", "exists", "write_text"):
                        return "touches the file system (.%s) at line %d" % (n.func.attr, n.lineno)
                if isinstance(n, ast.Name) and isinstance(n.ctx, ast.Load):
                    ok, _ = self.is_global_ref(n)
                    if not ok or n.id in loc:
                        continue
                    b = self.lookup(m, n.id)
                    if b is None:
                        continue          # builtin or imported library name
                    self.kind_binding(b)
                    fdefs = [v for _, v in b.values if isinstance(v, (ast.FunctionDef, ast.AsyncFunctionDef))]
                    if fdefs:
                        for g in fdefs:
                            if any(self.is_memo(d) for d in g.decorator_list):
                                continue
                            why = self.pure_function(g, b.mod, seen)
                            if why:
                                return "calls %s(), which %s" % (b.name, why)
                        continue
                    if any(isinstance(v, ast.ClassDef) for _, v in b.values):
                        continue
                    if any(r[0] in ("mut", "escape") for r in b.results):
                        return "reads module state %s, which is not constant" % b.qual
                if isinstance(n, ast.Attribute) and isinstance(n.ctx, ast.Load):
                    b = self.lookup_chain(m, n)
                    if b is not None and any(r[0] in ("mut", "escape") for r in b.results):
                        return "reads module state %s.%s, which is not constant" % (b.mod.name, b.qual)
        return None

    def memo_sites(self):
        for m in self.mods.values():
            for fn in ast.walk(m.tree):
                if not isinstance(fn, (ast.FunctionDef, ast.AsyncFunctionDef)):
                    continue
                decs = [self.is_memo(d) for d in fn.decorator_list]
                decs = [d for d in decs if d]
                if not decs:
                    continue
                site = {"file": m.rel, "line": fn.lineno, "what": "@%s def %s" % (decs[0], fn.name), "kind": "memo"}
                if isinstance(parent(fn), ast.ClassDef) and decs[0].split(".")[-1] == "cached_property":
                    cls = parent(fn)
                    held = [b for mm in self.mods.values() for b in mm.bindings.values()
                            if any(isinstance(v, ast.Call) and (dotted(v.func) or "").split(".")[-1] == cls.name for _, v in b.values)]
                    if held:
                        site.update({"class": "SModState", "why": "cached_property on %s, an instance of which is held by the module-level name %s" % (cls.name, held[0].qual)})
                    else:
                        site.update({"class": "SModConst", "why": "cached_property: the cache lives on the instance; no instance of %s is bound at module level" % cls.name})
                else:
                    why = self.pure_function(fn, m, frozenset())
                    if why:
                        site.update({"class": "SModState", "why": "functools cache on %s(), which is not provably a pure function of immutable arguments: %s" % (fn.name, why)})
                    else:
                        site.update({"class": "SMemoPure", "why": "functools cache on %s(): immutable scalar parameters, body reads only parameters, constants and pure functions" % fn.name})
                self.sites.append(site)
            # memo applied as a call:  f = functools.lru_cache(...)(g)
            for b in m.bindings.values():
                for st, v in b.values:
                    if isinstance(v, ast.Call) and not isinstance(v, (ast.FunctionDef,)):
                        inner = v.func
                        d = self.is_memo(inner) if isinstance(inner, (ast.Name, ast.Attribute, ast.Call)) else None
                        if d and not any(s["file"] == m.rel and s["line"] == st.lineno and s["kind"] == "memo" for s in self.sites):
                            self.sites.append({"file": m.rel, "line": st.lineno, "what": ast.unparse(st)[:70], "kind": "memo", "class": "SModState",
                                               "why": "cache object %s built by calling %s(...) at module level: wrapped function not analysed" % (b.name, d)})

    # ------------------------------------------------------------------ mutable default arguments
    def default_sites(self):
        for m in self.mods.values():
            for fn in ast.walk(m.tree):
                if not isinstance(fn, FUNC_NODES):
                    continue
                a = fn.args
                names = [x.arg for x in a.posonlyargs + a.args]
                pairs = list(zip(names[len(names) - len(a.defaults):], a.defaults)) + \
                    [(k.arg, d) for k, d in zip(a.kwonlyargs, a.kw_defaults) if d is not None]
                for pname, d in pairs:
                    k = self.kind_of(d, m)
                    if k[0] in ("imm", "handle", "alias"):
                        continue             # alias: handled as a use of the module-level name
                    res = [self.use(u, m, k[0], k[1], 1, "default of " + pname) for u in self.var_uses(fn, pname)]
                    w = worst(res) if res else ("read", "never used")
                    site = {"file": m.rel, "line": d.lineno, "what": "def %s(..., %s=%s)" % (getattr(fn, "name", "<lambda>"), pname, ast.unparse(d)[:30]), "kind": "default"}
                    if w[0] == "read":
                        site.update({"class": "SModConst", "why": "mutable default value (%s) of %s: every use in the function is read-only" % (k[2], pname)})
                    else:
                        site.update({"class": "SModState", "why": "mutable default value (%s) of %s: %s" % (k[2], pname, w[1])})
                    self.sites.append(site)


def worst(results):
    order = {"mut": 0, "escape": 1, "shared": 2, "read": 3}
    return min(results, key=lambda r: order[r[0]])


def analyse(repo):
    a = Analysis(repo)
    sites = a.run()
    return sites, {"modules": sorted(m.rel for m in a.mods.values()), "immutable_module_names": a.immutable_names}
