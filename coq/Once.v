(* Once.v — a small concurrent IR for "initialise once" protocols and its interleaving semantics (property C19).

   The program is the once-initialiser of lsprotocol/_hooks.py (`_resolve_forward_references`) as translated by
   lib/x_once.py.  N threads run the same program; a schedule is a list of thread ids, each entry lets that thread
   perform ONE atomic step (a yield point of the real code: flag read, begin of the dict iteration, each `next()` of it,
   each `attrs.resolve_types` call, flag write, lock acquire / release).

   Facts about CPython/attrs that the semantics encodes (validated by the schedule stream of lib/props/c19.py, not proved):
   * a dict iterator remembers the dict's size when it is created and every `next()` raises
     `RuntimeError: dictionary changed size during iteration` if the size differs;
   * the FIRST `attrs.resolve_types(cls, M, {})` ever executed inserts `__builtins__` into M (eval does), later calls
     do not change M's size;  [ver = number of size changes so far]
   * an exception leaves a `with lock:` / `try … finally: lock.release()` block through the release.

   Theorems (all N, all K, all schedules — by an invariant over steps):
     once_safe, once_done, resolve_exactly_once, resolve_at_most_once   for the programs accepted by `lock_ok`
     history_independent, creation_noninterference                      for a register function that writes only its argument
   and an executable witness search `find_witness` used to refute programs that are not `lock_ok`. *)
From Coq Require Import List Arith Bool Lia.
Import ListNotations.

(* ------------------------------------------------------------------------------------------------ IR *)
Inductive instr :=
| ICheck (tgt : nat)      (* read the flag; if it is set jump to instruction tgt, else fall through *)
| IAcquire | IRelease     (* the module-level lock *)
| ISnapshot               (* items = list(filter(_, M.items())): 1 step to create the iterator, then one per next() *)
| IResolveAll             (* for v in items: attrs.resolve_types(v, M, {}): one step per class *)
| ILazyResolveAll         (* for v in filter(_, M.items()): resolve_types(v, M, {}) — iteration interleaved with the calls *)
| ISetFlag.               (* flag = True *)
Definition program := list instr.

Record thread := mkT { pc : nat; sub : nat; snap : option nat; crashed : bool }.
Record state := mkSt { flag : bool; ver : nat; lock : option nat; log : list nat; th : nat -> thread }.

Definition upd (f : nat -> thread) (t : nat) (T : thread) : nat -> thread :=
  fun x => if Nat.eqb x t then T else f x.
Definition set_t (s : state) (t : nat) (T : thread) : state :=
  mkSt (flag s) (ver s) (lock s) (log s) (upd (th s) t T).
Definition unlock (l : option nat) (t : nat) : option nat :=
  match l with Some h => if Nat.eqb h t then None else Some h | None => None end.
Definition snap_ok (sn : option nat) (v : nat) : bool :=
  match sn with Some x => Nat.eqb x v | None => false end.
(* the first resolve_types call ever grows the dict *)
Definition grow (s : state) : nat := match log s with [] => S (ver s) | _ => ver s end.
(* RuntimeError propagates; the lock is released on the way out *)
Definition do_crash (s : state) (t : nat) (T : thread) : state :=
  mkSt (flag s) (ver s) (unlock (lock s) t) (log s) (upd (th s) t (mkT (pc T) (sub T) None true)).
Definition resolve (s : state) (t : nat) (T : thread) (c : nat) (sub' : nat) : state :=
  mkSt (flag s) (grow s) (lock s) (c :: log s) (upd (th s) t (mkT (pc T) sub' (snap T) false)).
Definition advance (s : state) (t : nat) (T : thread) : state := set_t s t (mkT (S (pc T)) 0 None false).

Definition step (p : program) (K t : nat) (s : state) : state :=
  let T := th s t in
  if crashed T then s else
  match nth_error p (pc T) with
  | None => s
  | Some (ICheck tgt) => set_t s t (mkT (if flag s then tgt else S (pc T)) 0 None false)
  | Some IAcquire =>
      match lock s with
      | None => mkSt (flag s) (ver s) (Some t) (log s) (upd (th s) t (mkT (S (pc T)) 0 None false))
      | Some _ => s                                   (* blocked *)
      end
  | Some IRelease => mkSt (flag s) (ver s) (unlock (lock s) t) (log s) (upd (th s) t (mkT (S (pc T)) 0 None false))
  | Some ISnapshot =>
      match sub T with
      | 0 => set_t s t (mkT (pc T) 1 (Some (ver s)) false)
      | S j => if snap_ok (snap T) (ver s)
               then if j <? K then set_t s t (mkT (pc T) (S (S j)) (snap T) false) else advance s t T
               else do_crash s t T
      end
  | Some IResolveAll =>
      if sub T <? K then resolve s t T (sub T) (S (sub T)) else advance s t T
  | Some ILazyResolveAll =>
      match sub T with
      | 0 => set_t s t (mkT (pc T) 1 (Some (ver s)) false)
      | S m => if Nat.even m
               then if snap_ok (snap T) (ver s)
                    then if Nat.div2 m <? K then set_t s t (mkT (pc T) (S (S m)) (snap T) false) else advance s t T
                    else do_crash s t T
               else resolve s t T (Nat.div2 m) (S (S m))
      end
  | Some ISetFlag => mkSt true (ver s) (lock s) (log s) (upd (th s) t (mkT (S (pc T)) 0 None false))
  end.

Definition init : state := mkSt false 0 None [] (fun _ => mkT 0 0 None false).
Definition step_n (p : program) (K N t : nat) (s : state) : state := if t <? N then step p K t s else s.
Definition run_from (p : program) (K N : nat) (sched : list nat) (s : state) : state :=
  fold_left (fun s t => step_n p K N t s) sched s.
Definition run (p : program) (K N : nat) (sched : list nat) : state := run_from p K N sched init.

(* observations *)
Definition finished (p : program) (T : thread) : bool := negb (crashed T) && (length p <=? pc T).
Definition all_resolved (K : nat) (s : state) : Prop := forall i, i < K -> count_occ Nat.eq_dec (log s) i >= 1.

(* ------------------------------------------------------------------------------------------------ macro steps
   The harness can only park real threads at a few yield points (monkey-patched attrs.has / attrs.resolve_types, a wrapper
   around the lock).  A macro move lets a thread run to its next such point; it is a sequence of micro steps. *)
Definition is_yield (p : program) (K : nat) (T : thread) : bool :=
  crashed T ||
  match nth_error p (pc T) with
  | None => true
  | Some IAcquire | Some IRelease => true
  | Some ISnapshot => (sub T =? 3) || (sub T =? 4)
  | Some IResolveAll => (sub T =? 0) || (sub T =? K - 1)
  | Some ILazyResolveAll => (sub T =? 2) || (sub T =? 4) || (sub T =? 6) || (sub T =? 2 * K)
  | _ => false
  end.
Fixpoint go (fuel : nat) (p : program) (K t : nat) (s : state) : state :=
  match fuel with
  | 0 => s
  | S f => let s' := step p K t s in if is_yield p K (th s' t) then s' else go f p K t s'
  end.
Definition FUEL (K : nat) := 4 * K + 24.
Definition move (p : program) (K N t : nat) (s : state) : state := if t <? N then go (FUEL K) p K t s else s.
Definition runm_from (p : program) (K N : nat) (ms : list nat) (s : state) : state :=
  fold_left (fun s t => move p K N t s) ms s.
Definition runm (p : program) (K N : nat) (ms : list nat) : state := runm_from p K N ms init.

(* label of the point a thread is parked at (compared with the real runner's labels):
   0 start, 1 finished, 2 crashed, 3 acquire, 4 release, 5 inside iteration (1st), 6 inside iteration (2nd),
   7 before first resolve_types, 8 before last resolve_types, 9 other *)
Definition label (p : program) (K : nat) (T : thread) : nat :=
  if crashed T then 2 else
  match nth_error p (pc T) with
  | None => 1
  | Some IAcquire => if (pc T =? 0) then 0 else 3
  | Some IRelease => 4
  | Some ISnapshot => if sub T =? 3 then 5 else if sub T =? 4 then 6 else 9
  | Some IResolveAll => if sub T =? 0 then 7 else if sub T =? K - 1 then 8 else 9
  | Some ILazyResolveAll => if sub T =? 2 then 7 else if sub T =? 4 then 5 else if sub T =? 6 then 6
                            else if sub T =? 2 * K then 8 else 9
  | Some _ => if (pc T =? 0) && (sub T =? 0) then 0 else 9
  end.
Definition covers (K : nat) (l : list nat) : bool := forallb (fun i => existsb (Nat.eqb i) l) (seq 0 K).
Definition ready (K : nat) (s : state) : bool := flag s && covers K (log s).
(* after every move: the label of the moved thread and whether the world is "ready" (flag set, every class resolved) *)
Fixpoint tracem (p : program) (K N : nat) (ms : list nat) (s : state) : list (nat * bool) * state :=
  match ms with
  | [] => ([], s)
  | t :: r => let s' := move p K N t s in
              let (l, s'') := tracem p K N r s' in ((label p K (th s' t), ready K s') :: l, s'')
  end.

(* summary of a state for the correspondence check: per thread 1 finished / 2 crashed / 0 still running,
   the number of resolve_types calls, the flag *)
Definition tstat (p : program) (T : thread) : nat := if crashed T then 2 else if finished p T then 1 else 0.
Definition summary (p : program) (N : nat) (s : state) : list nat * nat * bool :=
  (map (fun t => tstat p (th s t)) (seq 0 N), length (log s), flag s).

(* ------------------------------------------------------------------------------------------------ generic facts *)
Lemma upd_same : forall f t T, upd f t T t = T.
Proof. intros. unfold upd. rewrite Nat.eqb_refl. reflexivity. Qed.
Lemma upd_other : forall f t T u, u <> t -> upd f t T u = f u.
Proof. intros. unfold upd. destruct (Nat.eqb_spec u t); congruence. Qed.

Lemma count_rev_seq : forall K i, i < K -> count_occ Nat.eq_dec (rev (seq 0 K)) i = 1.
Proof.
  intros K i H.
  assert (G : forall n a, count_occ Nat.eq_dec (seq a n) i = if (a <=? i) && (i <? a + n) then 1 else 0).
  { induction n as [|n IH]; intros a; cbn [seq count_occ].
    - destruct (Nat.leb_spec a i), (Nat.ltb_spec i (a + 0)); cbn; try reflexivity; lia.
    - rewrite IH.
      destruct (Nat.eq_dec a i) as [e|ne];
        destruct (Nat.leb_spec (S a) i), (Nat.leb_spec a i), (Nat.ltb_spec i (S a + n)), (Nat.ltb_spec i (a + S n));
        cbn [andb]; try reflexivity; lia. }
  assert (R : forall l, count_occ Nat.eq_dec (rev l) i = count_occ Nat.eq_dec l i).
  { induction l as [|x l IH]; [reflexivity|]. cbn [rev]. rewrite count_occ_app, IH. cbn.
    destruct (Nat.eq_dec x i); lia. }
  rewrite R, G. destruct (Nat.leb_spec 0 i), (Nat.ltb_spec i (0 + K)); cbn [andb]; try reflexivity; lia.
Qed.
Lemma count_rev_seq_le : forall j i, count_occ Nat.eq_dec (rev (seq 0 j)) i <= 1.
Proof.
  intros j i. destruct (Nat.lt_ge_cases i j) as [L|G].
  - rewrite count_rev_seq by assumption. lia.
  - assert (E : count_occ Nat.eq_dec (rev (seq 0 j)) i = 0).
    { apply count_occ_not_In. intros HI. apply in_rev in HI. apply in_seq in HI. lia. }
    lia.
Qed.
Lemma rev_seq_S : forall j, j :: rev (seq 0 j) = rev (seq 0 (S j)).
Proof. intros. rewrite seq_S, rev_app_distr. reflexivity. Qed.

(* a macro move is a sequence of micro steps of the same thread *)
Fixpoint iters {A} (n : nat) (f : A -> A) (x : A) : A := match n with 0 => x | S m => f (iters m f x) end.
Lemma iter_comm : forall {A} (f : A -> A) n x, iters n f (f x) = f (iters n f x).
Proof. induction n; intros; cbn; [reflexivity|]. rewrite IHn. reflexivity. Qed.
Lemma go_steps : forall f p K t s, exists n, go f p K t s = iters n (step p K t) s.
Proof.
  induction f as [|f IH]; intros; cbn [go].
  - exists 0. reflexivity.
  - destruct (is_yield p K (th (step p K t s) t)).
    + exists 1. reflexivity.
    + destruct (IH p K t (step p K t s)) as [n E]. exists (S n). rewrite E.
      cbn [iters]. apply iter_comm.
Qed.

(* ------------------------------------------------------------------------------------------------ the safe shape *)
(* [if flag: return]  with lock: if not flag: items = list(...); for …: resolve; flag = True *)
Definition locked (outer : bool) : program :=
  if outer then [ICheck 7; IAcquire; ICheck 6; ISnapshot; IResolveAll; ISetFlag; IRelease]
  else [IAcquire; ICheck 5; ISnapshot; IResolveAll; ISetFlag; IRelease].

Definition instr_eqb (a b : instr) : bool :=
  match a, b with
  | ICheck x, ICheck y => Nat.eqb x y
  | IAcquire, IAcquire | IRelease, IRelease | ISnapshot, ISnapshot | IResolveAll, IResolveAll
  | ILazyResolveAll, ILazyResolveAll | ISetFlag, ISetFlag => true
  | _, _ => false
  end.
Fixpoint prog_eqb (a b : program) : bool :=
  match a, b with
  | [], [] => true
  | x :: a', y :: b' => instr_eqb x y && prog_eqb a' b'
  | _, _ => false
  end.
Lemma instr_eqb_eq : forall a b, instr_eqb a b = true -> a = b.
Proof. destruct a, b; cbn; intros H; try discriminate; try reflexivity. apply Nat.eqb_eq in H. subst. reflexivity. Qed.
Lemma prog_eqb_eq : forall a b, prog_eqb a b = true -> a = b.
Proof.
  induction a as [|x a IH]; destruct b as [|y b]; cbn; intros H; try discriminate; [reflexivity|].
  apply andb_true_iff in H. destruct H as [H1 H2]. apply instr_eqb_eq in H1. apply IH in H2. subst. reflexivity.
Qed.

(* mutual exclusion + re-check under the lock, snapshot and resolution inside, flag written last *)
Definition lock_ok (p : program) : bool := prog_eqb p (locked true) || prog_eqb p (locked false).
Lemma lock_ok_shape : forall p, lock_ok p = true -> exists outer, p = locked outer.
Proof.
  unfold lock_ok. intros p H. apply orb_true_iff in H. destruct H as [H|H]; apply prog_eqb_eq in H; eauto.
Qed.

(* role of a program counter: 0 before the lock, 1 at acquire, 2 re-check, 3 snapshot, 4 resolve, 5 set flag, 6 release, 7 end *)
Definition role_of (outer : bool) (c : nat) : nat := c + 1 - (if outer then 1 else 0).
Lemma role_facts : forall outer c r, role_of outer c = r ->
    match r with
    | 0 => nth_error (locked outer) c = Some (ICheck 7)
    | 1 => nth_error (locked outer) c = Some IAcquire
    | 2 => nth_error (locked outer) c = Some (ICheck (S (S (S (S c)))))
    | 3 => nth_error (locked outer) c = Some ISnapshot
    | 4 => nth_error (locked outer) c = Some IResolveAll
    | 5 => nth_error (locked outer) c = Some ISetFlag
    | 6 => nth_error (locked outer) c = Some IRelease
    | 7 => nth_error (locked outer) c = None
    | _ => True end /\ (r <= 7 -> role_of outer (S c) = S r) /\ (r = 0 -> role_of outer 7 = 7)
    /\ (r = 2 -> role_of outer (S (S (S (S c)))) = 6).
Proof.
  intros outer c r <-. unfold locked, role_of. destruct outer.
  - destruct c as [|[|[|[|[|[|[|[|c]]]]]]]]; cbn; repeat split; intros; try reflexivity; try lia;
      try (destruct (c + 1); auto; fail).
  - destruct c as [|[|[|[|[|[|[|c]]]]]]]; cbn; repeat split; intros; try reflexivity; try lia;
      try (destruct (c + 1); auto; fail).
Qed.
Lemma role_start : forall outer, role_of outer 0 <= 1.
Proof. unfold role_of. destruct outer; lia. Qed.
Lemma role_end : forall outer c, length (locked outer) <= c -> 7 <= role_of outer c.
Proof. unfold role_of, locked. destruct outer; cbn [length]; intros; lia. Qed.

Section Locked.
Variable outer : bool.
Variable K : nat.
Definition LP := locked outer.
Definition role := role_of outer.

Definition P (s : state) (u : nat) (T : thread) : Prop :=
  crashed T = false /\
  match role (pc T) with
  | 0 | 1 => lock s <> Some u /\ sub T = 0
  | 2 => lock s = Some u /\ sub T = 0 /\ (flag s = false -> log s = [])
  | 3 => lock s = Some u /\ flag s = false /\ log s = [] /\ (sub T = 0 \/ (snap T = Some (ver s) /\ sub T <= S K))
  | 4 => lock s = Some u /\ flag s = false /\ sub T <= K /\ log s = rev (seq 0 (sub T))
  | 5 => lock s = Some u /\ flag s = false /\ sub T = 0 /\ log s = rev (seq 0 K)
  | 6 => lock s = Some u /\ flag s = true /\ sub T = 0
  | 7 => lock s <> Some u /\ flag s = true
  | _ => False
  end.

Definition Inv (s : state) : Prop :=
  (exists j, j <= K /\ log s = rev (seq 0 j)) /\
  (flag s = true -> log s = rev (seq 0 K)) /\
  (lock s = None -> flag s = false -> log s = []) /\
  forall u, P s u (th s u).

Lemma frame : forall s s' u T, P s u T ->
  (lock s = Some u -> flag s' = flag s /\ ver s' = ver s /\ lock s' = lock s /\ log s' = log s) ->
  (lock s <> Some u -> lock s' <> Some u /\ (flag s = true -> flag s' = true)) ->
  P s' u T.
Proof.
  unfold P. intros s s' u T [Hc H] A B. split; [exact Hc|].
  destruct (role (pc T)) as [|[|[|[|[|[|[|[|r]]]]]]]]; try exact H.
  - destruct H as [H1 H2]. destruct (B H1). auto.
  - destruct H as [H1 H2]. destruct (B H1). auto.
  - destruct H as [H1 H2]. destruct (A H1) as [F [V [L G]]]. rewrite F, L, G. auto.
  - destruct H as [H1 H2]. destruct (A H1) as [F [V [L G]]]. rewrite F, V, L, G. auto.
  - destruct H as [H1 H2]. destruct (A H1) as [F [V [L G]]]. rewrite F, L, G. auto.
  - destruct H as [H1 H2]. destruct (A H1) as [F [V [L G]]]. rewrite F, L, G. auto.
  - destruct H as [H1 H2]. destruct (A H1) as [F [V [L G]]]. rewrite F, L. auto.
  - destruct H as [H1 H2]. destruct (B H1). auto.
Qed.

Lemma inv_init : Inv init.
Proof.
  unfold Inv. split; [|split; [|split]].
  - exists 0. split; [lia|reflexivity].
  - discriminate.
  - reflexivity.
  - intros u. unfold P. cbn [init th crashed pc sub snap lock]. split; [reflexivity|].
    pose proof (role_start outer) as R. fold role in R.
    destruct (role 0) as [|[|r]]; [| |lia]; split; auto; discriminate.
Qed.

Ltac inv4 := unfold Inv, advance, resolve, set_t; cbn [flag ver lock log pc snap sub];
             split; [|split; [|split]].
Ltac other_threads HP t :=
  let u := fresh "u" in let ne := fresh "ne" in
  intros u; cbn [th]; destruct (Nat.eq_dec u t) as [->|ne];
  [ rewrite upd_same; unfold P; cbn [pc sub snap crashed flag ver lock log]
  | rewrite (upd_other _ _ _ _ ne); apply (frame _ _ _ _ (HP u)); cbn [flag ver lock log];
    [ let HL := fresh "HL" in intros HL; try (repeat split; congruence)
    | let HL := fresh "HL" in intros HL; split; [ try congruence | try (intros; congruence) ] ] ].
(* leaves exactly the goal about the stepping thread itself *)
Ltac others HP t :=
  other_threads HP t; try congruence; try discriminate;
  try (let E := fresh "E" in intros E; inversion E; congruence).

Lemma step_inv : forall t s, Inv s -> Inv (step LP K t s).
Proof.
  intros t s [G0 [G1 [G3 HP]]].
  pose proof (HP t) as Pt. unfold step.
  destruct (th s t) as [c sb sn cr] eqn:ET. unfold P in Pt. cbn [pc sub snap crashed] in Pt |- *.
  destruct Pt as [Hcr Pt]. subst cr.
  pose proof (role_facts outer c) as Main. fold role LP in Main.
  destruct (role c) as [|[|[|[|[|[|[|[|r]]]]]]]] eqn:RC; destruct (Main _ eq_refl) as [NE [RS [R7 R6]]];
    try rewrite NE; try (destruct Pt; fail).
  - (* outer check *)
    destruct Pt as [L S0].
    inv4; auto. others HP t.
    destruct (flag s) eqn:F.
    + rewrite (R7 eq_refl). auto.
    + rewrite (RS ltac:(lia)). auto.
  - (* acquire *)
    destruct Pt as [L S0].
    destruct (lock s) as [h|] eqn:EL.
    + unfold Inv. rewrite EL. auto.
    + inv4; auto; try discriminate. others HP t.
      rewrite (RS ltac:(lia)). split; [reflexivity|]. auto.
  - (* re-check *)
    destruct Pt as [L [S0 FL]].
    inv4; auto. others HP t.
    destruct (flag s) eqn:F.
    + rewrite (R6 eq_refl). auto.
    + rewrite (RS ltac:(lia)). auto 10.
  - (* snapshot *)
    destruct Pt as [L [F [LG SS]]].
    destruct sb as [|j].
    + inv4; auto. others HP t.
      rewrite RC. split; [reflexivity|]. repeat split; auto. right. split; [reflexivity|lia].
    + destruct SS as [SS|[SN SL]]; [discriminate|]. subst sn. cbn [snap_ok]. rewrite Nat.eqb_refl.
      destruct (Nat.ltb_spec j K).
      * inv4; auto. others HP t.
        rewrite RC. split; [reflexivity|]. repeat split; auto. right. split; [reflexivity|lia].
      * inv4; auto. others HP t.
        rewrite (RS ltac:(lia)). split; [reflexivity|]. repeat split; auto. lia.
  - (* resolve *)
    destruct Pt as [L [F [SL LG]]].
    destruct (Nat.ltb_spec sb K).
    + inv4.
      * exists (S sb). split; [lia|]. rewrite LG. apply rev_seq_S.
      * congruence.
      * congruence.
      * others HP t.
        rewrite RC. split; [reflexivity|]. repeat split; auto. rewrite LG. apply rev_seq_S.
    + assert (sb = K) by lia. subst sb.
      inv4; auto. others HP t.
      rewrite (RS ltac:(lia)). split; [reflexivity|]. repeat split; auto.
  - (* set flag *)
    destruct Pt as [L [F [S0 LG]]].
    inv4; auto; try congruence. others HP t.
    rewrite (RS ltac:(lia)). split; [reflexivity|]. repeat split; auto.
  - (* release *)
    destruct Pt as [L [F S0]].
    inv4; auto; rewrite L; cbn [unlock]; rewrite Nat.eqb_refl; auto; try congruence. others HP t.
    rewrite (RS ltac:(lia)). split; [reflexivity|]. split; [discriminate|assumption].
  - (* end *)
    unfold Inv; auto.
Qed.

Lemma run_from_inv : forall N sched s, Inv s -> Inv (run_from LP K N sched s).
Proof.
  induction sched as [|t r IH]; intros s H; cbn; [exact H|].
  apply IH. unfold step_n. destruct (t <? N); [apply step_inv|]; exact H.
Qed.
Lemma iter_inv : forall n t s, Inv s -> Inv (iters n (step LP K t) s).
Proof. induction n; intros; cbn; auto using step_inv. Qed.
Lemma runm_from_inv : forall N ms s, Inv s -> Inv (runm_from LP K N ms s).
Proof.
  induction ms as [|t r IH]; intros s H; cbn; [exact H|].
  apply IH. unfold move. destruct (t <? N); [|exact H].
  destruct (go_steps (FUEL K) LP K t s) as [n E]. rewrite E. apply iter_inv. exact H.
Qed.

Lemma inv_safe : forall s, Inv s -> forall t, crashed (th s t) = false.
Proof. intros s [_ [_ [_ HP]]] t. destruct (HP t) as [H _]. exact H. Qed.

Lemma inv_done : forall s, Inv s -> forall t, finished LP (th s t) = true ->
  flag s = true /\ log s = rev (seq 0 K).
Proof.
  intros s [_ [G1 [_ HP]]] t F. destruct (HP t) as [Hc H].
  unfold finished in F. rewrite Hc in F. cbn in F. apply Nat.leb_le in F.
  assert (Fl : flag s = true).
  { pose proof (role_end outer _ F) as R. fold role in R.
    destruct (role (pc (th s t))) as [|[|[|[|[|[|[|[|r]]]]]]]]; try lia; tauto. }
  auto.
Qed.

Lemma inv_log : forall s, Inv s -> exists j, j <= K /\ log s = rev (seq 0 j).
Proof. intros s [G0 _]. exact G0. Qed.
End Locked.

(* ------------------------------------------------------------------------------------------------ theorems *)
Theorem once_safe : forall p, lock_ok p = true ->
  forall K N sched t, crashed (th (run p K N sched) t) = false.
Proof.
  intros p H K N sched t. destruct (lock_ok_shape p H) as [outer ->].
  apply (inv_safe outer K). apply run_from_inv. apply inv_init.
Qed.

(* a thread that has returned from the initialiser sees the flag set and every class resolved *)
Theorem once_done : forall p, lock_ok p = true ->
  forall K N sched t, finished p (th (run p K N sched) t) = true ->
  flag (run p K N sched) = true /\ all_resolved K (run p K N sched).
Proof.
  intros p H K N sched t F. destruct (lock_ok_shape p H) as [outer ->].
  destruct (inv_done outer K _ (run_from_inv outer K N sched _ (inv_init outer K)) t F) as [A B].
  unfold LP in *. split; [exact A|]. intros i Hi. unfold run in B |- *. rewrite B, count_rev_seq by assumption. lia.
Qed.

Theorem resolve_at_most_once : forall p, lock_ok p = true ->
  forall K N sched i, count_occ Nat.eq_dec (log (run p K N sched)) i <= 1.
Proof.
  intros p H K N sched i. destruct (lock_ok_shape p H) as [outer ->].
  destruct (inv_log outer K _ (run_from_inv outer K N sched _ (inv_init outer K))) as [j [_ E]].
  unfold LP in *. unfold run. rewrite E. apply count_rev_seq_le.
Qed.

Theorem resolve_exactly_once : forall p, lock_ok p = true ->
  forall K N sched t, finished p (th (run p K N sched) t) = true ->
  forall i, i < K -> count_occ Nat.eq_dec (log (run p K N sched)) i = 1.
Proof.
  intros p H K N sched t F i Hi. destruct (lock_ok_shape p H) as [outer ->].
  destruct (inv_done outer K _ (run_from_inv outer K N sched _ (inv_init outer K)) t F) as [_ B].
  unfold LP in *. unfold run in B |- *. rewrite B. apply count_rev_seq. exact Hi.
Qed.

(* the same for macro schedules (what the harness replays) *)
Theorem once_safe_macro : forall p, lock_ok p = true ->
  forall K N ms t, crashed (th (runm p K N ms) t) = false.
Proof.
  intros p H K N ms t. destruct (lock_ok_shape p H) as [outer ->].
  apply (inv_safe outer K). apply runm_from_inv. apply inv_init.
Qed.

(* ------------------------------------------------------------------------------------------------ refutation search *)
Inductive bad_kind := BCrash | BNotReady | BTwice.
Definition nodup_b (l : list nat) : bool := Nat.eqb (length (nodup Nat.eq_dec l)) (length l).
(* which promise of the property a reached state breaks, if any *)
Definition bad (p : program) (K N : nat) (s : state) : option bad_kind :=
  if existsb (fun t => crashed (th s t)) (seq 0 N) then Some BCrash
  else if existsb (fun t => finished p (th s t) && negb (ready K s)) (seq 0 N) then Some BNotReady
  else if negb (nodup_b (log s)) then Some BTwice
  else None.
Fixpoint all_seqs (n : nat) : list (list nat) :=
  match n with 0 => [[]] | S m => flat_map (fun l => [0 :: l; 1 :: l]) (all_seqs m) end.
(* a state is examined after every move of the schedule *)
Fixpoint first_bad (p : program) (K N : nat) (ms done : list nat) (s : state) : option (bad_kind * list nat) :=
  match bad p K N s with
  | Some k => Some (k, rev done)
  | None => match ms with
            | [] => None
            | t :: r => first_bad p K N r (t :: done) (move p K N t s)
            end
  end.
Definition drain2 := [0; 1; 0; 1; 0; 1; 0; 1; 0; 1; 0; 1; 0; 1; 0; 1; 0; 1; 0; 1].
Definition WK := 4.
Definition cands9 : list (list nat) := flat_map all_seqs (seq 1 9).   (* shortest first *)
Definition find_witness (p : program) : option (bad_kind * list nat) :=
  let fix search (l : list (list nat)) :=
    match l with
    | [] => None
    | ms :: r => match first_bad p WK 2 (ms ++ drain2) [] init with Some w => Some w | None => search r end
    end in
  (* crashes are preferred over the weaker failures *)
  let cands := cands9 in
  match find (fun ms => match first_bad p WK 2 (ms ++ drain2) [] init with Some (BCrash, _) => true | _ => false end) cands with
  | Some ms => first_bad p WK 2 (ms ++ drain2) [] init
  | None => search cands
  end.

Definition refuted (p : program) : Prop :=
  exists K N ms k, bad p K N (runm p K N ms) = Some k.

Lemma first_bad_sound : forall p K N ms done s k w,
  first_bad p K N ms done s = Some (k, w) ->
  forall pre, s = runm p K N pre -> done = rev pre -> bad p K N (runm p K N w) = Some k.
Proof.
  induction ms as [|t r IH]; intros done s k w H pre Es Ed; cbn [first_bad] in H.
  - destruct (bad p K N s) eqn:B; [|discriminate]. inversion H; subst. rewrite rev_involutive. exact B.
  - destruct (bad p K N s) eqn:B.
    + inversion H; subst. rewrite rev_involutive. exact B.
    + apply (IH _ _ _ _ H (pre ++ [t])).
      * subst s. unfold runm, runm_from. rewrite fold_left_app. reflexivity.
      * subst done. rewrite rev_app_distr. reflexivity.
Qed.
Theorem find_witness_sound : forall p k w, find_witness p = Some (k, w) -> refuted p.
Proof.
  intros p k w H. unfold find_witness in H.
  assert (G : forall l, (fix search (l : list (list nat)) :=
      match l with [] => None | ms :: r => match first_bad p WK 2 (ms ++ drain2) [] init with Some w => Some w | None => search r end end) l
      = Some (k, w) -> refuted p).
  { induction l as [|ms r IH]; intros E; [discriminate|].
    destruct (first_bad p WK 2 (ms ++ drain2) [] init) as [[k' w']|] eqn:FB.
    - inversion E; subst. exists WK, 2, w, k. apply (first_bad_sound _ _ _ _ _ _ _ _ FB []); reflexivity.
    - apply IH. exact E. }
  destruct (find _ cands9) as [ms|].
  - exists WK, 2, w, k. apply (first_bad_sound _ _ _ _ _ _ _ _ H []); reflexivity.
  - apply G in H. exact H.
Qed.

(* a macro schedule is a micro schedule *)
Lemma run_from_app : forall p K N a b s, run_from p K N (a ++ b) s = run_from p K N b (run_from p K N a s).
Proof. intros. unfold run_from. apply fold_left_app. Qed.
Lemma run_repeat : forall p K N t, (t <? N) = true -> forall n s,
  run_from p K N (repeat t n) s = iters n (step p K t) s.
Proof.
  intros p K N t TN. induction n as [|n IH]; intros s; [reflexivity|].
  cbn [repeat]. unfold run_from in *. cbn [fold_left]. unfold step_n at 2. rewrite TN.
  rewrite IH. cbn [iters]. apply iter_comm.
Qed.
Lemma runm_is_run : forall p K N ms s, exists sched, runm_from p K N ms s = run_from p K N sched s.
Proof.
  induction ms as [|t r IH]; intros s.
  - exists []. reflexivity.
  - unfold runm_from. cbn [fold_left]. fold (runm_from p K N r (move p K N t s)).
    unfold move. destruct (t <? N) eqn:TN.
    + destruct (go_steps (FUEL K) p K t s) as [n E]. rewrite E.
      destruct (IH (iters n (step p K t) s)) as [sc Es]. exists (repeat t n ++ sc).
      rewrite run_from_app, (run_repeat p K N t TN). exact Es.
    + apply IH.
Qed.
Theorem refuted_micro : forall p K N ms t, crashed (th (runm p K N ms) t) = true ->
  exists sched, crashed (th (run p K N sched) t) = true.
Proof.
  intros p K N ms t H. destruct (runm_is_run p K N ms init) as [sc E].
  exists sc. unfold run. rewrite <- E. exact H.
Qed.

(* the program of the unchanged tree: if not flag: items = list(...); for …: resolve; flag = True — no lock *)
Definition unlocked : program := [ICheck 4; ISnapshot; IResolveAll; ISetFlag].
Example unlocked_crashes : exists sched t, crashed (th (run unlocked 2 2 sched) t) = true.
Proof.
  (* T1 reads the flag and parks inside the iteration; T0 runs up to its first resolve_types; T1's next() raises *)
  exists [1; 1; 1; 0; 0; 0; 0; 0; 0; 1], 1. vm_compute. reflexivity.
Qed.

(* ------------------------------------------------------------------------------------------------ creation histories
   get_converter(cfg) = register(cfg's converter) after the once-initialiser.  A converter's behaviour can depend on its
   own configuration, on the hooks registered on it, on whether the classes are resolved, and on every other module-level
   object that register writes.  If register writes only its argument (and the initialiser only the flag / the resolution
   state, which is the same after any first creation), behaviour is a function of the configuration alone. *)
Inductive wtarget := WArg | WFlag | WGlobal.
Definition is_local (w : wtarget) : bool := match w with WGlobal => false | _ => true end.
Definition reg_pure (ws : list wtarget) : bool := forallb is_local ws.

Section History.
Variable cfg : Type.
Variable ws : list wtarget.           (* the write set of register_hooks, from the translator *)
Record conv := mkC { c_cfg : cfg; c_hooks : nat }.
Record world := mkW { w_res : bool; w_glob : list nat; w_convs : list conv }.
Definition w0 : world := mkW false [] [].
Definition n_arg := length (filter (fun w => match w with WArg => true | _ => false end) ws).
Definition glob_writes (w : world) : list nat :=
  flat_map (fun x => match x with WGlobal => [length (w_convs w)] | _ => [] end) ws.
Definition create (w : world) (x : cfg) : world :=
  mkW true (glob_writes w ++ w_glob w) (w_convs w ++ [mkC x n_arg]).
Definition creates (h : list cfg) : world := fold_left create h w0.
(* everything the results of structure/unstructure on converter number i can depend on *)
Definition behaviour (w : world) (i : nat) : option (cfg * nat * bool * list nat) :=
  match nth_error (w_convs w) i with Some c => Some (c_cfg c, c_hooks c, w_res w, w_glob w) | None => None end.

Lemma glob_pure : reg_pure ws = true -> forall w, glob_writes w = [].
Proof.
  unfold glob_writes, reg_pure. intros H w. induction ws as [|x l IH]; [reflexivity|].
  cbn in H |- *. apply andb_true_iff in H. destruct H as [H1 H2]. rewrite (IH H2).
  destruct x; try reflexivity; discriminate.
Qed.
Lemma creates_shape : reg_pure ws = true -> forall h w,
  w_glob (fold_left create h w) = w_glob w /\
  w_convs (fold_left create h w) = w_convs w ++ map (fun x => mkC x n_arg) h /\
  (h <> [] -> w_res (fold_left create h w) = true) /\ (h = [] -> fold_left create h w = w).
Proof.
  intros HP. induction h as [|x h IH]; intros w; cbn [fold_left map].
  - rewrite app_nil_r. repeat split; congruence.
  - destruct (IH (create w x)) as [A [B [C D]]]. rewrite A, B.
    assert (E1 : w_glob (create w x) = w_glob w) by (unfold create; cbn [w_glob]; rewrite (glob_pure HP); reflexivity).
    assert (E2 : w_convs (create w x) = w_convs w ++ [mkC x n_arg]) by reflexivity.
    rewrite E1, E2, <- app_assoc. cbn [app].
    split; [reflexivity|]. split; [reflexivity|]. split; [|discriminate].
    intros _. destruct h as [|y h']; [rewrite (D eq_refl); reflexivity|apply C; discriminate].
Qed.

Lemma nth_mid : forall (l : list conv) c r n, n = length l -> nth_error (l ++ c :: r) n = Some c.
Proof. intros l c r n ->. rewrite nth_error_app2 by lia. rewrite Nat.sub_diag. reflexivity. Qed.
Lemma behaviour_of : reg_pure ws = true -> forall h x later,
  behaviour (creates (h ++ x :: later)) (length h) = Some (x, n_arg, true, []).
Proof.
  intros HP h x later. unfold behaviour, creates.
  destruct (creates_shape HP (h ++ x :: later) w0) as [A [B [C _]]].
  rewrite A, B, C by (destruct h; discriminate).
  cbn [w_convs w_glob w0 app]. rewrite map_app. cbn [map].
  rewrite nth_mid by (rewrite map_length; reflexivity). reflexivity.
Qed.

Theorem history_independent : reg_pure ws = true -> forall h h' x,
  behaviour (creates (h ++ [x])) (length h) = behaviour (creates (h' ++ [x])) (length h').
Proof. intros HP h h' x. rewrite !behaviour_of by exact HP. reflexivity. Qed.

(* creating further converters never alters the behaviour of an earlier one *)
Theorem creation_noninterference : reg_pure ws = true -> forall h x later,
  behaviour (creates ((h ++ [x]) ++ later)) (length h) = behaviour (creates (h ++ [x])) (length h).
Proof.
  intros HP h x later. rewrite <- app_assoc. cbn [app]. rewrite !behaviour_of by exact HP. reflexivity.
Qed.
End History.
