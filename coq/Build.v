(* Build.v — property C02 from the metamodel-valid value to the constructor-built object.
   [bld P j o]: o is the object a user builds from the values of j with the generated constructors — attribute by attribute under the
   snake_case names (class table), an absent optional member left at its default None, an enumeration value turned into the member
   with that value, arrays / maps / tuples element-wise, at a union ANY alternative the value is valid for (the user's choice; no hook
   is involved).  [bld_spec]: for EVERY Python-valid j and every such o — every class of the table, no coverage restriction —
   o is a constructor-built value in the sense of LSP.Built.built (well-typed at every depth, validators passed) and its denotation is
   j up to null-valued members that j leaves out (NEq: the normal form — unset optional members omitted, null-admitting ones written
   as null).  With Built.built_typed / Denote.unstr_typed: unstructuring o gives exactly that normal form ([bld_serialises]). *)
From Coq Require Import Lia.
From LSP Require Import Base Sem SemThy Denote PtyEq RoundTrip HookFrag Built.

Inductive Forall3 {A B C} (R : A -> B -> C -> Prop) : list A -> list B -> list C -> Prop :=
| F3_nil : Forall3 R [] [] []
| F3_cons a b c la lb lc : R a b c -> Forall3 R la lb lc -> Forall3 R (a :: la) (b :: lb) (c :: lc).

Section Build.
Variable Sg : sigma.
Variable NL : string -> string -> bool.
Notation den := (den Sg).
Notation pvalid := (pvalid Sg NL).
Notation built := (built Sg NL).

Inductive bld : pty -> json -> pv -> Prop :=
| bl_any j : bld PyAny j (embed j)
| bl_opaque n j : bld (PyOpaque n) j (embed j)
| bl_none : bld PyNone JNull VNone
| bl_int z : bld PyInt (JInt z) (VInt z)
| bl_str s : bld PyStr (JStr s) (VStr s)
| bl_bool b : bld PyBool (JBool b) (VBool b)
| bl_float_i z : bld PyFloat (JInt z) (VFlt z 1)
| bl_float_f a b : bld PyFloat (JFlt a b) (VFlt a b)
| bl_lit l s : bld (PyLit l) (JStr s) (VStr s)
| bl_enum e d j m : lookup_enum Sg e = Some d -> find (pv_eqb_prim (embed j)) (evals d) = Some m -> bld (PyEnum e) j (VEnum e m)
| bl_seq t l os : Forall2 (bld t) l os -> bld (PySeq t) (JArr l) (VList os)
| bl_tuple ts l os : Forall3 bld ts l os -> bld (PyTuple ts) (JArr l) (VTuple os)
| bl_dict v m os : Forall2 (fun kv ko => fst ko = VStr (fst kv) /\ bld v (snd kv) (snd ko)) m os -> bld (PyDict PyStr v) (JObj m) (VDict os)
| bl_cls c fs m kw : lookup_cls Sg c = Some fs ->
    Forall2 (fun f p => fst p = fname f /\ (forall v, assoc (fwire f) m = Some v -> bld (ftype f) v (snd p)) /\
                        (assoc (fwire f) m = None -> snd p = VNone)) fs kw ->
    bld (PyCls c) (JObj m) (VObj c kw)
| bl_union ms t j o : In t ms -> pvalid t j -> bld t j o -> bld (PyUnion ms) j o.

(* ---- table conditions (boolean) *)
Definition cls_ok2_b (c : string * list fld) : bool :=
  nodupb (map fname (snd c)) &&
  forallb (fun f => match fdefault f with
                    | DefaultNone => (match fval f with VNoVal => true | _ => fvalopt f end) && (fomit f || NL (fst c) (fwire f))
                    | _ => true end) (snd c).
Definition all_cls_ok2 : bool := forallb cls_ok2_b (classes Sg).

Lemma typed_none_built : forall n t, typed_b Sg n t VNone = true -> built t VNone.
Proof.
  induction n as [|n IH]; intros t H; [discriminate|]. destruct t; cbn [typed_b] in H; try discriminate.
  - exact (b_any Sg NL JNull).
  - constructor.
  - apply orb_true_iff in H. destruct H as [H|H].
    + apply existsb_exists in H. destruct H as [t [It Ht]]. eapply b_union; [exact It | apply IH; exact Ht].
    + apply andb_true_iff in H. destruct H as [H _]. apply andb_true_iff in H. destruct H as [_ H]. discriminate.
  - exact (b_opaque Sg NL n0 JNull).
Qed.

Lemma NEq_to_null v : NEq v JNull -> v = JNull.
Proof. intros N. inversion N. reflexivity. Qed.

(* the attrs validator accepts the built value when the JSON-level reading accepts the JSON value *)
Lemma val_ok_rev f v x : val_shape_ok Sg f = true -> built (ftype f) x -> NEq v (den x) -> jvalidate f v = true ->
  validate (fval f) (fvalopt f) x = true.
Proof.
  unfold val_shape_ok, validate, jvalidate. intros VS B N J.
  assert (NONE : x = VNone -> match fval f with VNoVal => true | _ => fvalopt f end = true).
  { intros ->. cbn [Denote.den] in N. apply NEq_to_null in N. subst v. destruct (fvalopt f); [destruct (fval f); reflexivity|]. destruct (fval f); try discriminate J; reflexivity. }
  destruct (fval f) eqn:K.
  - destruct x, (fvalopt f); reflexivity.
  - apply direct_b_sound in VS; [|reflexivity]. destruct (built_direct Sg NL _ _ x VS B) as [Bx| ->]; [inversion Bx; subst | rewrite (NONE eq_refl); reflexivity].
    cbn [Denote.den] in N. inversion N; subst. destruct (fvalopt f); exact J.
  - apply direct_b_sound in VS; [|reflexivity]. destruct (built_direct Sg NL _ _ x VS B) as [Bx| ->]; [inversion Bx; subst | rewrite (NONE eq_refl); reflexivity].
    cbn [Denote.den] in N. inversion N; subst. destruct (fvalopt f); exact J.
  - apply direct_b_sound in VS; [|reflexivity]. destruct (built_direct Sg NL _ _ x VS B) as [Bx| ->]; [inversion Bx; subst | rewrite (NONE eq_refl); reflexivity].
    destruct (fvalopt f); reflexivity.
  - apply direct_b_sound in VS; [|reflexivity]. destruct (built_direct Sg NL _ _ x VS B) as [Bx| ->]; [inversion Bx; subst | rewrite (NONE eq_refl); reflexivity].
    destruct (fvalopt f); reflexivity.
  - apply direct_b_sound in VS; [|reflexivity]. destruct (built_direct Sg NL _ _ x VS B) as [Bx| ->]; [inversion Bx; subst | rewrite (NONE eq_refl); reflexivity].
    destruct (fvalopt f); reflexivity.
  - apply andb_true_iff in VS. destruct VS as [VS VO]. apply negb_true_iff in VO. rewrite VO in *.
    apply orb_true_iff in VS. destruct VS as [VS|VS].
    + apply pty_eqb_atomic in VS; [|reflexivity]. rewrite VS in B. inversion B; subst. cbn [Denote.den] in N. inversion N; subst. exact J.
    + destruct (ftype f); try discriminate VS. inversion B; subst. cbn [Denote.den] in N. inversion N; subst. exact J.
Qed.

Hypothesis HC : all_cls_ok Sg = true.
Hypothesis HC2 : all_cls_ok2 = true.

Lemma cls_facts2 c fds : lookup_cls Sg c = Some fds ->
  NoDup (map fname fds) /\ forall f, In f fds -> fdefault f = DefaultNone ->
    (fval f = VNoVal \/ fvalopt f = true) /\ (fomit f = false -> NL c (fwire f) = true).
Proof.
  intros L. unfold all_cls_ok2 in HC2. rewrite forallb_forall in HC2. specialize (HC2 _ (lookup_in Sg c fds L)). unfold cls_ok2_b in HC2. cbn [fst snd] in HC2.
  apply andb_true_iff in HC2. destruct HC2 as [ND HF]. split; [apply nodupb_NoDup; exact ND|]. rewrite forallb_forall in HF.
  intros f If D. specialize (HF f If). rewrite D in HF. apply andb_true_iff in HF. destruct HF as [H1 H2]. split.
  - destruct (fval f); auto.
  - intros O. rewrite O in H2. exact H2.
Qed.

(* ---- the class case, from the per-attribute facts *)
Lemma cls_spec c fs m kw : lookup_cls Sg c = Some fs -> NoDup (keys m) ->
  (forall k v, In (k, v) m -> exists f, In f fs /\ fwire f = k /\ pvalid (ftype f) v /\ jvalidate f v = true /\ (v = JNull -> NL c k = true)) ->
  (forall f, In f fs -> must_present Sg f = true -> In (fwire f) (keys m)) ->
  Forall2 (fun f p => fst p = fname f /\ (forall v, assoc (fwire f) m = Some v -> built (ftype f) (snd p) /\ NEq v (den (snd p))) /\
                      (assoc (fwire f) m = None -> snd p = VNone)) fs kw ->
  built (PyCls c) (VObj c kw) /\ NEq (JObj m) (den (VObj c kw)).
Proof.
  intros L NDm Hp Hr F2. destruct (cls_facts Sg HC c fs L) as [NDw FF]. destruct (cls_facts2 c fs L) as [NDn FD].
  pose (Rf := fun (f : fld) (p : string * pv) =>
    fst p = fname f /\ built (ftype f) (snd p) /\ validate (fval f) (fvalopt f) (snd p) = true /\
    match assoc (fwire f) m with Some v => NEq v (den (snd p)) | None => fdefault f = DefaultNone /\ snd p = VNone end).
  assert (F3 : Forall2 Rf fs kw).
  { assert (G : forall fs0 kw0, Forall2 (fun f p => fst p = fname f /\ (forall v, assoc (fwire f) m = Some v -> built (ftype f) (snd p) /\ NEq v (den (snd p))) /\
                      (assoc (fwire f) m = None -> snd p = VNone)) fs0 kw0 -> (forall f, In f fs0 -> In f fs) -> Forall2 Rf fs0 kw0); [|exact (G fs kw F2 (fun f I => I))].
    induction 1 as [|f p fs1 kw1 [E [Hs Hn]] F IH]; intros Sub; constructor; [|apply IH; intros g Ig; apply Sub; right; exact Ig].
    assert (If : In f fs) by (apply Sub; left; reflexivity).
    unfold Rf. split; [exact E|]. destruct (assoc (fwire f) m) as [v|] eqn:A.
    - destruct (Hs v eq_refl) as [Bx Nx]. split; [exact Bx|]. split; [|exact Nx].
      pose proof (assoc_in _ _ _ A) as Iv. destruct (Hp _ _ Iv) as [f' [If' [Ef' [_ [Jv _]]]]].
      assert (f' = f). { pose proof (find_wire fs (fwire f) f' NDw If' Ef') as F1. pose proof (find_wire fs (fwire f) f NDw If eq_refl) as F4. congruence. }
      subst f'. exact (val_ok_rev f v (snd p) (proj1 (proj2 (proj2 (FF f If)))) Bx Nx Jv).
    - rewrite (Hn eq_refl).
      assert (MP : must_present Sg f = false).
      { destruct (must_present Sg f) eqn:MP; [|reflexivity]. exfalso. apply assoc_none in A. apply A. apply Hr; assumption. }
      assert (D : fdefault f = DefaultNone) by (unfold must_present in MP; destruct (fdefault f); try discriminate; reflexivity).
      split; [|split; [|split; [exact D | reflexivity]]].
      + unfold must_present in MP. rewrite D in MP. apply negb_false_iff in MP. exact (typed_none_built 3 _ MP).
      + destruct (proj1 (FD f If D)) as [-> | ->]; unfold validate; [destruct (fvalopt f); reflexivity | reflexivity]. }
  assert (Rn : forall g p, Rf g p -> fst p = fname g) by (intros g p [E _]; exact E).
  split.
  - (* built *)
    econstructor; [exact L|]. intros f If.
    destruct (assoc_fname fs kw Rf f NDn F3 Rn If) as [x [A [_ [Bx [Vx RN]]]]]. cbn [snd] in Bx, Vx, RN.
    exists x. split; [exact A|]. split; [exact Bx|]. split; [exact Vx|]. intros EX W. subst x.
    destruct (assoc (fwire f) m) as [v|] eqn:Av.
    + cbn [Denote.den] in RN. apply NEq_to_null in RN. subst v.
      destruct (Hp _ _ (assoc_in _ _ _ Av)) as [f' [_ [_ [_ [_ NLk]]]]]. exact (NLk eq_refl).
    + destruct RN as [D _]. rewrite D in W. cbn in W. rewrite andb_true_r in W. exact (proj2 (FD f If D) W).
  - (* NEq *)
    cbn [Denote.den]. rewrite L.
    set (pairs := map (fun f => match assoc (fname f) ((fix go (fs0 : list (string * pv)) := match fs0 with [] => [] | (k, v) :: r => (k, (v, den v)) :: go r end) kw) with
                                | Some (x, dx) => if fomit f && pv_is_default (fdefault f) x then None else Some (fwireo f, dx) | None => None end) fs).
    assert (Hw : forall g, In g fs -> fwireo g = fwire g) by (intros g Ig; exact (proj1 (FF g Ig))).
    assert (PW : forall f, In f fs -> exists x, assoc (fname f) kw = Some x /\ Rf f (fname f, x) /\
                  (fomit f && pv_is_default (fdefault f) x = false -> In (fwire f, den x) (somes pairs)) /\
                  (forall b, In (fwire f, b) (somes pairs) -> b = den x /\ fomit f && pv_is_default (fdefault f) x = false)).
    { intros f If. destruct (assoc_fname fs kw Rf f NDn F3 Rn If) as [x [A R]]. exists x. split; [exact A|]. split; [exact R|].
      assert (EQ : forall g, In g fs -> forall y, assoc (fname g) kw = Some y ->
                match assoc (fname g) ((fix go (fs0 : list (string * pv)) := match fs0 with [] => [] | (k, v) :: r => (k, (v, den v)) :: go r end) kw) with
                | Some (x0, dx) => if fomit g && pv_is_default (fdefault g) x0 then None else Some (fwireo g, dx) | None => None end
                = if fomit g && pv_is_default (fdefault g) y then None else Some (fwire g, den y)).
      { intros g Ig y Ay. rewrite assoc_go, Ay. cbn. rewrite (Hw g Ig). reflexivity. }
      split.
      - intros O. unfold somes. apply in_flat_map. exists (Some (fwire f, den x)). split; [|left; reflexivity].
        unfold pairs. apply in_map_iff. exists f. split; [|exact If]. rewrite (EQ f If x A), O. reflexivity.
      - intros b Ib. unfold somes in Ib. apply in_flat_map in Ib. destruct Ib as [[q|] [Iq Iq2]]; [|contradiction].
        destruct Iq2 as [Eq|[]]. subst q. unfold pairs in Iq. apply in_map_iff in Iq. destruct Iq as [g [Eg Ig]].
        destruct (assoc_fname fs kw Rf g NDn F3 Rn Ig) as [y [Ay _]]. rewrite (EQ g Ig y Ay) in Eg.
        destruct (fomit g && pv_is_default (fdefault g) y) eqn:Og; [discriminate|]. inversion Eg as [[Ew Eb]].
        assert (g = f). { pose proof (find_wire fs (fwire f) g NDw Ig Ew) as F1. pose proof (find_wire fs (fwire f) f NDw If eq_refl) as F4. congruence. }
        subst g. rewrite A in Ay. inversion Ay; subst y. split; [reflexivity | exact Og]. }
    assert (NDp : NoDup (keys (somes pairs))).
    { unfold keys, somes, pairs. clear -NDw Hw. induction fs as [|f fs IH]; cbn; [constructor|].
      inversion NDw as [|? ? Nf NDr]; subst.
      assert (IHr : NoDup (map fst (flat_map (fun o : option (string * json) => match o with Some x => [x] | None => [] end)
                (map (fun f0 => match assoc (fname f0) ((fix go (fs0 : list (string * pv)) := match fs0 with [] => [] | (k, v) :: r => (k, (v, den v)) :: go r end) kw) with
                                | Some (x, dx) => if fomit f0 && pv_is_default (fdefault f0) x then None else Some (fwireo f0, dx) | None => None end) fs)))).
      { apply IH; [exact NDr | intros g Ig; apply Hw; right; exact Ig]. }
      destruct (assoc (fname f) _) as [[x dx]|]; [|exact IHr]. destruct (fomit f && pv_is_default (fdefault f) x); [exact IHr|].
      cbn. constructor; [|exact IHr]. intro I. apply in_map_iff in I. destruct I as [[k b] [Ek Ib]]. cbn in Ek. subst k.
      apply in_flat_map in Ib. destruct Ib as [[q|] [Iq Iq2]]; [|contradiction]. destruct Iq2 as [Eq|[]]. subst q.
      apply in_map_iff in Iq. destruct Iq as [g [Eg Ig]].
      destruct (assoc (fname g) _) as [[y dy]|]; [|discriminate]. destruct (fomit g && pv_is_default (fdefault g) y); [discriminate|].
      inversion Eg as [[Ew Eb]]. apply Nf. rewrite (Hw f (or_introl eq_refl)) in Ew. rewrite (Hw g (or_intror Ig)) in Ew.
      rewrite <- Ew. apply in_map. exact Ig. }
    constructor.
    + intros k a A Na. pose proof (assoc_in _ _ _ A) as Ia. destruct (Hp _ _ Ia) as [f [If [Ef _]]].
      destruct (PW f If) as [x [Ax [R [Pin _]]]]. destruct R as [_ [_ [_ RN]]]. rewrite Ef, A in RN. cbn [snd] in RN.
      exists (den x). split; [|exact RN]. apply in_assoc_nodup; [exact NDp|]. rewrite <- Ef. apply Pin.
      destruct (fomit f) eqn:Of; [|reflexivity]. cbn [andb].
      destruct (fdefault f) eqn:D; [reflexivity | | rewrite (proj2 (proj2 (proj2 (FF f If))) s D) in Of; discriminate].
      destruct x; try reflexivity. cbn [Denote.den] in RN. inversion RN; subst. congruence.
    + intros k b B Nb. pose proof (assoc_in _ _ _ B) as Ib.
      assert (exists f, In f fs /\ fwire f = k) as [f [If Ef]].
      { unfold somes in Ib. apply in_flat_map in Ib. destruct Ib as [[q|] [Iq Iq2]]; [|contradiction]. destruct Iq2 as [E|[]]. subst q.
        unfold pairs in Iq. apply in_map_iff in Iq. destruct Iq as [g [Eg Ig]]. exists g. split; [exact Ig|].
        destruct (assoc (fname g) _) as [[y dy]|]; [|discriminate]. destruct (fomit g && pv_is_default (fdefault g) y); [discriminate|].
        inversion Eg. rewrite <- (Hw g Ig). reflexivity. }
      subst k. destruct (PW f If) as [x [Ax [R [_ Pout]]]]. destruct (Pout b Ib) as [-> _].
      destruct R as [_ [_ [_ RN]]]. destruct (assoc (fwire f) m) as [v|] eqn:A.
      * exists v. split; [reflexivity | exact RN].
      * destruct RN as [_ RN]. cbn [snd] in RN. subst x. exfalso. apply Nb. reflexivity.
Qed.

Lemma F2_in_l {A B} (R : A -> B -> Prop) l l' x : Forall2 R l l' -> In x l -> exists y, In y l' /\ R x y.
Proof. induction 1 as [|a b l l' Rab F IH]; intros I; [contradiction|]. destruct I as [<-|I]; [exists b; split; [left; reflexivity | exact Rab]|]. destruct (IH I) as [y [Iy Ry]]. exists y. split; [right; exact Iy | exact Ry]. Qed.

(* ---- the theorem *)
Theorem bld_spec : forall P j o, bld P j o -> pvalid P j -> built P o /\ NEq j (den o).
Proof.
  fix IH 4. intros P j o B V. destruct B as [j | n j | | z | s | b | z | a b | l s | e d j m Le Fm | t l os F | ts l os F | v m os F | c fs m kw L F | ms t j o It Vt Bt].
  - split; [constructor | rewrite den_embed; apply NEq_refl].
  - split; [constructor | rewrite den_embed; apply NEq_refl].
  - split; constructor.
  - split; constructor.
  - split; constructor.
  - split; constructor.
  - split; constructor.
  - split; constructor.
  - inversion V; subst. split; [constructor; assumption | constructor].
  - (* enum *)
    inversion V as [| | | | | | | | |e0 d0 j0 Le0 Pj [m0 [Fm0 Dm0]]| | | | |]; subst e0 j0. rewrite Le in Le0. inversion Le0; subst d0.
    rewrite Fm in Fm0. inversion Fm0; subst m0.
    assert (PM : is_prim_v m = true).
    { apply find_some in Fm. destruct Fm as [_ Em]. destruct j; try discriminate; destruct m; try discriminate; reflexivity. }
    assert (EJ : embed j = m) by (cbn [Denote.den] in Dm0; rewrite <- Dm0; apply is_prim_v_embed; exact PM).
    split; [|rewrite Dm0; apply NEq_refl]. eapply b_enum; [exact Le | exact PM | rewrite <- EJ at 1; exact Fm].
  - (* seq *)
    inversion V as [| | | | | | | | | |t0 l0 Hl| | | |]; subst.
    assert (FF : Forall2 (fun x o => built t o /\ NEq x (den o)) l os).
    { clear V. revert Hl. induction F as [|x o l os Bx F IHF]; intros Hl; constructor.
      - apply (IH t x o Bx). apply Hl. left. reflexivity.
      - apply IHF. intros y Iy. apply Hl. right. exact Iy. }
    split.
    + constructor. intros o Io. clear -FF Io. induction FF as [|x o' l os [Bo _] FF IHF]; [contradiction|]. destruct Io as [<-|Io]; [exact Bo | exact (IHF Io)].
    + cbn [Denote.den]. constructor. clear -FF. induction FF as [|x o' l os [_ No] FF IHF]; constructor; assumption.
  - (* tuple *)
    inversion V as [| | | | | | | | | | |ts0 l0 HF| | |]; subst.
    assert (FF : Forall2 (fun t o => built t o) ts os /\ Forall2 NEq l (map den os)).
    { clear V. revert HF. induction F as [|t x o ts l os Bo F IHF]; intros HF; [split; constructor|].
      inversion HF as [|? ? ? ? Vx HF']; subst. destruct (IH t x o Bo Vx) as [Bt Nt]. destruct (IHF HF') as [B1 N1].
      split; constructor; assumption. }
    destruct FF as [B1 N1]. split; [constructor; exact B1 | cbn [Denote.den]; constructor; exact N1].
  - (* dict *)
    inversion V as [| | | | | | | | | | | |k0 v0 m0 ND HM EK|  |]; subst.
    assert (FF : Forall2 (fun kv ko => fst ko = VStr (fst kv) /\ built v (snd ko) /\ NEq (snd kv) (den (snd ko))) m os).
    { clear V. revert HM. clear ND. induction F as [|kv ko m os [E Bv] F IHF]; intros HM; constructor.
      - destruct kv as [a b]. destruct (IH v b (snd ko) Bv (HM a b (or_introl eq_refl))) as [B1 N1]. auto.
      - apply IHF. intros a b I. apply (HM a b). right. exact I. }
    assert (KS : map (fun kv => key_str (fst kv)) os = keys m).
    { clear -FF. unfold keys. induction FF as [|kv ko m os [E _] FF IHF]; [reflexivity|]. cbn [map]. rewrite IHF, E. reflexivity. }
    split.
    + constructor; [rewrite KS; exact ND|]. intros k x I. destruct (Forall2_in_r _ _ _ _ FF I) as [kv [_ [E [Bx _]]]]. cbn [fst snd] in E, Bx. subst k. split; [reflexivity | exact Bx].
    + cbn [Denote.den]. rewrite dict_go. clear -FF. constructor.
      * intros k a A Na. induction FF as [|[k' b] [ko xo] m os [E [_ N]] FF IHF]; [discriminate|]. cbn [fst snd] in E, N. subst ko.
        unfold assoc in A |- *. cbn [map find fst snd key_str] in A |- *. destruct (String.eqb k' k).
        -- cbn in A |- *. inversion A; subst. exists (den xo). split; [reflexivity | exact N].
        -- exact (IHF A).
      * intros k b B Nb. induction FF as [|[k' b'] [ko xo] m os [E [_ N]] FF IHF]; [discriminate|]. cbn [fst snd] in E, N. subst ko.
        unfold assoc in B |- *. cbn [map find fst snd key_str] in B |- *. destruct (String.eqb k' k).
        -- cbn in B |- *. inversion B; subst. exists b'. split; [reflexivity | exact N].
        -- exact (IHF B).
  - (* class *)
    inversion V as [| | | | | | | | | | | | |c0 fs0 m0 L0 ND Hp Hr|]; subst. rewrite L in L0. inversion L0; subst fs0.
    destruct (cls_facts Sg HC c fs L) as [NDw _].
    apply (cls_spec c fs m kw L ND Hp Hr).
    pose (fsAll := fs). assert (Sub : forall f, In f fs -> In f fsAll) by (intros f I; exact I).
    change fs with fsAll in L, Hp, Hr, NDw. change (Some fs) with (Some fsAll) in L0. clearbody fsAll. clear L0.
    induction F as [|f p fs1 kw1 R F IHF]; constructor; [|apply IHF; intros g Ig; apply Sub; right; exact Ig].
    destruct R as [E [Hs Hn]]. split; [exact E|]. split; [|exact Hn].
    intros v A. assert (If : In f fsAll) by (apply Sub; left; reflexivity).
    destruct (Hp _ _ (assoc_in _ _ _ A)) as [f' [If' [Ef' [Pf' _]]]].
    assert (f' = f). { pose proof (find_wire fsAll (fwire f) f' NDw If' Ef') as F1. pose proof (find_wire fsAll (fwire f) f NDw If eq_refl) as F4. congruence. }
    subst f'. exact (IH (ftype f) v (snd p) (Hs v A) Pf').
  - (* union: the alternative the user chose *)
    destruct (IH t j o Bt Vt) as [B1 N1]. split; [eapply b_union; [exact It | exact B1] | exact N1].
Qed.
End Build.

(* ---------------------------------------------------------------- C02: from a valid value to the serialised normal form *)
Section C02b.
Variable Sg : sigma.
Variable NL : string -> string -> bool.
Theorem bld_serialises : all_cls_ok Sg = true -> all_cls_ok2 Sg NL = true ->
  forall P j o, pvalid Sg NL P j -> bld Sg NL P j o ->
  built Sg NL P o /\ NEq j (den Sg o) /\ exists n, unstr Sg n (Some P) o = Ok (den Sg o).
Proof.
  intros H1 H2 P j o V B. destruct (bld_spec Sg NL H1 H2 P j o B V) as [Bo N]. split; [exact Bo|]. split; [exact N|].
  exact (unstr_typed Sg P o (built_typed Sg NL P o Bo)).
Qed.
End C02b.
