(* MMRound.v — the parse / round-trip theorem for METAMODEL-valid values:
   Link.cvalid_pvalid (metamodel validity => Python-side validity, through the image relation W_img establishes)
   composed with HookFrag.covered_roundtrip (Python-side validity => parses, well-typed, serialises back up to nulls). *)
From LSP Require Import Base MM Sem SemThy Denote PtyEq RoundTrip HookFrag Image ImageThy Link Ext.

Section MMRound.
Variable mm : MM.
Variable Sg : sigma.
Variable alias_objects : list (string * pty).
Variable plain_classes : list string.
Variable py_str : json -> string.
Variable GC : list string.
Variable GU : list pty.
Hypothesis H_img : W_img mm Sg alias_objects plain_classes = true.
Hypothesis H_names : names_ok mm = true.
Hypothesis H_fields : fields_ok2 Sg = true.
Hypothesis H_table : table_ok Sg GC GU = true.
Hypothesis H_hooks : hooks_ok Sg (NLmm mm) GC GU = true.

Theorem mm_pvalid T j p k n : cvalid mm T j -> wfp p = true -> smatch mm Sg alias_objects k (py_of mm n T) p = true -> pvalid Sg (NLmm mm) p j.
Proof.
  destruct (names_ok_sound mm H_names) as [N1 [N2 [N3 N4]]]. destruct (fields_ok2_sound Sg H_fields) as [F1 F2].
  exact (cvalid_pvalid mm Sg alias_objects plain_classes H_img F1 F2 N1 N2 N3 N4 T j p k n).
Qed.

Corollary mm_pvalid_structure s st j : find_struct mm s = Some st -> String.eqb s "LSPObject" = false -> cvalid mm (TRef s) j ->
  pvalid Sg (NLmm mm) (PyCls s) j.
Proof.
  intros F O V. destruct (names_ok_sound mm H_names) as [N1 _].
  apply (mm_pvalid (TRef s) j (PyCls s) 1 1 V); [reflexivity|].
  cbn [Image.py_of]. rewrite (N1 s st F), O, F. cbn [Image.smatch]. apply String.eqb_refl.
Qed.

Corollary mm_pvalid_literal ps0 c fs j : lookup_cls Sg c = Some fs -> find_struct mm c = None ->
  corrw_b mm Sg alias_objects (props_of_lit ps0) fs = true -> cvalid mm (TLit ps0) j -> pvalid Sg (NLmm mm) (PyCls c) j.
Proof.
  intros L NS CB V. destruct (names_ok_sound mm H_names) as [N1 [N2 [N3 N4]]]. destruct (fields_ok2_sound Sg H_fields) as [F1 F2].
  exact (lit_pvalid mm Sg alias_objects plain_classes H_img F1 F2 N1 N2 N3 N4 ps0 c fs j L NS CB V).
Qed.

(* for every metamodel type T, every annotation p that is the image of T (smatch) and lies in the covered part, and EVERY closed-valid
   JSON value j of T: j parses at p into a value of type p that serialises back to j up to null-valued members *)
Theorem mm_roundtrip T j p k n : cvalid mm T j -> wfp p = true -> smatch mm Sg alias_objects k (py_of mm n T) p = true ->
  okty Sg GC GU p = true ->
  exists n' o j', structure Sg py_str n' p j = Ok o /\ has_type Sg p o /\ unstr Sg n' (Some p) o = Ok j' /\ NEq j j'.
Proof.
  intros V W M O. exact (covered_roundtrip Sg py_str (NLmm mm) GC GU H_table H_hooks p j O (mm_pvalid T j p k n V W M)).
Qed.

(* structures: the class of the same name *)
Corollary mm_roundtrip_structure s st j : find_struct mm s = Some st -> String.eqb s "LSPObject" = false -> mem s GC = true ->
  cvalid mm (TRef s) j ->
  exists n' o j', structure Sg py_str n' (PyCls s) j = Ok o /\ has_type Sg (PyCls s) o /\ unstr Sg n' (Some (PyCls s)) o = Ok j' /\ NEq j j'.
Proof.
  intros F O G V. destruct (names_ok_sound mm H_names) as [N1 _].
  apply (mm_roundtrip (TRef s) j (PyCls s) 1 1 V); [reflexivity | | unfold okty; cbn [flat_ty handled andb]; exact G].
  cbn [Image.py_of]. rewrite (N1 s st F), O, F. cbn [Image.smatch]. apply String.eqb_refl.
Qed.
(* literal types (message envelopes) at a class that corresponds to the literal in the weak sense of Link.CorrW *)
Corollary mm_roundtrip_literal ps0 c fs j : lookup_cls Sg c = Some fs -> find_struct mm c = None ->
  corrw_b mm Sg alias_objects (props_of_lit ps0) fs = true -> mem c GC = true -> cvalid mm (TLit ps0) j ->
  exists n' o j', structure Sg py_str n' (PyCls c) j = Ok o /\ has_type Sg (PyCls c) o /\ unstr Sg n' (Some (PyCls c)) o = Ok j' /\ NEq j j'.
Proof.
  intros L NS CB G V. destruct (names_ok_sound mm H_names) as [N1 [N2 [N3 N4]]]. destruct (fields_ok2_sound Sg H_fields) as [F1 F2].
  apply (covered_roundtrip Sg py_str (NLmm mm) GC GU H_table H_hooks (PyCls c) j); [unfold okty; cbn [flat_ty handled andb]; exact G|].
  exact (lit_pvalid mm Sg alias_objects plain_classes H_img F1 F2 N1 N2 N3 N4 ps0 c fs j L NS CB V).
Qed.

(* forward compatibility (C15) at every depth, for metamodel-valid values: unknown properties (names outside D) added to the protocol
   objects of a valid value (LSP.Ext.xt) do not change what is structured, and that value serialises to the un-extended input *)
Variable D : list string.
Hypothesis H_decl : names_declared Sg D = true.
Theorem mm_ext T j p k n : cvalid mm T j -> wfp p = true -> smatch mm Sg alias_objects k (py_of mm n T) p = true ->
  okty Sg GC GU p = true -> forall j', xt Sg (NLmm mm) D p j j' ->
  exists n' o jj, structure Sg py_str n' p j = Ok o /\ structure Sg py_str n' p j' = Ok o /\ has_type Sg p o /\
                  unstr Sg n' (Some p) o = Ok jj /\ NEq j jj.
Proof.
  intros V W M O j' X. exact (ext_same_result Sg py_str (NLmm mm) GC GU D H_table H_hooks H_decl p j O (mm_pvalid T j p k n V W M) j' X).
Qed.
Corollary mm_ext_structure s st j : find_struct mm s = Some st -> String.eqb s "LSPObject" = false -> mem s GC = true ->
  cvalid mm (TRef s) j -> forall j', xt Sg (NLmm mm) D (PyCls s) j j' ->
  exists n' o jj, structure Sg py_str n' (PyCls s) j = Ok o /\ structure Sg py_str n' (PyCls s) j' = Ok o /\ has_type Sg (PyCls s) o /\
                  unstr Sg n' (Some (PyCls s)) o = Ok jj /\ NEq j jj.
Proof.
  intros F O G V. destruct (names_ok_sound mm H_names) as [N1 _].
  apply (mm_ext (TRef s) j (PyCls s) 1 1 V); [reflexivity | | unfold okty; cbn [flat_ty handled andb]; exact G].
  cbn [Image.py_of]. rewrite (N1 s st F), O, F. cbn [Image.smatch]. apply String.eqb_refl.
Qed.
Corollary mm_ext_literal ps0 c fs j : lookup_cls Sg c = Some fs -> find_struct mm c = None ->
  corrw_b mm Sg alias_objects (props_of_lit ps0) fs = true -> mem c GC = true -> cvalid mm (TLit ps0) j ->
  forall j', xt Sg (NLmm mm) D (PyCls c) j j' ->
  exists n' o jj, structure Sg py_str n' (PyCls c) j = Ok o /\ structure Sg py_str n' (PyCls c) j' = Ok o /\ has_type Sg (PyCls c) o /\
                  unstr Sg n' (Some (PyCls c)) o = Ok jj /\ NEq j jj.
Proof.
  intros L NS CB G V. destruct (names_ok_sound mm H_names) as [N1 [N2 [N3 N4]]]. destruct (fields_ok2_sound Sg H_fields) as [F1 F2].
  apply (ext_same_result Sg py_str (NLmm mm) GC GU D H_table H_hooks H_decl (PyCls c) j); [unfold okty; cbn [flat_ty handled andb]; exact G|].
  exact (lit_pvalid mm Sg alias_objects plain_classes H_img F1 F2 N1 N2 N3 N4 ps0 c fs j L NS CB V).
Qed.
End MMRound.
