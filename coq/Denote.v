(* Denote.v — every well-typed Python value serialises successfully, to its denotation (generic, for every package table).
   [den o] is the JSON a value stands for: objects write the non-omitted attributes under their wire names, enum members
   their value, tuples and lists arrays.  [wf o] is run-time well-formedness (what dynamic dispatch needs), [has_type P o]
   typing against an annotation (what the statically chosen handler needs).  Theorems:
     unstr_dyn   : wf o          -> exists n, forall m >= n, unstr m None o     = Ok (den o)
     unstr_typed : has_type P o  -> exists n, forall m >= n, unstr m (Some P) o = Ok (den o)
   They are the serialisation half of C01 / C02 / C03: no hook is involved on the way out. *)
From Coq Require Import Lia.
From LSP Require Import Base Sem SemThy.

Section Den.
Variable Sg : sigma.

Definition key_str (v : pv) : string := match v with VStr s | VEnum _ (VStr s) => s | _ => "" end.
Definition is_key (v : pv) : bool := match v with VStr _ | VEnum _ (VStr _) => true | _ => false end.
Definition is_prim_v (v : pv) : bool := match v with VBool _ | VInt _ | VFlt _ _ | VStr _ => true | _ => false end.

Fixpoint den (o : pv) : json :=
  match o with
  | VNone => JNull | VBool b => JBool b | VInt z => JInt z | VFlt a b => JFlt a b | VStr s => JStr s
  | VList l | VTuple l => JArr (map den l)
  | VDict m => JObj ((fix go (m : list (pv * pv)) := match m with [] => [] | (k, v) :: r => (key_str k, den v) :: go r end) m)
  | VEnum _ x => den x
  | VObj c fs =>
      let dfs := (fix go (fs : list (string * pv)) := match fs with [] => [] | (k, v) :: r => (k, (v, den v)) :: go r end) fs in
      match lookup_cls Sg c with
      | Some fds => JObj (somes (map (fun f => match assoc (fname f) dfs with
                                              | Some (x, dx) => if fomit f && pv_is_default (fdefault f) x then None else Some (fwireo f, dx)
                                              | None => None end) fds))
      | None => JNull end
  end.

(* run-time well-formedness and typing *)
Inductive wf : pv -> Prop :=
| wf_none : wf VNone | wf_bool b : wf (VBool b) | wf_int z : wf (VInt z) | wf_flt a b : wf (VFlt a b) | wf_str s : wf (VStr s)
| wf_list l : (forall x, In x l -> wf x) -> wf (VList l)
| wf_tuple l : (forall x, In x l -> wf x) -> wf (VTuple l)
| wf_dict m : (forall k v, In (k, v) m -> is_key k = true) -> (forall k v, In (k, v) m -> wf v) -> wf (VDict m)
| wf_enum c x : is_prim_v x = true -> wf (VEnum c x)
| wf_obj c fs fds : lookup_cls Sg c = Some fds ->
    (forall f, In f fds -> exists x, assoc (fname f) fs = Some x /\ has_type (ftype f) x) -> wf (VObj c fs)
with has_type : pty -> pv -> Prop :=
| t_any o : wf o -> has_type PyAny o
| t_opaque n o : wf o -> has_type (PyOpaque n) o
| t_none : has_type PyNone VNone
| t_int z : has_type PyInt (VInt z)
| t_int_enum c z : has_type PyInt (VEnum c (VInt z))          (* an int-based enum member is an int *)
| t_str s : has_type PyStr (VStr s)
| t_str_enum c s : has_type PyStr (VEnum c (VStr s))
| t_bool b : has_type PyBool (VBool b)
| t_float a b : has_type PyFloat (VFlt a b)
| t_lit l s : In s l -> has_type (PyLit l) (VStr s)
| t_enum e x : is_prim_v x = true -> has_type (PyEnum e) (VEnum e x)
| t_seq t l : (forall x, In x l -> has_type t x) -> has_type (PySeq t) (VList l)
| t_tuple ts l : Forall2 has_type ts l -> has_type (PyTuple ts) (VTuple l)
| t_dict k v m : (forall a b, In (a, b) m -> is_key a = true) -> (forall a b, In (a, b) m -> has_type v b) -> has_type (PyDict k v) (VDict m)
| t_cls c fs : wf (VObj c fs) -> has_type (PyCls c) (VObj c fs)
| t_union ms t o : In t ms -> has_type t o -> has_type (PyUnion ms) o
(* at a union position that is not a plain Optional[...], a primitive EQUAL to a member of an enumeration alternative
   (what the pass-through hooks return for Union[<enum>, ...]); it serialises by run-time class dispatch *)
| t_union_raw ms e d x : In (PyEnum e) ms -> lookup_enum Sg e = Some d -> existsb (pv_eqb_prim x) (evals d) = true ->
    not_optional_pair ms = true -> is_prim_v x = true -> has_type (PyUnion ms) x.
End Den.

(* ---------------------------------------------------------------- fuel monotonicity of unstructuring *)
Lemma mapM_mono {A B} (f g : A -> res B) l r : (forall x y, In x l -> f x = Ok y -> g x = Ok y) -> mapM f l = Ok r -> mapM g l = Ok r.
Proof.
  revert r. induction l as [|a l IH]; cbn; intros r H M; [exact M|].
  destruct (f a) as [y| |] eqn:E; cbn in M; try discriminate.
  destruct (mapM f l) as [ys| |] eqn:El; cbn in M; try discriminate.
  rewrite (H a y (or_introl eq_refl) E). cbn. rewrite (IH ys (fun x y I => H x y (or_intror I)) eq_refl). exact M.
Qed.

Section Mono.
Variable Sg : sigma.
Variables rec rec' : option pty -> pv -> res json.
Hypothesis Hrec : forall ot v j, rec ot v = Ok j -> rec' ot v = Ok j.

Lemma bind_mono {A B} (r r' : res A) (k k' : A -> res B) y :
  (forall a, r = Ok a -> r' = Ok a) -> (forall a b, k a = Ok b -> k' a = Ok b) -> bind r k = Ok y -> bind r' k' = Ok y.
Proof. intros H1 H2. destruct r as [a| |]; cbn; try discriminate. rewrite (H1 a eq_refl). cbn. apply H2. Qed.

Lemma ufield_mono fs f y : ufield rec fs f = Ok y -> ufield rec' fs f = Ok y.
Proof.
  unfold ufield. destruct (assoc (fname f) fs) as [x|]; [|discriminate].
  destruct (fomit f && pv_is_default (fdefault f) x); [auto|].
  destruct (rec (Some (ftype f)) x) as [v| |] eqn:E; cbn; try discriminate. rewrite (Hrec _ _ _ E). auto.
Qed.
Lemma dict_mono (g g' : pv -> res json) m r : (forall v j, g v = Ok j -> g' v = Ok j) ->
  mapM (fun kv : pv * pv => do k <- key_of (fst kv); do x <- g (snd kv); Ok (k, x)) m = Ok r ->
  mapM (fun kv : pv * pv => do k <- key_of (fst kv); do x <- g' (snd kv); Ok (k, x)) m = Ok r.
Proof.
  intros H. apply mapM_mono. intros kv y _. destruct (key_of (fst kv)); cbn; try discriminate.
  destruct (g (snd kv)) as [x| |] eqn:E; cbn; try discriminate. rewrite (H _ _ E). auto.
Qed.
Lemma by_class_mono v j :
  (match v with
   | VNone => Ok JNull | VBool b => Ok (JBool b) | VInt z => Ok (JInt z) | VFlt a b => Ok (JFlt a b) | VStr s => Ok (JStr s)
   | VList l | VTuple l => do l' <- mapM (rec None) l; Ok (JArr l')
   | VDict m => do m' <- mapM (fun kv => do k <- key_of (fst kv); do x <- rec None (snd kv); Ok (k, x)) m; Ok (JObj m')
   | VEnum _ x => rec None x
   | VObj c _ => rec (Some (PyCls c)) v end) = Ok j ->
  (match v with
   | VNone => Ok JNull | VBool b => Ok (JBool b) | VInt z => Ok (JInt z) | VFlt a b => Ok (JFlt a b) | VStr s => Ok (JStr s)
   | VList l | VTuple l => do l' <- mapM (rec' None) l; Ok (JArr l')
   | VDict m => do m' <- mapM (fun kv => do k <- key_of (fst kv); do x <- rec' None (snd kv); Ok (k, x)) m; Ok (JObj m')
   | VEnum _ x => rec' None x
   | VObj c _ => rec' (Some (PyCls c)) v end) = Ok j.
Proof.
  destruct v; auto.
  - intros H. destruct (mapM (rec None) l) as [l'| |] eqn:E; cbn in H; try discriminate.
    rewrite (mapM_mono _ (rec' None) _ _ (fun x y _ => Hrec None x y) E). exact H.
  - intros H. destruct (mapM (rec None) l) as [l'| |] eqn:E; cbn in H; try discriminate.
    rewrite (mapM_mono _ (rec' None) _ _ (fun x y _ => Hrec None x y) E). exact H.
  - intros H. destruct (mapM _ m) as [m'| |] eqn:E; cbn in H; try discriminate.
    rewrite (dict_mono (rec None) (rec' None) _ _ (Hrec None) E). exact H.
Qed.

Lemma ustep_mono ot v j : ustep Sg rec ot v = Ok j -> ustep Sg rec' ot v = Ok j.
Proof.
  unfold ustep. destruct ot as [t|]; [|apply by_class_mono].
  destruct t; try apply by_class_mono.
  - (* PyUnion *)
    destruct l as [|a [|b [|c l]]]; try apply by_class_mono.
    destruct (is_none a); [destruct v; auto|]. destruct (is_none b); [destruct v; auto|]. apply by_class_mono.
  - (* PySeq *)
    destruct v; try discriminate; intros H;
      (destruct (mapM (rec (Some t)) l) as [l'| |] eqn:E; cbn in H; try discriminate;
       rewrite (mapM_mono _ (rec' (Some t)) _ _ (fun x y _ => Hrec (Some t) x y) E); exact H).
  - (* PyDict *)
    destruct v; try discriminate. intros H. destruct (mapM _ m) as [m'| |] eqn:E; cbn in H; try discriminate.
    rewrite (dict_mono (rec (Some t2)) (rec' (Some t2)) _ _ (Hrec (Some t2)) E). exact H.
  - (* PyTuple *)
    destruct v; try discriminate; intros H;
      (destruct (mapM (fun p => rec (Some (fst p)) (snd p)) (combine l l0)) as [l'| |] eqn:E; cbn in H; try discriminate;
       rewrite (mapM_mono _ (fun p => rec' (Some (fst p)) (snd p)) _ _ (fun x y _ => Hrec (Some (fst x)) (snd x) y) E); exact H).
  - (* PyEnum *)
    destruct v; try discriminate. apply Hrec.
  - (* PyCls *)
    destruct v; try discriminate. destruct (lookup_cls Sg n) as [fds|]; [|discriminate].
    intros H. destruct (mapM (ufield rec fs) fds) as [kvs| |] eqn:E; cbn in H; try discriminate.
    rewrite (mapM_mono _ (ufield rec' fs) _ _ (fun f y _ => ufield_mono fs f y) E). exact H.
Qed.
End Mono.

Lemma unstr_mono Sg n : forall ot v j, unstr Sg n ot v = Ok j -> unstr Sg (S n) ot v = Ok j.
Proof.
  induction n as [|n IH]; intros ot v j H; [discriminate|].
  change (ustep Sg (unstr Sg (S n)) ot v = Ok j). change (ustep Sg (unstr Sg n) ot v = Ok j) in H.
  eapply ustep_mono; [|exact H]. exact IH.
Qed.
Lemma unstr_mono_le Sg n m ot v j : n <= m -> unstr Sg n ot v = Ok j -> unstr Sg m ot v = Ok j.
Proof. induction 1 as [|m L IH]; [auto|]. intros H. apply unstr_mono. auto. Qed.

(* ---------------------------------------------------------------- the serialisation theorems *)
Lemma list_fuel {A} (P : A -> nat -> Prop) (l : list A) :
  (forall x n m, n <= m -> P x n -> P x m) -> (forall x, In x l -> exists n, P x n) -> exists n, forall x, In x l -> P x n.
Proof.
  intros Hm. induction l as [|a l IH]; intros H; [exists 0; intros x []|].
  destruct (H a (or_introl eq_refl)) as [n1 H1]. destruct (IH (fun x Hx => H x (or_intror Hx))) as [n2 H2].
  exists (Nat.max n1 n2). intros x [<-|Ix]; [eapply Hm; [|exact H1]; lia | eapply Hm; [|apply H2; exact Ix]; lia].
Qed.
Lemma mapM_all_ok {A B} (f : A -> res B) (g : A -> B) l : (forall x, In x l -> f x = Ok (g x)) -> mapM f l = Ok (map g l).
Proof.
  induction l as [|a l IH]; cbn; intros H; [reflexivity|].
  rewrite (H a (or_introl eq_refl)). cbn. rewrite IH; [reflexivity | intros x I; apply H; right; exact I].
Qed.

Section Thm.
Variable Sg : sigma.
Notation den := (den Sg).
Notation wf := (wf Sg).
Notation has_type := (has_type Sg).
Notation unstr := (unstr Sg).

Definition dyn_ok (o : pv) : Prop := exists n, unstr n None o = Ok (den o).
Definition sta_ok (P : pty) (o : pv) : Prop := exists n, unstr n (Some P) o = Ok (den o).

Lemma assoc_go (fs : list (string * pv)) k :
  assoc k ((fix go (fs : list (string * pv)) := match fs with [] => [] | (k, v) :: r => (k, (v, den v)) :: go r end) fs)
  = option_map (fun v => (v, den v)) (assoc k fs).
Proof.
  unfold assoc. induction fs as [|[k' v] fs IH]; cbn; [reflexivity|].
  destruct (String.eqb k' k); [reflexivity | exact IH].
Qed.
Lemma dict_go (m : list (pv * pv)) :
  (fix go (m : list (pv * pv)) := match m with [] => [] | (k, v) :: r => (key_str k, den v) :: go r end) m
  = map (fun kv => (key_str (fst kv), den (snd kv))) m.
Proof. induction m as [|[k v] m IH]; cbn; [reflexivity | rewrite IH; reflexivity]. Qed.
Lemma key_of_key v : is_key v = true -> key_of v = Ok (key_str v).
Proof. destruct v; try discriminate; [reflexivity|]. destruct v; try discriminate. reflexivity. Qed.

(* an object whose attribute values serialise statically at their annotations serialises at its class *)
Lemma obj_ok c c' fs fds n : lookup_cls Sg c = Some fds ->
  (forall f, In f fds -> exists x, assoc (fname f) fs = Some x /\ unstr n (Some (ftype f)) x = Ok (den x)) ->
  ustep Sg (unstr n) (Some (PyCls c)) (VObj c' fs) = Ok (den (VObj c fs)).
Proof.
  intros L H. cbn [ustep Denote.den]. rewrite L.
  rewrite (mapM_all_ok (ufield (unstr n) fs)
             (fun f => match assoc (fname f) fs with
                       | Some x => if fomit f && pv_is_default (fdefault f) x then None else Some (fwireo f, den x)
                       | None => None end)).
  - cbn. do 3 f_equal. apply map_ext. intros f. rewrite assoc_go. destruct (assoc (fname f) fs); reflexivity.
  
  - intros f If. destruct (H f If) as [x [A U]]. unfold ufield. rewrite A.
    destruct (fomit f && pv_is_default (fdefault f) x); [reflexivity|]. rewrite U. reflexivity.
Qed.

Lemma prim_dyn x n : is_prim_v x = true -> unstr (S n) None x = Ok (den x).
Proof. destruct x; try discriminate; reflexivity. Qed.

Fixpoint unstr_dyn o (W : wf o) {struct W} : dyn_ok o
with unstr_typed P o (H : has_type P o) {struct H} : sta_ok P o
with dyn_of_typed P o (H : has_type P o) {struct H} : dyn_ok o.
Proof.
  - (* unstr_dyn *)
    destruct W as [ | b | z | a b | s | l HL | l HL | m HK HM | c x Px | c fs fds L HF].
    + exists 1. reflexivity.
    + exists 1. reflexivity.
    + exists 1. reflexivity.
    + exists 1. reflexivity.
    + exists 1. reflexivity.
    + destruct (list_fuel (fun x n => unstr n None x = Ok (den x)) l (fun x n m Le Hx => unstr_mono_le Sg n m None x _ Le Hx)
                  (fun x Ix => unstr_dyn x (HL x Ix))) as [n Hn].
      exists (S n). cbn [Sem.unstr ustep]. rewrite (mapM_all_ok _ den l Hn). reflexivity.
    + destruct (list_fuel (fun x n => unstr n None x = Ok (den x)) l (fun x n m Le Hx => unstr_mono_le Sg n m None x _ Le Hx)
                  (fun x Ix => unstr_dyn x (HL x Ix))) as [n Hn].
      exists (S n). cbn [Sem.unstr ustep]. rewrite (mapM_all_ok _ den l Hn). reflexivity.
    + destruct (list_fuel (fun (kv : pv * pv) n => unstr n None (snd kv) = Ok (den (snd kv))) m
                  (fun x n m0 Le Hx => unstr_mono_le Sg n m0 None (snd x) _ Le Hx)
                  (fun kv => match kv with (k0, v0) => fun Ikv => unstr_dyn v0 (HM k0 v0 Ikv) end)) as [n Hn].
      exists (S n). cbn [Sem.unstr ustep Denote.den].
      rewrite (mapM_all_ok _ (fun kv => (key_str (fst kv), den (snd kv))) m).
      * cbn. rewrite dict_go. reflexivity.
      * intros [k v] Ikv. cbn [fst snd]. rewrite (key_of_key k (HK k v Ikv)). cbn. pose proof (Hn (k, v) Ikv) as E0. cbn [snd] in E0. rewrite E0. reflexivity.
    + exists 2. cbn [Sem.unstr ustep Denote.den]. apply (prim_dyn x 0 Px).
    + destruct (list_fuel (fun f n => exists x, assoc (fname f) fs = Some x /\ unstr n (Some (ftype f)) x = Ok (den x)) fds) as [n Hn].
      * intros f n m Le [x [A U]]. exists x. split; [exact A | exact (unstr_mono_le Sg n m _ x _ Le U)].
      * intros f If. destruct (HF f If) as [x [A T]]. destruct (unstr_typed _ _ T) as [n U]. exists n, x. auto.
      * exists (S (S n)). cbn [Sem.unstr ustep]. change (ustep Sg (unstr n) (Some (PyCls c)) (VObj c fs) = Ok (den (VObj c fs))).
        apply obj_ok with (fds := fds); assumption.
  - (* unstr_typed *)
    destruct H as [o W | n0 o W | | z | c z | s | c s | b | a b | l s Il | e x Px | t l HL | ts l HF | k v m HK HM | c fs W | ms t o It Ht | ms e d x Ie Le Ex Np Px].
    + destruct (unstr_dyn o W) as [n U]. exists n. destruct n; [discriminate|]. exact U.
    + destruct (unstr_dyn o W) as [n U]. exists n. destruct n; [discriminate|]. exact U.
    + exists 1. reflexivity.
    + exists 1. reflexivity.
    + exists 2. reflexivity.
    + exists 1. reflexivity.
    + exists 2. reflexivity.
    + exists 1. reflexivity.
    + exists 1. reflexivity.
    + exists 1. reflexivity.
    + exists 2. cbn [Sem.unstr ustep Denote.den]. apply (prim_dyn x 0 Px).
    + destruct (list_fuel (fun x n => unstr n (Some t) x = Ok (den x)) l (fun x n m Le Hx => unstr_mono_le Sg n m _ x _ Le Hx)
                  (fun x Ix => unstr_typed t x (HL x Ix))) as [n Hn].
      exists (S n). cbn [Sem.unstr ustep]. rewrite (mapM_all_ok _ den l Hn). reflexivity.
    + assert (G : exists n, forall p, In p (combine ts l) -> unstr n (Some (fst p)) (snd p) = Ok (den (snd p))).
      { induction HF as [|t x ts l Htx HF IH]; [exists 0; intros p []|].
        destruct IH as [n1 H1]. destruct (unstr_typed t x Htx) as [n2 H2].
        exists (Nat.max n1 n2). intros p [<-|Ip]; cbn [fst snd].
        - eapply unstr_mono_le; [|exact H2]. lia.
        - eapply unstr_mono_le; [|exact (H1 p Ip)]. lia. }
      destruct G as [n Hn]. exists (S n). cbn [Sem.unstr ustep].
      rewrite (mapM_all_ok _ (fun p => den (snd p)) (combine ts l) Hn). cbn. f_equal. f_equal.
      rewrite <- map_map. f_equal. clear -HF. induction HF; cbn; [reflexivity | f_equal; assumption].
    + destruct (list_fuel (fun (kv : pv * pv) n => unstr n (Some v) (snd kv) = Ok (den (snd kv))) m
                  (fun x n m0 Le Hx => unstr_mono_le Sg n m0 _ (snd x) _ Le Hx)
                  (fun kv => match kv with (k0, v0) => fun Ikv => unstr_typed v v0 (HM k0 v0 Ikv) end)) as [n Hn].
      exists (S n). cbn [Sem.unstr ustep Denote.den].
      rewrite (mapM_all_ok _ (fun kv => (key_str (fst kv), den (snd kv))) m).
      * cbn. rewrite dict_go. reflexivity.
      * intros [k' v'] Ikv. cbn [fst snd]. rewrite (key_of_key k' (HK k' v' Ikv)). cbn. pose proof (Hn (k', v') Ikv) as E0. cbn [snd] in E0. rewrite E0. reflexivity.
    + destruct (unstr_dyn _ W) as [n U]. destruct n as [|[|n]]; try discriminate. exists (S n). exact U.
    + (* union *)
      destruct (unstr_typed t o Ht) as [n1 S1]. destruct (dyn_of_typed t o Ht) as [n2 D2].
      set (n := Nat.max n1 n2).
      assert (S1' : unstr n (Some t) o = Ok (den o)) by (eapply unstr_mono_le; [|exact S1]; lia).
      assert (D2' : unstr (S n) None o = Ok (den o)) by (eapply unstr_mono_le; [|exact D2]; lia).
      exists (S n). cbn [Sem.unstr]. cbn [Sem.unstr] in D2'.
      assert (BC : ustep Sg (unstr n) (Some (PyUnion ms)) o = ustep Sg (unstr n) None o \/
                   (exists a b, ms = [a; b] /\ (is_none a = true \/ is_none b = true))).
      { destruct ms as [|a [|b [|c r]]]; try (left; reflexivity).
        destruct (is_none a) eqn:Na; [right; eauto|]. destruct (is_none b) eqn:Nb; [right; eauto|].
        left. cbn [ustep]. rewrite Na, Nb. reflexivity. }
      destruct BC as [E | [a [b [-> Hn]]]]; [rewrite E; exact D2'|].
      cbn [ustep].
      assert (On : o = VNone -> Ok JNull = Ok (den o)) by (intros ->; reflexivity).
      destruct It as [Ea | [Eb | []]].
      * (* t = a *)
        subst a. destruct (is_none t) eqn:Nt.
        -- destruct t; try discriminate. inversion Ht; subst. reflexivity.
        -- destruct Hn as [Hn|Hn]; [congruence|]. rewrite Hn. destruct o; try exact S1'. reflexivity.
      * (* t = b *)
        subst b. destruct (is_none a) eqn:Na.
        -- destruct o; try exact S1'. reflexivity.
        -- destruct Hn as [Hn|Hn]; [congruence|]. rewrite Hn. destruct t; try discriminate. inversion Ht; subst. reflexivity.
    + (* raw primitive at a non-optional union: run-time class dispatch *)
      exists 1. cbn [Sem.unstr].
      destruct ms as [|a [|b [|c r]]]; try discriminate; try (destruct x; try discriminate; reflexivity).
      cbn in Np. apply andb_true_iff in Np. destruct Np as [Na Nb]. apply negb_true_iff in Na. apply negb_true_iff in Nb.
      cbn [ustep]. rewrite Na, Nb. destruct x; try discriminate; reflexivity.
  - (* dyn_of_typed *)
    destruct H as [o W | n0 o W | | z | c z | s | c s | b | a b | l s Il | e x Px | t l HL | ts l HF | k v m HK HM | c fs W | ms t o It Ht | ms e d x Ie Le Ex Np Px].
    + exact (unstr_dyn o W).
    + exact (unstr_dyn o W).
    + exists 1. reflexivity.
    + exists 1. reflexivity.
    + exists 2. reflexivity.
    + exists 1. reflexivity.
    + exists 2. reflexivity.
    + exists 1. reflexivity.
    + exists 1. reflexivity.
    + exists 1. reflexivity.
    + exists 2. cbn [Sem.unstr ustep Denote.den]. apply (prim_dyn x 0 Px).
    + destruct (list_fuel (fun x n => unstr n None x = Ok (den x)) l (fun x n m Le Hx => unstr_mono_le Sg n m None x _ Le Hx)
                  (fun x Ix => dyn_of_typed t x (HL x Ix))) as [n Hn].
      exists (S n). cbn [Sem.unstr ustep]. rewrite (mapM_all_ok _ den l Hn). reflexivity.
    + assert (G : exists n, forall x, In x l -> unstr n None x = Ok (den x)).
      { induction HF as [|t x ts l Htx HF IH]; [exists 0; intros p []|].
        destruct IH as [n1 H1]. destruct (dyn_of_typed t x Htx) as [n2 H2].
        exists (Nat.max n1 n2). intros p [<-|Ip].
        - eapply unstr_mono_le; [|exact H2]. lia.
        - eapply unstr_mono_le; [|exact (H1 p Ip)]. lia. }
      destruct G as [n Hn]. exists (S n). cbn [Sem.unstr ustep]. rewrite (mapM_all_ok _ den l Hn). reflexivity.
    + destruct (list_fuel (fun (kv : pv * pv) n => unstr n None (snd kv) = Ok (den (snd kv))) m
                  (fun x n m0 Le Hx => unstr_mono_le Sg n m0 None (snd x) _ Le Hx)
                  (fun kv => match kv with (k0, v0) => fun Ikv => dyn_of_typed v v0 (HM k0 v0 Ikv) end)) as [n Hn].
      exists (S n). cbn [Sem.unstr ustep Denote.den].
      rewrite (mapM_all_ok _ (fun kv => (key_str (fst kv), den (snd kv))) m).
      * cbn. rewrite dict_go. reflexivity.
      * intros [k' v'] Ikv. cbn [fst snd]. rewrite (key_of_key k' (HK k' v' Ikv)). cbn. pose proof (Hn (k', v') Ikv) as E0. cbn [snd] in E0. rewrite E0. reflexivity.
    + exact (unstr_dyn _ W).
    + exact (dyn_of_typed t o Ht).
    + exists 1. destruct x; try discriminate; reflexivity.
Qed.
End Thm.

(* ---------------------------------------------------------------- executable typing with soundness *)
Section TypedB.
Variable Sg : sigma.
Fixpoint wf_b (n : nat) (o : pv) {struct n} : bool :=
  match n with O => false | S n =>
  match o with
  | VNone | VBool _ | VInt _ | VFlt _ _ | VStr _ => true
  | VList l | VTuple l => forallb (wf_b n) l
  | VDict m => forallb (fun kv => is_key (fst kv) && wf_b n (snd kv)) m
  | VEnum _ x => is_prim_v x
  | VObj c fs => match lookup_cls Sg c with
                 | Some fds => forallb (fun f => match assoc (fname f) fs with Some x => typed_b n (ftype f) x | None => false end) fds
                 | None => false end
  end end
with typed_b (n : nat) (P : pty) (o : pv) {struct n} : bool :=
  match n with O => false | S n =>
  match P with
  | PyAny | PyOpaque _ => wf_b n o
  | PyNone => match o with VNone => true | _ => false end
  | PyInt => match o with VInt _ | VEnum _ (VInt _) => true | _ => false end
  | PyStr => match o with VStr _ | VEnum _ (VStr _) => true | _ => false end
  | PyBool => match o with VBool _ => true | _ => false end
  | PyFloat => match o with VFlt _ _ => true | _ => false end
  | PyLit l => match o with VStr s => mem s l | _ => false end
  | PyEnum e => match o with VEnum e' x => String.eqb e e' && is_prim_v x | _ => false end
  | PySeq t => match o with VList l => forallb (typed_b n t) l | _ => false end
  | PyTuple ts => match o with
                  | VTuple l => Nat.eqb (length ts) (length l) && forallb (fun p => typed_b n (fst p) (snd p)) (combine ts l)
                  | _ => false end
  | PyDict k v => match o with VDict m => forallb (fun kv => is_key (fst kv) && typed_b n v (snd kv)) m | _ => false end
  | PyCls c => match o with VObj c' fs => String.eqb c c' && wf_b n o | _ => false end
  | PyUnion ms => existsb (fun t => typed_b n t o) ms
                  || (not_optional_pair ms && is_prim_v o
                      && existsb (fun t => match t with
                                           | PyEnum e => match lookup_enum Sg e with Some d => existsb (pv_eqb_prim o) (evals d) | None => false end
                                           | _ => false end) ms)
  | PyFwd _ => false
  end end.

Lemma typed_b_sound : forall n, (forall o, wf_b n o = true -> wf Sg o) /\ (forall P o, typed_b n P o = true -> has_type Sg P o).
Proof.
  induction n as [|n [IHw IHt]]; [split; intros; discriminate|]. split.
  - intros o H. cbn [wf_b] in H. destruct o; try constructor.
    + intros x I. rewrite forallb_forall in H. auto.
    + intros x I. rewrite forallb_forall in H. auto.
    + intros k v I. rewrite forallb_forall in H. specialize (H _ I). apply andb_true_iff in H. exact (proj1 H).
    + intros k v I. rewrite forallb_forall in H. specialize (H _ I). apply andb_true_iff in H. apply IHw. exact (proj2 H).
    + destruct (lookup_cls Sg cls) as [fds|] eqn:L; [|discriminate]. econstructor; [exact L|].
      intros f If. rewrite forallb_forall in H. specialize (H f If). destruct (assoc (fname f) fs) as [x|]; [|discriminate].
      exists x. split; [reflexivity | apply IHt; exact H].
    + exact H.
  - intros P o H. cbn [typed_b] in H. destruct P.
    + constructor. apply IHw. exact H.
    + destruct o; try discriminate. constructor.
    + destruct o; try discriminate; [constructor|]. destruct o; try discriminate. constructor.
    + destruct o; try discriminate; [constructor|]. destruct o; try discriminate. constructor.
    + destruct o; try discriminate. constructor.
    + destruct o; try discriminate. constructor.
    + apply orb_true_iff in H. destruct H as [H|H].
      * apply existsb_exists in H. destruct H as [t [It Ht]]. econstructor; [exact It | apply IHt; exact Ht].
      * apply andb_true_iff in H. destruct H as [H Hx]. apply andb_true_iff in H. destruct H as [Np Px].
        apply existsb_exists in Hx. destruct Hx as [t [It Ht]]. destruct t; try discriminate.
        destruct (lookup_enum Sg n0) as [d|] eqn:L; [|discriminate]. eapply t_union_raw; eauto.
    + destruct o; try discriminate. constructor. intros x I. rewrite forallb_forall in H. apply IHt. auto.
    + destruct o; try discriminate. constructor.
      * intros a b I. rewrite forallb_forall in H. specialize (H _ I). apply andb_true_iff in H. exact (proj1 H).
      * intros a b I. rewrite forallb_forall in H. specialize (H _ I). apply andb_true_iff in H. apply IHt. exact (proj2 H).
    + destruct o; try discriminate. apply andb_true_iff in H. destruct H as [HL HF]. apply Nat.eqb_eq in HL. constructor.
      revert l0 HL HF. induction l as [|t ts IH]; intros [|x xs] HL HF; try discriminate; [constructor|].
      cbn in HF. apply andb_true_iff in HF. destruct HF as [H1 H2]. constructor; [apply IHt; exact H1|].
      apply IH; [cbn in HL; lia | exact H2].
    + destruct o; try discriminate. constructor. apply mem_in. exact H.
    + destruct o; try discriminate. apply andb_true_iff in H. destruct H as [E Px]. apply String.eqb_eq in E. subst. constructor. exact Px.
    + destruct o; try discriminate. apply andb_true_iff in H. destruct H as [E W]. apply String.eqb_eq in E. subst. constructor. apply IHw. exact W.
    + constructor. apply IHw. exact H.
    + discriminate.
Qed.

(* a value that passes the executable typing serialises successfully to its denotation *)
Theorem typed_b_serialises n P o : typed_b n P o = true -> exists m, unstr Sg m (Some P) o = Ok (den Sg o).
Proof. intros H. apply unstr_typed. exact (proj2 (typed_b_sound n) P o H). Qed.
End TypedB.
