(* ValidB.v — the verified validator: MM.valid_b decides MM.valid (strict metamodel validity), for EVERY metamodel.

     valid_b_sound    : valid_b mm n t j = true -> valid mm t j                      (no side condition)
     valid_b_mono     : n <= m -> valid_b mm n t j = true -> valid_b mm m t j = true  (no side condition)
     valid_b_complete : mm_wf mm = true -> valid mm t j -> exists n, valid_b mm n t j = true

   Completeness FORCES a well-formedness condition on the metamodel, the boolean `mm_wf`:
   the relation `valid` lets a name be read as an alias (v_alias) or as an enumeration (v_enum_member, v_enum_custom) whenever
   find_alias / find_enum succeed, whereas `valid_b` resolves a reference in the fixed order
   LSPAny/LSPObject/LSPArray, structure, alias, enumeration.  The two coincide only when
     (1) no alias carries the name of a structure,
     (2) no enumeration carries the name of a structure or of an alias,
     (3) no enumeration is called LSPObject or LSPArray.
   `mm_wf` is discharged on the instance by vm_compute (props/C17.v).

   On top of valid_b this file defines the checker that is actually RUN on test vectors, `valid_d`:
   three-valued (Some verdict / None = fuel exhausted) and lazy (`if`, not `&&`, so vm_compute short-cuts), with
     valid_d_correct : mm_wf mm = true -> valid_d mm n t j = Some b -> (valid mm t j <-> b = true)
   so that a `Some false` at a FIXED fuel is a proof of invalidity (valid_b alone only gives "not within fuel n"). *)
From Coq Require Import Lia Arith.
From LSP Require Import Base MM.

Section ValidB.
Variable mm : MM.
Notation valid := (valid mm).
Notation valid_b := (valid_b mm).

(* ---------------------------------------------------------------- one unfolding of valid_b, recursive call abstracted *)
Definition obj_b (rec : ty -> json -> bool) (ps : list prop) (m : list (string * json)) : bool :=
  nodupb (keys m) &&
  (is_nil ps ||
   (forallb (fun kv => existsb (fun p => String.eqb (p_name p) (fst kv) && rec (p_type p) (snd kv)) ps) m
    && forallb (fun p => p_opt p || mem (p_name p) (keys m)) ps)).

Definition vstep (rec : ty -> json -> bool) (t : ty) (j : json) : bool :=
  match t with
  | TBase BString | TBase BURI | TBase BDocumentUri | TBase BRegExp => match j with JStr _ => true | _ => false end
  | TBase BInteger => match j with JInt z => int32 z | _ => false end
  | TBase BUInteger => match j with JInt z => uint31 z | _ => false end
  | TBase BDecimal => match j with JInt _ | JFlt _ _ => true | _ => false end
  | TBase BBoolean => match j with JBool _ => true | _ => false end
  | TBase BNull => match j with JNull => true | _ => false end
  | TStrLit s => match j with JStr s' => String.eqb s s' | _ => false end
  | TIntLit z => match j with JInt z' => (z =? z')%Z | _ => false end
  | TBoolLit b => match j with JBool b' => Bool.eqb b b' | _ => false end
  | TArr t' => match j with JArr l => forallb (rec t') l | _ => false end
  | TMap k v => match j with
                | JObj m => nodupb (keys m) && forallb (fun kv => rec k (JStr (fst kv)) && rec v (snd kv)) m
                | _ => false end
  | TTuple ts => match j with
                 | JArr l => Nat.eqb (length ts) (length l) && forallb (fun p => rec (fst p) (snd p)) (combine ts l)
                 | _ => false end
  | TOr l => existsb (fun t' => rec t' j) l
  | TLit _ | TAnd _ => match obj_props mm t, j with Some ps, JObj m => obj_b rec ps m | _, _ => false end
  | TRef name =>
      if String.eqb name "LSPAny" then true
      else if String.eqb name "LSPObject" then match j with JObj _ => true | _ => false end
      else if String.eqb name "LSPArray" then match j with JArr _ => true | _ => false end
      else match find_struct mm name with
           | Some _ => match j with JObj m => obj_b rec (flat mm name) m | _ => false end
           | None =>
             match find_alias mm name with
             | Some a => rec (a_type a) j
             | None =>
               match find_enum mm name with
               | Some e => existsb (fun x => evalue_matches (snd (fst x)) j) (e_values e)
                           || (e_custom e && rec (TBase (e_base e)) j)
               | None => false end end end
  end.

Lemma valid_b_S n t j : valid_b (S n) t j = vstep (valid_b n) t j.
Proof. reflexivity. Qed.
Lemma valid_b_0 t j : valid_b 0 t j = false.
Proof. reflexivity. Qed.

(* ---------------------------------------------------------------- small list facts *)
Lemma is_nil_true {A} (l : list A) : is_nil l = true -> l = [].
Proof. destruct l; [reflexivity | discriminate]. Qed.

Lemma tuple_forall2 (P : ty -> json -> Prop) (f : ty -> json -> bool) :
  forall ts l, (forall t x, In (t, x) (combine ts l) -> f t x = true -> P t x) ->
  Nat.eqb (length ts) (length l) = true -> forallb (fun p => f (fst p) (snd p)) (combine ts l) = true -> Forall2 P ts l.
Proof.
  induction ts as [|t ts IH]; intros [|x l] HP HL HF; cbn in *; try discriminate; constructor.
  - apply andb_true_iff in HF. destruct HF as [H1 _]. apply HP; [left; reflexivity | exact H1].
  - apply andb_true_iff in HF. destruct HF as [_ H2]. apply IH; [intros; apply HP; [right|]; assumption | exact HL | exact H2].
Qed.

Lemma forall2_tuple (f : ty -> json -> bool) :
  forall ts l, Forall2 (fun t x => f t x = true) ts l ->
  Nat.eqb (length ts) (length l) && forallb (fun p => f (fst p) (snd p)) (combine ts l) = true.
Proof.
  induction 1 as [|t x ts l H1 _ IH]; [reflexivity|]. cbn. apply andb_true_iff in IH. destruct IH as [A B].
  rewrite A, H1, B. reflexivity.
Qed.

(* ---------------------------------------------------------------- soundness *)
Lemma obj_b_sound rec ps m t :
  (forall t j, rec t j = true -> valid t j) -> obj_props mm t = Some ps -> obj_b rec ps m = true -> valid t (JObj m).
Proof.
  intros IH OP H. unfold obj_b in H. apply andb_true_iff in H. destruct H as [ND H].
  apply nodupb_NoDup in ND. destruct ps as [|p0 ps'].
  - apply v_obj_open; assumption.
  - cbn [is_nil orb] in H. apply andb_true_iff in H. destruct H as [H1 H2].
    apply (v_obj mm t (p0 :: ps') m OP); [discriminate | exact ND | |].
    + intros k v I. rewrite forallb_forall in H1. specialize (H1 _ I). apply existsb_exists in H1.
      destruct H1 as [p [Ip Hp]]. apply andb_true_iff in Hp. destruct Hp as [Hn Hv]. cbn [fst snd] in Hn, Hv.
      apply String.eqb_eq in Hn. exists p. repeat split; [exact Ip | exact Hn | apply IH; exact Hv].
    + intros p Ip Ho. rewrite forallb_forall in H2. specialize (H2 _ Ip). rewrite Ho in H2. cbn in H2.
      apply mem_in. exact H2.
Qed.

Lemma vstep_sound rec : (forall t j, rec t j = true -> valid t j) -> forall t j, vstep rec t j = true -> valid t j.
Proof.
  intros IH t j H. destruct t as [b|name|t'|k v|l|l|ts|ps|s|z|b]; unfold vstep in H.
  - destruct b; destruct j; try discriminate; try (constructor; assumption).
  - destruct (String.eqb name "LSPAny") eqn:E1; [apply String.eqb_eq in E1; subst; apply v_any|].
    destruct (String.eqb name "LSPObject") eqn:E2;
      [apply String.eqb_eq in E2; subst; destruct j; try discriminate; apply v_lspobject|].
    destruct (String.eqb name "LSPArray") eqn:E3;
      [apply String.eqb_eq in E3; subst; destruct j; try discriminate; apply v_lsparray|].
    assert (OPQ : opaque_ref name = false) by (unfold opaque_ref; rewrite E1, E2, E3; reflexivity).
    destruct (find_struct mm name) as [s|] eqn:FS.
    + destruct j; try discriminate. apply (obj_b_sound rec (flat mm name)); [exact IH | | exact H].
      unfold obj_props. rewrite OPQ, FS. reflexivity.
    + destruct (find_alias mm name) as [a|] eqn:FA; [apply (v_alias mm name a j FA OPQ); apply IH; exact H|].
      destruct (find_enum mm name) as [e|] eqn:FE; [|discriminate].
      apply orb_true_iff in H. destruct H as [H|H]; [apply (v_enum_member mm name e j FE H)|].
      apply andb_true_iff in H. destruct H as [C H]. apply (v_enum_custom mm name e j FE C). apply IH. exact H.
  - destruct j; try discriminate. apply v_arr. intros x Ix. apply IH. rewrite forallb_forall in H. apply H. exact Ix.
  - destruct j; try discriminate. apply andb_true_iff in H. destruct H as [ND H]. apply v_map; [apply nodupb_NoDup; exact ND|].
    intros a b I. rewrite forallb_forall in H. specialize (H _ I). cbn [fst snd] in H. apply andb_true_iff in H.
    destruct H as [H1 H2]. split; apply IH; assumption.
  - destruct j; try discriminate. eapply obj_b_sound; [exact IH | reflexivity | exact H].
  - apply existsb_exists in H. destruct H as [t' [It Ht]]. apply (v_or mm l t' j It). apply IH. exact Ht.
  - destruct j; try discriminate. apply andb_true_iff in H. destruct H as [HL HF]. apply v_tuple.
    apply (tuple_forall2 valid rec); [intros; apply IH; assumption | exact HL | exact HF].
  - destruct j; try discriminate. eapply obj_b_sound; [exact IH | reflexivity | exact H].
  - destruct j; try discriminate. apply String.eqb_eq in H. subst. constructor.
  - destruct j; try discriminate. apply Z.eqb_eq in H. subst. constructor.
  - destruct j; try discriminate. apply Bool.eqb_prop in H. subst. constructor.
Qed.

Theorem valid_b_sound : forall n t j, valid_b n t j = true -> valid t j.
Proof.
  induction n as [|n IH]; intros t j H; [discriminate|]. rewrite valid_b_S in H. exact (vstep_sound _ IH t j H).
Qed.

(* ---------------------------------------------------------------- monotonicity in the fuel *)
Lemma forallb_impl {A} (f g : A -> bool) l : (forall x, In x l -> f x = true -> g x = true) -> forallb f l = true -> forallb g l = true.
Proof. intros H F. rewrite forallb_forall in *. intros x I. apply H; [exact I | apply F; exact I]. Qed.
Lemma existsb_impl {A} (f g : A -> bool) l : (forall x, In x l -> f x = true -> g x = true) -> existsb f l = true -> existsb g l = true.
Proof. intros H F. apply existsb_exists in F. destruct F as [x [I E]]. apply existsb_exists. exists x. split; [exact I | apply H; assumption]. Qed.

Lemma obj_b_mono r1 r2 ps m : (forall t j, r1 t j = true -> r2 t j = true) -> obj_b r1 ps m = true -> obj_b r2 ps m = true.
Proof.
  intros IH H. unfold obj_b in *. apply andb_true_iff in H. destruct H as [ND H]. rewrite ND. cbn [andb].
  apply orb_true_iff in H. apply orb_true_iff. destruct H as [H|H]; [left; exact H | right].
  apply andb_true_iff in H. destruct H as [H1 H2]. rewrite H2, andb_true_r.
  revert H1. apply forallb_impl. intros kv _. apply existsb_impl. intros p _ Hp.
  apply andb_true_iff in Hp. destruct Hp as [A B]. rewrite A. cbn [andb]. apply IH. exact B.
Qed.

Lemma vstep_mono r1 r2 : (forall t j, r1 t j = true -> r2 t j = true) -> forall t j, vstep r1 t j = true -> vstep r2 t j = true.
Proof.
  intros IH t j H. destruct t as [b|name|t'|k v|l|l|ts|ps|s|z|b]; unfold vstep in *.
  - exact H.
  - destruct (String.eqb name "LSPAny"); [reflexivity|].
    destruct (String.eqb name "LSPObject"); [exact H|]. destruct (String.eqb name "LSPArray"); [exact H|].
    destruct (find_struct mm name).
    + destruct j; try discriminate. revert H. apply obj_b_mono. exact IH.
    + destruct (find_alias mm name); [apply IH; exact H|]. destruct (find_enum mm name); [|discriminate].
      apply orb_true_iff in H. apply orb_true_iff. destruct H as [H|H]; [left; exact H | right].
      apply andb_true_iff in H. destruct H as [C H]. rewrite C. cbn [andb]. apply IH. exact H.
  - destruct j; try discriminate. revert H. apply forallb_impl. intros x _. apply IH.
  - destruct j; try discriminate. apply andb_true_iff in H. destruct H as [ND H]. rewrite ND. cbn [andb].
    revert H. apply forallb_impl. intros kv _ H. apply andb_true_iff in H. destruct H as [A B].
    rewrite (IH _ _ A), (IH _ _ B). reflexivity.
  - destruct (obj_props mm (TAnd l)); [|discriminate]. destruct j; try discriminate. revert H. apply obj_b_mono. exact IH.
  - revert H. apply existsb_impl. intros t' _. apply IH.
  - destruct j; try discriminate. apply andb_true_iff in H. destruct H as [HL H]. rewrite HL. cbn [andb].
    revert H. apply forallb_impl. intros p _. apply IH.
  - destruct (obj_props mm (TLit ps)); [|discriminate]. destruct j; try discriminate. revert H. apply obj_b_mono. exact IH.
  - exact H.
  - exact H.
  - exact H.
Qed.

Lemma valid_b_mono_S : forall n t j, valid_b n t j = true -> valid_b (S n) t j = true.
Proof.
  induction n as [|n IH]; intros t j H; [discriminate|].
  rewrite valid_b_S in H. rewrite valid_b_S. exact (vstep_mono _ _ IH t j H).
Qed.

Theorem valid_b_mono : forall n m t j, n <= m -> valid_b n t j = true -> valid_b m t j = true.
Proof. intros n m t j L. induction L as [|m L IH]; [auto|]. intros H. apply valid_b_mono_S. apply IH. exact H. Qed.

(* ---------------------------------------------------------------- well-formedness forced by completeness *)
Definition shape_ref (n : string) : bool := String.eqb n "LSPObject" || String.eqb n "LSPArray".
Definition is_struct_name (n : string) : bool := existsb (fun s => String.eqb (s_name s) n) (structures mm).
Definition is_alias_name (n : string) : bool := existsb (fun a => String.eqb (a_name a) n) (aliases mm).
Definition mm_wf : bool :=
  forallb (fun a => negb (is_struct_name (a_name a))) (aliases mm)
  && forallb (fun e => negb (is_struct_name (e_name e)) && negb (is_alias_name (e_name e)) && negb (shape_ref (e_name e)))
             (enumerations mm).

Lemma find_name {A} (nm : A -> string) (l : list A) n x : find (fun y => String.eqb (nm y) n) l = Some x -> In x l /\ nm x = n.
Proof. intros F. apply find_some in F. destruct F as [I E]. apply String.eqb_eq in E. auto. Qed.
Lemma find_none_name {A} (nm : A -> string) (l : list A) n :
  existsb (fun y => String.eqb (nm y) n) l = false -> find (fun y => String.eqb (nm y) n) l = None.
Proof.
  intros H. destruct (find _ l) as [x|] eqn:F; [|reflexivity]. apply find_some in F. destruct F as [I E].
  assert (T : existsb (fun y => String.eqb (nm y) n) l = true) by (apply existsb_exists; exists x; auto). congruence.
Qed.

Section Complete.
Hypothesis WF : mm_wf = true.

Lemma wf_alias n a : find_alias mm n = Some a -> find_struct mm n = None.
Proof.
  intros F. apply find_name in F. destruct F as [I <-]. apply find_none_name.
  unfold mm_wf in WF. apply andb_true_iff in WF. destruct WF as [W _]. rewrite forallb_forall in W.
  specialize (W _ I). apply negb_true_iff in W. exact W.
Qed.
Lemma wf_enum n e : find_enum mm n = Some e -> find_struct mm n = None /\ find_alias mm n = None /\ shape_ref n = false.
Proof.
  intros F. apply find_name in F. destruct F as [I <-].
  unfold mm_wf in WF. apply andb_true_iff in WF. destruct WF as [_ W]. rewrite forallb_forall in W.
  specialize (W _ I). apply andb_true_iff in W. destruct W as [W W3]. apply andb_true_iff in W. destruct W as [W1 W2].
  apply negb_true_iff in W1, W2, W3. repeat split; [apply find_none_name; exact W1 | apply find_none_name; exact W2 | exact W3].
Qed.

(* merging the fuels of the members of a list *)
Lemma list_fuel {A} (P : A -> nat -> Prop) (l : list A) :
  (forall x n m, n <= m -> P x n -> P x m) -> (forall x, In x l -> exists n, P x n) -> exists n, forall x, In x l -> P x n.
Proof.
  intros Hm. induction l as [|a l IH]; intros H; [exists 0; intros x []|].
  destruct (H a (or_introl eq_refl)) as [n1 H1]. destruct (IH (fun x Hx => H x (or_intror Hx))) as [n2 H2].
  exists (Nat.max n1 n2). intros x [<-|Ix]; [eapply Hm; [|exact H1]; lia | eapply Hm; [|apply H2; exact Ix]; lia].
Qed.

Lemma Forall2_mono_fuel n m ts l : n <= m ->
  Forall2 (fun t x => valid_b n t x = true) ts l -> Forall2 (fun t x => valid_b m t x = true) ts l.
Proof. intros L F. induction F; constructor; [eapply valid_b_mono; eassumption | assumption]. Qed.

Lemma obj_b_intro n ps m :
  NoDup (keys m) ->
  (ps = [] \/ ((forall kv, In kv m -> existsb (fun p => String.eqb (p_name p) (fst kv) && valid_b n (p_type p) (snd kv)) ps = true)
               /\ (forall p, In p ps -> p_opt p = false -> In (p_name p) (keys m)))) ->
  obj_b (valid_b n) ps m = true.
Proof.
  intros ND H. unfold obj_b. apply nodupb_NoDup in ND. rewrite ND. cbn [andb]. destruct H as [->|[H1 H2]]; [reflexivity|].
  apply orb_true_iff. right. apply andb_true_iff. split; apply forallb_forall; [exact H1|].
  intros p Ip. destruct (p_opt p) eqn:Eo; [reflexivity|]. cbn [orb]. apply mem_in. apply H2; assumption.
Qed.

Lemma ref_struct_step n name m :
  opaque_ref name = false -> find_struct mm name <> None ->
  obj_b (valid_b n) (flat mm name) m = true -> valid_b (S n) (TRef name) (JObj m) = true.
Proof.
  intros OPQ FS H. rewrite valid_b_S. unfold vstep. unfold opaque_ref in OPQ.
  apply orb_false_iff in OPQ. destruct OPQ as [OPQ E3]. apply orb_false_iff in OPQ. destruct OPQ as [E1 E2].
  rewrite E1, E2, E3. destruct (find_struct mm name); [exact H | congruence].
Qed.

(* the step of an object-like type: valid_b (S n) t (JObj m) is obj_b (valid_b n) ps m when obj_props t = Some ps *)
Lemma obj_step n t ps m : obj_props mm t = Some ps -> obj_b (valid_b n) ps m = true -> valid_b (S n) t (JObj m) = true.
Proof.
  intros OP H. destruct t as [b|name|t'|k v|l|l|ts|qs|s|z|b]; try discriminate.
  - unfold obj_props in OP. destruct (opaque_ref name) eqn:OPQ; [discriminate|].
    destruct (find_struct mm name) eqn:FS; [|discriminate]. injection OP as <-.
    apply ref_struct_step; [exact OPQ | congruence | exact H].
  - rewrite valid_b_S. unfold vstep. rewrite OP. exact H.
  - rewrite valid_b_S. unfold vstep. rewrite OP. exact H.
Qed.

Fixpoint valid_b_complete t j (V : valid t j) {struct V} : exists n, valid_b n t j = true.
Proof.
  destruct V as [s|s|s|s|z Hz|z Hz|z|nu de|b| |s|z|b|t l HF|k v m ND HM|ts l HF|l t j It V'|j|m|l
                 |t m OP ND|t ps m OP NE ND HP HR|n a j FA OPQ V'|n e j FE HM|n e j FE HC V'].
  - exists 1; reflexivity.
  - exists 1; reflexivity.
  - exists 1; reflexivity.
  - exists 1; reflexivity.
  - exists 1; exact Hz.
  - exists 1; exact Hz.
  - exists 1; reflexivity.
  - exists 1; reflexivity.
  - exists 1; reflexivity.
  - exists 1; reflexivity.
  - exists 1; cbn; apply String.eqb_refl.
  - exists 1; cbn; apply Z.eqb_refl.
  - exists 1; cbn; apply Bool.eqb_reflx.
  - (* array *)
    destruct (list_fuel (fun x n => valid_b n t x = true) l (fun x n m L H => valid_b_mono n m t x L H)
                        (fun x Ix => valid_b_complete t x (HF x Ix))) as [n Hn].
    exists (S n). rewrite valid_b_S. cbn [vstep]. apply forallb_forall. exact Hn.
  - (* map *)
    destruct (list_fuel (fun kv n => valid_b n k (JStr (fst kv)) && valid_b n v (snd kv) = true) m) as [n Hn].
    + intros kv n1 n2 L H. apply andb_true_iff in H. destruct H as [A B].
      rewrite (valid_b_mono n1 n2 _ _ L A), (valid_b_mono n1 n2 _ _ L B). reflexivity.
    + intros [a b] I. destruct (HM a b I) as [V1 V2].
      destruct (valid_b_complete _ _ V1) as [n1 H1]. destruct (valid_b_complete _ _ V2) as [n2 H2].
      exists (Nat.max n1 n2). cbn [fst snd].
      rewrite (valid_b_mono n1 (Nat.max n1 n2) _ _ (Nat.le_max_l _ _) H1), (valid_b_mono n2 (Nat.max n1 n2) _ _ (Nat.le_max_r _ _) H2).
      reflexivity.
    + exists (S n). rewrite valid_b_S. cbn [vstep]. apply nodupb_NoDup in ND. rewrite ND. cbn [andb].
      apply forallb_forall. exact Hn.
  - (* tuple: recursion over the nested Forall2 derivation *)
    assert (F2 : exists n, Forall2 (fun t x => valid_b n t x = true) ts l).
    { revert ts l HF. fix go 3. intros ts l HF. destruct HF as [|t x ts' l' V1 F'].
      - exists 0. constructor.
      - destruct (valid_b_complete _ _ V1) as [n1 H1]. destruct (go _ _ F') as [n2 H2].
        exists (Nat.max n1 n2). constructor.
        + exact (valid_b_mono n1 _ _ _ (Nat.le_max_l _ _) H1).
        + apply (Forall2_mono_fuel n2 _ _ _ (Nat.le_max_r _ _) H2). }
    destruct F2 as [n Hn]. exists (S n). rewrite valid_b_S. cbn [vstep]. apply forall2_tuple. exact Hn.
  - (* or *)
    destruct (valid_b_complete _ _ V') as [n Hn]. exists (S n). rewrite valid_b_S. cbn [vstep].
    apply existsb_exists. exists t. split; [exact It | exact Hn].
  - exists 1; reflexivity.
  - exists 1; reflexivity.
  - exists 1; reflexivity.
  - (* open object *)
    exists 1. apply (obj_step 0 t [] m OP). apply obj_b_intro; [exact ND | left; reflexivity].
  - (* object with declared properties *)
    assert (HK : forall kv, In kv m -> exists n, existsb (fun p => String.eqb (p_name p) (fst kv) && valid_b n (p_type p) (snd kv)) ps = true).
    { intros [k v] Ikv. destruct (HP k v Ikv) as [p [Ip [En Hv]]]. destruct (valid_b_complete _ _ Hv) as [n Hn].
      exists n. apply existsb_exists. exists p. split; [exact Ip|]. cbn [fst snd]. rewrite En, String.eqb_refl. exact Hn. }
    destruct (list_fuel (fun kv n => existsb (fun p => String.eqb (p_name p) (fst kv) && valid_b n (p_type p) (snd kv)) ps = true) m) as [n Hn].
    { intros kv n1 n2 L. apply existsb_impl. intros p _ Hp. apply andb_true_iff in Hp. destruct Hp as [A B].
      rewrite A. cbn [andb]. exact (valid_b_mono n1 n2 _ _ L B). }
    { exact HK. }
    exists (S n). apply (obj_step n t ps m OP). apply obj_b_intro; [exact ND | right; split; [exact Hn | exact HR]].
  - (* alias: the name is not a structure (mm_wf) *)
    destruct (valid_b_complete _ _ V') as [k Hk]. exists (S k). rewrite valid_b_S. unfold vstep.
    unfold opaque_ref in OPQ. apply orb_false_iff in OPQ. destruct OPQ as [OPQ E3]. apply orb_false_iff in OPQ. destruct OPQ as [E1 E2].
    rewrite E1, E2, E3, (wf_alias n a FA), FA. exact Hk.
  - (* enumeration member *)
    destruct (wf_enum n e FE) as [FS [FA SH]]. exists 1. rewrite valid_b_S. unfold vstep.
    destruct (String.eqb n "LSPAny"); [reflexivity|].
    unfold shape_ref in SH. apply orb_false_iff in SH. destruct SH as [E2 E3].
    rewrite E2, E3, FS, FA, FE, HM. reflexivity.
  - (* enumeration with custom values *)
    destruct (wf_enum n e FE) as [FS [FA SH]]. destruct (valid_b_complete _ _ V') as [k Hk]. exists (S k).
    rewrite valid_b_S. unfold vstep. destruct (String.eqb n "LSPAny"); [reflexivity|].
    unfold shape_ref in SH. apply orb_false_iff in SH. destruct SH as [E2 E3].
    rewrite E2, E3, FS, FA, FE, HC, Hk. apply orb_true_r.
Qed.

Corollary valid_iff_valid_b t j : valid t j <-> exists n, valid_b n t j = true.
Proof. split; [apply valid_b_complete | intros [n H]; exact (valid_b_sound n t j H)]. Qed.
End Complete.

(* ---------------------------------------------------------------- the checker that is run: three-valued, lazy *)
Fixpoint all3 {A} (f : A -> option bool) (l : list A) : option bool :=
  match l with [] => Some true | x :: xs => match f x with Some true => all3 f xs | r => r end end.
Fixpoint any3 {A} (f : A -> option bool) (l : list A) : option bool :=
  match l with [] => Some false | x :: xs => match f x with Some false => any3 f xs | r => r end end.

Definition obj_d (rec : ty -> json -> option bool) (ps : list prop) (m : list (string * json)) : option bool :=
  if nodupb (keys m) then
    if is_nil ps then Some true
    else match all3 (fun kv => any3 (fun p => if String.eqb (p_name p) (fst kv) then rec (p_type p) (snd kv) else Some false) ps) m with
         | Some true => Some (forallb (fun p => p_opt p || mem (p_name p) (keys m)) ps)
         | r => r end
  else Some false.

Definition dstep (rec : ty -> json -> option bool) (t : ty) (j : json) : option bool :=
  match t with
  | TBase BString | TBase BURI | TBase BDocumentUri | TBase BRegExp => Some (match j with JStr _ => true | _ => false end)
  | TBase BInteger => Some (match j with JInt z => int32 z | _ => false end)
  | TBase BUInteger => Some (match j with JInt z => uint31 z | _ => false end)
  | TBase BDecimal => Some (match j with JInt _ | JFlt _ _ => true | _ => false end)
  | TBase BBoolean => Some (match j with JBool _ => true | _ => false end)
  | TBase BNull => Some (match j with JNull => true | _ => false end)
  | TStrLit s => Some (match j with JStr s' => String.eqb s s' | _ => false end)
  | TIntLit z => Some (match j with JInt z' => (z =? z')%Z | _ => false end)
  | TBoolLit b => Some (match j with JBool b' => Bool.eqb b b' | _ => false end)
  | TArr t' => match j with JArr l => all3 (rec t') l | _ => Some false end
  | TMap k v => match j with
                | JObj m => if nodupb (keys m)
                            then all3 (fun kv => match rec k (JStr (fst kv)) with Some true => rec v (snd kv) | r => r end) m
                            else Some false
                | _ => Some false end
  | TTuple ts => match j with
                 | JArr l => if Nat.eqb (length ts) (length l) then all3 (fun p => rec (fst p) (snd p)) (combine ts l) else Some false
                 | _ => Some false end
  | TOr l => any3 (fun t' => rec t' j) l
  | TLit _ | TAnd _ => match obj_props mm t, j with Some ps, JObj m => obj_d rec ps m | _, _ => Some false end
  | TRef name =>
      if String.eqb name "LSPAny" then Some true
      else if String.eqb name "LSPObject" then Some (match j with JObj _ => true | _ => false end)
      else if String.eqb name "LSPArray" then Some (match j with JArr _ => true | _ => false end)
      else match find_struct mm name with
           | Some _ => match j with JObj m => obj_d rec (flat mm name) m | _ => Some false end
           | None =>
             match find_alias mm name with
             | Some a => rec (a_type a) j
             | None =>
               match find_enum mm name with
               | Some e => if existsb (fun x => evalue_matches (snd (fst x)) j) (e_values e) then Some true
                           else if e_custom e then rec (TBase (e_base e)) j else Some false
               | None => Some false end end end
  end.

Fixpoint valid_d (n : nat) (t : ty) (j : json) {struct n} : option bool :=
  match n with O => None | S n => dstep (valid_d n) t j end.

Lemma all3_spec {A} (f : A -> option bool) (g : A -> bool) l b :
  (forall x c, f x = Some c -> g x = c) -> all3 f l = Some b -> forallb g l = b.
Proof.
  intros H. induction l as [|x xs IH]; cbn; [intros [= <-]; reflexivity|].
  destruct (f x) as [[|]|] eqn:E; intros R; try discriminate.
  - rewrite (H _ _ E). cbn. apply IH. exact R.
  - injection R as <-. rewrite (H _ _ E). reflexivity.
Qed.
Lemma any3_spec {A} (f : A -> option bool) (g : A -> bool) l b :
  (forall x c, f x = Some c -> g x = c) -> any3 f l = Some b -> existsb g l = b.
Proof.
  intros H. induction l as [|x xs IH]; cbn; [intros [= <-]; reflexivity|].
  destruct (f x) as [[|]|] eqn:E; intros R; try discriminate.
  - injection R as <-. rewrite (H _ _ E). reflexivity.
  - rewrite (H _ _ E). cbn. apply IH. exact R.
Qed.

Lemma obj_d_spec r3 r2 ps m b : (forall t j c, r3 t j = Some c -> r2 t j = c) -> obj_d r3 ps m = Some b -> obj_b r2 ps m = b.
Proof.
  intros H R. unfold obj_d in R. unfold obj_b. destruct (nodupb (keys m)); [|injection R as <-; reflexivity]. cbn [andb].
  destruct (is_nil ps); [injection R as <-; reflexivity|]. cbn [orb].
  destruct (all3 _ m) as [[|]|] eqn:E; try discriminate.
  - injection R as <-. erewrite (all3_spec _ _ m true _ E). reflexivity.
  - injection R as <-. erewrite (all3_spec _ _ m false _ E). reflexivity.
  Unshelve.
  all: intros kv c; apply any3_spec; intros p c'; destruct (String.eqb (p_name p) (fst kv));
       [intros Q; rewrite (H _ _ _ Q); reflexivity | intros [= <-]; reflexivity].
Qed.

Lemma dstep_spec r3 r2 : (forall t j c, r3 t j = Some c -> r2 t j = c) -> forall t j b, dstep r3 t j = Some b -> vstep r2 t j = b.
Proof.
  intros H t j b R. destruct t as [bs|name|t'|k v|l|l|ts|ps|s|z|bb]; unfold dstep in R; unfold vstep.
  - destruct bs; injection R as <-; reflexivity.
  - destruct (String.eqb name "LSPAny"); [injection R as <-; reflexivity|].
    destruct (String.eqb name "LSPObject"); [injection R as <-; reflexivity|].
    destruct (String.eqb name "LSPArray"); [injection R as <-; reflexivity|].
    destruct (find_struct mm name).
    + destruct j; try (injection R as <-; reflexivity). revert R. apply obj_d_spec. exact H.
    + destruct (find_alias mm name); [apply H; exact R|]. destruct (find_enum mm name); [|injection R as <-; reflexivity].
      destruct (existsb _ (e_values e)); [injection R as <-; reflexivity|]. cbn [orb].
      destruct (e_custom e); [apply H; exact R | injection R as <-; reflexivity].
  - destruct j; try (injection R as <-; reflexivity). revert R. apply all3_spec. intros x c. apply H.
  - destruct j; try (injection R as <-; reflexivity). destruct (nodupb (keys m)); [|injection R as <-; reflexivity]. cbn [andb].
    revert R. apply all3_spec. intros kv c. destruct (r3 k (JStr (fst kv))) as [[|]|] eqn:E; intros Q; try discriminate.
    + rewrite (H _ _ _ E). cbn [andb]. apply H. exact Q.
    + injection Q as <-. rewrite (H _ _ _ E). reflexivity.
  - destruct (obj_props mm (TAnd l)); [|injection R as <-; reflexivity].
    destruct j; try (injection R as <-; reflexivity). revert R. apply obj_d_spec. exact H.
  - revert R. apply any3_spec. intros x c. apply H.
  - destruct j; try (injection R as <-; reflexivity). destruct (Nat.eqb (length ts) (length l)); [|injection R as <-; reflexivity].
    cbn [andb]. revert R. apply all3_spec. intros p c. apply H.
  - destruct (obj_props mm (TLit ps)); [|injection R as <-; reflexivity].
    destruct j; try (injection R as <-; reflexivity). revert R. apply obj_d_spec. exact H.
  - injection R as <-; reflexivity.
  - injection R as <-; reflexivity.
  - injection R as <-; reflexivity.
Qed.

(* a definite verdict of valid_d at fuel n is the value of valid_b at every fuel >= n *)
Lemma valid_d_valid_b : forall n t j b, valid_d n t j = Some b -> forall m, n <= m -> valid_b m t j = b.
Proof.
  induction n as [|n IH]; intros t j b R m L; [discriminate|].
  destruct m as [|m]; [lia|]. rewrite valid_b_S. cbn [valid_d] in R.
  revert R. apply dstep_spec. intros t' j' c Q. apply (IH _ _ _ Q). lia.
Qed.

Theorem valid_d_correct : mm_wf = true -> forall n t j b, valid_d n t j = Some b -> (valid t j <-> b = true).
Proof.
  intros WF n t j b R. split.
  - intros V. destruct (valid_b_complete WF t j V) as [k Hk].
    rewrite <- (valid_d_valid_b n t j b R (Nat.max n k) (Nat.le_max_l _ _)).
    exact (valid_b_mono k _ t j (Nat.le_max_r _ _) Hk).
  - intros ->. apply (valid_b_sound n). exact (valid_d_valid_b n t j true R n (le_n _)).
Qed.

(* the two verdicts separately, in the form the property uses them *)
Corollary valid_d_true n t j : valid_d n t j = Some true -> valid t j.
Proof. intros R. apply (valid_b_sound n). exact (valid_d_valid_b n t j true R n (le_n _)). Qed.
Corollary valid_d_false : mm_wf = true -> forall n t j, valid_d n t j = Some false -> ~ valid t j.
Proof. intros WF n t j R V. apply (valid_d_correct WF n t j false R) in V. discriminate. Qed.
(* a verdict, once reached, is stable under more fuel (so the fixed fuel of the harness is not a tuning knob) *)
Lemma valid_d_mono_S : forall n t j b, valid_d n t j = Some b -> valid_d (S n) t j = Some b.
Proof.
  assert (A3 : forall A (f g : A -> option bool) l b, (forall x c, f x = Some c -> g x = Some c) -> all3 f l = Some b -> all3 g l = Some b).
  { intros A f g l b H. induction l as [|x xs IH]; cbn; [auto|]. destruct (f x) as [[|]|] eqn:E; intros R; try discriminate;
      rewrite (H _ _ E); [apply IH; exact R | exact R]. }
  assert (O3 : forall A (f g : A -> option bool) l b, (forall x c, f x = Some c -> g x = Some c) -> any3 f l = Some b -> any3 g l = Some b).
  { intros A f g l b H. induction l as [|x xs IH]; cbn; [auto|]. destruct (f x) as [[|]|] eqn:E; intros R; try discriminate;
      rewrite (H _ _ E); [exact R | apply IH; exact R]. }
  assert (OB : forall r1 r2 ps m b, (forall t j c, r1 t j = Some c -> r2 t j = Some c) -> obj_d r1 ps m = Some b -> obj_d r2 ps m = Some b).
  { intros r1 r2 ps m b H R. unfold obj_d in *. destruct (nodupb (keys m)); [|exact R]. destruct (is_nil ps); [exact R|].
    destruct (all3 _ m) as [c|] eqn:E; [|discriminate].
    erewrite (A3 _ _ _ m c _ E). exact R.
    Unshelve. intros kv c'. apply O3. intros p c''. destruct (String.eqb (p_name p) (fst kv)); [apply H | auto]. }
  assert (ST : forall r1 r2, (forall t j c, r1 t j = Some c -> r2 t j = Some c) -> forall t j b, dstep r1 t j = Some b -> dstep r2 t j = Some b).
  { intros r1 r2 H t j b R. destruct t as [bs|name|t'|k v|l|l|ts|ps|s|z|bb]; unfold dstep in *; try exact R.
    - destruct (String.eqb name "LSPAny"); [exact R|]. destruct (String.eqb name "LSPObject"); [exact R|].
      destruct (String.eqb name "LSPArray"); [exact R|]. destruct (find_struct mm name).
      + destruct j; try exact R. revert R. apply OB. exact H.
      + destruct (find_alias mm name); [apply H; exact R|]. destruct (find_enum mm name); [|exact R].
        destruct (existsb _ (e_values e)); [exact R|]. destruct (e_custom e); [apply H; exact R | exact R].
    - destruct j; try exact R. revert R. apply A3. intros x c. apply H.
    - destruct j; try exact R. destruct (nodupb (keys m)); [|exact R]. revert R. apply A3. intros kv c.
      destruct (r1 k (JStr (fst kv))) as [[|]|] eqn:E; intros Q; try discriminate; rewrite (H _ _ _ E); [apply H; exact Q | exact Q].
    - destruct (obj_props mm (TAnd l)); [|exact R]. destruct j; try exact R. revert R. apply OB. exact H.
    - revert R. apply O3. intros x c. apply H.
    - destruct j; try exact R. destruct (Nat.eqb (length ts) (length l)); [|exact R]. revert R. apply A3. intros p c. apply H.
    - destruct (obj_props mm (TLit ps)); [|exact R]. destruct j; try exact R. revert R. apply OB. exact H. }
  induction n as [|n IH]; intros t j b R; [discriminate|]. cbn [valid_d] in *. revert R. apply ST. exact IH.
Qed.
End ValidB.
