(* PtyEq.v — nested induction principle for [pty] and soundness of the boolean equality [pty_eqb]. *)
From LSP Require Import Base Sem.

Section PtyInd.
Variable P : pty -> Prop.
Hypothesis Hany : P PyAny. Hypothesis Hnone : P PyNone. Hypothesis Hint : P PyInt. Hypothesis Hstr : P PyStr.
Hypothesis Hbool : P PyBool. Hypothesis Hfloat : P PyFloat.
Hypothesis Hunion : forall l, (forall t, In t l -> P t) -> P (PyUnion l).
Hypothesis Hseq : forall t, P t -> P (PySeq t).
Hypothesis Hdict : forall k v, P k -> P v -> P (PyDict k v).
Hypothesis Htuple : forall l, (forall t, In t l -> P t) -> P (PyTuple l).
Hypothesis Hlit : forall l, P (PyLit l). Hypothesis Henum : forall n, P (PyEnum n). Hypothesis Hcls : forall n, P (PyCls n).
Hypothesis Hopq : forall n, P (PyOpaque n). Hypothesis Hfwd : forall n, P (PyFwd n).
Fixpoint pty_ind2 (t : pty) : P t :=
  let go := fix go (l : list pty) : forall x, In x l -> P x :=
              match l with
              | [] => fun x F => match F with end
              | y :: r => fun x I => match I with or_introl E => eq_rect y P (pty_ind2 y) x E | or_intror I' => go r x I' end end in
  match t with
  | PyAny => Hany | PyNone => Hnone | PyInt => Hint | PyStr => Hstr | PyBool => Hbool | PyFloat => Hfloat
  | PyUnion l => Hunion l (go l) | PySeq t' => Hseq t' (pty_ind2 t') | PyDict k v => Hdict k v (pty_ind2 k) (pty_ind2 v)
  | PyTuple l => Htuple l (go l) | PyLit l => Hlit l | PyEnum n => Henum n | PyCls n => Hcls n | PyOpaque n => Hopq n | PyFwd n => Hfwd n end.
End PtyInd.

Lemma pty_list_eq (l : list pty) : (forall t, In t l -> forall b, pty_eqb t b = true -> t = b) ->
  forall l', (fix leq (x y : list pty) {struct x} : bool := match x, y with [], [] => true | p :: ps, q :: qs => pty_eqb p q && leq ps qs | _, _ => false end) l l' = true -> l = l'.
Proof.
  induction l as [|x l IH]; intros H [|y l'] E; try discriminate; [reflexivity|].
  apply andb_true_iff in E. destruct E as [E1 E2]. f_equal; [apply H; [left; reflexivity | exact E1] | apply IH; [intros t I; apply H; right; exact I | exact E2]].
Qed.
Theorem pty_eqb_eq : forall a b, pty_eqb a b = true -> a = b.
Proof.
  apply (pty_ind2 (fun a => forall b, pty_eqb a b = true -> a = b)); intros; try (destruct b; try discriminate; reflexivity).
  - destruct b; try discriminate. cbn in H0. f_equal. apply pty_list_eq; assumption.
  - destruct b; try discriminate. cbn in H0. f_equal. apply H. exact H0.
  - destruct b; try discriminate. cbn in H1. apply andb_true_iff in H1. destruct H1. f_equal; auto.
  - destruct b; try discriminate. cbn in H0. f_equal. apply pty_list_eq; assumption.
  - destruct b; try discriminate. cbn in H. unfold lstr_eqb in H. destruct (list_eq_dec string_dec l l0); [congruence | discriminate].
  - destruct b; try discriminate. cbn in H. apply String.eqb_eq in H. congruence.
  - destruct b; try discriminate. cbn in H. apply String.eqb_eq in H. congruence.
  - destruct b; try discriminate. cbn in H. apply String.eqb_eq in H. congruence.
  - destruct b; try discriminate. cbn in H. apply String.eqb_eq in H. congruence.
Qed.
