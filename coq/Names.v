(* Names.v — model of the attribute-name -> wire-name function of _hooks.py (_to_camel_case), ASCII strings:
     new_name = name[:-1] if name.endswith("_") else name ; parts = new_name.split("_")
     return parts[0] + "".join(p.title() for p in parts[1:])
   str.title(): a cased character is upper-cased when the previous character is not cased, lower-cased otherwise. *)
From LSP Require Import Base.
From Coq Require Import Ascii.

Definition is_upper (c : ascii) : bool := let n := nat_of_ascii c in Nat.leb 65 n && Nat.leb n 90.
Definition is_lower (c : ascii) : bool := let n := nat_of_ascii c in Nat.leb 97 n && Nat.leb n 122.
Definition to_upper (c : ascii) : ascii := if is_lower c then ascii_of_nat (nat_of_ascii c - 32) else c.
Definition to_lower (c : ascii) : ascii := if is_upper c then ascii_of_nat (nat_of_ascii c + 32) else c.
Definition cased (c : ascii) : bool := is_upper c || is_lower c.

Fixpoint title_from (prev_cased : bool) (s : string) : string :=
  match s with
  | EmptyString => EmptyString
  | String c r => String (if cased c then (if prev_cased then to_lower c else to_upper c) else c) (title_from (cased c) r) end.
Definition title (s : string) : string := title_from false s.

(* split on "_" *)
Fixpoint split_us (cur : string) (s : string) : list string :=
  match s with
  | EmptyString => [cur]
  | String c r => if Ascii.eqb c "_"%char then cur :: split_us EmptyString r else split_us (cur ++ String c EmptyString) r end.
Fixpoint drop_last_us (s : string) : string :=
  match s with
  | EmptyString => EmptyString
  | String c EmptyString => if Ascii.eqb c "_"%char then EmptyString else s
  | String c r => String c (drop_last_us r) end.
Definition camel (name : string) : string :=
  match split_us EmptyString (drop_last_us name) with
  | [] => EmptyString
  | p :: ps => p ++ String.concat EmptyString (map title ps) end.

Example camel_ex : camel "text_document" = "textDocument" /\ camel "from_" = "from" /\ camel "utf8_text" = "utf8Text" /\ camel "a1b_c2d" = "a1bC2D".
Proof. repeat split; reflexivity. Qed.
