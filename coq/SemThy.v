(* SemThy.v — generic theorems about the converter model (for every package table Sg, every str() oracle, every
   recursive callback): rejection of the four single-field deviations (C11), the null-versus-omitted key rule (C10),
   enumeration acceptance/rejection (C13), insensitivity of a class to undeclared keys (C15, class level). *)
From Coq Require Import Lia.
From LSP Require Import Base Sem.

Lemma mapM_not_ok {A B} (f : A -> res B) (l : list A) x : In x l -> (forall y, f x <> Ok y) -> forall r, mapM f l <> Ok r.
Proof.
  induction l as [|a l IH]; cbn; intros I H r; [contradiction|].
  destruct I as [->|I].
  - destruct (f x) as [y| |] eqn:E; cbn; try discriminate. exfalso. exact (H y eq_refl).
  - destruct (f a) as [y| |]; cbn; try discriminate.
    destruct (mapM f l) as [ys| |] eqn:E; cbn; try discriminate. exfalso. exact (IH I H ys eq_refl).
Qed.
Lemma mapM_ok_in {A B} (f : A -> res B) (l : list A) r : mapM f l = Ok r ->
  length r = length l /\ forall x y, In (x, y) (combine l r) -> f x = Ok y.
Proof.
  revert r. induction l as [|a l IH]; cbn; intros r H.
  - inversion H; subst. split; [reflexivity | intros x y []].
  - destruct (f a) as [b| |] eqn:Ea; cbn in H; try discriminate.
    destruct (mapM f l) as [bs| |] eqn:El; cbn in H; try discriminate. inversion H; subst.
    destruct (IH bs eq_refl) as [L P]. split; [cbn; congruence|].
    intros x y [E|I]; [inversion E; subst; exact Ea | exact (P x y I)].
Qed.
Lemma mapM_ok_each {A B} (f : A -> res B) (l : list A) r x : mapM f l = Ok r -> In x l -> exists y, In (x, y) (combine l r) /\ f x = Ok y.
Proof.
  revert r. induction l as [|a l IH]; cbn; intros r H I; [contradiction|].
  destruct (f a) as [b| |] eqn:Ea; cbn in H; try discriminate.
  destruct (mapM f l) as [bs| |] eqn:El; cbn in H; try discriminate. inversion H; subst.
  destruct I as [->|I].
  - exists b. split; [left; reflexivity | exact Ea].
  - destruct (IH bs eq_refl I) as [y [Iy Ey]]. exists y. split; [right; exact Iy | exact Ey].
Qed.
Lemma mapM_ext {A B} (f g : A -> res B) l : (forall x, In x l -> f x = g x) -> mapM f l = mapM g l.
Proof.
  induction l as [|a l IH]; cbn; intros H; [reflexivity|].
  rewrite (H a (or_introl eq_refl)). destruct (g a); cbn; try reflexivity. rewrite IH; [reflexivity | intros x I; apply H; right; exact I].
Qed.

Section Thy.
Variable Sg : sigma.
Variable py_str : json -> string.
Notation step := (step Sg py_str).
Notation structure := (structure Sg py_str).
Notation sfield := sfield.

(* ------------------------------------------------------------------ C11: single-field deviations are rejected *)
(* (1) a required property (no default) that is absent *)
Theorem reject_missing_required c fs f m rec :
  lookup_cls Sg c = Some fs -> In f fs -> fdefault f = NoDefault -> assoc (fwire f) m = None ->
  forall o, step rec (PyCls c) (JObj m) <> Ok o.
Proof.
  intros L I D A o. cbn [Sem.step]. rewrite L. intro H.
  destruct (mapM (sfield rec (JObj m)) fs) as [kw| |] eqn:E; cbn in H; try discriminate.
  revert E. apply mapM_not_ok with (x := f); [exact I|].
  intros y. unfold Sem.sfield. rewrite D, A. discriminate.
Qed.

(* the value a field receives when its key is present *)
Lemma sfield_present rec m f v : assoc (fwire f) m = Some v ->
  sfield rec (JObj m) f = (do x <- rec (ftype f) v; Ok (fname f, x)).
Proof.
  intros A. unfold Sem.sfield. destruct (fdefault f); rewrite ?A; try reflexivity;
    cbn [py_in bind]; assert (M : mem (fwire f) (keys m) = true)
      by (apply mem_in; apply assoc_in in A; unfold keys; change (fwire f) with (fst (fwire f, v)); apply in_map; exact A);
    rewrite M; reflexivity.
Qed.

(* generic: if the callback turns the present value of field f into something its validator refuses, the class fails *)
Theorem reject_by_validator c fs f m rec v x :
  lookup_cls Sg c = Some fs -> In f fs -> assoc (fwire f) m = Some v ->
  rec (ftype f) v = Ok x -> validate (fval f) (fvalopt f) x = false ->
  forall o, step rec (PyCls c) (JObj m) <> Ok o.
Proof.
  intros L I A R V o. cbn [Sem.step]. rewrite L. intro H.
  destruct (mapM (sfield rec (JObj m)) fs) as [kw| |] eqn:E; cbn in H; try discriminate.
  destruct (mapM_ok_each _ _ _ f E I) as [y [Iy Ey]].
  rewrite (sfield_present _ _ _ _ A), R in Ey. cbn in Ey. inversion Ey; subst y.
  destruct (forbid_extra Sg && negb (subset (keys m) (map fwire fs))); [discriminate|].
  destruct (forallb (fun p => validate (fval (fst p)) (fvalopt (fst p)) (snd (snd p))) (combine fs kw)) eqn:F; [|discriminate].
  rewrite forallb_forall in F. specialize (F _ Iy). cbn in F. congruence.
Qed.
(* generic: if the callback fails on the present value of field f, the class fails *)
Theorem reject_by_field_failure c fs f m rec v :
  lookup_cls Sg c = Some fs -> In f fs -> assoc (fwire f) m = Some v -> (forall x, rec (ftype f) v <> Ok x) ->
  forall o, step rec (PyCls c) (JObj m) <> Ok o.
Proof.
  intros L I A R o. cbn [Sem.step]. rewrite L. intro H.
  destruct (mapM (sfield rec (JObj m)) fs) as [kw| |] eqn:E; cbn in H; try discriminate.
  revert E. apply mapM_not_ok with (x := f); [exact I|].
  intros y. rewrite (sfield_present _ _ _ _ A). destruct (rec (ftype f) v) as [x| |] eqn:Ex; cbn; try discriminate.
  exfalso. exact (R x eq_refl).
Qed.

(* shapes of directly typed fields: T or Optional[T] without a registered union hook *)
Definition direct (t base : pty) : Prop :=
  t = base \/ (t = PyUnion [base; PyNone] /\ lookup_uhook Sg t = None) \/ (t = PyUnion [PyNone; base] /\ lookup_uhook Sg t = None).

(* boolean twin of [direct] for atomic bases, with its soundness *)
Definition atomic (t : pty) : bool :=
  match t with PyAny | PyNone | PyInt | PyStr | PyBool | PyFloat | PyEnum _ | PyCls _ | PyOpaque _ | PyFwd _ => true | _ => false end.
Lemma pty_eqb_atomic a b : atomic b = true -> pty_eqb a b = true -> a = b.
Proof.
  destruct b; try discriminate; intros _; destruct a; cbn; intros H; try discriminate; try reflexivity;
    apply String.eqb_eq in H; congruence.
Qed.
Lemma is_none_eq t : is_none t = true -> t = PyNone.
Proof. destruct t; try discriminate; reflexivity. Qed.
Definition no_uhook (t : pty) : bool := match lookup_uhook Sg t with None => true | Some _ => false end.
Definition direct_b (t base : pty) : bool :=
  pty_eqb t base ||
  match t with
  | PyUnion [a; b] => ((pty_eqb a base && is_none b) || (is_none a && pty_eqb b base)) && no_uhook t
  | _ => false end.
Lemma direct_b_sound t base : atomic base = true -> direct_b t base = true -> direct t base.
Proof.
  intros At H. unfold direct_b in H. apply orb_true_iff in H. destruct H as [H|H].
  - left. apply pty_eqb_atomic; assumption.
  - destruct t as [| | | | | |l| | | | | | | |]; try discriminate.
    destruct l as [|a [|b [|c l]]]; try discriminate.
    apply andb_true_iff in H. destruct H as [H U]. unfold no_uhook in U.
    destruct (lookup_uhook Sg (PyUnion [a; b])) eqn:E; [discriminate|].
    apply orb_true_iff in H. destruct H as [H|H]; apply andb_true_iff in H; destruct H as [H1 H2].
    + apply pty_eqb_atomic in H1; [|exact At]. apply is_none_eq in H2. subst. right. left. split; [reflexivity | exact E].
    + apply is_none_eq in H1. apply pty_eqb_atomic in H2; [|exact At]. subst. right. right. split; [reflexivity | exact E].
Qed.

(* what structuring a non-null value at a direct position is *)
Lemma step_direct rec t base j : direct t base -> j <> JNull -> is_none base = false ->
  step rec t j = step rec base j \/ step rec t j = rec base j.
Proof.
  intros [-> | [[-> U] | [-> U]]] J B; [left; reflexivity | right | right];
    cbn [Sem.step]; rewrite U; cbn [filter negb is_none]; rewrite B; cbn [negb length Nat.eqb]; destruct j; try reflexivity; congruence.
Qed.

(* (2) integer / uinteger out of range *)
Definition out_of_range (k : vkind) (z : Z) : Prop :=
  match k with VInteger => in_range_i z = false | VUInteger => in_range_u z = false | _ => False end.
Theorem reject_int_range c fs f m z n :
  lookup_cls Sg c = Some fs -> In f fs -> direct (ftype f) PyInt -> out_of_range (fval f) z ->
  assoc (fwire f) m = Some (JInt z) -> forall o, structure n (PyCls c) (JObj m) <> Ok o.
Proof.
  intros L I D R A o. destruct n as [|n]; [discriminate|]. cbn [Sem.structure].
  assert (V : validate (fval f) (fvalopt f) (VInt z) = false).
  { unfold validate. destruct (fval f); cbn in R; try contradiction; cbn; exact R. }
  destruct (Sem.structure Sg py_str n (ftype f) (JInt z)) as [x| |] eqn:E.
  - assert (x = VInt z).
    { destruct n as [|n]; [discriminate|]. cbn [Sem.structure] in E.
      destruct (step_direct (Sem.structure Sg py_str n) _ _ (JInt z) D) as [S1|S1]; try discriminate; try reflexivity;
        rewrite S1 in E.
      - cbn in E. congruence.
      - destruct n as [|n]; [discriminate|]. cbn in E. congruence. }
    subst x. eapply reject_by_validator; eauto.
  - eapply reject_by_field_failure; eauto. intros x. rewrite E. discriminate.
  - eapply reject_by_field_failure; eauto. intros x. rewrite E. discriminate.
Qed.

(* (3) closed enumeration: a value equal to no member *)
Lemma step_enum_reject rec e d j : lookup_enum Sg e = Some d -> (forall m, In m (evals d) -> pv_eqb_prim (embed j) m = false) ->
  forall x, step rec (PyEnum e) j <> Ok x.
Proof.
  intros L H x. cbn [Sem.step]. rewrite L.
  destruct (find (pv_eqb_prim (embed j)) (evals d)) as [m|] eqn:F; [|discriminate].
  apply find_some in F. destruct F as [I E]. rewrite (H m I) in E. discriminate.
Qed.
Theorem reject_closed_enum c fs f m e d j n :
  lookup_cls Sg c = Some fs -> In f fs -> direct (ftype f) (PyEnum e) -> lookup_enum Sg e = Some d ->
  j <> JNull -> (forall mb, In mb (evals d) -> pv_eqb_prim (embed j) mb = false) ->
  assoc (fwire f) m = Some j -> forall o, structure n (PyCls c) (JObj m) <> Ok o.
Proof.
  intros L I D Le J H A o. destruct n as [|n]; [discriminate|]. cbn [Sem.structure].
  eapply reject_by_field_failure; eauto. intros x.
  destruct n as [|n]; [discriminate|]. cbn [Sem.structure].
  destruct (step_direct (Sem.structure Sg py_str n) _ _ j D J eq_refl) as [S1|S1]; rewrite S1.
  - eapply step_enum_reject; eauto.
  - destruct n as [|n]; [discriminate|]. cbn [Sem.structure]. eapply step_enum_reject; eauto.
Qed.

(* (4) string literal: a different string.  Two shapes occur: str + in_ validator (structure properties),
       typing.Literal (the `method` of message classes) *)
Theorem reject_literal_in c fs f m s s' n :
  lookup_cls Sg c = Some fs -> In f fs -> ftype f = PyStr -> fval f = VIn [s] -> s' <> s ->
  assoc (fwire f) m = Some (JStr s') -> forall o, structure n (PyCls c) (JObj m) <> Ok o.
Proof.
  intros L I T V N A o. destruct n as [|n]; [discriminate|]. cbn [Sem.structure].
  destruct n as [|n].
  - eapply reject_by_field_failure; eauto. intros x. discriminate.
  - eapply reject_by_validator with (x := VStr s'); eauto.
    + rewrite T. reflexivity.
    + rewrite V. unfold validate. cbn. destruct (String.eqb_spec s' s); [contradiction | reflexivity].
Qed.
Theorem reject_literal_type c fs f m l s' n :
  lookup_cls Sg c = Some fs -> In f fs -> ftype f = PyLit l -> ~ In s' l ->
  assoc (fwire f) m = Some (JStr s') -> forall o, structure n (PyCls c) (JObj m) <> Ok o.
Proof.
  intros L I T N A o. destruct n as [|n]; [discriminate|]. cbn [Sem.structure].
  eapply reject_by_field_failure; eauto. intros x. rewrite T.
  destruct n as [|n]; [discriminate|]. cbn.
  destruct (mem s' l) eqn:E; [apply mem_in in E; contradiction | discriminate].
Qed.

(* ------------------------------------------------------------------ C10: which keys are written *)
Lemma somes_keys (l : list (option (string * json))) k : In k (keys (somes l)) <-> exists v, In (Some (k, v)) l.
Proof.
  unfold keys, somes. induction l as [|[[k' v']|] l IH]; cbn.
  - split; [intros [] | intros [v []]].
  - rewrite IH. split.
    + intros [<-|[v I]]; [exists v'; left; reflexivity | exists v; right; exact I].
    + intros [v [E|I]]; [inversion E; left; reflexivity | right; exists v; exact I].
  - rewrite IH. split; intros [v I]; exists v; [right; exact I | destruct I as [E|I]; [discriminate | exact I]].
Qed.

(* keys_rule: unstructuring an instance at its class writes the wire key of attribute f iff the attribute is not
   (omit-if-default and equal to its default).  For every callback, so for every fuel. *)
Theorem keys_rule rec c c' fds fs j :
  lookup_cls Sg c = Some fds -> NoDup (map fwireo fds) ->
  ustep Sg rec (Some (PyCls c)) (VObj c' fs) = Ok j ->
  exists kvs, j = JObj kvs /\
    forall f, In f fds ->
      (In (fwireo f) (keys kvs) <-> exists x, assoc (fname f) fs = Some x /\ (fomit f && pv_is_default (fdefault f) x) = false).
Proof.
  intros L ND H. cbn [ustep] in H. rewrite L in H.
  destruct (mapM (ufield rec fs) fds) as [kvs| |] eqn:E; cbn in H; try discriminate. inversion H; subst j.
  exists (somes kvs). split; [reflexivity|]. intros f If. rewrite somes_keys. split.
  - intros [v Iv].
    (* the Some (fwireo f, v) entry comes from some field g; NoDup of wire names makes g = f *)
    assert (G : exists g, In g fds /\ ufield rec fs g = Ok (Some (fwireo f, v))).
    { clear -E Iv. revert kvs E Iv. induction fds as [|a l IH]; cbn; intros kvs E Iv.
      - inversion E; subst. contradiction.
      - destruct (ufield rec fs a) as [b| |] eqn:Ea; cbn in E; try discriminate.
        destruct (mapM (ufield rec fs) l) as [bs| |] eqn:El; cbn in E; try discriminate. inversion E; subst.
        destruct Iv as [->|Iv]; [exists a; split; [left; reflexivity | exact Ea]|].
        destruct (IH bs eq_refl Iv) as [g [Ig Eg]]. exists g. split; [right; exact Ig | exact Eg]. }
    destruct G as [g [Ig Eg]]. unfold ufield in Eg.
    destruct (assoc (fname g) fs) as [x|] eqn:Ax; [|discriminate].
    destruct (fomit g && pv_is_default (fdefault g) x) eqn:O; [discriminate|].
    destruct (rec (Some (ftype g)) x) as [y| |]; cbn in Eg; try discriminate. inversion Eg as [[W Y]].
    assert (g = f).
    { clear -ND Ig If W. induction fds as [|a l IH]; [contradiction|]. cbn in ND. inversion ND as [|? ? Na NDl]; subst.
      destruct Ig as [->|Ig], If as [->|If]; auto.
      - exfalso. apply Na. rewrite W. apply in_map. exact If.
      - exfalso. apply Na. rewrite <- W. apply in_map. exact Ig. }
    subst g. exists x. split; [exact Ax | exact O].
  - intros [x [Ax O]]. destruct (mapM_ok_each _ _ _ f E If) as [y [Iy Ey]].
    unfold ufield in Ey. rewrite Ax, O in Ey.
    destruct (rec (Some (ftype f)) x) as [v| |]; cbn in Ey; try discriminate. inversion Ey; subst y.
    exists v. apply in_combine_r in Iy. exact Iy.
Qed.

Theorem unstr_attrs_present rec c c' fds fs j :
  lookup_cls Sg c = Some fds -> ustep Sg rec (Some (PyCls c)) (VObj c' fs) = Ok j ->
  forall f, In f fds -> exists x, assoc (fname f) fs = Some x.
Proof.
  intros L H f If. cbn [ustep] in H. rewrite L in H.
  destruct (mapM (ufield rec fs) fds) as [kvs| |] eqn:E; cbn in H; try discriminate.
  destruct (mapM_ok_each _ _ _ f E If) as [y [_ Ey]]. unfold ufield in Ey.
  destruct (assoc (fname f) fs) as [x|]; [exists x; reflexivity | discriminate].
Qed.

(* parse direction: an absent property with a default is accepted and reads as that default *)
Theorem absent_reads_default rec m f : assoc (fwire f) m = None -> fdefault f <> NoDefault ->
  sfield rec (JObj m) f = Ok (fname f, match fdefault f with DefaultStr s => VStr s | _ => VNone end).
Proof.
  intros A D. unfold Sem.sfield. destruct (fdefault f) eqn:E; [congruence | |];
    cbn [py_in bind]; assert (M : mem (fwire f) (keys m) = false)
      by (destruct (mem (fwire f) (keys m)) eqn:M; [apply mem_in in M; apply assoc_none in A; contradiction | reflexivity]);
    rewrite M; reflexivity.
Qed.

(* ------------------------------------------------------------------ C13: enumerations *)
Theorem enum_accepts_member rec e d j : lookup_enum Sg e = Some d -> (exists m, In m (evals d) /\ pv_eqb_prim (embed j) m = true) ->
  exists m, step rec (PyEnum e) j = Ok (VEnum e m) /\ In m (evals d) /\ pv_eqb_prim (embed j) m = true.
Proof.
  intros L [m [I E]]. cbn [Sem.step]. rewrite L.
  destruct (find (pv_eqb_prim (embed j)) (evals d)) as [m'|] eqn:F.
  - apply find_some in F. exists m'. split; [reflexivity | exact F].
  - exfalso. pose proof (find_none _ _ F m I) as X. congruence.
Qed.
(* a pass-through hook (the shape registered for Union[<open enum>, str|int]) returns every primitive unchanged *)
Definition passthrough_hook (h : hook) : Prop :=
  (exists t, h = TIf (CIsNone HObj) (TRet RNone) (TIf (CIsPrim HObj) (TRet (RSelf HObj)) t)) \/ h = TRet (RSelf HObj).
Theorem passthrough_accepts_any_prim rec h j : passthrough_hook h -> is_prim j = true -> hrun py_str rec h j = Ok (embed j).
Proof. intros [[t ->] | ->] P; destruct j; try discriminate; reflexivity. Qed.

(* at a union position with a registered pass-through hook, every primitive is accepted unchanged ... *)
Theorem open_site_accepts rec ms h j : lookup_uhook Sg (PyUnion ms) = Some h -> passthrough_hook h -> is_prim j = true ->
  step rec (PyUnion ms) j = Ok (embed j).
Proof. intros L P J. cbn [Sem.step]. rewrite L. apply passthrough_accepts_any_prim; assumption. Qed.
(* ... and serialises back to itself (run-time class dispatch on a primitive) *)
Definition not_optional_pair (ms : list pty) : bool :=
  match ms with [a; b] => negb (is_none a) && negb (is_none b) | [] | [_] => false | _ => true end.
Theorem open_site_roundtrip rec ms j : not_optional_pair ms = true -> is_prim j = true ->
  ustep Sg rec (Some (PyUnion ms)) (embed j) = Ok j.
Proof.
  intros N J. destruct j; try discriminate; cbn [embed];
    (destruct ms as [|a0 [|b0 [|c0 l0]]]; try discriminate; cbn [ustep];
     [cbn in N; apply andb_true_iff in N; destruct N as [Na Nb]; apply negb_true_iff in Na; apply negb_true_iff in Nb; rewrite Na, Nb; reflexivity
     | reflexivity]).
Qed.
(* a member of a closed enumeration serialises to its value *)
Theorem enum_member_unstructures n e m j : n >= 2 -> (m = VStr j \/ False) -> unstr Sg (S n) (Some (PyEnum e)) (VEnum e m) = Ok (JStr j).
Proof. intros Hn [-> | []]. destruct n as [|[|n]]; try lia. reflexivity. Qed.
Theorem enum_member_unstructures_int n e z : n >= 2 -> unstr Sg (S n) (Some (PyEnum e)) (VEnum e (VInt z)) = Ok (JInt z).
Proof. intros Hn. destruct n as [|[|n]]; try lia. reflexivity. Qed.

(* ------------------------------------------------------------------ C15 (class level): undeclared keys are invisible *)
Lemma assoc_app_fresh {A} k (m ex : list (string * A)) : ~ In k (keys ex) -> assoc k (m ++ ex) = assoc k m.
Proof.
  intros N. unfold assoc. induction m as [|[k' v] m IH]; cbn.
  - fold (assoc k ex). apply assoc_none. exact N.
  - destruct (String.eqb k' k); [reflexivity | exact IH].
Qed.
Lemma mem_app_fresh k (a b : list string) : ~ In k b -> mem k (a ++ b) = mem k a.
Proof.
  intros N. destruct (mem k a) eqn:E.
  - apply mem_in. apply in_or_app. left. apply mem_in. exact E.
  - destruct (mem k (a ++ b)) eqn:F; [|reflexivity]. apply mem_in in F. apply in_app_or in F. destruct F as [F|F]; [apply mem_in in F; congruence | contradiction].
Qed.
Theorem class_ignores_extras rec c fs m ex :
  lookup_cls Sg c = Some fs -> forbid_extra Sg = false -> (forall f, In f fs -> ~ In (fwire f) (keys ex)) ->
  step rec (PyCls c) (JObj (m ++ ex)) = step rec (PyCls c) (JObj m).
Proof.
  intros L F N. cbn [Sem.step]. rewrite L, F. cbn [andb].
  rewrite (mapM_ext (sfield rec (JObj (m ++ ex))) (sfield rec (JObj m))); [reflexivity|].
  intros f If. unfold Sem.sfield. cbn [py_in]. unfold keys. rewrite map_app.
  rewrite (assoc_app_fresh _ m ex (N f If)). fold (keys m). fold (keys ex). rewrite (mem_app_fresh _ _ _ (N f If)). reflexivity.
Qed.
End Thy.
