(* Sem.v — executable model of the lsprotocol converter: cattrs 24.1 dispatch + make_dict_(un)structure_fn +
   attrs __init__/validators + enum.Enum.__call__ + the hook DSL that lib/x_pkg.py translates _hooks.py into.
   Hand-written; tied to the real converter by the correspondence runs (lib/conv_stream.py).
   Fuelled: [structure n] / [unstr n] are [step]/[ustep] iterated n times; all lemmas are about step/ustep. *)
From LSP Require Import Base.

Inductive pty :=
| PyAny | PyNone | PyInt | PyStr | PyBool | PyFloat
| PyUnion (l : list pty)              (* canonical: typing flattens and dedups; the translator sorts members *)
| PySeq (t : pty) | PyDict (k v : pty) | PyTuple (l : list pty)
| PyLit (l : list string) | PyEnum (n : string) | PyCls (n : string)
| PyOpaque (n : string)               (* a plain class with an identity hook (LSPObject) *)
| PyFwd (n : string).                 (* an unresolved typing.ForwardRef: cattrs cannot dispatch on it *)

Inductive pv :=
| VNone | VBool (b : bool) | VInt (z : Z) | VFlt (num den : Z) | VStr (s : string)
| VList (l : list pv) | VTuple (l : list pv) | VDict (m : list (pv * pv))
| VObj (cls : string) (fs : list (string * pv)) | VEnum (cls : string) (v : pv).

Fixpoint embed (j : json) : pv :=
  match j with
  | JNull => VNone | JBool b => VBool b | JInt z => VInt z | JFlt n d => VFlt n d | JStr s => VStr s
  | JArr l => VList (map embed l)
  | JObj m => VDict (map (fun kv => (VStr (fst kv), embed (snd kv))) m) end.

Inductive vkind := VNoVal | VInteger | VUInteger | VIsStr | VIsBool | VIsFloat | VIn (l : list string).
Inductive dflt := NoDefault | DefaultNone | DefaultStr (s : string).
Record fld := { fname : string; fwire : string (* key read when structuring *); fwireo : string (* key written *);
                ftype : pty; fdefault : dflt; fval : vkind; fvalopt : bool (* validators.optional wrapper *);
                fomit : bool (* omit_if_default *) }.
Record enumd := { ename : string; eisstr : bool; evals : list pv }.

(* hook DSL *)
Inductive hexpr := HObj | HItem | HIdx (e : hexpr) (n : nat) | HKey (e : hexpr) (k : string).
Inductive hcond :=
| CIsNone (e : hexpr) | CIsPrim (e : hexpr) | CIsStr (e : hexpr) | CIsList (e : hexpr)
| CHasKey (k : string) (e : hexpr) | CEqStr (e : hexpr) (s : string) | CLenEq0 (e : hexpr)
| CNot (c : hcond) | COr (a b : hcond) | CAnd (a b : hcond)
| CAnyItem (e : hexpr) (c : hcond).        (* any(c for item in e): c is evaluated with [item] bound to each element in turn *)
Inductive hret :=
| RNone | RSelf (e : hexpr) | REmpty | RStruct (e : hexpr) (t : pty) | RStr (e : hexpr) | RIntOf (e : hexpr)
| RMap (e : hexpr) (body : hret) | RIf (c : hcond) (a b : hret) | RTuple (l : list hret).
Inductive hook := TIf (c : hcond) (a b : hook) | TRet (r : hret) | TRaise.

Record sigma := { classes : list (string * list fld); enums : list enumd; uhooks : list (pty * hook);
                  forbid_extra : bool }.

Fixpoint pty_eqb (a b : pty) {struct a} : bool :=
  let fix leq (x y : list pty) := match x, y with [], [] => true | p :: ps, q :: qs => pty_eqb p q && leq ps qs | _, _ => false end in
  match a, b with
  | PyAny, PyAny | PyNone, PyNone | PyInt, PyInt | PyStr, PyStr | PyBool, PyBool | PyFloat, PyFloat => true
  | PyUnion l, PyUnion m => leq l m | PySeq t, PySeq u => pty_eqb t u
  | PyDict k v, PyDict k' v' => pty_eqb k k' && pty_eqb v v' | PyTuple l, PyTuple m => leq l m
  | PyLit l, PyLit m => lstr_eqb l m
  | PyEnum n, PyEnum m | PyCls n, PyCls m | PyOpaque n, PyOpaque m | PyFwd n, PyFwd m => String.eqb n m
  | _, _ => false end.

(* s is a substring of t  ('s' in 't' on Python strings) *)
Fixpoint prefixb (s t : string) : bool :=
  match s, t with EmptyString, _ => true | String a s', String b t' => Ascii.eqb a b && prefixb s' t' | _, _ => false end.
Fixpoint substrb (s t : string) : bool :=
  prefixb s t || match t with EmptyString => false | String _ t' => substrb s t' end.
Fixpoint chars (s : string) : list json :=
  match s with EmptyString => [] | String a s' => JStr (String a EmptyString) :: chars s' end.
(* iter(x) for a JSON-like Python value *)
Definition iter_json (j : json) : option (list json) :=
  match j with JArr l => Some l | JObj m => Some (map (fun kv => JStr (fst kv)) m) | JStr s => Some (chars s) | _ => None end.
(* 'k' in x *)
Definition py_in (k : string) (j : json) : res bool :=
  match j with
  | JObj m => Ok (mem k (keys m))
  | JArr l => Ok (existsb (fun x => match x with JStr s => String.eqb s k | _ => false end) l)
  | JStr s => Ok (substrb k s)
  | _ => Err "TypeError: argument is not iterable" end.

Section Sx.
Variable Sg : sigma.
Variable py_str : json -> string.     (* str(x) of a non-string; never used on spec-valid input *)

Definition lookup_cls n := assoc n (classes Sg).
Definition lookup_enum n := find (fun e => String.eqb (ename e) n) (enums Sg).
Definition lookup_uhook t := option_map snd (find (fun c => pty_eqb (fst c) t) (uhooks Sg)).

Fixpoint heval (e : hexpr) (o : json) (it : option json) : res json :=
  match e with
  | HObj => Ok o
  | HItem => match it with Some i => Ok i | None => Err "NameError: item" end
  | HIdx e n => do v <- heval e o it;
      match v with
      | JArr l => match nth_error l n with Some x => Ok x | None => Err "IndexError" end
      | JStr s => match nth_error (chars s) n with Some x => Ok x | None => Err "IndexError" end
      | JObj _ => Err "KeyError" | _ => Err "TypeError: not subscriptable" end
  | HKey e k => do v <- heval e o it;
      match v with
      | JObj m => match assoc k m with Some x => Ok x | None => Err "KeyError" end
      | _ => Err "TypeError: indices" end
  end.
Definition is_prim (j : json) := match j with JBool _ | JInt _ | JFlt _ _ | JStr _ => true | _ => false end.
Fixpoint ceval (c : hcond) (o : json) (it : option json) : res bool :=
  match c with
  | CIsNone e => do v <- heval e o it; Ok (match v with JNull => true | _ => false end)
  | CIsPrim e => do v <- heval e o it; Ok (is_prim v)
  | CIsStr e => do v <- heval e o it; Ok (match v with JStr _ => true | _ => false end)
  | CIsList e => do v <- heval e o it; Ok (match v with JArr _ => true | _ => false end)
  | CHasKey k e => do v <- heval e o it; py_in k v
  | CEqStr e s => do v <- heval e o it; Ok (match v with JStr s' => String.eqb s s' | _ => false end)
  | CLenEq0 e => do v <- heval e o it;
      match v with
      | JArr l => Ok (is_nil_b l) | JObj m => Ok (is_nil_b m) | JStr s => Ok (String.eqb s "")
      | _ => Err "TypeError: len" end
  | CNot c => do b <- ceval c o it; Ok (negb b)
  | COr a b => do x <- ceval a o it; if x then Ok true else ceval b o it
  | CAnd a b => do x <- ceval a o it; if x then ceval b o it else Ok false
  | CAnyItem e c => do v <- heval e o it;
      match iter_json v with
      | Some l => (fix any (l : list json) : res bool :=
                     match l with [] => Ok false | x :: r => do b <- ceval c o (Some x); if b then Ok true else any r end) l
      | None => Err "TypeError: not iterable" end
  end.

Definition in_range_i (z : Z) : bool := ((-2147483648 <=? z) && (z <=? 2147483647))%Z.
Definition in_range_u (z : Z) : bool := ((0 <=? z) && (z <=? 2147483647))%Z.
Definition validate1 (k : vkind) (v : pv) : bool :=
  match k with
  | VNoVal => true
  | VInteger => match v with VInt z => in_range_i z | VBool _ => true | VEnum _ (VInt z) => in_range_i z | _ => false end
  | VUInteger => match v with VInt z => in_range_u z | VBool _ => true | VEnum _ (VInt z) => in_range_u z | _ => false end
  | VIsStr => match v with VStr _ | VEnum _ (VStr _) => true | _ => false end
  | VIsBool => match v with VBool _ => true | _ => false end
  | VIsFloat => match v with VFlt _ _ => true | _ => false end
  | VIn l => match v with VStr s | VEnum _ (VStr s) => mem s l | _ => false end end.
Definition validate (k : vkind) (opt : bool) (v : pv) : bool :=
  match v, opt with VNone, true => true | _, _ => validate1 k v end.

Definition py_int (j : json) : res pv :=
  match j with
  | JInt z => Ok (VInt z) | JBool b => Ok (VInt (if b then 1 else 0)) | JFlt n d => Ok (VInt (Z.quot n d))
  | JStr _ => Err "ValueError: int(str) (numeric strings are outside the model)" | _ => Err "TypeError: int()" end.
Definition py_float (j : json) : res pv :=
  match j with
  | JFlt a b => Ok (VFlt a b) | JInt z => Ok (VFlt z 1) | JBool b => Ok (VFlt (if b then 1 else 0) 1)
  | JStr _ => Err "ValueError: float(str) (numeric strings are outside the model)" | _ => Err "TypeError: float()" end.
Definition truthy (j : json) : bool :=
  match j with
  | JNull => false | JBool b => b | JInt z => negb (z =? 0)%Z | JFlt n _ => negb (n =? 0)%Z
  | JStr s => negb (String.eqb s "") | JArr l => negb (is_nil_b l) | JObj m => negb (is_nil_b m) end.
Definition py_str_of (j : json) : string := match j with JStr s => s | _ => py_str j end.
(* == between an incoming primitive and an enum member's value (1 == 1.0 == True) *)
Definition num_of (v : pv) : option (Z * Z) :=
  match v with VInt z => Some (z, 1%Z) | VBool b => Some ((if b then 1 else 0)%Z, 1%Z) | VFlt n d => Some (n, d) | _ => None end.
Definition pv_eqb_prim (a b : pv) : bool :=
  match a, b with
  | VStr x, VStr y => String.eqb x y
  | _, _ => match num_of a, num_of b with Some (n, d), Some (n', d') => (n * d' =? n' * d)%Z | _, _ => false end end.
Definition is_none (t : pty) := match t with PyNone => true | _ => false end.

Section Hook.
Variable rec : pty -> json -> res pv.
Fixpoint reval (r : hret) (o : json) (it : option json) {struct r} : res pv :=
  match r with
  | RNone => Ok VNone
  | RSelf e => do v <- heval e o it; Ok (embed v)
  | REmpty => Ok (VList [])
  | RStruct e t => do v <- heval e o it; rec t v
  | RStr e => do v <- heval e o it; Ok (VStr (py_str_of v))
  | RIntOf e => do v <- heval e o it; py_int v
  | RMap e body => do v <- heval e o it;
      match iter_json v with
      | Some l => do l' <- mapM (fun x => reval body o (Some x)) l; Ok (VList l')
      | None => Err "TypeError: not iterable" end
  | RIf c a b => do x <- ceval c o it; if x then reval a o it else reval b o it
  | RTuple l => do l' <- (fix go (l : list hret) := match l with [] => Ok [] | x :: xs => do y <- reval x o it; do ys <- go xs; Ok (y :: ys) end) l;
                Ok (VTuple l')
  end.
Fixpoint hrun (h : hook) (o : json) : res pv :=
  match h with
  | TIf c a b => do x <- ceval c o None; if x then hrun a o else hrun b o
  | TRet r => reval r o None
  | TRaise => Err "raise in hook" end.
End Hook.

(* one attrs field inside make_dict_structure_fn *)
Definition sfield (rec : pty -> json -> res pv) (o : json) (f : fld) : res (string * pv) :=
  match fdefault f with
  | NoDefault =>                                           (* res['x'] = structure(o['wire']) *)
      match o with
      | JObj m => match assoc (fwire f) m with
                  | Some v => do x <- rec (ftype f) v; Ok (fname f, x)
                  | None => Err "KeyError: required property missing" end
      | _ => Err "TypeError/KeyError: o['wire'] on a non-mapping" end
  | d =>                                                   (* if 'wire' in o: res['x'] = structure(o['wire']) *)
      do present <- py_in (fwire f) o;
      if present then
        match o with
        | JObj m => match assoc (fwire f) m with
                    | Some v => do x <- rec (ftype f) v; Ok (fname f, x)
                    | None => Err "unreachable" end
        | _ => Err "TypeError: o['wire'] on a list/str" end
      else Ok (fname f, match d with DefaultStr s => VStr s | _ => VNone end)
  end.

Definition step (rec : pty -> json -> res pv) (t : pty) (j : json) : res pv :=
  match t with
  | PyAny | PyNone | PyOpaque _ => Ok (embed j)
  | PyInt => py_int j
  | PyBool => Ok (VBool (truthy j))
  | PyStr => Ok (VStr (py_str_of j))
  | PyFloat => py_float j
  | PyLit l => match j with JStr s => if mem s l then Ok (VStr s) else Err "not a literal value" | _ => Err "not a literal value" end
  | PyEnum e => match lookup_enum e with None => Err "no such enum" | Some d =>
                  match find (pv_eqb_prim (embed j)) (evals d) with
                  | Some m => Ok (VEnum e m) | None => Err "ValueError: not a valid member" end end
  | PySeq t' => match iter_json j with
                | Some l => do l' <- mapM (rec t') l; Ok (VList l')
                | None => Err "TypeError: not iterable" end
  | PyTuple ts => match iter_json j with
                  | Some l => if Nat.eqb (length l) (length ts)
                              then do l' <- mapM (fun p => rec (fst p) (snd p)) (combine ts l); Ok (VTuple l')
                              else Err "tuple arity"
                  | None => Err "TypeError: not iterable" end
  | PyDict k v => match j with
                  | JObj m => do m' <- mapM (fun kv => do k' <- rec k (JStr (fst kv)); do v' <- rec v (snd kv); Ok (k', v')) m; Ok (VDict m')
                  | _ => Err "AttributeError: items" end
  | PyCls c =>
      match lookup_cls c with None => Err "no such class" | Some fs =>
        do kw <- mapM (sfield rec j) fs;
        if forbid_extra Sg && match j with JObj m => negb (subset (keys m) (map fwire fs)) | _ => false end
        then Err "ForbiddenExtraKeysError"
        else if forallb (fun p => validate (fval (fst p)) (fvalopt (fst p)) (snd (snd p))) (combine fs kw)
             then Ok (VObj c kw) else Err "validator" end
  | PyUnion ms =>
      match lookup_uhook t with
      | Some h => hrun rec h j
      | None =>
        match filter (fun x => negb (is_none x)) ms with
        | [x] => if Nat.eqb (length ms) 2 then match j with JNull => Ok VNone | _ => rec x j end else Err "unsupported union"
        | _ => Err "StructureHandlerNotFoundError: unsupported union" end end
  | PyFwd _ => Err "StructureHandlerNotFoundError: unresolved forward reference"
  end.
Fixpoint structure (n : nat) : pty -> json -> res pv :=
  match n with O => fun _ _ => Fuel | S n => step (structure n) end.

(* ---- unstructuring ---- *)
Definition pv_is_default (d : dflt) (v : pv) : bool :=
  match d, v with
  | DefaultNone, VNone => true
  | DefaultStr s, VStr s' | DefaultStr s, VEnum _ (VStr s') => String.eqb s s'
  | _, _ => false end.
Definition key_of (v : pv) : res string :=
  match v with VStr s | VEnum _ (VStr s) => Ok s | _ => Err "non-string key" end.

Definition ufield (rec : option pty -> pv -> res json) (fs : list (string * pv)) (f : fld) : res (option (string * json)) :=
  match assoc (fname f) fs with
  | None => Err "AttributeError"
  | Some x => if fomit f && pv_is_default (fdefault f) x then Ok None
              else do y <- rec (Some (ftype f)) x; Ok (Some (fwireo f, y)) end.

(* [ustep rec ot v]: ot = Some t when cattrs picked the handler statically from the annotation t,
   None when it dispatches on the run-time class of v. *)
Definition ustep (rec : option pty -> pv -> res json) (ot : option pty) (v : pv) : res json :=
  let dyn := rec None in
  let by_class (v : pv) : res json :=
    match v with
    | VNone => Ok JNull | VBool b => Ok (JBool b) | VInt z => Ok (JInt z) | VFlt a b => Ok (JFlt a b) | VStr s => Ok (JStr s)
    | VList l | VTuple l => do l' <- mapM dyn l; Ok (JArr l')
    | VDict m => do m' <- mapM (fun kv => do k <- key_of (fst kv); do x <- dyn (snd kv); Ok (k, x)) m; Ok (JObj m')
    | VEnum _ x => dyn x
    | VObj c _ => rec (Some (PyCls c)) v
    end in
  match ot with
  | Some (PyEnum _) => match v with VEnum _ x => dyn x | _ => Err "AttributeError: .value" end
  | Some (PyCls c) =>
      match v with
      | VObj _ fs => match lookup_cls c with None => Err "no such class" | Some fds =>
                       do kvs <- mapM (ufield rec fs) fds; Ok (JObj (somes kvs)) end
      | _ => Err "AttributeError" end
  | Some (PySeq t) => match v with
                      | VList l | VTuple l => do l' <- mapM (rec (Some t)) l; Ok (JArr l')
                      | _ => Err "not iterable" end
  | Some (PyTuple ts) => match v with
                         | VList l | VTuple l => do l' <- mapM (fun p => rec (Some (fst p)) (snd p)) (combine ts l); Ok (JArr l')
                         | _ => Err "tuple" end
  | Some (PyDict k t) => match v with
                         | VDict m => do m' <- mapM (fun kv => do k <- key_of (fst kv); do x <- rec (Some t) (snd kv); Ok (k, x)) m; Ok (JObj m')
                         | _ => Err "AttributeError: items" end
  | Some (PyUnion [a; b]) =>
      if is_none a then (match v with VNone => Ok JNull | _ => rec (Some b) v end)
      else if is_none b then (match v with VNone => Ok JNull | _ => rec (Some a) v end)
      else by_class v
  | _ => by_class v
  end.
Fixpoint unstr (n : nat) : option pty -> pv -> res json :=
  match n with O => fun _ _ => Fuel | S n => ustep (unstr n) end.
End Sx.
