(* Loader.v — executable model of generator/model.py (attrs classes with converters and validators, hand-written __eq__,
   create_lsp_model) and of the effect order of generator/__main__.py:main (property C18).

   The class tables (field lists, converters, validators, __eq__ bodies, the kind -> class dispatch functions, the list
   fields merged by create_lsp_model) are DATA, regenerated from the source by lib/x_modelpy.py on every run; this file is
   the hand-written semantics of that data (attrs __init__: unexpected / missing keyword, converters in field order also
   on defaults, then validators; Python == on the loaded tree) plus the generic theorems about it.
   Everything is structurally recursive: no fuel. *)
From LSP Require Import Base JSchema.
From Coq Require Import Lia.

(* Python values a loaded model is made of *)
Inductive lv :=
| LNone | LBool (b : bool) | LInt (z : Z) | LFlt (n d : Z) | LStr (s : string)
| LList (l : list lv) | LDict (m : list (string * lv))
| LObj (cls : string) (fs : list (string * lv))
| LUuid.                                  (* str(uuid.uuid4()): a fresh random string *)

Fixpoint embed (j : json) : lv :=
  match j with
  | JNull => LNone | JBool b => LBool b | JInt z => LInt z | JFlt n d => LFlt n d | JStr s => LStr s
  | JArr l => LList (map embed l)
  | JObj m => LDict ((fix go (m : list (string * json)) := match m with [] => [] | (k, v) :: r => (k, embed v) :: go r end) m)
  end.

(* ------------------------------------------------------------------------------------------------------------ *)
(* the translated program *)
Inductive callee := CClass (c : string) | CFun (f : string).
Inductive conv :=
| KId                         (* no converter *)
| KPartial (c : callee)       (* partial_apply(c):   c( **x ) if isinstance(x, dict) else x *)
| KList (c : callee)          (* list_converter(c):  list(map(apply, x)) *)
| KCall (c : callee)          (* lambda x: C( **x ) *)
| KDirect (f : string)        (* converter=f where f(x) reads x[key] and calls a class with **x *)
| KUuid.                      (* lambda x: str(uuid.uuid4()) *)
Inductive ptype := TyStr | TyBool | TyInt | TyList | TyCls (c : string).
(* def v(instance, attribute, value): t = A if instance.<sel>.<sel_attr> == <const> else B
                                        for e in value: if not isinstance(e.<iter_attr>, t): raise *)
Record xvalid := { xv_sel : string; xv_sel_attr : string; xv_const : string; xv_iter_attr : string; xv_then : ptype; xv_else : ptype }.
Inductive vld :=
| VNone | VNoop                                   (* no validator / a function that cannot raise (its result is ignored by attrs) *)
| VInst (ts : list ptype) | VOptInst (ts : list ptype) | VIn (l : list string) | VCross (x : xvalid).
Inductive dflt := DNone | DEmptyList.
Record field := { f_name : string; f_conv : conv; f_default : option dflt; f_vld : vld }.
Inductive eqform := EConj | ETuple.
(* def __eq__(self, other): if isinstance(other, G): return self.a1 == other.a1 and ... ; return False *)
Record eqm := { e_guard : string; e_form : eqform; e_attrs : list string }.
Record cls := { c_name : string; c_fields : list field; c_eq : option eqm }.
(* def f(...): c = {k1: C1, ...}.get(x[key]) / if x[key] == k1: return C1( **x ) ...; default class or raise *)
Record dispatch := { d_key : string; d_cases : list (string * string); d_default : option string }.
Record tables := { t_classes : list cls; t_funs : list (string * dispatch); t_root : string; t_merge : list string }.

Definition inst1 (t : ptype) (v : lv) : bool :=
  match t, v with
  | TyStr, LStr _ | TyStr, LUuid | TyBool, LBool _ | TyInt, LInt _ | TyInt, LBool _ | TyList, LList _ => true
  | TyCls c, LObj c' _ => String.eqb c c'
  | _, _ => false end.
Definition inst (ts : list ptype) (v : lv) : bool := existsb (fun t => inst1 t v) ts.
Definition getattr (v : lv) (a : string) : res lv :=
  match v with
  | LObj _ fs => match assoc a fs with Some x => Ok x | None => Err "AttributeError" end
  | _ => Err "AttributeError" end.

Section L.
Variable T : tables.

Definition find_cls (c : string) : option cls := find (fun x => String.eqb (c_name x) c) (t_classes T).
Definition find_field (C : cls) (k : string) : option field := find (fun f => String.eqb (f_name f) k) (c_fields C).

Definition dispatch_cls (d : dispatch) (kw : list (string * lv)) : res string :=
  match assoc (d_key d) kw with
  | None => Err "KeyError"
  | Some k =>
      let dfl := match d_default d with Some c => Ok c | None => Err "ValueError:unknown-kind" end in
      match k with LStr ks => match assoc ks (d_cases d) with Some c => Ok c | None => dfl end | _ => dfl end
  end.

(* ce( **v ) for a dict v *)
Definition call (B : string -> lv -> res lv) (ce : callee) (v : lv) : res lv :=
  match ce with
  | CClass c => B c v
  | CFun f => match assoc f (t_funs T) with
              | None => Err "NameError"
              | Some d => match v with LDict kw => do c <- dispatch_cls d kw; B c v | _ => Err "TypeError" end end
  end.

Definition one_char (c : ascii) : lv := LStr (String c EmptyString).

Definition convert (B : string -> lv -> res lv) (k : conv) (v : lv) : res lv :=
  match k with
  | KId => Ok v
  | KUuid => Ok LUuid
  | KPartial ce => match v with LDict _ => call B ce v | _ => Ok v end
  | KCall ce => match v with LDict _ => call B ce v | _ => Err "TypeError" end
  | KDirect f => match v with LDict _ => call B (CFun f) v | _ => Err "TypeError" end
  | KList ce =>
      match v with
      | LList l =>
          do l' <- (fix go (l : list lv) : res (list lv) :=
                      match l with
                      | [] => Ok []
                      | e :: r => do e' <- (match e with LDict _ => call B ce e | _ => Ok e end);
                                  do r' <- go r; Ok (e' :: r') end) l;
          Ok (LList l')
      | LStr s => Ok (LList (map one_char (list_ascii_of_string s)))
      | LDict m => Ok (LList (map LStr (keys m)))
      | _ => Err "TypeError:not-iterable" end
  end.

Definition conv_default (k : conv) (d : dflt) : res lv :=
  convert (fun _ _ => Err "internal") k (match d with DNone => LNone | DEmptyList => LList [] end).

Definition run_vld (fs : list (string * lv)) (f : field) : res unit :=
  match assoc (f_name f) fs with
  | None => Err "internal"
  | Some v =>
      match f_vld f with
      | VNone | VNoop => Ok tt
      | VInst ts => if inst ts v then Ok tt else Err "TypeError:instance_of"
      | VOptInst ts => match v with LNone => Ok tt | _ => if inst ts v then Ok tt else Err "TypeError:instance_of" end
      | VIn l => match v with LStr s => if mem s l then Ok tt else Err "ValueError:in_" | _ => Err "ValueError:in_" end
      | VCross x =>
          match assoc (xv_sel x) fs with
          | None => Err "AttributeError"
          | Some sel =>
              do nm <- getattr sel (xv_sel_attr x);
              let t := if (match nm with LStr s => String.eqb s (xv_const x) | _ => false end) then xv_then x else xv_else x in
              match v with
              | LList l => (fix go (l : list lv) : res unit :=
                              match l with
                              | [] => Ok tt
                              | e :: r => do ev <- getattr e (xv_iter_attr x);
                                          if inst1 t ev then go r else Err "ValueError:cross-validator" end) l
              | _ => Err "TypeError:not-iterable" end
          end
      end
  end.

(* the generated __init__ once every keyword has been converted: defaults (converted too), field order, validators *)
Definition fill (got : list (string * lv)) (f : field) : res (string * lv) :=
  match assoc (f_name f) got with
  | Some v => Ok (f_name f, v)
  | None => match f_default f with
            | None => Err "TypeError:missing-argument"
            | Some d => do v <- conv_default (f_conv f) d; Ok (f_name f, v) end
  end.
Definition finish (C : cls) (got : list (string * lv)) : res lv :=
  do fs <- mapM (fill got) (c_fields C);
  do _ <- mapM (run_vld fs) (c_fields C);
  Ok (LObj (c_name C) fs).

(* c( **x ) *)
Fixpoint bld (c : string) (x : lv) {struct x} : res lv :=
  match x with
  | LDict kw =>
      match find_cls c with
      | None => Err "NameError"
      | Some C =>
          do got <- (fix go (kw : list (string * lv)) : res (list (string * lv)) :=
                       match kw with
                       | [] => Ok []
                       | (k, v) :: r =>
                           match find_field C k with
                           | None => Err "TypeError:unexpected-keyword"
                           | Some f => do v' <- convert bld (f_conv f) v; do r' <- go r; Ok ((k, v') :: r') end
                       end) kw;
          finish C got
      end
  | _ => Err "TypeError:not-a-mapping" end.

Definition load (d : json) : res lv := bld (t_root T) (embed d).

(* ------------------------------------------------------------------------------------------------------------ *)
(* reading a model back *)
Fixpoint rb (v : lv) : json :=
  match v with
  | LNone => JNull | LBool b => JBool b | LInt z => JInt z | LFlt n d => JFlt n d | LStr s => JStr s
  | LList l => JArr (map rb l)
  | LDict m => JObj ((fix go (m : list (string * lv)) := match m with [] => [] | (k, x) :: r => (k, rb x) :: go r end) m)
  | LObj _ fs => JObj ((fix go (m : list (string * lv)) :=
                          match m with [] => []
                          | (k, x) :: r => match x with LUuid => go r | _ => (k, rb x) :: go r end end) fs)
  | LUuid => JStr "$uuid" end.

(* object-graph dump (class-tagged), for the correspondence with the real loader *)
Fixpoint dump (v : lv) : json :=
  match v with
  | LNone => JNull | LBool b => JBool b | LInt z => JInt z | LFlt n d => JFlt n d | LStr s => JStr s
  | LList l => JArr (map dump l)
  | LDict m => JObj [("$d", JObj ((fix go (m : list (string * lv)) := match m with [] => [] | (k, x) :: r => (k, dump x) :: go r end) m))]
  | LObj c fs => JObj [("$c", JStr c);
                       ("f", JObj ((fix go (m : list (string * lv)) := match m with [] => [] | (k, x) :: r => (k, dump x) :: go r end) fs))]
  | LUuid => JStr "$uuid" end.

(* ------------------------------------------------------------------------------------------------------------ *)
(* Python == on loaded values *)
Definition num_of (v : lv) : option (Z * Z) :=
  match v with LBool b => Some ((if b then 1 else 0)%Z, 1%Z) | LInt z => Some (z, 1%Z) | LFlt n d => Some (n, d) | _ => None end.
Definition str_eqb := String.eqb.     (* equality of string VALUES, kept apart from name lookup *)

Definition conj_of (attrs : list string) (rs : list (string * res bool)) : res bool :=
  (fix go (l : list string) : res bool :=
     match l with
     | [] => Ok true
     | a :: r => match assoc a rs with
                 | None => Err "AttributeError"
                 | Some x => do t <- x; if t then go r else Ok false end
     end) attrs.
(* tuple form: every attribute of both operands is fetched before anything is compared *)
Definition all_present (attrs : list string) (rs : list (string * res bool)) (fb : list (string * lv)) : bool :=
  forallb (fun a => match assoc a rs, assoc a fb with Some _, Some _ => true | _, _ => false end) attrs.

Fixpoint py_eq (a b : lv) {struct a} : res bool :=
  match a with
  | LObj ca fa =>
      match find_cls ca with
      | None => Err "NameError"
      | Some C =>
          match c_eq C with
          | None => Err "unmodelled:attrs-generated-eq"
          | Some e =>
              match b with
              | LObj cb fb =>
                  if String.eqb cb (e_guard e) then
                    let rs := (fix go (fa : list (string * lv)) : list (string * res bool) :=
                                 match fa with
                                 | [] => []
                                 | (k, va) :: r => (k, match assoc k fb with Some vb => py_eq va vb | None => Err "AttributeError" end) :: go r
                                 end) fa in
                    match e_form e with
                    | EConj => conj_of (e_attrs e) rs
                    | ETuple => if all_present (e_attrs e) rs fb then conj_of (e_attrs e) rs else Err "AttributeError" end
                  else Ok false
              | _ => Ok false end
          end
      end
  | LList la =>
      match b with
      | LList lb =>
          if Nat.eqb (length la) (length lb) then
            (fix go (la lb : list lv) : res bool :=
               match la, lb with
               | x :: r, y :: s => do t <- py_eq x y; if t then go r s else Ok false
               | _, _ => Ok true end) la lb
          else Ok false
      | LObj cb _ => match find_cls cb with Some C => match c_eq C with Some _ => Ok false | None => Err "unmodelled:attrs-generated-eq" end | None => Err "NameError" end
      | _ => Ok false end
  | LDict ma =>
      match b with
      | LDict mb =>
          if Nat.eqb (length ma) (length mb) then
            (fix go (ma : list (string * lv)) : res bool :=
               match ma with
               | [] => Ok true
               | (k, x) :: r => match assoc k mb with
                                | None => Ok false
                                | Some y => do t <- py_eq x y; if t then go r else Ok false end
               end) ma
          else Ok false
      | LObj cb _ => match find_cls cb with Some C => match c_eq C with Some _ => Ok false | None => Err "unmodelled:attrs-generated-eq" end | None => Err "NameError" end
      | _ => Ok false end
  | LUuid => match b with
             | LObj cb _ => match find_cls cb with Some C => match c_eq C with Some _ => Ok false | None => Err "unmodelled:attrs-generated-eq" end | None => Err "NameError" end
             | _ => Ok false end
  | _ =>
      match b with
      | LObj cb _ => match find_cls cb with Some C => match c_eq C with Some _ => Ok false | None => Err "unmodelled:attrs-generated-eq" end | None => Err "NameError" end
      | _ =>
          match a, b with
          | LNone, LNone => Ok true
          | LStr x, LStr y => Ok (str_eqb x y)
          | _, _ => match num_of a, num_of b with
                    | Some (n, d), Some (n', d') => Ok (n * d' =? n' * d)%Z
                    | _, _ => Ok false end
          end
      end
  end.

(* ------------------------------------------------------------------------------------------------------------ *)
(* create_lsp_model: first model, then `spec.<f>.extend(addition.<f>)` for the translated list of fields *)
Definition set_field (fs : list (string * lv)) (k : string) (v : lv) : list (string * lv) :=
  map (fun kv => if String.eqb (fst kv) k then (k, v) else kv) fs.
Definition extend1 (s a : lv) (f : string) : res lv :=
  match s, a with
  | LObj c fs, LObj _ fa =>
      match assoc f fs, assoc f fa with
      | Some (LList l), Some (LList l2) => Ok (LObj c (set_field fs f (LList (l ++ l2))))
      | _, _ => Err "AttributeError" end
  | _, _ => Err "AttributeError" end.
Definition extend_all (s a : lv) : res lv := fold_left (fun acc f => do s' <- acc; extend1 s' a f) (t_merge T) (Ok s).
Definition create (docs : list lv) : res lv :=
  match docs with
  | [] => Err "UnboundLocalError"
  | d0 :: r => do m0 <- bld (t_root T) d0;
               fold_left (fun acc d => do s <- acc; do a <- bld (t_root T) d; extend_all s a) r (Ok m0)
  end.

(* ------------------------------------------------------------------------------------------------------------ *)
(* main: the translated order of effects *)
Inductive eff := EValidate | ECreate | EPlugin.
Inductive status := SOk | SError.

Section Main.
Variable gate_accepts : json -> bool.                               (* jsonschema.validate(doc, <what main passes>) does not raise *)
Variable plugin : lv -> list string -> status * list string.        (* may write files (second component) and may fail *)

Fixpoint run_main (effs : list eff) (docs : list json) (m : option lv) (fs : list string) : status * list string :=
  match effs with
  | [] => (SOk, fs)
  | EValidate :: r => if forallb gate_accepts docs then run_main r docs m fs else (SError, fs)
  | ECreate :: r => match create (map embed docs) with Ok x => run_main r docs (Some x) fs | _ => (SError, fs) end
  | EPlugin :: r => match m with
                    | None => (SError, fs)
                    | Some x => match plugin x fs with
                                | (SOk, fs') => run_main r docs m fs'
                                | (SError, fs') => (SError, fs') end
                    end
  end.
Definition main (effs : list eff) (docs : list json) (fs : list string) := run_main effs docs None fs.
End Main.

End L.


(* ------------------------------------------------------------------------------------------------------------ *)
(* executable helpers of the correspondence streams (model side) *)

(* type-strict structural equality of JSON (1 and 1.0 differ), objects compared as written *)
Fixpoint jeqs (a b : json) {struct a} : bool :=
  let fix leq x y := match x, y with [], [] => true | p :: ps, r :: rs => jeqs p r && leq ps rs | _, _ => false end in
  let fix meq x y := match x, y with [], [] => true | (k, p) :: ps, (k', r) :: rs => String.eqb k k' && jeqs p r && meq ps rs | _, _ => false end in
  match a, b with
  | JNull, JNull => true | JBool x, JBool y => Bool.eqb x y | JInt x, JInt y => (x =? y)%Z
  | JFlt n d, JFlt n' d' => (n =? n')%Z && (d =? d')%Z
  | JStr x, JStr y => String.eqb x y | JArr x, JArr y => leq x y | JObj x, JObj y => meq x y
  | _, _ => false end.

(* what read-back identifies: a key whose value is null is absent; an empty extends / mixins list is absent *)
Definition invisible (k : string) (v : json) : bool :=
  match v with
  | JNull => true
  | JArr [] => String.eqb k "extends" || String.eqb k "mixins"
  | _ => false end.
Fixpoint nf (j : json) : json :=
  match j with
  | JArr l => JArr (map nf l)
  | JObj m => JObj ((fix go (m : list (string * json)) :=
                       match m with [] => []
                       | (k, v) :: r => if invisible k v then go r else (k, nf v) :: go r end) m)
  | _ => j end.
Definition jsim_b (a b : json) : bool := jeqs (canon (nf a)) (canon (nf b)).

Inductive lexpect := XRaise | XDump (d : json).
Inductive lcase :=
| CLoad (d : json) (e : lexpect)                 (* LSPModel( **d ) *)
| CCreate (ds : list json) (e : lexpect)         (* create_lsp_model(ds) *)
| CEq (a b : json) (r : nat)                     (* LSPModel( **a ) == LSPModel( **b ): 1 True, 0 False, 2 raises, 3 a load failed *)
| CJsv (s : schema) (d : json) (r : bool)        (* jsonschema.validate(d, <root>) accepted *)
| CMain (root : schema) (effs : list eff) (ds : list json) (reach : bool).   (* python -m generator --model ds: the plugin was reached *)

(* 0 agree; 1 ok/raise differs; 2 object graph differs; 3 read-back of the model's own result is not ~ the document;
   4 equality verdict differs; 5 schema verdict differs; 6 main reaches the plugin / does not *)
Definition probe_plugin (m : lv) (fs : list string) : status * list string := (SOk, "plugin-output" :: fs).
Definition judge (T : tables) (defs : list (string * schema)) (c : lcase) : nat :=
  match c with
  | CLoad d e =>
      match load T d, e with
      | Ok m, XDump x => if negb (jeqs (canon (dump m)) (canon x)) then 2 else if jsim_b (rb m) d then 0 else 3
      | Ok _, XRaise => 1 | _, XDump _ => 1 | _, XRaise => 0 end
  | CCreate ds e =>
      match create T (map embed ds), e with
      | Ok m, XDump x => if jeqs (canon (dump m)) (canon x) then 0 else 2
      | Ok _, XRaise => 1 | _, XDump _ => 1 | _, XRaise => 0 end
  | CEq a b r =>
      match load T a, load T b with
      | Ok x, Ok y => match py_eq T x y with
                      | Ok true => if Nat.eqb r 1 then 0 else 4
                      | Ok false => if Nat.eqb r 0 then 0 else 4
                      | _ => if Nat.eqb r 2 then 0 else 4 end
      | _, _ => if Nat.eqb r 3 then 0 else 1 end
  | CJsv s d r => if Bool.eqb (jsv defs (fuel_for defs d) s d) r then 0 else 5
  | CMain root effs ds reach =>
      let r := main T (fun d => jsv defs (fuel_for defs d) root d) probe_plugin effs ds [] in
      if Bool.eqb (negb (is_nil_b (snd r))) reach then 0 else 6
  end.
Definition bad_cases (T : tables) (defs : list (string * schema)) (off : nat) (cs : list lcase) : list (nat * nat) :=
  filter (fun p => negb (Nat.eqb (snd p) 0)) (combine (seq off (length cs)) (map (judge T defs) cs)).

(* ============================================================================================================ *)
(* THEORY *)

(* ---------- induction principles ---------- *)
Section JsonInd.
Variable P : json -> Prop.
Hypothesis Hn : P JNull.
Hypothesis Hb : forall b, P (JBool b).
Hypothesis Hi : forall z, P (JInt z).
Hypothesis Hf : forall n d, P (JFlt n d).
Hypothesis Hs : forall s, P (JStr s).
Hypothesis Ha : forall l, Forall P l -> P (JArr l).
Hypothesis Ho : forall m, Forall (fun kv => P (snd kv)) m -> P (JObj m).
Fixpoint json_ind' (j : json) : P j :=
  match j with
  | JNull => Hn | JBool b => Hb b | JInt z => Hi z | JFlt n d => Hf n d | JStr s => Hs s
  | JArr l => Ha l ((fix go (l : list json) : Forall P l := match l with [] => Forall_nil _ | x :: r => Forall_cons _ (json_ind' x) (go r) end) l)
  | JObj m => Ho m ((fix go (m : list (string * json)) : Forall (fun kv => P (snd kv)) m :=
                       match m with [] => Forall_nil _ | kv :: r => Forall_cons kv (json_ind' (snd kv)) (go r) end) m)
  end.
End JsonInd.

Section LvInd.
Variable P : lv -> Prop.
Hypothesis H0 : P LNone.
Hypothesis H1 : forall b, P (LBool b).
Hypothesis H2 : forall z, P (LInt z).
Hypothesis H3 : forall n d, P (LFlt n d).
Hypothesis H4 : forall s, P (LStr s).
Hypothesis H5 : forall l, Forall P l -> P (LList l).
Hypothesis H6 : forall m, Forall (fun kv => P (snd kv)) m -> P (LDict m).
Hypothesis H7 : forall c fs, Forall (fun kv => P (snd kv)) fs -> P (LObj c fs).
Hypothesis H8 : P LUuid.
Fixpoint lv_ind' (v : lv) : P v :=
  match v with
  | LNone => H0 | LBool b => H1 b | LInt z => H2 z | LFlt n d => H3 n d | LStr s => H4 s
  | LList l => H5 l ((fix go (l : list lv) : Forall P l := match l with [] => Forall_nil _ | x :: r => Forall_cons _ (lv_ind' x) (go r) end) l)
  | LDict m => H6 m ((fix go (m : list (string * lv)) : Forall (fun kv => P (snd kv)) m :=
                        match m with [] => Forall_nil _ | kv :: r => Forall_cons kv (lv_ind' (snd kv)) (go r) end) m)
  | LObj c fs => H7 c fs ((fix go (m : list (string * lv)) : Forall (fun kv => P (snd kv)) m :=
                        match m with [] => Forall_nil _ | kv :: r => Forall_cons kv (lv_ind' (snd kv)) (go r) end) fs)
  | LUuid => H8 end.
End LvInd.

(* ---------- unfolding lemmas for the nested fixes ---------- *)
Definition embed_kw (m : list (string * json)) : list (string * lv) := map (fun kv => (fst kv, embed (snd kv))) m.
Lemma embed_obj m : embed (JObj m) = LDict (embed_kw m).
Proof. cbn. f_equal. induction m as [|[k v] r IH]; cbn; [reflexivity|]. f_equal. exact IH. Qed.
Lemma embed_arr l : embed (JArr l) = LList (map embed l).
Proof. reflexivity. Qed.

Definition rb_kw (m : list (string * lv)) : list (string * json) := map (fun kv => (fst kv, rb (snd kv))) m.
Definition rb_fields (m : list (string * lv)) : list (string * json) :=
  flat_map (fun kv => match snd kv with LUuid => [] | x => [(fst kv, rb x)] end) m.
Lemma rb_dict m : rb (LDict m) = JObj (rb_kw m).
Proof. cbn. f_equal. induction m as [|[k v] r IH]; cbn; [reflexivity|]. f_equal. exact IH. Qed.
Lemma rb_obj c fs : rb (LObj c fs) = JObj (rb_fields fs).
Proof.
  cbn. f_equal. induction fs as [|[k v] r IH]; [reflexivity|].
  unfold rb_fields in *. cbn [flat_map snd fst]. rewrite <- IH. destruct v; reflexivity.
Qed.

Lemma rb_embed j : rb (embed j) = j.
Proof.
  induction j using json_ind'; try reflexivity.
  - rewrite embed_arr. cbn. f_equal. induction H as [|x r Hx Hr IH]; cbn; [reflexivity|]. rewrite Hx, IH. reflexivity.
  - rewrite embed_obj, rb_dict. f_equal. unfold rb_kw, embed_kw.
    induction H as [|[k v] r Hx Hr IH]; cbn [map fst snd]; [reflexivity|]. cbn in Hx. rewrite Hx. f_equal. exact IH.
Qed.

(* ---------- the relation "read-back ~ document" ---------- *)
Definition visible (k : string) (o : option json) : option json :=
  match o with Some v => if invisible k v then None else Some v | None => None end.
Inductive orel {A} (R : A -> A -> Prop) : option A -> option A -> Prop :=
| orel_none : orel R None None
| orel_some a b : R a b -> orel R (Some a) (Some b).
(* equal up to the order of object keys, where a key bound to null, and an empty extends / mixins list, count as absent *)
Inductive jeqv : json -> json -> Prop :=
| JE_null : jeqv JNull JNull
| JE_bool b : jeqv (JBool b) (JBool b)
| JE_int z : jeqv (JInt z) (JInt z)
| JE_flt n d : jeqv (JFlt n d) (JFlt n d)
| JE_str s : jeqv (JStr s) (JStr s)
| JE_arr l l' : Forall2 jeqv l l' -> jeqv (JArr l) (JArr l')
| JE_obj m m' : (forall k, orel jeqv (visible k (assoc k m)) (visible k (assoc k m'))) -> jeqv (JObj m) (JObj m').

Lemma assoc_In_snd {A} k (m : list (string * A)) v : assoc k m = Some v -> In v (map snd m).
Proof. intros H. apply assoc_in in H. change v with (snd (k, v)). apply in_map. exact H. Qed.

Lemma jeqv_refl j : jeqv j j.
Proof.
  induction j using json_ind'; try constructor.
  - induction H; constructor; auto.
  - intros k. destruct (assoc k m) as [v|] eqn:E; cbn; [|constructor].
    destruct (invisible k v); constructor.
    apply assoc_in in E. rewrite Forall_forall in H. apply (H (k, v) E).
Qed.

Lemma jeqv_invisible k a b : jeqv a b -> invisible k a = invisible k b.
Proof.
  intros H. destruct H; try reflexivity. cbn. destruct H; reflexivity.
Qed.

(* ---------- association lists ---------- *)
Lemma assoc_cons {A} k k' (v : A) m : assoc k ((k', v) :: m) = if String.eqb k' k then Some v else assoc k m.
Proof. unfold assoc. cbn. destruct (String.eqb k' k); reflexivity. Qed.

Lemma assoc_map_snd {A B} (f : A -> B) k m : assoc k (map (fun kv => (fst kv, f (snd kv))) m) = option_map f (assoc k m).
Proof.
  induction m as [|[k' v] r IH]; [reflexivity|]. cbn [map fst snd]. rewrite !assoc_cons. destruct (String.eqb k' k); [reflexivity|exact IH].
Qed.
Lemma keys_map_snd {A B} (f : A -> B) m : keys (map (fun kv => (fst kv, f (snd kv))) m) = keys m.
Proof. unfold keys. rewrite map_map. reflexivity. Qed.

Lemma assoc_some_mem {A} k (m : list (string * A)) v : assoc k m = Some v -> mem k (keys m) = true.
Proof. intros H. apply mem_in. apply assoc_in in H. change k with (fst (k, v)). apply in_map. exact H. Qed.
Lemma mem_keys_assoc {A} k (m : list (string * A)) : mem k (keys m) = true -> exists v, assoc k m = Some v.
Proof.
  intros H. destruct (assoc k m) as [v|] eqn:E; [eauto|]. apply assoc_none in E. apply mem_in in H. contradiction.
Qed.

(* ---------- mapM ---------- *)
Lemma mapM_ok {A B} (f : A -> res B) l r : mapM f l = Ok r -> Forall2 (fun a b => f a = Ok b) l r.
Proof.
  revert r. induction l as [|x xs IH]; cbn; intros r H.
  - inversion H. constructor.
  - destruct (f x) as [y| |] eqn:E; cbn in H; try discriminate.
    destruct (mapM f xs) as [ys| |] eqn:E2; cbn in H; try discriminate. inversion H. constructor; auto.
Qed.
Lemma Forall2_mapM {A B} (f : A -> res B) l r : Forall2 (fun a b => f a = Ok b) l r -> mapM f l = Ok r.
Proof. induction 1; cbn; [reflexivity|]. rewrite H, IHForall2. reflexivity. Qed.
Lemma mapM_forall_ok {A B} (f : A -> res B) l : (forall a, In a l -> exists b, f a = Ok b) -> exists r, mapM f l = Ok r.
Proof.
  induction l as [|x xs IH]; intros H; [exists []; reflexivity|].
  destruct (H x (or_introl eq_refl)) as [y Ey]. destruct IH as [ys Eys]; [intros; apply H; right; assumption|].
  exists (y :: ys). cbn. rewrite Ey, Eys. reflexivity.
Qed.

Section B.
Variable T : tables.

Definition conv_elem (B : string -> lv -> res lv) (ce : callee) (e : lv) : res lv :=
  match e with LDict _ => call T B ce e | _ => Ok e end.
Definition conv_list (B : string -> lv -> res lv) (ce : callee) : list lv -> res (list lv) :=
  fix go (l : list lv) : res (list lv) :=
    match l with
    | [] => Ok []
    | e :: r => do e' <- (match e with LDict _ => call T B ce e | _ => Ok e end); do r' <- go r; Ok (e' :: r') end.
Lemma convert_list B ce l : convert T B (KList ce) (LList l) = do l' <- conv_list B ce l; Ok (LList l').
Proof. reflexivity. Qed.
Lemma conv_list_intro B ce l l' : Forall2 (fun e e' => conv_elem B ce e = Ok e') l l' -> conv_list B ce l = Ok l'.
Proof.
  induction 1 as [|e e' r r' He Hr IH]; [reflexivity|].
  cbn. unfold conv_elem in He. rewrite He. cbn. fold (conv_list B ce). rewrite IH. reflexivity.
Qed.

Definition conv_kw (C : cls) : list (string * lv) -> res (list (string * lv)) :=
  fix go (kw : list (string * lv)) : res (list (string * lv)) :=
    match kw with
    | [] => Ok []
    | (k, v) :: r =>
        match find_field C k with
        | None => Err "TypeError:unexpected-keyword"
        | Some f => do v' <- convert T (bld T) (f_conv f) v; do r' <- go r; Ok ((k, v') :: r') end
    end.
Lemma bld_dict c kw :
  bld T c (LDict kw) = match find_cls T c with None => Err "NameError" | Some C => do got <- conv_kw C kw; finish T C got end.
Proof. reflexivity. Qed.

Definition kw_rel (C : cls) (a b : string * lv) : Prop :=
  fst a = fst b /\ exists f, find_field C (fst a) = Some f /\ convert T (bld T) (f_conv f) (snd a) = Ok (snd b).
Lemma conv_kw_intro C kw got : Forall2 (kw_rel C) kw got -> conv_kw C kw = Ok got.
Proof.
  induction 1 as [|[k v] [k' v'] r r' [E [f [Ff Hc]]] Hr IH]; [reflexivity|].
  cbn in E, Ff, Hc. subst k'. cbn. rewrite Ff, Hc. cbn. fold (conv_kw C). rewrite IH. reflexivity.
Qed.

Lemma finish_intro C got fs us :
  mapM (fill T got) (c_fields C) = Ok fs -> mapM (run_vld fs) (c_fields C) = Ok us -> finish T C got = Ok (LObj (c_name C) fs).
Proof. intros H1 H2. unfold finish. rewrite H1. cbn. rewrite H2. reflexivity. Qed.

Lemma find_cls_name c C : find_cls T c = Some C -> c_name C = c.
Proof. unfold find_cls. intros H. apply find_some in H. destruct H as [_ H]. apply String.eqb_eq in H. exact H. Qed.
Lemma find_field_name C k f : find_field C k = Some f -> f_name f = k /\ In f (c_fields C).
Proof. unfold find_field. intros H. apply find_some in H. destruct H as [I H]. apply String.eqb_eq in H. auto. Qed.

End B.

Definition callee_eqb (a b : callee) : bool :=
  match a, b with CClass x, CClass y => String.eqb x y | CFun x, CFun y => String.eqb x y | _, _ => false end.
Lemma callee_eqb_eq a b : callee_eqb a b = true -> a = b.
Proof. destruct a, b; cbn; try discriminate; intros H; apply String.eqb_eq in H; subst; reflexivity. Qed.
Definition ptype_eqb (a b : ptype) : bool :=
  match a, b with TyStr, TyStr | TyBool, TyBool | TyInt, TyInt | TyList, TyList => true | TyCls x, TyCls y => String.eqb x y | _, _ => false end.
Lemma ptype_eqb_eq a b : ptype_eqb a b = true -> a = b.
Proof. destruct a, b; cbn; try discriminate; try reflexivity. intros H; apply String.eqb_eq in H; subst; reflexivity. Qed.
Definition has_pt (t : ptype) (ts : list ptype) : bool := existsb (ptype_eqb t) ts.
Lemma has_pt_inst t ts v : has_pt t ts = true -> inst1 t v = true -> inst ts v = true.
Proof.
  unfold has_pt, inst. rewrite !existsb_exists. intros [x [I E]] H. apply ptype_eqb_eq in E. subst x. exists t. auto.
Qed.

(* what a validator demands of the one value it looks at (cross-field validators are dealt with per object) *)
Definition vpass (vl : vld) (v : lv) : Prop :=
  match vl with
  | VNone | VNoop | VCross _ => True
  | VInst ts => inst ts v = true
  | VOptInst ts => v = LNone \/ inst ts v = true
  | VIn l => exists s, v = LStr s /\ mem s l = true end.
Definition is_cross (vl : vld) : bool := match vl with VCross _ => true | _ => false end.

Lemma run_vld_pass fs f v : assoc (f_name f) fs = Some v -> is_cross (f_vld f) = false -> vpass (f_vld f) v -> run_vld fs f = Ok tt.
Proof.
  intros A NC V. unfold run_vld. rewrite A. destruct (f_vld f) as [| |ts|ts|l|x]; cbn in *; try reflexivity; try discriminate.
  - rewrite V. reflexivity.
  - destruct V as [->|V]; [reflexivity|]. rewrite V. destruct v; reflexivity.
  - destruct V as [s [-> M]]. rewrite M. reflexivity.
Qed.

Lemma embed_not_uuid j : embed j <> LUuid.
Proof. destruct j; cbn; discriminate. Qed.

Section Compat.
Variable defs : list (string * schema).
Variable T : tables.
Variable cp : list (string * callee).      (* the (definition, callee) pairs claimed compatible; each one is checked by [cc] *)

Definition in_cp (r : string) (ce : callee) : bool := existsb (fun p => String.eqb (fst p) r && callee_eqb (snd p) ce) cp.
Lemma in_cp_In r ce : in_cp r ce = true -> In (r, ce) cp.
Proof.
  unfold in_cp. rewrite existsb_exists. intros [[r' ce'] [I E]]. cbn in E. apply andb_true_iff in E. destruct E as [E1 E2].
  apply String.eqb_eq in E1. apply callee_eqb_eq in E2. subst. exact I.
Qed.

Definition resolve1 (s : schema) : schema :=
  match s with SRef r => match assoc r defs with Some s' => s' | None => s end | _ => s end.
Lemma jsv_resolve1 k s j : jsv defs k s j = true -> jsv defs k (resolve1 s) j = true.
Proof.
  destruct s as [r|]; [|auto]. cbn. destruct k; [discriminate|]. rewrite jsv_S. cbn [jsv_step].
  destruct (assoc r defs) as [s'|]; [|discriminate]. apply jsv_mono1.
Qed.

Definition jt_inst (ts : list ptype) (t : jtype) : bool :=
  match t with
  | TString => has_pt TyStr ts | TBoolean => has_pt TyBool ts || has_pt TyInt ts | TInt => has_pt TyInt ts
  | TArray => has_pt TyList ts | _ => false end.
Lemma jt_inst_sound ts t j : jt_inst ts t = true -> type1_ok t j = true -> inst ts (embed j) = true.
Proof.
  destruct t, j; cbn; try discriminate; intros H _.
  - eapply has_pt_inst; eauto.
  - apply orb_true_iff in H. destruct H as [H|H]; eapply has_pt_inst; eauto.
  - eapply has_pt_inst; eauto.
  - eapply has_pt_inst; eauto.
Qed.

Definition vld_ok (vl : vld) (s : schema) : bool :=
  match vl with
  | VNone | VNoop => true
  | VInst ts | VOptInst ts => match s with SNode (Some tl) _ _ _ _ _ _ _ _ => forallb (jt_inst ts) tl | _ => false end
  | VIn l => match s with
             | SNode (Some [TString]) _ _ _ enum const _ _ _ =>
                 match enum, const with Some e, _ => subset e l | None, Some c => mem c l | None, None => false end
             | _ => false end
  | VCross _ => false end.

Lemma vld_ok_sound vl s rec j : vld_ok vl s = true -> jsv_step defs rec s j = true -> vpass vl (embed j).
Proof.
  intros O V. destruct vl as [| |ts|ts|l|x]; cbn in *; auto; try discriminate.
  - destruct s as [|[tl|] props req addl enum const anyof items extra]; try discriminate. cbn in V.
    rewrite !andb_true_iff in V. destruct V as [[[[[V _] _] _] _] _]. apply existsb_exists in V. destruct V as [t [I V]].
    rewrite forallb_forall in O. eapply jt_inst_sound; eauto.
  - destruct s as [|[tl|] props req addl enum const anyof items extra]; try discriminate. cbn in V.
    rewrite !andb_true_iff in V. destruct V as [[[[[V _] _] _] _] _]. apply existsb_exists in V. destruct V as [t [I V]].
    rewrite forallb_forall in O. right. eapply jt_inst_sound; eauto.
  - destruct s as [|[[|[] [|]]|] props req addl enum const anyof items extra]; try discriminate. cbn in V.
    rewrite !andb_true_iff in V. destruct V as [[[[[V1 V2] V3] _] _] _].
    destruct j; cbn in V1; try discriminate. exists s. split; [reflexivity|].
    destruct enum as [e|].
    + cbn in V2. unfold subset in O. rewrite forallb_forall in O. apply O. apply mem_in. exact V2.
    + destruct const as [c|]; [|discriminate]. cbn in V3. apply String.eqb_eq in V3. subst. exact O.
Qed.

Definition objof (ce : callee) (m : lv) : Prop := exists c fs, m = LObj c fs /\ (forall c0, ce = CClass c0 -> c = c0).

(* the induction hypothesis of the main theorem: every pair of cp is sound for validity derivations of depth n *)
Definition Pn (n : nat) : Prop :=
  forall r ce j, In (r, ce) cp -> jwf j = true -> jsv defs n (SRef r) j = true ->
    exists kw m, j = JObj kw /\ call T (bld T) ce (embed j) = Ok m /\ jeqv (rb m) j /\ objof ce m.
Lemma Pn_down n m : m <= n -> Pn n -> Pn m.
Proof. intros L H r ce j I W V. apply (H r ce j I W). eapply jsv_mono; eauto. Qed.

Definition tcompat (s : schema) (ce : callee) : bool := match s with SRef r => in_cp r ce | _ => false end.
Definition plain_array (s : schema) : bool := match s with SNode (Some [TArray]) _ _ _ _ _ _ _ _ => true | _ => false end.
Definition cvld_ok (vl : vld) (ce : callee) : bool :=
  match vl with
  | VNone | VNoop => true
  | VInst ts | VOptInst ts => match ce with CClass c => has_pt (TyCls c) ts | _ => false end
  | _ => false end.
Definition vl_trivial (vl : vld) : bool := match vl with VNone | VNoop => true | _ => false end.
Definition vl_list_ok (vl : vld) : bool := match vl with VNone | VNoop | VCross _ => true | _ => false end.

Lemma cvld_ok_sound vl ce m : cvld_ok vl ce = true -> objof ce m -> vpass vl m.
Proof.
  intros O [c [fs [-> Hc]]]. destruct vl as [| |ts|ts|l|x]; cbn in *; auto; try discriminate.
  - destruct ce as [c0|]; [|discriminate]. rewrite (Hc c0 eq_refl). eapply has_pt_inst; eauto. cbn. apply String.eqb_refl.
  - destruct ce as [c0|]; [|discriminate]. rewrite (Hc c0 eq_refl). right. eapply has_pt_inst; eauto. cbn. apply String.eqb_refl.
Qed.
Lemma vl_trivial_pass vl v : vl_trivial vl = true -> vpass vl v.
Proof. destruct vl; cbn; auto; discriminate. Qed.

Definition fc (s : schema) (f : field) : bool :=
  match f_conv f with
  | KId => vld_ok (f_vld f) (resolve1 s)
  | KUuid => false
  | KPartial ce =>
      (tcompat s ce && cvld_ok (f_vld f) ce) ||
      (vl_trivial (f_vld f) &&
       match s with
       | SNode None [] [] _ None None (Some alts) None None => forallb (fun a => tcompat a ce || plain_array a) alts
       | _ => false end)
  | KCall ce => tcompat s ce && cvld_ok (f_vld f) ce
  | KDirect fn => tcompat s (CFun fn) && cvld_ok (f_vld f) (CFun fn)
  | KList ce =>
      vl_list_ok (f_vld f) &&
      match resolve1 s with
      | SNode (Some [TArray]) [] [] _ None None None (Some it) None => tcompat it ce
      | _ => false end
  end.

Lemma jwf_arr l : jwf (JArr l) = true -> forall x, In x l -> jwf x = true.
Proof. cbn. rewrite forallb_forall. auto. Qed.
Definition jwf_kw (m : list (string * json)) : bool := forallb (fun kv => jwf (snd kv)) m.
Lemma jwf_obj m : jwf (JObj m) = nodupb (keys m) && jwf_kw m.
Proof. cbn. f_equal. induction m as [|[k v] r IH]; [reflexivity|]. cbn. rewrite IH. reflexivity. Qed.

Lemma tcompat_sound k s ce j : Pn k -> tcompat s ce = true -> jwf j = true -> jsv defs k s j = true ->
  exists kw m, j = JObj kw /\ call T (bld T) ce (embed j) = Ok m /\ jeqv (rb m) j /\ objof ce m.
Proof.
  intros P C W V. destruct s as [r|]; [|discriminate]. cbn in C. apply in_cp_In in C. eapply P; eauto.
Qed.

Lemma type_array_inv ty j : type_ok (Some [ty]) j = true -> ty = TArray -> exists l, j = JArr l.
Proof. intros H ->. destruct j; cbn in H; try discriminate. eauto. Qed.

Lemma fc_sound k s f j : Pn k -> fc s f = true -> jwf j = true -> jsv defs k s j = true ->
  exists v', convert T (bld T) (f_conv f) (embed j) = Ok v' /\ jeqv (rb v') j /\ vpass (f_vld f) v' /\ v' <> LUuid.
Proof.
  intros P C W V. unfold fc in C. destruct (f_conv f) as [|ce|ce|ce|fn|] eqn:EC; try discriminate.
  - (* KId *)
    exists (embed j). apply jsv_resolve1 in V. destruct k; [discriminate|]. rewrite jsv_S in V.
    repeat split; [rewrite rb_embed; apply jeqv_refl | eapply vld_ok_sound; eauto | apply embed_not_uuid].
  - (* KPartial *)
    apply orb_true_iff in C. destruct C as [C|C]; apply andb_true_iff in C; destruct C as [C1 C2].
    + destruct (tcompat_sound k s ce j P C1 W V) as [kw [m [-> [Hc [Hj Ho]]]]].
      exists m. rewrite embed_obj in *. cbn [convert]. repeat split; auto.
      * eapply cvld_ok_sound; eauto.
      * destruct Ho as [c [fs [-> _]]]. discriminate.
    + destruct s as [|[|] [|] [|] addl [|] [|] [alts|] [|] [|]]; cbn in C2; try discriminate.
      destruct k; [discriminate|]. rewrite jsv_S in V. cbn [jsv_step] in V. rewrite !andb_true_iff in V. destruct V as [[[[[_ _] _] _] V] _].
      apply existsb_exists in V. destruct V as [a [Ia Va]]. rewrite forallb_forall in C2. specialize (C2 a Ia).
      apply orb_true_iff in C2. destruct C2 as [C2|C2].
      * assert (P' : Pn k) by (eapply Pn_down; [|exact P]; lia).
        destruct (tcompat_sound k a ce j P' C2 W Va) as [kw [m [-> [Hc [Hj Ho]]]]].
        exists m. rewrite embed_obj in *. cbn [convert]. repeat split; auto.
        -- apply vl_trivial_pass; auto.
        -- destruct Ho as [c [fs [-> _]]]. discriminate.
      * destruct a as [|[[|ty [|]]|] ? ? ? ? ? ? ? ?]; cbn in C2; try discriminate; destruct ty; cbn in C2; try discriminate.
        destruct k; [discriminate|]. rewrite jsv_S in Va. cbn [jsv_step] in Va. rewrite !andb_true_iff in Va.
        destruct Va as [[[[[Va _] _] _] _] _]. destruct (type_array_inv _ _ Va eq_refl) as [l ->].
        exists (embed (JArr l)). repeat split.
        -- rewrite rb_embed. apply jeqv_refl.
        -- apply vl_trivial_pass; auto.
        -- discriminate.
  - (* KList *)
    apply andb_true_iff in C. destruct C as [C1 C2]. apply jsv_resolve1 in V.
    destruct (resolve1 s) as [|[[|ty [|]]|] [|] [|] addl [|] [|] [|] [it|] [|]]; cbn in C2; try discriminate; destruct ty; cbn in C2; try discriminate.
    destruct k; [discriminate|]. rewrite jsv_S in V. cbn [jsv_step] in V. rewrite !andb_true_iff in V.
    destruct V as [[[[[Vt _] _] _] _] Vi]. destruct (type_array_inv _ _ Vt eq_refl) as [l ->].
    assert (P' : Pn k) by (eapply Pn_down; [|exact P]; lia).
    assert (H : exists l', Forall2 (fun e e' => conv_elem T (bld T) ce e = Ok e') (map embed l) l' /\ Forall2 jeqv (map rb l') l).
    { pose proof (jwf_arr l W) as Wl. rewrite forallb_forall in Vi. clear Vt W.
      induction l as [|e r IH]; [exists []; split; constructor|].
      destruct IH as [r' [H1 H2]]; try (intros x0 Hx0; first [apply Wl | apply Vi]; right; exact Hx0).
      destruct (tcompat_sound k it ce e P' C2 (Wl e (or_introl eq_refl)) (Vi e (or_introl eq_refl))) as [kw [m [-> [Hc [Hj Ho]]]]].
      exists (m :: r'). split; constructor; auto. }
    destruct H as [l' [H1 H2]]. exists (LList l'). rewrite embed_arr, convert_list, (conv_list_intro T _ _ _ _ H1). cbn.
    repeat split; [constructor; exact H2 | | discriminate].
    destruct (f_vld f); cbn in *; auto; discriminate.
  - (* KCall *)
    apply andb_true_iff in C. destruct C as [C1 C2].
    destruct (tcompat_sound k s ce j P C1 W V) as [kw [m [-> [Hc [Hj Ho]]]]].
    exists m. rewrite embed_obj in *. cbn [convert]. repeat split; auto.
    + eapply cvld_ok_sound; eauto.
    + destruct Ho as [c [fs [-> _]]]. discriminate.
  - (* KDirect *)
    apply andb_true_iff in C. destruct C as [C1 C2].
    destruct (tcompat_sound k s (CFun fn) j P C1 W V) as [kw [m [-> [Hc [Hj Ho]]]]].
    exists m. rewrite embed_obj in *. cbn [convert]. repeat split; auto.
    + eapply cvld_ok_sound; eauto.
    + destruct Ho as [c [fs [-> _]]]. discriminate.
Qed.

End Compat.

Definition hidden (k : string) (v : lv) : bool :=
  match v with
  | LNone | LUuid => true
  | LList [] => String.eqb k "extends" || String.eqb k "mixins"
  | _ => false end.
Definition vld_alone (vl : vld) (v : lv) : bool :=
  match vl with
  | VNone | VNoop => true
  | VInst ts => inst ts v
  | VOptInst ts => match v with LNone => true | _ => inst ts v end
  | VIn l => match v with LStr s => mem s l | _ => false end
  | VCross _ => false end.
Lemma vld_alone_pass vl v : vld_alone vl v = true -> vpass vl v /\ is_cross vl = false.
Proof.
  destruct vl as [| |ts|ts|l|x]; cbn; intros H; split; auto; try discriminate.
  - destruct v; auto.
  - destruct v; try discriminate. eauto.
Qed.

Lemma rb_fields_assoc k fs : NoDup (keys fs) ->
  assoc k (rb_fields fs) = match assoc k fs with Some LUuid => None | Some v => Some (rb v) | None => None end.
Proof.
  induction fs as [|[k' v] r IH]; intros ND; [reflexivity|].
  inversion ND as [|? ? NI ND']; subst. unfold rb_fields in *. cbn [flat_map fst snd]. rewrite assoc_cons.
  destruct (String.eqb_spec k' k) as [->|N].
  - destruct v; cbn [app]; rewrite ?assoc_cons, ?String.eqb_refl; try reflexivity.
    (* LUuid: skipped, and no later binding of k *)
    rewrite (IH ND'). apply assoc_none in NI. fold (keys r) in NI. rewrite NI. reflexivity.
  - destruct v; cbn [app]; rewrite ?assoc_cons; try (apply String.eqb_neq in N; rewrite N); apply (IH ND').
Qed.

Section Obj.
Variable defs : list (string * schema).
Variable T : tables.
Variable cp : list (string * callee).

Definition dflt_ok (f : field) (d : dflt) : bool :=
  match conv_default T (f_conv f) d with Ok v => hidden (f_name f) v && vld_alone (f_vld f) v | _ => false end.

Definition is_kid (c : conv) : bool := match c with KId => true | _ => false end.
Definition kid_field (c k : string) : bool :=
  match find_cls T c with
  | Some C' => match find_field C' k with Some f' => is_kid (f_conv f') | None => false end
  | None => false end.
Definition cross_field_ok (C : cls) (x : xvalid) (f : field) (req : list string) (extra : option xcheck) : bool :=
  match extra with Some XEnumTyped => true | None => false end &&
  String.eqb (xv_sel x) "type" && String.eqb (xv_sel_attr x) "name" && String.eqb (xv_const x) "string" &&
  String.eqb (xv_iter_attr x) "value" && ptype_eqb (xv_then x) TyStr && ptype_eqb (xv_else x) TyInt &&
  String.eqb (f_name f) "values" && mem "type" req && mem "values" req &&
  match find_field C "type", f_conv f with
  | Some ft, KList (CClass c2) =>
      match f_conv ft with KPartial (CClass c1) => kid_field c1 "name" && kid_field c2 "value" | _ => false end
  | _, _ => false end.
Definition cross_ok (C : cls) (req : list string) (extra : option xcheck) : bool :=
  forallb (fun f => match f_vld f with VCross x => cross_field_ok C x f req extra | _ => true end) (c_fields C).

(* an object definition of the schema against a class *)
Definition oc (s : schema) (c : string) : bool :=
  match s with
  | SNode (Some [TObject]) props req false None None None None extra =>
      match find_cls T c with
      | None => false
      | Some C =>
          nodupb (map f_name (c_fields C)) &&
          forallb (fun kv => match find_field C (fst kv) with Some f => fc defs cp (snd kv) f | None => false end) props &&
          forallb (fun f => match f_default f with None => mem (f_name f) req | Some d => dflt_ok f d end) (c_fields C) &&
          cross_ok C req extra
      end
  | _ => false end.

(* stage 1: every keyword of the document is converted *)
Definition R2 (C : cls) (a : string * json) (b : string * lv) : Prop :=
  fst b = fst a /\ exists f, find_field C (fst a) = Some f /\
    convert T (bld T) (f_conv f) (embed (snd a)) = Ok (snd b) /\ jeqv (rb (snd b)) (snd a) /\ vpass (f_vld f) (snd b) /\ snd b <> LUuid.

Lemma kw_stage k C props kw : Pn defs T cp k ->
  (forall kv, In kv props -> match find_field C (fst kv) with Some f => fc defs cp (snd kv) f = true | None => False end) ->
  (forall kv, In kv kw -> jwf (snd kv) = true /\ exists s0, assoc (fst kv) props = Some s0 /\ jsv defs k s0 (snd kv) = true) ->
  exists got, Forall2 (R2 C) kw got.
Proof.
  intros P HP. induction kw as [|[k0 vj] r IH]; intros H; [exists []; constructor|].
  destruct IH as [got' IH]; [intros; apply H; right; assumption|].
  destruct (H (k0, vj) (or_introl eq_refl)) as [W [s0 [A V]]]. cbn in W, A, V.
  specialize (HP (k0, s0) (assoc_in _ _ _ A)). cbn in HP. destruct (find_field C k0) as [f|] eqn:Ff; [|contradiction].
  destruct (fc_sound defs T cp k s0 f vj P HP W V) as [v' [Hc [Hj [Hv Hu]]]].
  exists ((k0, v') :: got'). constructor; [|exact IH]. split; [reflexivity|]. exists f. cbn. auto.
Qed.

Lemma R2_kw_rel C kw got : Forall2 (R2 C) kw got -> Forall2 (kw_rel T C) (embed_kw kw) got.
Proof.
  induction 1 as [|[k0 vj] [k1 v'] r r' [E [f [Ff [Hc _]]]] Hr IH]; cbn; constructor; [|exact IH].
  cbn in *. subst. split; [reflexivity|]. exists f. auto.
Qed.

Lemma R2_assoc C kw got : Forall2 (R2 C) kw got -> forall k0,
  match assoc k0 kw with
  | None => assoc k0 got = None
  | Some vj => exists v' f, assoc k0 got = Some v' /\ find_field C k0 = Some f /\ jeqv (rb v') vj /\ vpass (f_vld f) v' /\ v' <> LUuid
               /\ convert T (bld T) (f_conv f) (embed vj) = Ok v'
  end.
Proof.
  induction 1 as [|[k1 vj] [k2 v'] r r' [E [f [Ff [Hc [Hj [Hv Hu]]]]]] Hr IH]; intros k0; [reflexivity|].
  cbn in *. subst k2. rewrite !assoc_cons. destruct (String.eqb_spec k1 k0) as [->|N]; [|apply IH].
  exists v', f. repeat split; assumption.
Qed.

(* stage 2: the field list *)
Lemma fill_fst got f kv : fill T got f = Ok kv -> fst kv = f_name f.
Proof.
  unfold fill. destruct (assoc (f_name f) got); [intros [= <-]; reflexivity|].
  destruct (f_default f); [|discriminate]. destruct (conv_default T (f_conv f) d); cbn; try discriminate. intros [= <-]. reflexivity.
Qed.

Lemma fs_assoc got (fl : list field) fs : Forall2 (fun f kv => fill T got f = Ok kv) fl fs -> forall k0,
  match find (fun f => String.eqb (f_name f) k0) fl with
  | Some f => exists v, assoc k0 fs = Some v /\ fill T got f = Ok (k0, v)
  | None => assoc k0 fs = None end.
Proof.
  induction 1 as [|f [k1 v] r r' Hf Hr IH]; intros k0; [reflexivity|].
  pose proof (fill_fst _ _ _ Hf) as E. cbn in E. subst k1. cbn [find]. rewrite assoc_cons.
  destruct (String.eqb_spec (f_name f) k0) as [<-|N]; [|apply IH]. exists v. auto.
Qed.
Lemma fs_keys got (fl : list field) fs : Forall2 (fun f kv => fill T got f = Ok kv) fl fs -> keys fs = map f_name fl.
Proof.
  induction 1 as [|f kv r r' Hf Hr IH]; [reflexivity|]. unfold keys in *. cbn [map]. rewrite IH, (fill_fst _ _ _ Hf). reflexivity.
Qed.

Lemma find_nodup (fl : list field) f : NoDup (map f_name fl) -> In f fl -> find (fun g => String.eqb (f_name g) (f_name f)) fl = Some f.
Proof.
  induction fl as [|g r IH]; intros ND I; [destruct I|]. cbn in *. inversion ND as [|? ? NI ND']; subst.
  destruct I as [->|I]; [rewrite String.eqb_refl; reflexivity|].
  destruct (String.eqb_spec (f_name g) (f_name f)) as [E|N]; [|auto].
  exfalso. apply NI. rewrite E. apply in_map. exact I.
Qed.

End Obj.

Section Kid.
Variable T : tables.

Lemma conv_list_elim B ce l l' : conv_list T B ce l = Ok l' -> Forall2 (fun e e' => conv_elem T B ce e = Ok e') l l'.
Proof.
  revert l'. induction l as [|e r IH]; intros l' H; cbn in H; [inversion H; constructor|].
  fold (conv_list T B ce) in H. fold (conv_elem T B ce e) in H.
  destruct (conv_elem T B ce e) as [e'| |] eqn:E; cbn in H; try discriminate.
  destruct (conv_list T B ce r) as [r'| |] eqn:E2; cbn in H; try discriminate. inversion H; subst. constructor; auto.
Qed.

Lemma conv_kw_elim C kw got : conv_kw T C kw = Ok got -> Forall2 (kw_rel T C) kw got.
Proof.
  revert got. induction kw as [|[k v] r IH]; intros got H; cbn in H; [inversion H; constructor|].
  fold (conv_kw T C) in H. destruct (find_field C k) as [f|] eqn:Ff; [|discriminate].
  destruct (convert T (bld T) (f_conv f) v) as [v'| |] eqn:E; cbn in H; try discriminate.
  destruct (conv_kw T C r) as [r'| |] eqn:E2; cbn in H; try discriminate. inversion H; subst.
  constructor; [|auto]. split; [reflexivity|]. exists f. auto.
Qed.

Lemma kw_rel_assoc C kw got : Forall2 (kw_rel T C) kw got -> forall k0,
  match assoc k0 kw with
  | None => assoc k0 got = None
  | Some x => exists x' f, assoc k0 got = Some x' /\ find_field C k0 = Some f /\ convert T (bld T) (f_conv f) x = Ok x' end.
Proof.
  induction 1 as [|[k1 x] [k2 x'] r r' [E [f [Ff Hc]]] Hr IH]; intros k0; [reflexivity|].
  cbn in *. subst k2. rewrite !assoc_cons. destruct (String.eqb_spec k1 k0) as [->|N]; [|apply IH]. exists x', f. auto.
Qed.

Lemma finish_elim C got m : finish T C got = Ok m -> exists fs, mapM (fill T got) (c_fields C) = Ok fs /\ m = LObj (c_name C) fs.
Proof.
  unfold finish. destruct (mapM (fill T got) (c_fields C)) as [fs| |]; cbn; try discriminate.
  destruct (mapM (run_vld fs) (c_fields C)); cbn; try discriminate. intros [= <-]. eauto.
Qed.

Lemma conv_default_kid d : exists v, conv_default T KId d = Ok v /\ forall s, v <> LStr s.
Proof. destruct d; cbn; eexists; split; try reflexivity; discriminate. Qed.

(* a field without converter holds exactly what the document has under that key *)
Lemma bld_kid c k kw0 m : bld T c (LDict kw0) = Ok m -> kid_field T c k = true ->
  exists fs0 v, m = LObj c fs0 /\ assoc k fs0 = Some v /\ match assoc k kw0 with Some x => v = x | None => forall s, v <> LStr s end.
Proof.
  intros H K. rewrite bld_dict in H. unfold kid_field in K. destruct (find_cls T c) as [C|] eqn:FC; [|discriminate].
  destruct (find_field C k) as [f|] eqn:Ff; [|discriminate]. destruct (f_conv f) eqn:EC; try discriminate.
  destruct (conv_kw T C kw0) as [got| |] eqn:G; cbn in H; try discriminate.
  apply finish_elim in H. destruct H as [fs0 [FS ->]]. rewrite (find_cls_name T c C FC).
  pose proof (fs_assoc T got _ _ (mapM_ok _ _ _ FS) k) as FA. fold (find_field C k) in FA. rewrite Ff in FA. destruct FA as [v [Av Hfill]].
  exists fs0, v. repeat split; auto.
  pose proof (kw_rel_assoc C kw0 got (conv_kw_elim C kw0 got G) k) as KA. destruct (find_field_name C k f Ff) as [Nf _].
  unfold fill in Hfill. rewrite Nf in Hfill. destruct (assoc k kw0) as [x|].
  - destruct KA as [x' [f' [A [Ff' Hc]]]]. rewrite Ff in Ff'. inversion Ff'; subst f'. rewrite EC in Hc. cbn in Hc. inversion Hc; subst x'.
    rewrite A in Hfill. inversion Hfill. reflexivity.
  - rewrite KA in Hfill. destruct (f_default f) as [d|]; [|discriminate]. rewrite EC in Hfill.
    destruct (conv_default_kid d) as [v0 [E0 N0]]. rewrite E0 in Hfill. cbn in Hfill. inversion Hfill; subst. exact N0.
Qed.

Definition cross_loop (attr : string) (t : ptype) : list lv -> res unit :=
  fix go (l : list lv) : res unit :=
    match l with
    | [] => Ok tt
    | e :: r => do ev <- getattr e attr; if inst1 t ev then go r else Err "ValueError:cross-validator" end.
Lemma cross_loop_ok attr t l : Forall (fun e => exists ev, getattr e attr = Ok ev /\ inst1 t ev = true) l -> cross_loop attr t l = Ok tt.
Proof. induction 1 as [|e r [ev [G I]] Hr IH]; cbn; [reflexivity|]. rewrite G. cbn. rewrite I. exact IH. Qed.

Lemma run_vld_cross fs f x v sel nm :
  f_vld f = VCross x -> assoc (f_name f) fs = Some (LList v) -> assoc (xv_sel x) fs = Some sel -> getattr sel (xv_sel_attr x) = Ok nm ->
  run_vld fs f = cross_loop (xv_iter_attr x)
                   (if match nm with LStr s => String.eqb s (xv_const x) | _ => false end then xv_then x else xv_else x) v.
Proof. intros E A S G. unfold run_vld. rewrite A, E, S, G. reflexivity. Qed.

End Kid.

Section Cross.
Variable T : tables.

Lemma embed_str_inv j s : embed j = LStr s -> j = JStr s.
Proof. destruct j; cbn; try discriminate. intros [= ->]. reflexivity. Qed.

Lemma cross_sound C x f req extra kw got fs :
  cross_field_ok T C x f req extra = true -> In f (c_fields C) -> f_vld f = VCross x -> NoDup (map f_name (c_fields C)) ->
  xcheck_ok extra (JObj kw) = true -> Forall2 (R2 T C) kw got ->
  Forall2 (fun f kv => fill T got f = Ok kv) (c_fields C) fs ->
  run_vld fs f = Ok tt.
Proof.
  intros CF If EV ND XC G F2. unfold cross_field_ok in CF. rewrite !andb_true_iff in CF.
  destruct CF as [[[[[[[[[[E0 E1] E2] E3] E4] E5] E6] E7] _] _] CF].
  destruct extra as [[]|]; [|discriminate]. cbn in XC.
  apply String.eqb_eq in E1, E2, E3, E4, E7. apply ptype_eqb_eq in E5, E6.
  destruct (find_field C "type") as [ft|] eqn:Fft; [|discriminate].
  destruct (f_conv f) as [| |[c2|]| | |] eqn:ECf; try discriminate.
  destruct (f_conv ft) as [|[c1|]| | | |] eqn:ECt; try discriminate.
  apply andb_true_iff in CF. destruct CF as [K1 K2].
  (* the document side *)
  unfold enum_typed in XC. destruct (assoc "type" kw) as [[| | | | | |tm]|] eqn:At; try discriminate.
  destruct (assoc "values" kw) as [[| | | | |vs|]|] eqn:Av; try discriminate.
  pose proof (R2_assoc T C kw got G) as GA. pose proof (fs_assoc T got _ _ F2) as FA.
  (* instance.type *)
  pose proof (GA "type") as Gt. rewrite At in Gt. destruct Gt as [vt [ft' [Agt [Fft' [_ [_ [_ Hct]]]]]]].
  rewrite Fft in Fft'. inversion Fft'; subst ft'. rewrite ECt, embed_obj in Hct. cbn [convert call] in Hct.
  destruct (bld_kid T c1 "name" _ vt Hct K1) as [fs1 [nm [-> [Anm Hnm]]]].
  pose proof (FA "type") as Ft. fold (find_field C "type") in Ft. rewrite Fft in Ft. destruct Ft as [vt' [Aft Hfill]].
  unfold fill in Hfill. destruct (find_field_name C _ _ Fft) as [Nft _]. rewrite Nft, Agt in Hfill. inversion Hfill; subst vt'.
  (* the values *)
  pose proof (find_nodup _ f ND If) as Ff. rewrite E7 in Ff.
  pose proof (GA "values") as Gv. rewrite Av in Gv. destruct Gv as [vv [f' [Agv [Ff' [_ [_ [_ Hcv]]]]]]].
  unfold find_field in Ff'. rewrite Ff in Ff'. inversion Ff'; subst f'. rewrite ECf, embed_arr, convert_list in Hcv.
  destruct (conv_list T (bld T) (CClass c2) (map embed vs)) as [l'| |] eqn:CL; cbn in Hcv; try discriminate. inversion Hcv; subst vv.
  pose proof (FA "values") as Fv. rewrite Ff in Fv. destruct Fv as [vv' [Afv Hfill2]].
  unfold fill in Hfill2. rewrite E7, Agv in Hfill2. inversion Hfill2; subst vv'.
  rewrite (run_vld_cross fs f x l' (LObj c1 fs1) nm EV); [| rewrite E7; exact Afv | rewrite E1; exact Aft | rewrite E2; cbn; rewrite Anm; reflexivity].
  apply cross_loop_ok. rewrite E3, E4, E5, E6.
  (* the type test is the one of the document *)
  set (isstr := match assoc "name" tm with Some (JStr s) => String.eqb s "string" | _ => false end) in XC.
  assert (EI : match nm with LStr s => String.eqb s "string" | _ => false end = isstr).
  { unfold isstr. unfold embed_kw in Hnm. rewrite assoc_map_snd in Hnm. destruct (assoc "name" tm) as [nj|]; cbn in Hnm.
    - subst nm. destruct nj; reflexivity.
    - destruct nm; try reflexivity. exfalso. eapply Hnm. reflexivity. }
  rewrite EI. apply conv_list_elim in CL. rewrite forallb_forall in XC. clear - CL XC K2.
  remember (map embed vs) as evs eqn:EE. revert vs EE XC. induction CL as [|e e' r r' He Hr IH]; intros vs EE XC; [constructor|].
  destruct vs as [|ej vs']; [discriminate|]. cbn in EE. inversion EE; subst e r. constructor.
  - specialize (XC ej (or_introl eq_refl)). destruct ej as [| | | | | |em]; try discriminate.
    rewrite embed_obj in He. cbn [conv_elem call] in He.
    destruct (bld_kid T c2 "value" _ e' He K2) as [fse [v [-> [Avl Hv]]]].
    unfold embed_kw in Hv. rewrite assoc_map_snd in Hv. exists v. split; [cbn; rewrite Avl; reflexivity|].
    destruct (assoc "value" em) as [[| | | | | |]|]; try discriminate; cbn in Hv; subst v.
    + destruct isstr; [discriminate | reflexivity].
    + destruct isstr; [reflexivity | discriminate].
  - apply (IH vs' eq_refl). intros y Iy. apply XC. right. exact Iy.
Qed.

End Cross.

Lemma Forall2_const_tt {A} (g : A -> res unit) l : (forall a, In a l -> g a = Ok tt) -> Forall2 (fun a b => g a = Ok b) l (map (fun _ => tt) l).
Proof. induction l; intros H; constructor; [apply H; left; reflexivity | apply IHl; intros; apply H; right; assumption]. Qed.

Section ObjSound.
Variable defs : list (string * schema).
Variable T : tables.
Variable cp : list (string * callee).



Lemma oc_sound k s c kw : Pn defs T cp k -> oc defs T cp s c = true -> jwf (JObj kw) = true -> jsv defs (S k) s (JObj kw) = true ->
  exists fs, bld T c (LDict (embed_kw kw)) = Ok (LObj c fs) /\ jeqv (rb (LObj c fs)) (JObj kw).
Proof.
  intros P O W V. unfold oc in O.
  destruct s as [|[[|ty [|]]|] props req [|] [|] [|] [|] [|] extra]; try discriminate; destruct ty; try discriminate.
  destruct (find_cls T c) as [C|] eqn:FC; [|discriminate].
  rewrite !andb_true_iff in O. destruct O as [[[O1 O2] O3] O4]. apply nodupb_NoDup in O1.
  rewrite jsv_S in V. cbn [jsv_step] in V. rewrite !andb_true_iff in V. destruct V as [[[[[_ _] _] Vx] _] [Vr Vp]].
  rewrite jwf_obj in W. apply andb_true_iff in W. destruct W as [Wn Wk]. apply nodupb_NoDup in Wn.
  rewrite forallb_forall in O2, O3, Vr, Vp. unfold jwf_kw in Wk. rewrite forallb_forall in Wk.
  (* stage 1: keywords *)
  destruct (kw_stage defs T cp k C props kw P) as [got G].
  { intros kv I. specialize (O2 kv I). destruct (find_field C (fst kv)); [exact O2 | discriminate]. }
  { intros kv I. specialize (Vp kv I). split; [apply Wk; exact I|]. destruct (assoc (fst kv) props) as [s0|]; [eauto | discriminate]. }
  pose proof (R2_assoc T C kw got G) as GA.
  (* stage 2: field list *)
  assert (FS : exists fs, mapM (fill T got) (c_fields C) = Ok fs).
  { apply mapM_forall_ok. intros f I. unfold fill. destruct (assoc (f_name f) got) as [v|] eqn:A; [eauto|].
    specialize (O3 f I). destruct (f_default f) as [d|].
    - unfold dflt_ok in O3. destruct (conv_default T (f_conv f) d); try discriminate. cbn. eauto.
    - exfalso. apply mem_in in O3. specialize (Vr _ O3). apply mem_keys_assoc in Vr. destruct Vr as [vj Vj].
      specialize (GA (f_name f)). rewrite Vj in GA. destruct GA as [v' [f' [A' _]]]. congruence. }
  destruct FS as [fs FS]. pose proof (mapM_ok _ _ _ FS) as F2.
  pose proof (fs_assoc T got _ _ F2) as FA. pose proof (fs_keys T got _ _ F2) as FK.
  (* stage 3: validators *)
  assert (VL : mapM (run_vld fs) (c_fields C) = Ok (map (fun _ => tt) (c_fields C))).
  { apply Forall2_mapM. apply Forall2_const_tt. intros f I.
    pose proof (find_nodup _ f O1 I) as Ff. pose proof (FA (f_name f)) as FA'. rewrite Ff in FA'. destruct FA' as [v [Av Hfill]].
    destruct (is_cross (f_vld f)) eqn:X.
    - destruct (f_vld f) as [| | | | |x] eqn:EV; try discriminate.
      unfold cross_ok in O4. rewrite forallb_forall in O4. specialize (O4 f I). rewrite EV in O4.
      eapply (cross_sound T); eauto.
    - apply (run_vld_pass fs f v Av X). unfold fill in Hfill. specialize (GA (f_name f)).
      destruct (assoc (f_name f) got) as [v'|] eqn:A.
      + inversion Hfill; subst v'. destruct (assoc (f_name f) kw) as [vj|]; [|congruence].
        destruct GA as [v'' [f' [A' [Ff' [_ [Hv _]]]]]]. unfold find_field in Ff'. rewrite Ff in Ff'. inversion Ff'; subst f'.
        assert (v'' = v) by congruence. subst v''. exact Hv.
      + specialize (O3 f I). destruct (f_default f) as [d|]; [|discriminate]. unfold dflt_ok in O3.
        destruct (conv_default T (f_conv f) d) as [v0| |]; try discriminate. cbn in Hfill. inversion Hfill; subst v0.
        apply andb_true_iff in O3. destruct O3 as [_ O3]. apply vld_alone_pass in O3. apply O3. }
  exists fs. split.
  - rewrite bld_dict, FC. rewrite (conv_kw_intro T C _ _ (R2_kw_rel T C kw got G)). cbn [bind].
    rewrite (finish_intro T C got fs _ FS VL). rewrite (find_cls_name T c C FC). reflexivity.
  - rewrite rb_obj. constructor. intros k0. rewrite rb_fields_assoc by (rewrite FK; exact O1).
    specialize (GA k0). specialize (FA k0). fold (find_field C k0) in FA.
    destruct (assoc k0 kw) as [vj|] eqn:AK.
    + destruct GA as [v' [f [A [Ff [Hj [Hv [Hu Hc]]]]]]]. rewrite Ff in FA. destruct FA as [v [Av Hfill]].
      unfold fill in Hfill. destruct (find_field_name C k0 f Ff) as [Nf _]. rewrite Nf, A in Hfill. inversion Hfill; subst v.
      rewrite Av. assert (E : match v' with LUuid => None | x => Some (rb x) end = Some (rb v')) by (destruct v'; try reflexivity; contradiction).
      rewrite E. cbn [visible]. rewrite (jeqv_invisible k0 _ _ Hj). destruct (invisible k0 vj); constructor; exact Hj.
    + cbn [visible]. destruct (find_field C k0) as [f|] eqn:Ff.
      * destruct FA as [v [Av Hfill]]. rewrite Av. destruct (find_field_name C k0 f Ff) as [Nf If].
        unfold fill in Hfill. rewrite Nf, GA in Hfill. specialize (O3 f If).
        destruct (f_default f) as [d|]; [|discriminate]. unfold dflt_ok in O3.
        destruct (conv_default T (f_conv f) d) as [v0| |]; try discriminate. cbn in Hfill. inversion Hfill; subst v0.
        apply andb_true_iff in O3. destruct O3 as [O3 _]. rewrite Nf in O3.
        destruct v as [| | | | |[|]| | |]; cbn in O3; try discriminate; cbn; try constructor.
        rewrite O3. constructor.
      * rewrite FA. constructor.
Qed.

End ObjSound.

Section Main.
Variable defs : list (string * schema).
Variable T : tables.
Variable cp : list (string * callee).

Definition kind_const (key : string) (s : schema) : option string :=
  match s with
  | SNode _ props req _ _ _ _ _ _ =>
      if mem key req then match assoc key props with Some (SNode _ _ _ _ _ (Some c) _ _ _) => Some c | _ => None end else None
  | _ => None end.
Definition disp (d : dispatch) (k : string) : option string :=
  match assoc k (d_cases d) with Some c => Some c | None => d_default d end.

(* one (definition, callee) pair: a class against an object definition; a kind-dispatching function against an anyOf of
   object definitions that each pin the dispatch key to a constant the function maps to a compatible class *)
Definition cc (p : string * callee) : bool :=
  match assoc (fst p) defs with
  | None => false
  | Some s =>
      match snd p with
      | CClass c => oc defs T cp s c
      | CFun fn =>
          match assoc fn (t_funs T) with
          | None => false
          | Some d =>
              match s with
              | SNode None [] [] _ None None (Some alts) None None =>
                  forallb (fun a => let a' := resolve1 defs a in
                                    match kind_const (d_key d) a' with
                                    | None => false
                                    | Some k => match disp d k with Some c => oc defs T cp a' c | None => false end end) alts
              | _ => false end
          end
      end
  end.
Definition compat : bool := forallb cc cp.

Lemma oc_obj k s c j : oc defs T cp s c = true -> jsv defs (S k) s j = true -> exists kw, j = JObj kw.
Proof.
  intros O V. unfold oc in O.
  destruct s as [|[[|ty [|]]|] props req [|] [|] [|] [|] [|] extra]; try discriminate; destruct ty; try discriminate.
  rewrite jsv_S in V. cbn [jsv_step] in V. rewrite !andb_true_iff in V. destruct V as [[[[[V _] _] _] _] _].
  destruct j; cbn in V; try discriminate. eauto.
Qed.

Lemma kind_const_sound key s kc k kw : kind_const key s = Some kc -> jsv defs (S k) s (JObj kw) = true -> assoc key kw = Some (JStr kc).
Proof.
  intros K V. destruct s as [|ty props req addl enum const anyof items extra]; [discriminate|]. cbn in K.
  destruct (mem key req) eqn:M; [|discriminate].
  destruct (assoc key props) as [[|? ? ? ? ? [c|] ? ? ?]|] eqn:A; try discriminate. inversion K; subst c.
  rewrite jsv_S in V. cbn [jsv_step] in V. rewrite !andb_true_iff in V. destruct V as [_ [Vr Vp]].
  rewrite forallb_forall in Vr, Vp. apply mem_in in M. specialize (Vr _ M). apply mem_keys_assoc in Vr. destruct Vr as [vk Vk].
  specialize (Vp (key, vk) (assoc_in _ _ _ Vk)). cbn in Vp. rewrite A in Vp.
  destruct k; [discriminate|]. rewrite jsv_S in Vp. cbn [jsv_step] in Vp. rewrite !andb_true_iff in Vp.
  destruct Vp as [[[[[_ _] Vc] _] _] _]. destruct vk; cbn in Vc; try discriminate. apply String.eqb_eq in Vc. subst. exact Vk.
Qed.

Lemma disp_sound d kc c kw : disp d kc = Some c -> assoc (d_key d) kw = Some (LStr kc) -> dispatch_cls d kw = Ok c.
Proof.
  unfold disp, dispatch_cls. intros D A. rewrite A. destruct (assoc kc (d_cases d)); [inversion D; reflexivity|]. rewrite D. reflexivity.
Qed.

Theorem compat_sound : compat = true -> forall n, Pn defs T cp n.
Proof.
  intros CO. unfold compat in CO. rewrite forallb_forall in CO.
  induction n as [|n IH]; intros r ce j I W V; [discriminate|].
  specialize (CO (r, ce) I). unfold cc in CO. cbn [fst snd] in CO.
  rewrite jsv_S in V. cbn [jsv_step] in V. destruct (assoc r defs) as [s|]; [|discriminate].
  destruct ce as [c|fn].
  - destruct n; [discriminate|]. destruct (oc_obj n s c j CO V) as [kw ->].
    assert (P' : Pn defs T cp n) by (eapply Pn_down; [|exact IH]; lia).
    destruct (oc_sound defs T cp n s c kw P' CO W V) as [fs [Hb Hj]].
    exists kw, (LObj c fs). rewrite embed_obj. cbn [call]. repeat split; auto. exists c, fs. split; [reflexivity|]. intros c0 [= ->]. reflexivity.
  - destruct (assoc fn (t_funs T)) as [d|] eqn:Fd; [|discriminate].
    destruct s as [|[|] [|] [|] addl [|] [|] [alts|] [|] [|]]; try discriminate.
    destruct n; [discriminate|]. rewrite jsv_S in V. cbn [jsv_step] in V. rewrite !andb_true_iff in V. destruct V as [[[[[_ _] _] _] V] _].
    apply existsb_exists in V. destruct V as [a [Ia Va]]. rewrite forallb_forall in CO. specialize (CO a Ia). cbn zeta in CO.
    apply jsv_resolve1 in Va. destruct (kind_const (d_key d) (resolve1 defs a)) as [kc|] eqn:K; [|discriminate].
    destruct (disp d kc) as [c|] eqn:D; [|discriminate].
    destruct n; [discriminate|]. destruct (oc_obj n _ c j CO Va) as [kw ->].
    assert (P' : Pn defs T cp n) by (eapply Pn_down; [|exact IH]; lia).
    destruct (oc_sound defs T cp n _ c kw P' CO W Va) as [fs [Hb Hj]].
    pose proof (kind_const_sound _ _ _ _ _ K Va) as Ak.
    exists kw, (LObj c fs). rewrite embed_obj. cbn [call]. rewrite Fd.
    rewrite (disp_sound d kc c (embed_kw kw) D) by (unfold embed_kw; rewrite assoc_map_snd, Ak; reflexivity).
    cbn [bind]. repeat split; auto. exists c, fs. split; [reflexivity|]. discriminate.
Qed.

(* every document valid for definition r is loaded by the root class, and reads back as the document *)
Theorem load_readback_generic r : compat = true -> In (r, CClass (t_root T)) cp ->
  forall d, jwf d = true -> valid defs (SRef r) d -> exists m, load T d = Ok m /\ jeqv (rb m) d.
Proof.
  intros CO I d W [n V]. destruct (compat_sound CO n r _ d I W V) as [kw [m [-> [Hc [Hj _]]]]].
  exists m. split; [exact Hc | exact Hj].
Qed.

End Main.

Definition is_uuid (c : conv) : bool := match c with KUuid => true | _ => false end.

Section Eq.
Variable T : tables.

(* unfolding of the nested fixes of py_eq *)
Definition eq_list : list lv -> list lv -> res bool :=
  fix go (la lb : list lv) : res bool :=
    match la, lb with
    | x :: r, y :: s => do t <- py_eq T x y; if t then go r s else Ok false
    | _, _ => Ok true end.
Definition eq_dict (mb : list (string * lv)) : list (string * lv) -> res bool :=
  fix go (ma : list (string * lv)) : res bool :=
    match ma with
    | [] => Ok true
    | (k, x) :: r => match assoc k mb with None => Ok false | Some y => do t <- py_eq T x y; if t then go r else Ok false end
    end.
Definition eq_rs (fb : list (string * lv)) : list (string * lv) -> list (string * res bool) :=
  fix go (fa : list (string * lv)) : list (string * res bool) :=
    match fa with
    | [] => []
    | (k, va) :: r => (k, match assoc k fb with Some vb => py_eq T va vb | None => Err "AttributeError" end) :: go r end.
Definition obj_other (cb : string) : res bool :=
  match find_cls T cb with Some C => match c_eq C with Some _ => Ok false | None => Err "unmodelled:attrs-generated-eq" end | None => Err "NameError" end.

Lemma py_eq_list la lb : py_eq T (LList la) (LList lb) = if Nat.eqb (length la) (length lb) then eq_list la lb else Ok false.
Proof. reflexivity. Qed.
Lemma py_eq_dict ma mb : py_eq T (LDict ma) (LDict mb) = if Nat.eqb (length ma) (length mb) then eq_dict mb ma else Ok false.
Proof. reflexivity. Qed.
Lemma py_eq_obj ca fa b :
  py_eq T (LObj ca fa) b =
  match find_cls T ca with
  | None => Err "NameError"
  | Some C => match c_eq C with
              | None => Err "unmodelled:attrs-generated-eq"
              | Some e => match b with
                          | LObj cb fb => if String.eqb cb (e_guard e) then
                                            match e_form e with
                                            | EConj => conj_of (e_attrs e) (eq_rs fb fa)
                                            | ETuple => if all_present (e_attrs e) (eq_rs fb fa) fb then conj_of (e_attrs e) (eq_rs fb fa) else Err "AttributeError" end
                                          else Ok false
                          | _ => Ok false end end end.
Proof. reflexivity. Qed.
Lemma py_eq_raw_obj a cb fb : (forall c f, a <> LObj c f) -> py_eq T a (LObj cb fb) = obj_other cb.
Proof. intros H. destruct a; try reflexivity. exfalso. eapply H. reflexivity. Qed.

Lemma eq_rs_assoc fb fa k : assoc k (eq_rs fb fa) =
  match assoc k fa with Some va => Some (match assoc k fb with Some vb => py_eq T va vb | None => Err "AttributeError" end) | None => None end.
Proof.
  induction fa as [|[k' v] r IH]; [reflexivity|]. cbn [eq_rs]. fold (eq_rs fb). rewrite !assoc_cons.
  destruct (String.eqb_spec k' k) as [->|N]; [reflexivity | exact IH].
Qed.

(* ---------- well-formed loaded values ---------- *)
Inductive wfv : lv -> Prop :=
| W_none : wfv LNone | W_bool b : wfv (LBool b) | W_int z : wfv (LInt z) | W_flt n d : wfv (LFlt n d) | W_str s : wfv (LStr s)
| W_list l : Forall wfv l -> wfv (LList l)
| W_dict m : NoDup (keys m) -> Forall (fun kv => wfv (snd kv)) m -> wfv (LDict m)
| W_obj c fs C : find_cls T c = Some C ->
    Forall2 (fun f kv => fst kv = f_name f /\ ((is_uuid (f_conv f) = true -> snd kv = LUuid) /\ (is_uuid (f_conv f) = false -> wfv (snd kv)))) (c_fields C) fs ->
    wfv (LObj c fs).

Lemma wfv_keys C fs : Forall2 (fun f kv => fst kv = f_name f /\ ((is_uuid (f_conv f) = true -> snd kv = LUuid) /\ (is_uuid (f_conv f) = false -> wfv (snd kv)))) (c_fields C) fs ->
  keys fs = map f_name (c_fields C).
Proof. unfold keys. induction 1 as [|f kv r r' [E _] Hr IH]; [reflexivity|]. cbn. rewrite E, IH. reflexivity. Qed.

Lemma wfv_attr (fl : list field) fs a f :
  Forall2 (fun f kv => fst kv = f_name f /\ ((is_uuid (f_conv f) = true -> snd kv = LUuid) /\ (is_uuid (f_conv f) = false -> wfv (snd kv)))) fl fs ->
  find (fun g => String.eqb (f_name g) a) fl = Some f -> is_uuid (f_conv f) = false -> exists v, assoc a fs = Some v /\ wfv v.
Proof.
  induction 1 as [|g [k v] r r' [E Hv] Hr IH]; intros Ff NU; [discriminate|]. cbn in E. subst k. cbn [find] in Ff. rewrite assoc_cons.
  destruct (String.eqb_spec (f_name g) a) as [Ea|N].
  - inversion Ff; subst g. destruct Hv as [_ Hv]. eauto.
  - apply IH; assumption.
Qed.

(* classes that do not occur in a value *)
Fixpoint no_cls (xs : list string) (v : lv) : bool :=
  match v with
  | LList l => forallb (no_cls xs) l
  | LDict m => (fix go (m : list (string * lv)) := match m with [] => true | (_, x) :: r => no_cls xs x && go r end) m
  | LObj c fs => negb (mem c xs) && (fix go (m : list (string * lv)) := match m with [] => true | (_, x) :: r => no_cls xs x && go r end) fs
  | _ => true end.
Definition no_cls_kw (xs : list string) (m : list (string * lv)) : bool := forallb (fun kv => no_cls xs (snd kv)) m.
Lemma no_cls_dict xs m : no_cls xs (LDict m) = no_cls_kw xs m.
Proof. cbn. induction m as [|[k v] r IH]; [reflexivity|]. cbn. rewrite IH. reflexivity. Qed.
Lemma no_cls_obj xs c fs : no_cls xs (LObj c fs) = negb (mem c xs) && no_cls_kw xs fs.
Proof. cbn. f_equal. induction fs as [|[k v] r IH]; [reflexivity|]. cbn. rewrite IH. reflexivity. Qed.
Lemma no_cls_kw_assoc xs m k v : no_cls_kw xs m = true -> assoc k m = Some v -> no_cls xs v = true.
Proof. unfold no_cls_kw. rewrite forallb_forall. intros H A. apply (H (k, v)). apply assoc_in. exact A. Qed.

(* ---------- the checker for the translated __eq__ bodies ---------- *)
Variable xcls : list string.     (* classes whose __eq__ is a recorded finding: values containing them are excluded *)

Definition eq_cls_ok (C : cls) : bool :=
  nodupb (map f_name (c_fields C)) &&
  match c_eq C with
  | Some e => String.eqb (e_guard e) (c_name C) &&
              forallb (fun a => match find_field C a with Some f => negb (is_uuid (f_conv f)) | None => false end) (e_attrs e)
  | None => false end.
Definition eqs_ok : bool :=
  nodupb (map c_name (t_classes T)) && forallb (fun C => mem (c_name C) xcls || eq_cls_ok C) (t_classes T).

Lemma eqs_ok_cls c C : eqs_ok = true -> find_cls T c = Some C -> mem c xcls = false -> eq_cls_ok C = true.
Proof.
  unfold eqs_ok. rewrite andb_true_iff, forallb_forall. intros [_ H] F M. pose proof (find_cls_name T c C F) as N.
  unfold find_cls in F. apply find_some in F. destruct F as [I _]. specialize (H C I). rewrite N, M in H. exact H.
Qed.

Lemma conj_of_total attrs rs : (forall a, In a attrs -> exists r, assoc a rs = Some (Ok r)) -> exists r, conj_of attrs rs = Ok r.
Proof.
  unfold conj_of. induction attrs as [|a l IH]; intros H; [eauto|].
  destruct (H a (or_introl eq_refl)) as [r Hr]. rewrite Hr. cbn. destruct r; [|eauto]. apply IH. intros; apply H; right; assumption.
Qed.
Lemma conj_of_true attrs rs : (forall a, In a attrs -> assoc a rs = Some (Ok true)) -> conj_of attrs rs = Ok true.
Proof.
  unfold conj_of. induction attrs as [|a l IH]; intros H; [reflexivity|].
  rewrite (H a (or_introl eq_refl)). cbn. apply IH. intros; apply H; right; assumption.
Qed.
Lemma conj_of_true_inv attrs rs : conj_of attrs rs = Ok true -> forall a, In a attrs -> assoc a rs = Some (Ok true).
Proof.
  unfold conj_of. induction attrs as [|a l IH]; intros H x I; [destruct I|].
  destruct (assoc a rs) as [[[|]| |]|] eqn:A; cbn in H; try discriminate.
  destruct I as [<-|I]; [exact A | apply IH; assumption].
Qed.

Lemma obj_other_ok cb fb : eqs_ok = true -> wfv (LObj cb fb) -> no_cls xcls (LObj cb fb) = true -> obj_other cb = Ok false.
Proof.
  intros EO W N. inversion W as [| | | | | | |c fs C FC F2]; subst. rewrite no_cls_obj in N. apply andb_true_iff in N. destruct N as [N _].
  apply negb_true_iff in N. pose proof (eqs_ok_cls _ _ EO FC N) as CO. unfold eq_cls_ok in CO. apply andb_true_iff in CO. destruct CO as [_ CO].
  unfold obj_other. rewrite FC. destruct (c_eq C); [reflexivity | discriminate].
Qed.

(* comparing two loaded values never raises *)
Theorem py_eq_total : eqs_ok = true -> forall a, wfv a -> no_cls xcls a = true -> forall b, wfv b -> no_cls xcls b = true ->
  exists r, py_eq T a b = Ok r.
Proof.
  intros EO a. induction a using lv_ind'; intros Wa Na bb Wb Nb.
  1-5: destruct bb; try (eexists; reflexivity); rewrite py_eq_raw_obj by discriminate; rewrite (obj_other_ok _ _ EO Wb Nb); eauto.
  - (* list *)
    destruct bb; try (eexists; reflexivity).
    + rewrite py_eq_list. destruct (Nat.eqb (length l) (length l0)); [|eauto].
      inversion Wa as [| | | | |? Wl| |]; subst. inversion Wb as [| | | | |? Wl0| |]; subst. cbn in Na, Nb. rewrite forallb_forall in Na, Nb.
      rewrite Forall_forall in Wl, Wl0, H. clear Wa Wb. revert l0 Wl0 Nb.
      induction l as [|x r IH]; intros [|y s] Wl0 Nb; cbn; eauto.
      destruct (H x (or_introl eq_refl) (Wl x (or_introl eq_refl)) (Na x (or_introl eq_refl)) y (Wl0 y (or_introl eq_refl)) (Nb y (or_introl eq_refl))) as [t Ht].
      rewrite Ht. cbn. destruct t; [|eauto].
      apply IH; intros x0 I0; first [apply H; right; exact I0 | apply Na; right; exact I0 | apply Wl; right; exact I0 | apply Wl0; right; exact I0 | apply Nb; right; exact I0].
    + rewrite py_eq_raw_obj by discriminate. rewrite (obj_other_ok _ _ EO Wb Nb); eauto.
  - (* dict *)
    destruct bb; try (eexists; reflexivity).
    + rewrite py_eq_dict. destruct (Nat.eqb (length m) (length m0)); [|eauto].
      inversion Wa as [| | | | | |? ND Wm|]; subst. inversion Wb as [| | | | | |? ND0 Wm0|]; subst.
      rewrite no_cls_dict in Na, Nb. unfold no_cls_kw in Na. rewrite forallb_forall in Na. rewrite Forall_forall in Wm, Wm0, H. clear Wa Wb ND.
      induction m as [|[k x] r IH]; cbn; eauto. destruct (assoc k m0) as [y|] eqn:A; [|eauto].
      destruct (H (k, x) (or_introl eq_refl) (Wm _ (or_introl eq_refl)) (Na _ (or_introl eq_refl)) y (Wm0 _ (assoc_in _ _ _ A)) (no_cls_kw_assoc _ _ _ _ Nb A)) as [t Ht].
      cbn in Ht. rewrite Ht. cbn. destruct t; [|eauto].
      apply IH; intros x0 I0; first [apply H; right; exact I0 | apply Na; right; exact I0 | apply Wm; right; exact I0].
    + rewrite py_eq_raw_obj by discriminate. rewrite (obj_other_ok _ _ EO Wb Nb); eauto.
  - (* object *)
    rewrite py_eq_obj. inversion Wa as [| | | | | | |? ? C FC F2]; subst. rewrite FC.
    rewrite no_cls_obj in Na. apply andb_true_iff in Na. destruct Na as [Nc Nf]. apply negb_true_iff in Nc.
    pose proof (eqs_ok_cls _ _ EO FC Nc) as CO. unfold eq_cls_ok in CO. apply andb_true_iff in CO. destruct CO as [_ CO].
    destruct (c_eq C) as [e|]; [|discriminate]. apply andb_true_iff in CO. destruct CO as [G CA]. apply String.eqb_eq in G.
    destruct bb as [| | | | | | |cb fb|]; eauto. destruct (String.eqb_spec cb (e_guard e)) as [Eg|]; [|eauto].
    rewrite G, (find_cls_name T c C FC) in Eg. subst cb.
    inversion Wb as [| | | | | | |? ? C' FC' F2']; subst. rewrite FC in FC'. inversion FC'; subst C'.
    rewrite no_cls_obj in Nb. apply andb_true_iff in Nb. destruct Nb as [_ Nfb].
    assert (AT : forall a, In a (e_attrs e) -> exists r, assoc a (eq_rs fb fs) = Some (Ok r)).
    { intros a Ia. rewrite forallb_forall in CA. specialize (CA a Ia). destruct (find_field C a) as [f|] eqn:Ff; [|discriminate].
      apply negb_true_iff in CA. destruct (wfv_attr _ _ a f F2 Ff CA) as [va [Ava Wva]]. destruct (wfv_attr _ _ a f F2' Ff CA) as [vb [Avb Wvb]].
      rewrite eq_rs_assoc, Ava, Avb. rewrite Forall_forall in H.
      destruct (H (a, va) (assoc_in _ _ _ Ava) Wva (no_cls_kw_assoc _ _ _ _ Nf Ava) vb Wvb (no_cls_kw_assoc _ _ _ _ Nfb Avb)) as [r Hr].
      cbn in Hr. rewrite Hr. eauto. }
    destruct (e_form e); [apply conj_of_total; exact AT|].
    assert (AP : all_present (e_attrs e) (eq_rs fb fs) fb = true).
    { unfold all_present. apply forallb_forall. intros a Ia. destruct (AT a Ia) as [r Hr]. rewrite Hr.
      rewrite forallb_forall in CA. specialize (CA a Ia). destruct (find_field C a) as [f|] eqn:Ff; [|discriminate].
      apply negb_true_iff in CA. destruct (wfv_attr _ _ a f F2' Ff CA) as [vb [Avb _]]. rewrite Avb. reflexivity. }
    rewrite AP. apply conj_of_total. exact AT.
  - (* a bare uuid *)
    inversion Wa.
Qed.

End Eq.

Section Eq2.
Variable T : tables.
Variable xcls : list string.

Lemma in_keys_assoc_nodup {A} (m : list (string * A)) k v : NoDup (keys m) -> In (k, v) m -> assoc k m = Some v.
Proof. intros. apply in_assoc_nodup; assumption. Qed.

(* two loads of the same document compare equal: a loaded value equals itself (no object identity involved) *)
Theorem py_eq_refl : eqs_ok T xcls = true -> forall a, wfv T a -> no_cls xcls a = true -> py_eq T a a = Ok true.
Proof.
  intros EO a. induction a using lv_ind'; intros Wa Na; try reflexivity.
  - cbn. rewrite Z.eqb_refl. reflexivity.
  - cbn. rewrite Z.eqb_refl. reflexivity.
  - cbn. rewrite Z.eqb_refl. reflexivity.
  - cbn. unfold str_eqb. rewrite String.eqb_refl. reflexivity.
  - rewrite py_eq_list, Nat.eqb_refl. inversion Wa as [| | | | |? Wl| |]; subst. cbn in Na. rewrite forallb_forall in Na.
    rewrite Forall_forall in Wl, H. clear Wa. induction l as [|x r IH]; [reflexivity|]. cbn.
    rewrite (H x (or_introl eq_refl) (Wl x (or_introl eq_refl)) (Na x (or_introl eq_refl))). cbn.
    apply IH; intros x0 I0; first [apply H; right; exact I0 | apply Na; right; exact I0 | apply Wl; right; exact I0].
  - rewrite py_eq_dict, Nat.eqb_refl. inversion Wa as [| | | | | |? ND Wm|]; subst. rewrite no_cls_dict in Na. unfold no_cls_kw in Na.
    rewrite forallb_forall in Na. rewrite Forall_forall in Wm, H. clear Wa.
    assert (G : forall m', (forall kv, In kv m' -> In kv m) -> eq_dict T m m' = Ok true).
    { induction m' as [|[k x] r IH]; intros S; [reflexivity|]. cbn.
      rewrite (in_keys_assoc_nodup m k x ND (S _ (or_introl eq_refl))).
      pose proof (H (k, x) (S _ (or_introl eq_refl)) (Wm _ (S _ (or_introl eq_refl))) (Na _ (S _ (or_introl eq_refl)))) as E. cbn in E. rewrite E. cbn.
      apply IH. intros; apply S; right; assumption. }
    apply G. auto.
  - rewrite py_eq_obj. inversion Wa as [| | | | | | |? ? C FC F2]; subst. rewrite FC.
    rewrite no_cls_obj in Na. apply andb_true_iff in Na. destruct Na as [Nc Nf]. apply negb_true_iff in Nc.
    pose proof (eqs_ok_cls _ _ _ _ EO FC Nc) as CO. unfold eq_cls_ok in CO. apply andb_true_iff in CO. destruct CO as [_ CO].
    destruct (c_eq C) as [e|]; [|discriminate]. apply andb_true_iff in CO. destruct CO as [G CA]. apply String.eqb_eq in G.
    rewrite G, (find_cls_name T c C FC), String.eqb_refl.
    assert (AT : forall a, In a (e_attrs e) -> assoc a (eq_rs T fs fs) = Some (Ok true) /\ exists v, assoc a fs = Some v).
    { intros a Ia. rewrite forallb_forall in CA. specialize (CA a Ia). destruct (find_field C a) as [f|] eqn:Ff; [|discriminate].
      apply negb_true_iff in CA. destruct (wfv_attr _ _ _ a f F2 Ff CA) as [va [Ava Wva]].
      rewrite eq_rs_assoc, Ava. rewrite Forall_forall in H.
      pose proof (H (a, va) (assoc_in _ _ _ Ava) Wva (no_cls_kw_assoc _ _ _ _ Nf Ava)) as E. cbn in E. rewrite E. eauto. }
    destruct (e_form e); [apply conj_of_true; intros; apply AT; assumption|].
    assert (AP : all_present (e_attrs e) (eq_rs T fs fs) fs = true).
    { unfold all_present. apply forallb_forall. intros a Ia. destruct (AT a Ia) as [E1 [v E2]]. rewrite E1, E2. reflexivity. }
    rewrite AP. apply conj_of_true; intros; apply AT; assumption.
  - inversion Wa.
Qed.

(* ---------- structural skeleton (specification side) ---------- *)
Variable SK : list (string * list string).     (* class -> the attributes that make up its structure *)

Definition num_eq (a b : lv) : bool :=
  match num_of a, num_of b with Some (n, d), Some (n', d') => (n * d' =? n' * d)%Z | _, _ => false end.
(* "same structure": same classes, same skeleton attributes (recursively), lists in order, numbers as numbers *)
Fixpoint skeq (a b : lv) {struct a} : bool :=
  match a with
  | LObj ca fa =>
      match b with
      | LObj cb fb =>
          String.eqb ca cb &&
          (fix go (fa : list (string * lv)) : bool :=
             match fa with
             | [] => true
             | (k, va) :: r =>
                 (if mem k (match assoc ca SK with Some l => l | None => [] end)
                  then match assoc k fb with Some vb => skeq va vb | None => false end else true) && go r end) fa
      | _ => false end
  | LList la =>
      match b with
      | LList lb => Nat.eqb (length la) (length lb) &&
                    (fix go (la lb : list lv) : bool := match la, lb with x :: r, y :: s => skeq x y && go r s | _, _ => true end) la lb
      | _ => false end
  | LDict ma =>
      match b with
      | LDict mb => Nat.eqb (length ma) (length mb) &&
                    (fix go (ma : list (string * lv)) : bool :=
                       match ma with [] => true
                       | (k, x) :: r => match assoc k mb with Some y => skeq x y | None => false end && go r end) ma
      | _ => false end
  | LUuid => false
  | LNone => match b with LNone => true | _ => false end
  | LStr x => match b with LStr y => str_eqb x y | _ => false end
  | _ => num_eq a b
  end.

Definition sk_of (c : string) : list string := match assoc c SK with Some l => l | None => [] end.
Definition sk_list : list lv -> list lv -> bool :=
  fix go (la lb : list lv) : bool := match la, lb with x :: r, y :: s => skeq x y && go r s | _, _ => true end.
Definition sk_dict (mb : list (string * lv)) : list (string * lv) -> bool :=
  fix go (ma : list (string * lv)) : bool :=
    match ma with [] => true | (k, x) :: r => match assoc k mb with Some y => skeq x y | None => false end && go r end.
Definition sk_obj (ca : string) (fb : list (string * lv)) : list (string * lv) -> bool :=
  fix go (fa : list (string * lv)) : bool :=
    match fa with
    | [] => true
    | (k, va) :: r => (if mem k (sk_of ca) then match assoc k fb with Some vb => skeq va vb | None => false end else true) && go r end.
Lemma skeq_list la lb : skeq (LList la) (LList lb) = Nat.eqb (length la) (length lb) && sk_list la lb.
Proof. reflexivity. Qed.
Lemma skeq_dict ma mb : skeq (LDict ma) (LDict mb) = Nat.eqb (length ma) (length mb) && sk_dict mb ma.
Proof. reflexivity. Qed.
Lemma skeq_obj ca fa cb fb : skeq (LObj ca fa) (LObj cb fb) = String.eqb ca cb && sk_obj ca fb fa.
Proof. reflexivity. Qed.

(* every class compares at least its skeleton attributes *)
Definition eq_covers : bool :=
  forallb (fun C => mem (c_name C) xcls ||
                    match c_eq C with Some e => subset (sk_of (c_name C)) (e_attrs e) | None => false end) (t_classes T).

Lemma py_eq_true_not_obj a cb fb : (forall c f, a <> LObj c f) -> py_eq T a (LObj cb fb) = Ok true -> False.
Proof.
  intros H E. rewrite py_eq_raw_obj in E by exact H. unfold obj_other in E.
  destruct (find_cls T cb) as [C|]; [|discriminate]. destruct (c_eq C); discriminate.
Qed.

(* structurally different loads compare unequal (contrapositive: == True implies the same skeleton) *)
Theorem py_eq_skeleton : eqs_ok T xcls = true -> eq_covers = true ->
  forall a, wfv T a -> no_cls xcls a = true -> forall b, wfv T b -> no_cls xcls b = true -> py_eq T a b = Ok true -> skeq a b = true.
Proof.
  intros EO EC a. induction a using lv_ind'; intros Wa Na bb Wb Nb E.
  - destruct bb; try discriminate; [reflexivity|]. exfalso. eapply py_eq_true_not_obj; [|exact E]. discriminate.
  - destruct bb; try (exfalso; eapply py_eq_true_not_obj; [|exact E]; discriminate); cbn in E |- *; unfold num_eq; cbn; congruence.
  - destruct bb; try (exfalso; eapply py_eq_true_not_obj; [|exact E]; discriminate); cbn in E |- *; unfold num_eq; cbn; congruence.
  - destruct bb; try (exfalso; eapply py_eq_true_not_obj; [|exact E]; discriminate); cbn in E |- *; unfold num_eq; cbn; congruence.
  - destruct bb; try (exfalso; eapply py_eq_true_not_obj; [|exact E]; discriminate); cbn in E |- *; congruence.
  - destruct bb; try (exfalso; eapply py_eq_true_not_obj; [|exact E]; discriminate); try discriminate.
    rewrite py_eq_list in E. rewrite skeq_list. destruct (Nat.eqb (length l) (length l0)); [|discriminate]. cbn [andb].
    inversion Wa as [| | | | |? Wl| |]; subst. inversion Wb as [| | | | |? Wl0| |]; subst. cbn in Na, Nb. rewrite forallb_forall in Na, Nb.
    rewrite Forall_forall in Wl, Wl0, H. clear Wa Wb. revert l0 Wl0 Nb E.
    induction l as [|x r IH]; intros [|y s] Wl0 Nb E; try reflexivity. cbn in E |- *.
    destruct (py_eq T x y) as [[|]| |] eqn:Exy; cbn in E; try discriminate.
    rewrite (H x (or_introl eq_refl) (Wl x (or_introl eq_refl)) (Na x (or_introl eq_refl)) y (Wl0 y (or_introl eq_refl)) (Nb y (or_introl eq_refl)) Exy). cbn.
    apply IH; try exact E; intros x0 I0; first [apply H; right; exact I0 | apply Na; right; exact I0 | apply Wl; right; exact I0 | apply Wl0; right; exact I0 | apply Nb; right; exact I0].
  - destruct bb; try (exfalso; eapply py_eq_true_not_obj; [|exact E]; discriminate); try discriminate.
    rewrite py_eq_dict in E. rewrite skeq_dict. destruct (Nat.eqb (length m) (length m0)); [|discriminate]. cbn [andb].
    inversion Wa as [| | | | | |? ND Wm|]; subst. inversion Wb as [| | | | | |? ND0 Wm0|]; subst.
    rewrite no_cls_dict in Na, Nb. unfold no_cls_kw in Na. rewrite forallb_forall in Na. rewrite Forall_forall in Wm, Wm0, H. clear Wa Wb ND.
    induction m as [|[k x] r IH]; [reflexivity|]. cbn in E |- *. destruct (assoc k m0) as [y|] eqn:A; [|discriminate].
    destruct (py_eq T x y) as [[|]| |] eqn:Exy; cbn in E; try discriminate.
    pose proof (H (k, x) (or_introl eq_refl) (Wm _ (or_introl eq_refl)) (Na _ (or_introl eq_refl)) y (Wm0 _ (assoc_in _ _ _ A)) (no_cls_kw_assoc _ _ _ _ Nb A) Exy) as S.
    cbn in S. rewrite S. cbn.
    apply IH; try exact E; intros x0 I0; first [apply H; right; exact I0 | apply Na; right; exact I0 | apply Wm; right; exact I0].
  - rewrite py_eq_obj in E. inversion Wa as [| | | | | | |? ? C FC F2]; subst. rewrite FC in E.
    rewrite no_cls_obj in Na. apply andb_true_iff in Na. destruct Na as [Nc Nf]. pose proof Nc as Nc'. apply negb_true_iff in Nc.
    pose proof (eqs_ok_cls _ _ _ _ EO FC Nc) as CO. unfold eq_cls_ok in CO. apply andb_true_iff in CO. destruct CO as [NDf CO]. apply nodupb_NoDup in NDf.
    unfold eq_covers in EC. rewrite forallb_forall in EC. pose proof (find_cls_name T c C FC) as NC.
    assert (IC : In C (t_classes T)) by (unfold find_cls in FC; apply find_some in FC; apply FC). specialize (EC C IC). rewrite NC, Nc in EC. cbn in EC.
    destruct (c_eq C) as [e|]; [|discriminate]. apply andb_true_iff in CO. destruct CO as [G CA]. apply String.eqb_eq in G.
    destruct bb as [| | | | | | |cb fb|]; try discriminate. destruct (String.eqb_spec cb (e_guard e)) as [Eg|]; [|discriminate].
    rewrite G, NC in Eg. subst cb. rewrite skeq_obj, String.eqb_refl. cbn [andb].
    assert (E' : conj_of (e_attrs e) (eq_rs T fb fs) = Ok true).
    { destruct (e_form e); [exact E|]. destruct (all_present (e_attrs e) (eq_rs T fb fs) fb); [exact E | discriminate]. }
    pose proof (conj_of_true_inv _ _ E') as AT.
    rewrite no_cls_obj in Nb. apply andb_true_iff in Nb. destruct Nb as [_ Nfb].
    inversion Wb as [| | | | | | |? ? C' FC' F2']; subst. rewrite FC in FC'. inversion FC'; subst C'.
    assert (NDk : NoDup (keys fs)) by (rewrite (wfv_keys T C fs F2); exact NDf).
    rewrite Forall_forall in H. unfold subset in EC. rewrite forallb_forall in EC.
    assert (GG : forall fa', (forall kv, In kv fa' -> In kv fs) -> sk_obj (c_name C) fb fa' = true).
    { induction fa' as [|[k va] r IH]; intros S; [reflexivity|]. cbn [sk_obj]. fold (sk_obj (c_name C) fb).
      rewrite IH by (intros; apply S; right; assumption). rewrite andb_true_r.
      destruct (mem k (sk_of (c_name C))) eqn:MK; [|reflexivity]. apply mem_in in MK. specialize (EC k MK). apply mem_in in EC.
      specialize (AT k EC). rewrite eq_rs_assoc in AT. pose proof (S _ (or_introl eq_refl)) as Ik.
      rewrite (in_keys_assoc_nodup fs k va NDk Ik) in AT. destruct (assoc k fb) as [vb|] eqn:Ab; [|discriminate]. inversion AT as [Ev].
      rewrite forallb_forall in CA. specialize (CA k EC). destruct (find_field C k) as [f|] eqn:Ff; [|discriminate]. apply negb_true_iff in CA.
      destruct (wfv_attr _ _ _ k f F2 Ff CA) as [va' [Ava Wva]]. destruct (wfv_attr _ _ _ k f F2' Ff CA) as [vb' [Avb Wvb]].
      rewrite (in_keys_assoc_nodup fs k va NDk Ik) in Ava. inversion Ava; subst va'. rewrite Ab in Avb. inversion Avb; subst vb'.
      apply (H (k, va) Ik Wva (no_cls_kw_assoc _ _ _ _ Nf (in_keys_assoc_nodup fs k va NDk Ik)) vb Wvb (no_cls_kw_assoc _ _ _ _ Nfb Ab) Ev). }
    apply GG. auto.
  - inversion Wa.
Qed.

End Eq2.

Section WF.
Variable T : tables.

(* plain Python data as json.load produces it *)
Inductive raw : lv -> Prop :=
| R_none : raw LNone | R_bool b : raw (LBool b) | R_int z : raw (LInt z) | R_flt n d : raw (LFlt n d) | R_str s : raw (LStr s)
| R_list l : Forall raw l -> raw (LList l)
| R_dict m : NoDup (keys m) -> Forall (fun kv => raw (snd kv)) m -> raw (LDict m).

Lemma raw_wfv v : raw v -> wfv T v.
Proof.
  induction v using lv_ind'; intros R; inversion R; subst; try constructor; auto.
  - rewrite Forall_forall in *. auto.
  - rewrite Forall_forall in *. auto.
Qed.

Lemma embed_raw j : jwf j = true -> raw (embed j).
Proof.
  induction j using json_ind'; intros W; try (constructor; fail).
  - rewrite embed_arr. constructor. cbn in W. rewrite forallb_forall in W. rewrite Forall_forall in *. intros x I.
    apply in_map_iff in I. destruct I as [y [<- Iy]]. auto.
  - rewrite embed_obj. rewrite jwf_obj in W. apply andb_true_iff in W. destruct W as [W1 W2]. constructor.
    + unfold embed_kw. rewrite keys_map_snd. apply nodupb_NoDup. exact W1.
    + unfold jwf_kw in W2. rewrite forallb_forall in W2. rewrite Forall_forall in *. intros kv I. unfold embed_kw in I.
      apply in_map_iff in I. destruct I as [y [<- Iy]]. cbn. auto.
Qed.

Definition tables_ok : bool := forallb (fun C => nodupb (map f_name (c_fields C))) (t_classes T).

Definition cres (k : conv) (v' : lv) : Prop := (is_uuid k = true -> v' = LUuid) /\ (is_uuid k = false -> wfv T v').
Lemma cres_wfv k v : is_uuid k = false -> wfv T v -> cres k v.
Proof. intros H W. split; [congruence | auto]. Qed.

Lemma conv_default_cres k d v : conv_default T k d = Ok v -> cres k v.
Proof.
  unfold conv_default. destruct k as [|ce|ce|ce|fn|]; destruct d; cbn; try discriminate; intros [= <-].
  all: try (apply cres_wfv; [reflexivity | repeat constructor]).
  all: split; [intros _; reflexivity | discriminate].
Qed.

Lemma got_origin C kw got k v' : Forall2 (kw_rel T C) kw got -> assoc k got = Some v' ->
  exists x f, In (k, x) kw /\ find_field C k = Some f /\ convert T (bld T) (f_conv f) x = Ok v'.
Proof.
  induction 1 as [|[k1 x] [k2 y] r r' [E [f [Ff Hc]]] Hr IH]; intros A; [discriminate|]. cbn in *. subst k2.
  rewrite assoc_cons in A. destruct (String.eqb_spec k1 k) as [->|N].
  - inversion A; subst y. exists x, f. auto.
  - destruct (IH A) as [x0 [f0 [I0 R0]]]. exists x0, f0. auto.
Qed.

Lemma call_bld ce v v' : call T (bld T) ce v = Ok v' -> exists c, bld T c v = Ok v'.
Proof.
  destruct ce as [c|fn]; cbn; [eauto|]. destruct (assoc fn (t_funs T)) as [d|]; [|discriminate].
  destruct v; try discriminate. destruct (dispatch_cls d m) as [c| |]; cbn; try discriminate. eauto.
Qed.

Lemma bld_convert_wfv : tables_ok = true -> forall v, raw v ->
  (forall c m, bld T c v = Ok m -> wfv T m) /\ (forall k v', convert T (bld T) k v = Ok v' -> cres k v').
Proof.
  intros TO v. induction v using lv_ind'; intros R.
  1-5: split; [intros c m E; discriminate|]; intros k v' E; destruct k as [|ce|ce|ce|fn|]; cbn in E; try discriminate; inversion E; subst;
       try (apply cres_wfv; [reflexivity | apply raw_wfv; exact R]); try (split; [intros _; reflexivity | discriminate]).
  - (* a string under a list converter: iterated character by character *)
    apply cres_wfv; [reflexivity|]. constructor. apply Forall_forall. intros x I. apply in_map_iff in I. destruct I as [ch [<- _]]. constructor.
  - (* list *)
    split; [intros c m E; discriminate|]. inversion R as [| | | | |? Rl|]; subst. rewrite Forall_forall in Rl, H.
    intros k v' E; destruct k as [|ce|ce|ce|fn|].
    + cbn in E. inversion E; subst. apply cres_wfv; [reflexivity | apply raw_wfv; exact R].
    + cbn in E. inversion E; subst. apply cres_wfv; [reflexivity | apply raw_wfv; exact R].
    + rewrite convert_list in E. destruct (conv_list T (bld T) ce l) as [l'| |] eqn:CL; cbn in E; try discriminate. inversion E; subst v'.
      apply cres_wfv; [reflexivity|]. constructor. apply conv_list_elim in CL. clear E R.
      induction CL as [|e e' r r' He Hr IH]; constructor.
      * unfold conv_elem in He. destruct (H e (or_introl eq_refl) (Rl e (or_introl eq_refl))) as [Hb _].
        destruct e; try (inversion He; subst; apply raw_wfv; apply Rl; left; reflexivity).
        apply call_bld in He. destruct He as [c He]. eapply Hb; eauto.
      * apply IH; intros x0 I0; first [apply Rl; right; exact I0 | apply H; right; exact I0].
    + cbn in E. discriminate.
    + cbn in E. discriminate.
    + cbn in E. inversion E; subst. split; [intros _; reflexivity | discriminate].
  - (* dict *)
    inversion R as [| | | | | |? ND Rm]; subst. rewrite Forall_forall in Rm, H.
    assert (HB : forall c m0, bld T c (LDict m) = Ok m0 -> wfv T m0).
    { intros c m0 E. rewrite bld_dict in E. destruct (find_cls T c) as [C|] eqn:FC; [|discriminate].
      destruct (conv_kw T C m) as [got| |] eqn:G; cbn in E; try discriminate. apply finish_elim in E. destruct E as [fs [FS ->]].
      apply conv_kw_elim in G. apply mapM_ok in FS.
      assert (NDf : NoDup (map f_name (c_fields C))).
      { unfold tables_ok in TO. rewrite forallb_forall in TO. apply nodupb_NoDup. apply TO. unfold find_cls in FC. apply find_some in FC. apply FC. }
      apply (W_obj T _ fs C); [rewrite (find_cls_name T c C FC); exact FC|].
      assert (HF : forall f, In f (c_fields C) -> forall kv, fill T got f = Ok kv -> fst kv = f_name f /\ cres (f_conv f) (snd kv)).
      { intros f If kv Hfill. split; [eapply fill_fst; eauto|]. unfold fill in Hfill. destruct (assoc (f_name f) got) as [v'|] eqn:A.
        - inversion Hfill; subst kv. cbn. destruct (got_origin C m got _ _ G A) as [x [f' [Ix [Ff' Hc]]]].
          unfold find_field in Ff'. rewrite (find_nodup _ f NDf If) in Ff'. inversion Ff'; subst f'.
          destruct (H (f_name f, x) Ix (Rm _ Ix)) as [_ Hcv]. cbn in Hcv. eapply Hcv; eauto.
        - destruct (f_default f) as [d|]; [|discriminate]. destruct (conv_default T (f_conv f) d) as [v0| |] eqn:E0; cbn in Hfill; try discriminate.
          inversion Hfill; subst kv. cbn. eapply conv_default_cres; eauto. }
      clear G. induction FS as [|f kv r r' Hf Hr IH]; constructor.
      - destruct (HF f (or_introl eq_refl) kv Hf) as [E1 [E2 E3]]. auto.
      - apply IH; [inversion NDf; assumption | intros f0 I0; apply HF; right; exact I0]. }
    split; [exact HB|]. intros k v' E. destruct k as [|ce|ce|ce|fn|]; cbn [convert] in E.
    + inversion E; subst. apply cres_wfv; [reflexivity | apply raw_wfv; exact R].
    + apply call_bld in E. destruct E as [c E]. apply cres_wfv; [reflexivity | eapply HB; eauto].
    + inversion E; subst. apply cres_wfv; [reflexivity|]. constructor. apply Forall_forall. intros x I. apply in_map_iff in I. destruct I as [s [<- _]]. constructor.
    + apply call_bld in E. destruct E as [c E]. apply cres_wfv; [reflexivity | eapply HB; eauto].
    + apply call_bld in E. destruct E as [c E]. apply cres_wfv; [reflexivity | eapply HB; eauto].
    + inversion E; subst. split; [intros _; reflexivity | discriminate].
  - inversion R.
  - inversion R.
Qed.

Theorem load_wfv : tables_ok = true -> forall d m, jwf d = true -> load T d = Ok m -> wfv T m.
Proof. intros TO d m W E. eapply (proj1 (bld_convert_wfv TO (embed d) (embed_raw d W))); eauto. Qed.

End WF.

Section Merge.
Variable T : tables.

Definition field_list (v : lv) (f : string) : list lv := match getattr v f with Ok (LList l) => l | _ => [] end.

Lemma assoc_set_field fs f v g : assoc g (set_field fs f v) =
  if String.eqb g f then match assoc f fs with Some _ => Some v | None => None end else assoc g fs.
Proof.
  unfold set_field. induction fs as [|[k x] r IH].
  - cbn. destruct (String.eqb g f); reflexivity.
  - cbn [map fst]. rewrite (assoc_cons f k x r). destruct (String.eqb k f) eqn:Ekf; rewrite !assoc_cons.
    + apply String.eqb_eq in Ekf. subst k. destruct (String.eqb f g) eqn:Efg.
      * apply String.eqb_eq in Efg. subst g. rewrite String.eqb_refl. reflexivity.
      * rewrite IH. rewrite String.eqb_sym, Efg. reflexivity.
    + rewrite IH. destruct (String.eqb k g) eqn:Ekg; [|reflexivity].
      apply String.eqb_eq in Ekg. subst g. rewrite Ekf. reflexivity.
Qed.

Lemma extend1_spec s a f s' : extend1 s a f = Ok s' ->
  forall g, getattr s' g = if String.eqb g f then Ok (LList (field_list s f ++ field_list a f)) else getattr s g.
Proof.
  unfold extend1. destruct s as [| | | | | | |c fs|]; try discriminate. destruct a as [| | | | | | |ca fa|]; try discriminate.
  destruct (assoc f fs) as [[| | | | |l| | |]|] eqn:A1; try discriminate. destruct (assoc f fa) as [[| | | | |l2| | |]|] eqn:A2; try discriminate.
  intros [= <-] g. unfold getattr, field_list. cbn. rewrite assoc_set_field, A1, A2. destruct (String.eqb g f); reflexivity.
Qed.

Lemma fold_err {A B} (f : res A -> B -> res A) l e : (forall b, f (Err e) b = Err e) -> fold_left f l (Err e) = Err e.
Proof. intros H. induction l; cbn; [reflexivity|]. rewrite H. exact IHl. Qed.
Lemma fold_fuel {A B} (f : res A -> B -> res A) l : (forall b, f Fuel b = Fuel) -> fold_left f l Fuel = Fuel.
Proof. intros H. induction l; cbn; [reflexivity|]. rewrite H. exact IHl. Qed.

Lemma extend_fold_spec a fl : NoDup fl -> forall s s', fold_left (fun acc f => do x <- acc; extend1 x a f) fl (Ok s) = Ok s' ->
  forall g, getattr s' g = if mem g fl then Ok (LList (field_list s g ++ field_list a g)) else getattr s g.
Proof.
  induction fl as [|f r IH]; intros ND s s' E g; [cbn in E; inversion E; reflexivity|]. cbn [fold_left bind] in E.
  inversion ND as [|? ? NI ND']; subst.
  destruct (extend1 s a f) as [s1| |] eqn:E1; [| rewrite fold_err in E by reflexivity; discriminate | rewrite fold_fuel in E by reflexivity; discriminate].
  rewrite (IH ND' s1 s' E g). pose proof (extend1_spec _ _ _ _ E1) as S1.
  change (mem g (f :: r)) with ((String.eqb g f) || mem g r). destruct (String.eqb g f) eqn:Egf; cbn [orb].
  - apply String.eqb_eq in Egf. subst g. destruct (mem f r) eqn:M; [apply mem_in in M; contradiction|]. rewrite S1, String.eqb_refl. reflexivity.
  - destruct (mem g r); [unfold field_list|]; rewrite S1, Egf; reflexivity.
Qed.

Lemma create_fold_spec : NoDup (t_merge T) -> forall ds s m,
  fold_left (fun acc d => do s <- acc; do a <- bld T (t_root T) d; extend_all T s a) ds (Ok s) = Ok m ->
  exists ms, mapM (bld T (t_root T)) ds = Ok ms /\
    forall g, (mem g (t_merge T) = true -> field_list m g = field_list s g ++ flat_map (fun a => field_list a g) ms) /\
              (mem g (t_merge T) = false -> getattr m g = getattr s g).
Proof.
  intros ND. induction ds as [|d r IH]; intros s m E; cbn in E.
  - inversion E; subst. exists []. split; [reflexivity|]. intros g. split; [intros _; cbn; rewrite app_nil_r; reflexivity | reflexivity].
  - destruct (bld T (t_root T) d) as [a| |] eqn:Ea; cbn [bind] in E;
      [| rewrite fold_err in E by reflexivity; discriminate | rewrite fold_fuel in E by reflexivity; discriminate].
    destruct (extend_all T s a) as [s1| |] eqn:E1; [| rewrite fold_err in E by reflexivity; discriminate | rewrite fold_fuel in E by reflexivity; discriminate].
    destruct (IH s1 m E) as [ms [Hm Hg]]. exists (a :: ms). cbn [mapM]. rewrite Ea, Hm. split; [reflexivity|].
    pose proof (extend_fold_spec a (t_merge T) ND s s1 E1) as S1. intros g. destruct (Hg g) as [G1 G2]. split; intros M.
    + rewrite (G1 M). unfold field_list at 1. rewrite (S1 g), M. cbn. rewrite app_assoc. reflexivity.
    + rewrite (G2 M), (S1 g), M. reflexivity.
Qed.

(* several model files load as the first model, each declaration list extended in order by the others' *)
Theorem merge_concat : NoDup (t_merge T) -> forall d0 ds m, create T (d0 :: ds) = Ok m ->
  exists m0 ms, bld T (t_root T) d0 = Ok m0 /\ mapM (bld T (t_root T)) ds = Ok ms /\
    forall g, (mem g (t_merge T) = true -> field_list m g = field_list m0 g ++ flat_map (fun a => field_list a g) ms) /\
              (mem g (t_merge T) = false -> getattr m g = getattr m0 g).
Proof.
  intros ND d0 ds m E. unfold create in E. destruct (bld T (t_root T) d0) as [m0| |] eqn:E0; cbn [bind] in E; try discriminate.
  destruct (create_fold_spec ND ds m0 m E) as [ms [Hm Hg]]. exists m0, ms. auto.
Qed.

(* and conversely the merge succeeds when every file loads into an object whose merged fields are lists *)
Lemma create_err_head d0 ds : is_ok (bld T (t_root T) d0) = false -> is_ok (create T (d0 :: ds)) = false.
Proof. unfold create. destruct (bld T (t_root T) d0); cbn; [discriminate | reflexivity | reflexivity]. Qed.

Lemma fold_not_ok ds : forall acc, is_ok acc = false ->
  is_ok (fold_left (fun acc d => do s <- acc; do a <- bld T (t_root T) d; extend_all T s a) ds acc) = false.
Proof. induction ds as [|d r IH]; intros acc H; [exact H|]. cbn. apply IH. destruct acc; [discriminate | reflexivity | reflexivity]. Qed.

Lemma create_err docs : (exists d, In d docs /\ is_ok (bld T (t_root T) d) = false) -> is_ok (create T docs) = false.
Proof.
  intros [d [I H]]. destruct docs as [|d0 r]; [destruct I|]. unfold create.
  destruct (bld T (t_root T) d0) as [m0| |] eqn:E0; cbn [bind]; try reflexivity.
  destruct I as [->|I]; [rewrite E0 in H; discriminate|]. clear E0.
  revert m0. induction r as [|x r IH]; intros m0; [destruct I|]. cbn [fold_left].
  destruct I as [->|I].
  - apply fold_not_ok. destruct (bld T (t_root T) d); cbn; [discriminate | reflexivity | reflexivity].
  - destruct (bld T (t_root T) x) as [a| |]; cbn [bind]; try (apply fold_not_ok; reflexivity).
    destruct (extend_all T m0 a) as [s1| |]; try (apply fold_not_ok; reflexivity). apply IH. exact I.
Qed.

End Merge.

Section Gate.
Variable T : tables.
Variable gate_accepts : json -> bool.
Variable plugin : lv -> list string -> status * list string.

(* nothing can be written before both the validation of every file and the creation of the model have succeeded *)
Definition order_ok (effs : list eff) : bool :=
  match effs with EValidate :: ECreate :: _ | ECreate :: EValidate :: _ => true | _ => false end.

Lemma create_bad docs d : In d docs -> is_ok (load T d) = false -> is_ok (create T (map embed docs)) = false.
Proof. intros I H. apply create_err. exists (embed d). split; [apply in_map; exact I | exact H]. Qed.

(* what holds whatever object main passes as the schema: a document the gate rejects, or the loader rejects, stops main before the plugin *)
Theorem gate_partial effs docs fs : order_ok effs = true ->
  (exists d, In d docs /\ (gate_accepts d = false \/ is_ok (load T d) = false)) ->
  main T gate_accepts plugin effs docs fs = (SError, fs).
Proof.
  intros O [d [I H]]. unfold main.
  assert (GB : gate_accepts d = false -> forallb gate_accepts docs = false).
  { intros G. destruct (forallb gate_accepts docs) eqn:F; [|reflexivity]. rewrite forallb_forall in F. rewrite (F d I) in G. discriminate. }
  destruct effs as [|[| |] [|[| |] r]]; cbn in O; try discriminate; cbn [run_main].
  - destruct (forallb gate_accepts docs) eqn:F; [|reflexivity].
    destruct H as [H|H]; [specialize (GB H); discriminate|].
    pose proof (create_bad docs d I H) as CB. destruct (create T (map embed docs)); [discriminate | reflexivity | reflexivity].
  - destruct (create T (map embed docs)) as [x| |] eqn:EC; try reflexivity.
    destruct H as [H|H]; [rewrite (GB H); reflexivity|]. pose proof (create_bad docs d I H) as CB. rewrite EC in CB. discriminate.
Qed.

(* the gate: when the check main performs implies schema validity, a schema-violating file makes main fail with nothing written *)
Theorem gate_generic (sv : json -> bool) effs docs fs : order_ok effs = true ->
  (forall d, gate_accepts d = true -> sv d = true) ->
  (exists d, In d docs /\ sv d = false) ->
  main T gate_accepts plugin effs docs fs = (SError, fs).
Proof.
  intros O GS [d [I H]]. apply gate_partial; [exact O|]. exists d. split; [exact I|]. left.
  destruct (gate_accepts d) eqn:G; [|reflexivity]. rewrite (GS d G) in H. discriminate.
Qed.

End Gate.


(* ============================================================================================================ *)
(* explain mode of the checkers: which site fails (kind, definition / class, item).  No theorem depends on these. *)
Section Explain.
Variable defs : list (string * schema).
Variable T : tables.
Variable cp : list (string * callee).
Definition why := (string * string * string)%type.

Definition oc_explain (where_ : string) (s : schema) (c : string) : list why :=
  match s with
  | SNode (Some [TObject]) props req false None None None None extra =>
      match find_cls T c with
      | None => [("no-class", where_, c)]
      | Some C =>
          (if nodupb (map f_name (c_fields C)) then [] else [("duplicate-fields", where_, c)]) ++
          flat_map (fun kv => match find_field C (fst kv) with
                              | Some f => if fc defs cp (snd kv) f then [] else [("prop", where_, fst kv)]
                              | None => [("prop", where_, fst kv)] end) props ++
          flat_map (fun f => match f_default f with
                             | None => if mem (f_name f) req then [] else [("field-not-required-by-schema", where_, f_name f)]
                             | Some d => if dflt_ok T f d then [] else [("default", where_, f_name f)] end) (c_fields C) ++
          (if cross_ok T C req extra then [] else [("cross-validator", where_, c)])
      end
  | _ => [("shape", where_, c)] end.

Definition cc_explain (p : string * callee) : list why :=
  match assoc (fst p) defs with
  | None => [("no-definition", fst p, "")]
  | Some s =>
      match snd p with
      | CClass c => oc_explain (fst p) s c
      | CFun fn =>
          match assoc fn (t_funs T) with
          | None => [("no-function", fst p, fn)]
          | Some d =>
              match s with
              | SNode None [] [] _ None None (Some alts) None None =>
                  flat_map (fun a => let a' := resolve1 defs a in
                                     let nm := match a with SRef r => r | _ => "<inline>" end in
                                     match kind_const (d_key d) a' with
                                     | None => [("alt-without-kind", fst p, nm)]
                                     | Some k => match disp d k with
                                                 | Some c => oc_explain nm a' c
                                                 | None => [("alt", fst p, nm)] end end) alts
              | _ => [("shape", fst p, fn)] end
          end
      end
  end.
Definition compat_explain : list why := flat_map cc_explain cp.

Variable xcls : list string.
Definition eq_explain : list why :=
  (if nodupb (map c_name (t_classes T)) then [] else [("duplicate-class", "", "")]) ++
  flat_map (fun C =>
    if mem (c_name C) xcls then [] else
    (if nodupb (map f_name (c_fields C)) then [] else [("duplicate-fields", c_name C, "")]) ++
    match c_eq C with
    | None => [("no-eq", c_name C, "")]
    | Some e =>
        (if String.eqb (e_guard e) (c_name C) then [] else [("eq-guard", c_name C, e_guard e)]) ++
        flat_map (fun a => match find_field C a with
                           | Some f => if is_uuid (f_conv f) then [("eq-compares-uuid", c_name C, a)] else []
                           | None => [("eq-attr", c_name C, a)] end) (e_attrs e)
    end) (t_classes T).
Variable SK : list (string * list string).
Definition covers_explain : list why :=
  flat_map (fun C =>
    if mem (c_name C) xcls then [] else
    match c_eq C with
    | None => []
    | Some e => flat_map (fun a => if mem a (e_attrs e) then [] else [("eq-ignores", c_name C, a)]) (sk_of SK (c_name C)) end) (t_classes T).
End Explain.

(* the structural skeleton: these attribute names, wherever a class has them *)
Definition SKNAMES : list string :=
  ["name"; "kind"; "type"; "properties"; "extends"; "mixins"; "values"; "value"; "method"; "messageDirection"; "params"; "result";
   "partialResult"; "errorData"; "registrationOptions"; "items"; "element"; "key"; "optional";
   "requests"; "notifications"; "structures"; "enumerations"; "typeAliases"].
Definition sk_table (T : tables) : list (string * list string) :=
  map (fun C => (c_name C, filter (fun n => mem n (map f_name (c_fields C))) SKNAMES)) (t_classes T).
