(* Disp.v — dispatch totality (property C14, "no union is left without parsing support"):
   a boolean checker [W_disp] over the package table saying that every type dispatch can meet has a handler, and the
   generic theorem that under it structuring NEVER ends in an unsupported-type error, for every target reachable from a
   class, every input (valid or not), every fuel. *)
From LSP Require Import Base Sem SemThy.

Definition E_UNION := "StructureHandlerNotFoundError: unsupported union".
Definition E_UNION2 := "unsupported union".
Definition E_FWD := "StructureHandlerNotFoundError: unresolved forward reference".
Definition E_NOCLS := "no such class".
Definition E_NOENUM := "no such enum".
Definition unsupported (e : string) : bool :=
  String.eqb e E_UNION || String.eqb e E_UNION2 || String.eqb e E_FWD || String.eqb e E_NOCLS || String.eqb e E_NOENUM.

Section D.
Variable Sg : sigma.
Variable py_str : json -> string.

(* a type is dispatchable: every union met on the way has a registered hook or is Optional[X] with X dispatchable;
   classes and enums exist; no forward reference *)
Fixpoint disp_ok (n : nat) (t : pty) : bool :=
  match n with O => false | S n =>
  match t with
  | PyUnion ms =>
      match lookup_uhook Sg t with
      | Some _ => true
      | None => match filter (fun x => negb (is_none x)) ms with
                | [x] => Nat.eqb (length ms) 2 && disp_ok n x | _ => false end end
  | PySeq t' => disp_ok n t'
  | PyDict k v => disp_ok n k && disp_ok n v
  | PyTuple l => forallb (disp_ok n) l
  | PyFwd _ => false
  | PyCls c => match lookup_cls Sg c with Some _ => true | None => false end
  | PyEnum e => match lookup_enum Sg e with Some _ => true | None => false end
  | _ => true end end.
Definition DFUEL := 8.
Definition good (t : pty) : bool := disp_ok DFUEL t.

(* the types a hook hands back to the converter *)
Fixpoint hret_targets (r : hret) : list pty :=
  match r with
  | RStruct _ t => [t] | RMap _ b => hret_targets b | RIf _ a b => hret_targets a ++ hret_targets b
  | RTuple l => flat_map hret_targets l | _ => [] end.
Fixpoint hook_targets (h : hook) : list pty :=
  match h with TIf _ a b => hook_targets a ++ hook_targets b | TRet r => hret_targets r | TRaise => [] end.

(* the unions inside a type that have no handler (explain twin of disp_ok) *)
Fixpoint missing_handlers (n : nat) (t : pty) : list pty :=
  match n with O => [t] | S n =>
  match t with
  | PyUnion ms =>
      match lookup_uhook Sg t with
      | Some _ => []
      | None => match filter (fun x => negb (is_none x)) ms with
                | [x] => if Nat.eqb (length ms) 2 then missing_handlers n x else [t] | _ => [t] end end
  | PySeq t' => missing_handlers n t'
  | PyDict k v => missing_handlers n k ++ missing_handlers n v
  | PyTuple l => flat_map (missing_handlers n) l
  | PyFwd _ => [t]
  | _ => [] end end.
Definition fields_missing : list (string * string * list pty) :=
  flat_map (fun c => flat_map (fun f => if good (ftype f) then [] else [(fst c, fname f, missing_handlers DFUEL (ftype f))]) (snd c)) (classes Sg).

Definition fields_bad : list (string * string) :=
  flat_map (fun c => flat_map (fun f => if good (ftype f) then [] else [(fst c, fname f)]) (snd c)) (classes Sg).
Definition hooks_bad : list pty :=
  flat_map (fun uh => filter (fun t => negb (good t)) (hook_targets (snd uh))) (uhooks Sg).
Definition W_disp : bool := is_nil_b fields_bad && is_nil_b hooks_bad.

(* ---- the theorem ---- *)
Lemma mapM_err {A B} (f : A -> res B) l e : mapM f l = Err e -> exists x, In x l /\ f x = Err e.
Proof.
  induction l as [|a l IH]; cbn; [discriminate|].
  destruct (f a) as [y| e'|] eqn:Ea; cbn.
  - destruct (mapM f l) as [ys| e'|] eqn:El; cbn; try discriminate. intros H. inversion H; subst.
    destruct (IH eq_refl) as [x [I Ex]]. exists x. split; [right; exact I | exact Ex].
  - intros H. inversion H; subst. exists a. split; [left; reflexivity | exact Ea].
  - discriminate.
Qed.

Definition NU {A} (r : res A) : Prop := forall e, r = Err e -> unsupported e = false.
Lemma nu_ok {A} (v : A) : NU (Ok v). Proof. intros e H. discriminate. Qed.
Lemma nu_fuel {A} : NU (@Fuel A). Proof. intros e H. discriminate. Qed.
Lemma nu_err {A} s : unsupported s = false -> NU (@Err A s). Proof. intros U e H. inversion H; subst. exact U. Qed.
Lemma nu_bind {A B} (r : res A) (f : A -> res B) : NU r -> (forall a, NU (f a)) -> NU (bind r f).
Proof. intros Hr Hf. destruct r as [a|e|]; cbn; [apply Hf | intros e' H; inversion H; subst; apply Hr; reflexivity | apply nu_fuel]. Qed.
Lemma nu_mapM {A B} (f : A -> res B) l : (forall x, In x l -> NU (f x)) -> NU (mapM f l).
Proof.
  intros H e E. apply mapM_err in E. destruct E as [x [I Ex]]. exact (H x I e Ex).
Qed.
Ltac own := first [apply nu_ok | apply nu_fuel | apply nu_err; reflexivity].

Lemma nu_heval e o it : NU (heval e o it).
Proof.
  induction e; cbn.
  - own.
  - destruct it; own.
  - apply nu_bind; [exact IHe|]. intros v. destruct v; try own.
    + destruct (nth_error (chars s) n); own.
    + destruct (nth_error l n); own.
  - apply nu_bind; [exact IHe|]. intros v. destruct v; try own. destruct (assoc k m); own.
Qed.
Lemma nu_py_in k v : NU (py_in k v). Proof. destruct v; cbn; own. Qed.
Lemma nu_ceval c o : forall it, NU (ceval c o it).
Proof.
  induction c; intros it; cbn; try (apply nu_bind; [apply nu_heval|]; intros v; try own).
  - apply nu_py_in.
  - destruct v; own.
  - apply nu_bind; [apply IHc|]. intros b. own.
  - apply nu_bind; [apply IHc1|]. intros b. destruct b; [own | apply IHc2].
  - apply nu_bind; [apply IHc1|]. intros b. destruct b; [apply IHc2 | own].
  - destruct (iter_json v) as [l|]; [|own]. induction l as [|x l IHl]; [own|].
    apply nu_bind; [apply IHc|]. intros b. destruct b; [own | exact IHl].
Qed.
Lemma nu_py_int j : NU (py_int j). Proof. destruct j; cbn; own. Qed.
Lemma nu_py_float j : NU (py_float j). Proof. destruct j; cbn; own. Qed.

Lemma disp_ok_mono n t : disp_ok n t = true -> disp_ok (S n) t = true.
Proof.
  revert t. induction n as [|n IH]; intros t H; [discriminate|].
  cbn [disp_ok] in *. destruct t; auto.
  - destruct (lookup_uhook Sg (PyUnion l)); [reflexivity|].
    destruct (filter (fun x => negb (is_none x)) l) as [|x [|y r]]; try discriminate.
    apply andb_true_iff in H. destruct H as [H1 H2]. rewrite H1. cbn. apply IH. exact H2.
  - apply andb_true_iff in H. destruct H. apply andb_true_iff. split; apply IH; assumption.
  - rewrite forallb_forall in *. intros x I. apply IH. apply H. exact I.
Qed.
Lemma good_sub t : disp_ok (pred DFUEL) t = true -> good t = true.
Proof. apply disp_ok_mono. Qed.

Section Step.
Hypothesis WD : W_disp = true.
Variable rec : pty -> json -> res pv.
Hypothesis IHrec : forall t j, good t = true -> NU (rec t j).

Lemma fields_good c fs f : lookup_cls Sg c = Some fs -> In f fs -> good (ftype f) = true.
Proof.
  intros L I. unfold W_disp in WD. apply andb_true_iff in WD. destruct WD as [W _]. destruct (good (ftype f)) eqn:G; [reflexivity|].
  exfalso. unfold fields_bad in W.
  assert (X : In (c, fname f) (flat_map (fun c0 => flat_map (fun f0 => if good (ftype f0) then [] else [(fst c0, fname f0)]) (snd c0)) (classes Sg))).
  { apply in_flat_map. exists (c, fs). split; [apply assoc_in; exact L|]. cbn [snd fst]. apply in_flat_map. exists f. split; [exact I|]. rewrite G. left. reflexivity. }
  destruct (flat_map _ (classes Sg)); [contradiction | discriminate].
Qed.
Lemma targets_good t h u : In (t, h) (uhooks Sg) -> In u (hook_targets h) -> good u = true.
Proof.
  intros I J. unfold W_disp in WD. apply andb_true_iff in WD. destruct WD as [_ W]. destruct (good u) eqn:G; [reflexivity|].
  exfalso. unfold hooks_bad in W.
  assert (X : In u (flat_map (fun uh => filter (fun t => negb (good t)) (hook_targets (snd uh))) (uhooks Sg))).
  { apply in_flat_map. exists (t, h). split; [exact I|]. cbn [snd fst]. apply filter_In. split; [exact J | rewrite G; reflexivity]. }
  destruct (flat_map _ (uhooks Sg)); [contradiction | discriminate].
Qed.

Lemma nu_reval r : (forall u, In u (hret_targets r) -> good u = true) -> forall o it, NU (reval py_str rec r o it).
Proof.
  revert r. fix IH 1. intros r G o it. destruct r; cbn [reval]; try own.
  - apply nu_bind; [apply nu_heval | intros; own].
  - apply nu_bind; [apply nu_heval|]. intros v. apply IHrec. apply G. left. reflexivity.
  - apply nu_bind; [apply nu_heval | intros; own].
  - apply nu_bind; [apply nu_heval | intros; apply nu_py_int].
  - apply nu_bind; [apply nu_heval|]. intros v. destruct (iter_json v); [|own].
    apply nu_bind; [|intros; own]. apply nu_mapM. intros x _. apply IH. exact G.
  - apply nu_bind; [apply nu_ceval|]. intros b. destruct b; apply IH; intros u I; apply G; cbn; apply in_or_app; auto.
  - apply nu_bind; [|intros; own].
    cbn in G. revert G. induction l as [|x xs IHl]; intros G; [own|].
    apply nu_bind; [apply IH; intros u I; apply G; cbn; apply in_or_app; left; exact I|]. intros y.
    apply nu_bind; [apply IHl; intros u I; apply G; cbn; apply in_or_app; right; exact I | intros; own].
Qed.
Lemma nu_hrun h : (forall u, In u (hook_targets h) -> good u = true) -> forall o, NU (hrun py_str rec h o).
Proof.
  induction h; intros G o; cbn.
  - apply nu_bind; [apply nu_ceval|]. intros b. destruct b; [apply IHh1 | apply IHh2]; intros u I; apply G; cbn; apply in_or_app; auto.
  - apply nu_reval. exact G.
  - own.
Qed.
Lemma nu_sfield c fs f o : lookup_cls Sg c = Some fs -> In f fs -> NU (sfield rec o f).
Proof.
  intros L I. pose proof (fields_good c fs f L I) as G. unfold sfield. destruct (fdefault f).
  - destruct o; try own. destruct (assoc (fwire f) m); [|own]. apply nu_bind; [apply IHrec; exact G | intros; own].
  - apply nu_bind; [apply nu_py_in|]. intros b. destruct b; [|own]. destruct o; try own.
    destruct (assoc (fwire f) m); [|own]. apply nu_bind; [apply IHrec; exact G | intros; own].
  - apply nu_bind; [apply nu_py_in|]. intros b. destruct b; [|own]. destruct o; try own.
    destruct (assoc (fwire f) m); [|own]. apply nu_bind; [apply IHrec; exact G | intros; own].
Qed.

Lemma step_never_unsupported t j : good t = true -> NU (step Sg py_str rec t j).
Proof.
  intros G. unfold good in G. change DFUEL with (S (pred DFUEL)) in G. cbn [disp_ok] in G.
  destruct t; cbn [step]; try own.
  - apply nu_py_int.
  - apply nu_py_float.
  - (* union *)
    destruct (lookup_uhook Sg (PyUnion l)) as [h|] eqn:U.
    + unfold lookup_uhook in U. destruct (find (fun c => pty_eqb (fst c) (PyUnion l)) (uhooks Sg)) as [[t' h']|] eqn:F; [|discriminate].
      cbn in U. inversion U; subst h'. apply find_some in F. destruct F as [I _].
      apply nu_hrun. intros u J. exact (targets_good t' h u I J).
    + destruct (filter (fun x => negb (is_none x)) l) as [|x [|y r]]; try discriminate.
      apply andb_true_iff in G. destruct G as [G1 G2]. rewrite G1. destruct j; try own; apply IHrec; apply good_sub; exact G2.
  - destruct (iter_json j); [|own]. apply nu_bind; [|intros; own]. apply nu_mapM. intros x _. apply IHrec. apply good_sub. exact G.
  - destruct j; try own. apply andb_true_iff in G. destruct G as [G1 G2]. apply nu_bind; [|intros; own]. apply nu_mapM. intros kv _.
    apply nu_bind; [apply IHrec; apply good_sub; exact G1|]. intros k'. apply nu_bind; [apply IHrec; apply good_sub; exact G2 | intros; own].
  - destruct (iter_json j) as [l0|]; [|own]. destruct (Nat.eqb (length l0) (length l)); [|own].
    apply nu_bind; [|intros; own]. apply nu_mapM. intros [p1 p2] I. apply IHrec. apply good_sub.
    rewrite forallb_forall in G. apply G. apply in_combine_l in I. exact I.
  - destruct j; try own. destruct (mem s l); own.
  - destruct (lookup_enum Sg n) as [d|]; [|discriminate]. destruct (find (pv_eqb_prim (embed j)) (evals d)); own.
  - destruct (lookup_cls Sg n) as [fs|] eqn:L; [|discriminate].
    apply nu_bind; [apply nu_mapM; intros f I; exact (nu_sfield n fs f j L I)|]. intros kw.
    destruct (forbid_extra Sg && match j with JObj m => negb (subset (keys m) (map fwire fs)) | _ => false end); [own|].
    destruct (forallb _ (combine fs kw)); own.
  - discriminate.
Qed.
End Step.

(* for every fuel, every dispatchable target, every input (valid or not): never an unsupported-type error *)
Theorem disp_total : W_disp = true -> forall n t j, good t = true -> NU (structure Sg py_str n t j).
Proof.
  intros WD. induction n as [|n IH]; intros t j G; [apply nu_fuel|].
  cbn [structure]. apply step_never_unsupported; assumption.
Qed.
Theorem class_targets_good : W_disp = true -> forall c fs, lookup_cls Sg c = Some fs -> good (PyCls c) = true.
Proof. intros _ c fs L. unfold good. cbn. rewrite L. reflexivity. Qed.
End D.
