(* Image.v — the SPECIFICATION of the Python package as a function of the metamodel (property C04), in checker form:
   [py_of] is the documented type mapping, [field_ok] the per-attribute rule (wire name, required/default, annotation,
   validator, omit flag), [W_img] the whole-image checker with an explaining twin.  Everything is a total boolean
   function so that the instance obligation is one vm_compute over regenerated tables. *)
From LSP Require Import Base MM Sem.

(* spec-side Python types: anonymous literal / and-types are kept structural (their generated names are not specified) *)
Inductive spy :=
| SAny | SNone | SInt | SStr | SBool | SFloat
| SUnion (l : list spy) | SSeq (t : spy) | SDict (k v : spy) | STuple (l : list spy)
| SEnum (n : string) | SCls (n : string) | SOpaque (n : string)
| SLitCls (ps : list prop) | SStrLit (s : string).

Definition sflat (s : spy) : list spy := match s with SUnion l => l | _ => [s] end.
Definition pflat (p : pty) : list pty := match p with PyUnion l => l | _ => [p] end.
Definition mk_union (l : list spy) : spy := SUnion (flat_map sflat l).

Section Img.
Variable mm : MM.
Variable Sg : sigma.
Variable alias_objects : list (string * pty).     (* module-level alias objects (they keep ForwardRefs) *)
Variable plain_classes : list string.             (* module classes that are neither attrs classes nor enums (LSPObject) *)

(* the documented customisation: CompletionItemKind accepts custom values (microsoft/lsprotocol#344) *)
Definition enum_open (e : enumeration) : bool := e_custom e || String.eqb (e_name e) "CompletionItemKind".
Definition py_base (b : base) : spy :=
  match b with
  | BString | BDocumentUri | BURI | BRegExp => SStr | BInteger | BUInteger => SInt
  | BDecimal => SFloat | BBoolean => SBool | BNull => SNone end.

Fixpoint py_of (n : nat) (t : ty) : spy :=
  match n with O => SAny | S n =>
  match t with
  | TBase b => py_base b
  | TRef name =>
      if String.eqb name "LSPAny" then SUnion [SAny; SNone]
      else if String.eqb name "LSPObject" then SOpaque "LSPObject"
      else match find_struct mm name with
           | Some _ => SCls name
           | None =>
             match find_enum mm name with
             | Some e => if enum_open e then SUnion [SEnum name; py_base (e_base e)] else SEnum name
             | None => match find_alias mm name with Some a => py_of n (a_type a) | None => SCls name end end end
  | TArr t' => SSeq (py_of n t')
  | TMap k v => SDict (py_of n k) (py_of n v)
  | TTuple l => STuple (map (py_of n) l)
  | TOr l => mk_union (map (py_of n) l)
  | TAnd l => SLitCls (and_props mm l)
  | TLit [] => SAny
  | TLit ps => SLitCls (props_of_lit ps)
  | TStrLit s => SStr
  | TIntLit _ => SInt
  | TBoolLit _ => SBool
  end end.
Definition PY_FUEL := 16.

Definition is_special (p : prop) : bool := match p_type p with TStrLit _ => true | t => null_admitting t end.
Definition is_optional (p : prop) : bool := p_opt p || null_admitting (p_type p).
Definition expected_type (p : prop) : spy :=
  let s := py_of PY_FUEL (p_type p) in if is_optional p then mk_union [s; SNone] else s.
Definition expected_default (p : prop) : dflt :=
  match p_type p with TStrLit s => DefaultStr s | _ => if is_optional p then DefaultNone else NoDefault end.
Definition expected_vkind (p : prop) : vkind :=
  match p_type p with
  | TBase BInteger => VInteger | TBase BUInteger => VUInteger
  | TBase BString | TBase BDocumentUri | TBase BURI => VIsStr
  | TBase BBoolean => VIsBool | TBase BDecimal => VIsFloat
  | TStrLit s => VIn [s] | _ => VNoVal end.
Definition vkind_eqb (a b : vkind) : bool :=
  match a, b with
  | VNoVal, VNoVal | VInteger, VInteger | VUInteger, VUInteger | VIsStr, VIsStr | VIsBool, VIsBool | VIsFloat, VIsFloat => true
  | VIn l, VIn m => lstr_eqb l m | _, _ => false end.
Definition dflt_eqb (a b : dflt) : bool :=
  match a, b with NoDefault, NoDefault | DefaultNone, DefaultNone => true | DefaultStr s, DefaultStr s' => String.eqb s s' | _, _ => false end.
Definition expected_valopt (p : prop) : bool :=
  match p_type p with TStrLit _ => false | _ => is_optional p && negb (vkind_eqb (expected_vkind p) VNoVal) end.

(* members of a Python union, looking through ForwardRefs to module-level alias objects that are unions themselves *)
Fixpoint pmembers (n : nat) (p : pty) : list pty :=
  match n with O => [p] | S n =>
  match p with
  | PyUnion l => flat_map (pmembers n) l
  | PyFwd b => match assoc b alias_objects with Some p' => pmembers n p' | None => [p] end
  | _ => [p] end end.
Definition is_mm_name (n : string) : bool :=
  match find_struct mm n, find_enum mm n, find_alias mm n with None, None, None => false | _, _, _ => true end.

(* reasons a field can be wrong; the explain twin returns them *)
Inductive why := WWire | WDefault | WType | WValidator | WValOpt | WOmit | WMissing | WExtra | WDup | WNoClass.

(* omit-if-default is what the metamodel says (written always iff special) — for an attribute WITH a default; without one the flag has
   no effect (there is nothing to compare the value with), so nothing is demanded of it *)
Definition omit_okb (f : fld) (q : prop) : bool :=
  match fdefault f with NoDefault => true | _ => Bool.eqb (fomit f) (negb (is_special q)) end.

Fixpoint smatch (n : nat) (s : spy) (p : pty) {struct n} : bool :=
  match n with O => false | S n =>
  let fields_ok (ps : list prop) (fs : list fld) : bool :=
      Nat.eqb (length ps) (length fs) && nodupb (map fwire fs) &&
      forallb (fun q => existsb (fun f => String.eqb (fwire f) (p_name q) && String.eqb (fwireo f) (p_name q)
                                           && dflt_eqb (fdefault f) (expected_default q)
                                           && smatch n (expected_type q) (ftype f)
                                           && vkind_eqb (fval f) (expected_vkind q) && Bool.eqb (fvalopt f) (expected_valopt q)
                                           && omit_okb f q) fs) ps in
  match s, p with
  | SUnion _, _ | _, PyUnion _ =>
      let ms := sflat s in let mp := pmembers 6 p in
      forallb (fun a => existsb (fun b => smatch n a b) mp) ms && forallb (fun b => existsb (fun a => smatch n a b) ms) mp
  | SAny, PyAny | SNone, PyNone | SInt, PyInt | SStr, PyStr | SBool, PyBool | SFloat, PyFloat => true
  | SSeq a, PySeq b => smatch n a b
  | SDict k v, PyDict k' v' => smatch n k k' && smatch n v v'
  | STuple l, PyTuple m => (fix go (x : list spy) (y : list pty) := match x, y with [], [] => true | a :: x', b :: y' => smatch n a b && go x' y' | _, _ => false end) l m
  | SEnum a, PyEnum b | SCls a, PyCls b | SOpaque a, PyOpaque b => String.eqb a b
  | _, PyFwd b =>                               (* a ForwardRef left in a module-level alias object *)
      match assoc b alias_objects with
      | Some p' => smatch n s p'
      | None => match s with SEnum a | SCls a | SOpaque a => String.eqb a b | _ => false end end
  | SLitCls ps, PyCls c => negb (is_mm_name c) && match assoc c (classes Sg) with Some fs => fields_ok ps fs | None => false end
  | _, _ => false end end.
Definition SM_FUEL := 12.

Definition field_why (q : prop) (f : fld) : list why :=
  (if String.eqb (fwire f) (p_name q) && String.eqb (fwireo f) (p_name q) then [] else [WWire])
  ++ (if dflt_eqb (fdefault f) (expected_default q) then [] else [WDefault])
  ++ (if smatch SM_FUEL (expected_type q) (ftype f) then [] else [WType])
  ++ (if vkind_eqb (fval f) (expected_vkind q) then [] else [WValidator])
  ++ (if Bool.eqb (fvalopt f) (expected_valopt q) then [] else [WValOpt])
  ++ (if omit_okb f q then [] else [WOmit]).
Definition field_ok (q : prop) (f : fld) : bool := is_nil_b (field_why q f).

(* one class against a property list: every property has exactly one attribute (by wire name) that is right; nothing extra *)
Definition class_why (cname : string) (ps : list prop) : list (string * string * why) :=
  match assoc cname (classes Sg) with
  | None => [(cname, "", WNoClass)]
  | Some fs =>
      (if nodupb (map fwire fs) then [] else [(cname, "", WDup)])
      ++ flat_map (fun q => match find (fun f => String.eqb (fwire f) (p_name q)) fs with
                            | None => [(cname, p_name q, WMissing)]
                            | Some f => map (fun w => (cname, p_name q, w)) (field_why q f) end) ps
      ++ flat_map (fun f => if mem (fwire f) (map p_name ps) then [] else [(cname, fwire f, WExtra)]) fs
  end.
Definition class_ok (cname : string) (ps : list prop) : bool := is_nil_b (class_why cname ps).

(* envelopes (not in the metamodel): generated message classes *)
Definition mkp (n : string) (t : ty) (o : bool) : prop := {| p_name := n; p_type := t; p_opt := o; p_proposed := false |}.
Definition struct_classes_why : list (string * string * why) :=
  flat_map (fun s => if String.eqb (s_name s) "LSPObject" then [] else class_why (s_name s) (flat mm (s_name s))) (structures mm).

(* enumerations: same name, exactly the values, in order, with multiplicity (C13a) *)
Definition evalue_pv (v : evalue) : pv := match v with EVStr s => VStr s | EVInt z => VInt z end.
Fixpoint pv_eqb (a b : pv) : bool :=
  match a, b with VStr x, VStr y => String.eqb x y | VInt x, VInt y => (x =? y)%Z | _, _ => false end.
Fixpoint pvl_eqb (a b : list pv) : bool :=
  match a, b with [], [] => true | x :: a', y :: b' => pv_eqb x y && pvl_eqb a' b' | _, _ => false end.
Definition enum_ok (e : enumeration) : bool :=
  match find (fun d => String.eqb (ename d) (e_name e)) (enums Sg) with
  | None => false
  | Some d => pvl_eqb (evals d) (map (fun x => evalue_pv (snd (fst x))) (e_values e))
              && Bool.eqb (eisstr d) (match e_base e with BString => true | _ => false end) end.
Definition enums_bad : list string := map e_name (filter (fun e => negb (enum_ok e)) (enumerations mm)).

(* aliases: a same-named module-level object whose type is the mapped type (LSPObject is a class, not an alias object) *)
Definition alias_ok (a : alias) : bool :=
  if String.eqb (a_name a) "LSPObject" then mem "LSPObject" plain_classes else
  match assoc (a_name a) alias_objects with
  | Some p => if String.eqb (a_name a) "LSPAny" then smatch SM_FUEL (SUnion [SAny; SNone]) p
              else smatch SM_FUEL (py_of PY_FUEL (a_type a)) p
  | None => false end.
Definition aliases_bad : list string := map a_name (filter (fun a => negb (alias_ok a)) (aliases mm)).

Definition W_img : bool := is_nil_b struct_classes_why && is_nil_b enums_bad && is_nil_b aliases_bad.
End Img.
