(* Naming.v — the class NAME of a message is the only thing its typeName decides (round 7).

   C17 judges the vectors of a message without typeName against the "named twin" of the metamodel: the same metamodel in which such
   an entry carries, as typeName, the class name the generated Python catalogue gives it (lib/props/c17.py named_model).  This file
   proves that naming is orthogonal to validity:
     - [valid_retable]: a metamodel with the same structures / enumerations / aliases and ANY request and notification tables has the
       same strict validity relation (every type, every JSON value);
     - [msg_ty_req_name] / [msg_ty_notif_name]: the envelope type of an entry does not read its typeName;
     - [msg_valid_named]: hence a JSON value is a valid request / response / notification of the renamed entry in the twin iff it is
       one of the original entry in the original metamodel.
   So judging the vectors against the twin decides exactly the validity the property speaks of; the twin contributes the class
   names only ([Strict.msg_classes]).  *)
From LSP Require Import Base MM ValidB Strict.

Definition retable (mm : MM) (rs : list request) (ns : list notification) : MM :=
  {| structures := structures mm; enumerations := enumerations mm; aliases := aliases mm;
     requests := rs; notifications := ns; version := version mm |}.

Definition name_request (r : request) (tn : option string) : request :=
  {| r_method := r_method r; r_typename := tn; r_params := r_params r; r_result := r_result r; r_partial := r_partial r;
     r_errdata := r_errdata r; r_regopts := r_regopts r; r_regmethod := r_regmethod r; r_dir := r_dir r; r_proposed := r_proposed r |}.
Definition name_notification (n : notification) (tn : option string) : notification :=
  {| n_method := n_method n; n_typename := tn; n_params := n_params n; n_regopts := n_regopts n; n_regmethod := n_regmethod n;
     n_dir := n_dir n; n_proposed := n_proposed n |}.
Definition name_msg (k : msg) (tn : option string) : msg :=
  match k with MReq r => MReq (name_request r tn) | MResp r => MResp (name_request r tn) | MNotif n => MNotif (name_notification n tn) end.

Lemma valid_b_retable mm rs ns n t j : valid_b (retable mm rs ns) n t j = valid_b mm n t j.
Proof. reflexivity. Qed.
Lemma mm_wf_retable mm rs ns : mm_wf (retable mm rs ns) = mm_wf mm.
Proof. reflexivity. Qed.

Theorem valid_retable mm rs ns : mm_wf mm = true -> forall t j, valid mm t j <-> valid (retable mm rs ns) t j.
Proof.
  intros WF t j. split; intros V.
  - destruct (valid_b_complete mm WF t j V) as [n H]. apply (valid_b_sound (retable mm rs ns) n). rewrite valid_b_retable. exact H.
  - assert (WF' : mm_wf (retable mm rs ns) = true) by (rewrite mm_wf_retable; exact WF).
    destruct (valid_b_complete (retable mm rs ns) WF' t j V) as [n H]. apply (valid_b_sound mm n). rewrite <- (valid_b_retable mm rs ns). exact H.
Qed.

Lemma msg_ty_name k tn : msg_ty (name_msg k tn) = msg_ty k.
Proof. destruct k; reflexivity. Qed.

Theorem msg_valid_named mm rs ns : mm_wf mm = true -> forall k tn j,
  msg_valid mm k j <-> msg_valid (retable mm rs ns) (name_msg k tn) j.
Proof.
  intros WF k tn j. rewrite (msg_valid_iff mm), (msg_valid_iff (retable mm rs ns)), msg_ty_name. apply valid_retable. exact WF.
Qed.

Print Assumptions valid_retable.
Print Assumptions msg_valid_named.
