(* Corr.v — executable helpers of the correspondence check (model side): object-graph dump and case evaluation. *)
From LSP Require Import Base MM Sem SemThy Denote.

Fixpoint dump (v : pv) : json :=
  match v with
  | VNone => JNull | VBool b => JBool b | VInt z => JInt z | VFlt n d => JFlt n d | VStr s => JStr s
  | VList l => JArr (map dump l)
  | VTuple l => JObj [("$t", JArr (map dump l))]
  | VDict m => JObj [("$d", JArr (map (fun kv => JArr [dump (fst kv); dump (snd kv)]) m))]
  | VObj c fs => JObj [("$c", JStr c); ("f", JObj (map (fun kv => (fst kv, dump (snd kv))) fs))]
  | VEnum c x => JObj [("$e", JStr c); ("v", dump x)] end.

(* strict structural equality (no int/float identification): used for the str() table *)
Fixpoint jeq_strict (a b : json) {struct a} : bool :=
  let fix leq x y := match x, y with [], [] => true | p :: ps, r :: rs => jeq_strict p r && leq ps rs | _, _ => false end in
  let fix meq x y := match x, y with [], [] => true | (k, p) :: ps, (k', r) :: rs => String.eqb k k' && jeq_strict p r && meq ps rs | _, _ => false end in
  match a, b with
  | JNull, JNull => true | JBool x, JBool y => Bool.eqb x y | JInt x, JInt y => (x =? y)%Z
  | JFlt n d, JFlt n' d' => (n =? n')%Z && (d =? d')%Z
  | JStr x, JStr y => String.eqb x y | JArr x, JArr y => leq x y | JObj x, JObj y => meq x y
  | _, _ => false end.
Definition str_table (tbl : list (json * string)) (j : json) : string :=
  match find (fun p => jeq_strict (fst p) j) tbl with Some p => snd p | None => "<py_str>" end.

(* what the real converter did on one case: raised, or (object-graph dump, unstructured JSON or raise) *)
Inductive expect := XRaise | XOk (dumped : json) (unstructured : option json).
Record case := { c_ty : pty; c_in : json; c_exp : expect; c_mm : option ty (* certify validity first *) }.

Definition FUEL := 60.
(* module-level alias objects keep unresolved forward references: the typing judgement does not apply to them *)
Fixpoint has_fwd (t : pty) : bool :=
  match t with
  | PyFwd _ => true | PyUnion l | PyTuple l => existsb has_fwd l | PySeq t => has_fwd t | PyDict k v => has_fwd k || has_fwd v | _ => false end.
(* 0 = agreement; 1 = ok/raise differs; 2 = object graph differs; 3 = unstructured JSON differs; 4 = input claimed valid is not;
   5 = model ran out of fuel; 6 = (valid input, type without unresolved forward references) the model's result is not well-typed at the requested type (Denote.typed_b);
   7 = (valid input) the model's unstructured JSON is not the denotation of its result *)
Definition judge (mm : MM) (Sg : sigma) (pystr : json -> string) (c : case) : nat :=
  if match c_mm c with Some t => negb (valid_b mm FUEL t (c_in c)) | None => false end then 4 else
  match structure Sg pystr FUEL (c_ty c) (c_in c), c_exp c with
  | Fuel, _ => 5
  | Err _, XRaise => 0
  | Err _, XOk _ _ => 1
  | Ok _, XRaise => 1
  | Ok o, XOk d u =>
      if negb (jeqb (canon (dump o)) d) then 2 else
      if match c_mm c with Some _ => negb (has_fwd (c_ty c)) && negb (typed_b Sg FUEL (c_ty c) o) | None => false end then 6 else
      match unstr Sg FUEL (Some (c_ty c)) o, u with
      | Fuel, _ => 5
      | Err _, None => 0
      | Ok j, Some j' => if jeqb (canon j) j' then
                           (if match c_mm c with Some _ => negb (jeqb (canon j) (canon (den Sg o))) | None => false end then 7 else 0)
                         else 3
      | _, _ => 3 end end.
Definition bad_cases (mm : MM) (Sg : sigma) (pystr : json -> string) (start : nat) (cs : list case) : list (nat * nat) :=
  filter (fun p => negb (Nat.eqb (snd p) 0)) (combine (seq start (length cs)) (map (judge mm Sg pystr) cs)).
