(* Order.v — Python's rich-comparison protocol, functools.total_ordering and f-string reprs,
   as far as the Position / Range / Location classes of lsprotocol.types use them (property C20).
   Hand-written model of CPython 3.12 semantics; the class table it runs on is regenerated from
   types.py by lib/x_pos.py on every run.  Executable, total, fuelled. *)
From Coq Require Import String List ZArith Bool.
Import ListNotations.
Open Scope string_scope.

Inductive val :=
| VI (z : Z) | VS (s : string) | VB (b : bool) | VT (l : list val)
| VO (cls : string) (fs : list (string * val))
| VOther.                      (* an object whose comparison methods all return NotImplemented *)

Inductive cop := Lt | Le | Gt | Ge | Eq | Ne.
Definition swap (o : cop) := match o with Lt => Gt | Le => Ge | Gt => Lt | Ge => Le | Eq => Eq | Ne => Ne end.

Inductive side := Self | Oth.
Inductive ex :=
| EAttr (s : side) (f : string)
| ETup (l : list ex)
| ECmp (o : cop) (a b : ex)
| EAnd (a b : ex) | EOr (a b : ex) | ENot (a : ex)
| EBool (b : bool)
| EIf (c a b : ex).          (* 'if c: return a' followed by 'return b' (or a if c else b): c's truth value decides *)

(* def __op__(self, o): if not isinstance(o, <guard>): return NotImplemented ; return <body> *)
Record meth := { m_guard : option string; m_body : ex }.
Inductive rconv := ConvStr | ConvRepr.
Inductive rpart := RLit (s : string) | RAttr (f : string) (c : rconv).
Record clsd := { c_name : string; c_total : bool; c_meths : list (cop * meth); c_repr : option (list rpart) }.

Inductive out := Val (v : val) | NotImpl | TypeErr | AttrErr | Unsupported | FuelOut.

Definition cop_eqb (a b : cop) : bool :=
  match a, b with Lt,Lt | Le,Le | Gt,Gt | Ge,Ge | Eq,Eq | Ne,Ne => true | _,_ => false end.

Definition str_eqb := String.eqb.   (* equality of string VALUES; kept apart from name lookup so proofs can block it *)
Definition zop (o : cop) (x y : Z) : bool :=
  match o with Lt => Z.ltb x y | Le => Z.leb x y | Gt => Z.ltb y x | Ge => Z.leb y x
             | Eq => Z.eqb x y | Ne => negb (Z.eqb x y) end.

Section Sem.
Variable CL : list clsd.

Definition find_cls (n : string) : option clsd := find (fun c => String.eqb (c_name c) n) CL.
Definition find_meth (c : clsd) (o : cop) : option meth :=
  option_map snd (find (fun p => cop_eqb (fst p) o) (c_meths c)).
Definition has (c : clsd) (o : cop) : bool := match find_meth c o with Some _ => true | None => false end.

(* root chosen by functools.total_ordering: max of the defined names: __lt__ > __le__ > __gt__ > __ge__ *)
Definition root (c : clsd) : option cop :=
  if has c Lt then Some Lt else if has c Le then Some Le else if has c Gt then Some Gt else if has c Ge then Some Ge else None.

Definition getattr (v : val) (f : string) : out :=
  match v with
  | VO _ fs => match find (fun p => String.eqb (fst p) f) fs with Some p => Val (snd p) | None => AttrErr end
  | _ => AttrErr end.

Definition truth (v : val) : option bool := match v with VB b => Some b | _ => None end.
Definition is_instance (v : val) (c : string) : bool := match v with VO c' _ => String.eqb c c' | _ => false end.

Section Step.
Variable rec : cop -> val -> val -> out.     (* the full binary operator, one level of fuel down *)

Definition bool_of (r : out) (k : bool -> out) : out :=
  match r with Val v => match truth v with Some b => k b | None => Unsupported end | e => e end.

(* tuple rich comparison: first index whose elements are not ==, then op on those; else on lengths *)
Fixpoint tup_cmp (o : cop) (x y : list val) : out :=
  match x, y with
  | [], [] => Val (VB (match o with Le | Ge | Eq => true | _ => false end))
  | [], _ :: _ => Val (VB (match o with Lt | Le | Ne => true | _ => false end))
  | _ :: _, [] => Val (VB (match o with Gt | Ge | Ne => true | _ => false end))
  | a :: x', b :: y' =>
      bool_of (rec Eq a b) (fun e =>
        if e then tup_cmp o x' y'
        else match o with Eq => Val (VB false) | Ne => Val (VB true) | _ => rec o a b end)
  end.

Fixpoint eval (e : ex) (self oth : val) : out :=
  match e with
  | EAttr Self f => getattr self f
  | EAttr Oth f => getattr oth f
  | ETup l => (fix go (l : list ex) : out :=
                 match l with [] => Val (VT [])
                 | a :: r => match eval a self oth with
                             | Val v => match go r with Val (VT vs) => Val (VT (v :: vs)) | e => e end
                             | e => e end end) l
  | ECmp o a b => match eval a self oth with
                  | Val x => match eval b self oth with Val y => rec o x y | e => e end
                  | e => e end
  | EAnd a b => bool_of (eval a self oth) (fun x => if x then eval b self oth else Val (VB false))
  | EOr a b => bool_of (eval a self oth) (fun x => if x then Val (VB true) else eval b self oth)
  | ENot a => bool_of (eval a self oth) (fun x => Val (VB (negb x)))
  | EBool b => Val (VB b)
  | EIf c a b => bool_of (eval c self oth) (fun x => if x then eval a self oth else eval b self oth)
  end.

Definition run_meth (m : meth) (self oth : val) : out :=
  match m_guard m with
  | Some g => if is_instance oth g then eval (m_body m) self oth else NotImpl
  | None => eval (m_body m) self oth end.

(* type(self).__op__(self, other) for an instance of class c, after total_ordering *)
Definition derived (c : clsd) (r : cop) (o : cop) (self oth : val) : out :=
  match find_meth c r with None => NotImpl | Some m =>
    match run_meth m self oth with
    | NotImpl => NotImpl
    | Val v =>
      match truth v with None => Unsupported | Some res =>
        let eq_ k := bool_of (rec Eq self oth) k in
        let ne_ k := bool_of (rec Ne self oth) k in
        match r, o with
        | Lt, Gt => if res then Val (VB false) else ne_ (fun b => Val (VB b))
        | Lt, Le => if res then Val (VB true) else eq_ (fun b => Val (VB b))
        | Lt, Ge => Val (VB (negb res))
        | Le, Ge => if negb res then Val (VB true) else eq_ (fun b => Val (VB b))
        | Le, Lt => if res then ne_ (fun b => Val (VB b)) else Val (VB false)
        | Le, Gt => Val (VB (negb res))
        | Gt, Lt => if res then Val (VB false) else ne_ (fun b => Val (VB b))
        | Gt, Ge => if res then Val (VB true) else eq_ (fun b => Val (VB b))
        | Gt, Le => Val (VB (negb res))
        | Ge, Le => if negb res then Val (VB true) else eq_ (fun b => Val (VB b))
        | Ge, Gt => if res then ne_ (fun b => Val (VB b)) else Val (VB false)
        | Ge, Lt => Val (VB (negb res))
        | _, _ => Unsupported end end
    | e => e end end.

Definition call (self : val) (o : cop) (oth : val) : out :=
  match self with
  | VI x => match oth with VI y => Val (VB (zop o x y)) | _ => NotImpl end
  | VS x => match oth with
            | VS y => match o with Eq => Val (VB (str_eqb x y)) | Ne => Val (VB (negb (str_eqb x y))) | _ => Unsupported end
            | _ => NotImpl end
  | VB x => match oth with
            | VB y => match o with Eq => Val (VB (Bool.eqb x y)) | Ne => Val (VB (negb (Bool.eqb x y))) | _ => Unsupported end
            | _ => NotImpl end
  | VT x => match oth with VT y => tup_cmp o x y | _ => NotImpl end
  | VOther => NotImpl
  | VO cn _ =>
      match find_cls cn with None => NotImpl | Some c =>
        match find_meth c o with
        | Some m => run_meth m self oth
        | None =>
          match o with
          | Ne => (* object.__ne__: invert __eq__ unless NotImplemented *)
              match find_meth c Eq with
              | Some m => match run_meth m self oth with
                          | Val v => match truth v with Some b => Val (VB (negb b)) | None => Unsupported end
                          | e => e end
              | None => NotImpl end
          | Eq => NotImpl
          | _ => if c_total c then match root c with Some r => derived c r o self oth | None => Unsupported end
                 else NotImpl
          end end end
  end.

(* a OP b: the method of the left operand, then the reflected method of the right one, then the default *)
Definition binop_step (o : cop) (a b : val) : out :=
  match call a o b with
  | NotImpl =>
      match call b (swap o) a with
      | NotImpl => match o with Eq => Val (VB false) | Ne => Val (VB true) | _ => TypeErr end
      | r => r end
  | r => r end.
End Step.

Fixpoint binop (n : nat) : cop -> val -> val -> out :=
  match n with O => fun _ _ _ => FuelOut | S n => binop_step (binop n) end.

(* repr *)
Variable dec : Z -> string.    (* str(int); only its being a function is used *)
Inductive rout := RS (pieces : list string) | RErr.   (* the repr is String.concat "" pieces *)
Definition rapp (a b : rout) := match a, b with RS x, RS y => RS (x ++ y)%list | _, _ => RErr end.
Fixpoint repr (n : nat) (v : val) : rout :=
  match n with O => RErr | S n =>
    match v with
    | VO cn _ =>
        match find_cls cn with None => RErr | Some c =>
          match c_repr c with None => RErr | Some parts =>
            fold_left (fun acc p =>
              rapp acc (match p with
                        | RLit s => RS [s]
                        | RAttr f cv =>
                            match getattr v f with
                            | Val (VI z) => RS [dec z]
                            | Val (VS s) => match cv with ConvStr => RS [s] | ConvRepr => RErr end
                            | Val (VO c' fs) => repr n (VO c' fs)
                            | _ => RErr end end)) parts (RS []) end end
    | _ => RErr end end.
End Sem.
