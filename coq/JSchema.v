(* JSchema.v — semantics of exactly the JSON-Schema (draft-07) subset that generator/lsp.schema.json uses (property C18).

   Keywords modelled: type (one name or a list), properties, required, additionalProperties:false, enum / const over strings,
   anyOf, items (one schema), $ref into #/definitions (siblings of $ref are ignored, as draft-07 prescribes).
   Annotations ($schema, description, definitions as a container) carry no constraint.  The translator lib/x_schema.py
   rejects every other keyword, so a schema outside this subset never reaches this file.

   `jsv defs n s j` is fuelled by the number of schema-node unfoldings; it answers false when the fuel runs out, so
   "valid" is the Prop  exists n, jsv defs n s j = true  (monotone in n, lemma jsv_mono), and an executable gate uses
   the explicit bound `fuel_for`.  `jsv` is tied to the real `jsonschema` library by the correspondence stream of C18
   (it is NOT assumed to agree with it).

   `restrict` builds the schema of a *fragment* of the valid documents (drop an anyOf alternative / a property, read
   `number` as integer, add the enumeration-typing side condition); it is used to state precisely which documents a
   theorem covers. *)
From LSP Require Import Base.

Inductive jtype := TString | TNumber | TBoolean | TObject | TArray | TNull
                 | TInt.        (* synthetic: produced only by [restrict]; a JSON integer (not a float) *)

Inductive xcheck := XEnumTyped.   (* synthetic side condition, produced only by [restrict] *)

Inductive schema :=
| SRef (n : string)
| SNode (ty : option (list jtype)) (props : list (string * schema)) (req : list string)
        (addl : bool)                       (* true: additional properties allowed (the keyword is absent) *)
        (enum : option (list string)) (const : option string)
        (anyof : option (list schema)) (items : option schema) (extra : option xcheck).

Definition SAny : schema := SNode None [] [] true None None None None None.

Definition type1_ok (t : jtype) (j : json) : bool :=
  match t, j with
  | TString, JStr _ | TBoolean, JBool _ | TObject, JObj _ | TArray, JArr _ | TNull, JNull => true
  | TNumber, JInt _ | TNumber, JFlt _ _ => true
  | TInt, JInt _ => true
  | _, _ => false end.
Definition type_ok (ty : option (list jtype)) (j : json) : bool :=
  match ty with None => true | Some l => existsb (fun t => type1_ok t j) l end.
Definition enum_ok (e : option (list string)) (j : json) : bool :=
  match e with None => true | Some l => match j with JStr s => mem s l | _ => false end end.
Definition const_ok (c : option string) (j : json) : bool :=
  match c with None => true | Some s => match j with JStr s' => String.eqb s s' | _ => false end end.

(* the values of an enumeration agree with its declared base type: strings iff type.name = "string", else integers *)
Definition enum_typed (j : json) : bool :=
  match j with
  | JObj m =>
      match assoc "type" m, assoc "values" m with
      | Some (JObj tm), Some (JArr vs) =>
          let isstr := match assoc "name" tm with Some (JStr s) => String.eqb s "string" | _ => false end in
          forallb (fun e => match e with
                            | JObj em => match assoc "value" em with
                                         | Some (JStr _) => isstr | Some (JInt _) => negb isstr | _ => false end
                            | _ => false end) vs
      | _, _ => false end
  | _ => false end.
Definition xcheck_ok (x : option xcheck) (j : json) : bool :=
  match x with None => true | Some XEnumTyped => enum_typed j end.

Section V.
Variable defs : list (string * schema).

Definition jsv_step (rec : schema -> json -> bool) (s : schema) (j : json) : bool :=
  match s with
  | SRef r => match assoc r defs with Some s' => rec s' j | None => false end
  | SNode ty props req addl enum const anyof items extra =>
      type_ok ty j && enum_ok enum j && const_ok const j && xcheck_ok extra j &&
      match anyof with None => true | Some l => existsb (fun a => rec a j) l end &&
      match j with
      | JObj m => forallb (fun r => mem r (keys m)) req &&
                  forallb (fun kv => match assoc (fst kv) props with Some s' => rec s' (snd kv) | None => addl end) m
      | JArr l => match items with Some s' => forallb (rec s') l | None => true end
      | _ => true end
  end.

Fixpoint jsv (n : nat) : schema -> json -> bool :=
  match n with O => fun _ _ => false | S n => jsv_step (jsv n) end.

Lemma jsv_S n s j : jsv (S n) s j = jsv_step (jsv n) s j.
Proof. reflexivity. Qed.

Lemma jsv_step_mono (r r' : schema -> json -> bool) :
  (forall s j, r s j = true -> r' s j = true) -> forall s j, jsv_step r s j = true -> jsv_step r' s j = true.
Proof.
  intros H s j. destruct s as [n | ty props req addl enum const anyof items extra]; cbn.
  - destruct (assoc n defs); [apply H | auto].
  - rewrite !andb_true_iff. intros [[[[[A B] C] D] E] F]. repeat split; auto.
    + destruct anyof as [l|]; [|reflexivity]. rewrite existsb_exists in *. destruct E as [a [I V]]. exists a. auto.
    + destruct j; auto.
      * destruct items as [s'|]; [|reflexivity]. rewrite forallb_forall in *. auto.
      * rewrite andb_true_iff in *. destruct F as [F1 F2]. split; [exact F1|].
        rewrite forallb_forall in *. intros kv I. specialize (F2 kv I). destruct (assoc (fst kv) props); auto.
Qed.

Lemma jsv_mono1 n : forall s j, jsv n s j = true -> jsv (S n) s j = true.
Proof.
  induction n as [|n IH]; intros s j; [discriminate|].
  rewrite (jsv_S (S n)), jsv_S. apply jsv_step_mono. exact IH.
Qed.
Lemma jsv_mono n m : n <= m -> forall s j, jsv n s j = true -> jsv m s j = true.
Proof. induction 1; intros; auto. apply jsv_mono1. auto. Qed.

Definition valid (s : schema) (j : json) : Prop := exists n, jsv n s j = true.

End V.

(* explicit fuel: every JSON level costs at most (chain of $ref/anyOf unfoldings) <= number of definitions + 2 *)
Definition fuel_for (defs : list (string * schema)) (j : json) : nat := (length defs + 3) * S (jsize j).

(* ------------------------------------------------------------------------------------------------------------ *)
(* restriction of a schema to a fragment *)
Inductive rop :=
| RDropAlt (def alt : string)        (* remove the alternative {"$ref": alt} from the anyOf of definition def *)
| RDropProp (def prop : string)      (* remove a (necessarily optional) property from definition def *)
| RNarrowNumber                      (* read every type "number" as a JSON integer *)
| REnumTyped (def : string).         (* add the enumeration-typing side condition to definition def *)

Definition is_ref_to (a : string) (s : schema) : bool := match s with SRef n => String.eqb n a | _ => false end.
Definition narrow_ty (t : jtype) : jtype := match t with TNumber => TInt | t => t end.

Fixpoint narrow (s : schema) : schema :=
  match s with
  | SRef n => SRef n
  | SNode ty props req addl enum const anyof items extra =>
      SNode (option_map (map narrow_ty) ty)
            ((fix go (l : list (string * schema)) := match l with [] => [] | (k, x) :: r => (k, narrow x) :: go r end) props)
            req addl enum const
            (match anyof with None => None
             | Some l => Some ((fix go (l : list schema) := match l with [] => [] | x :: r => narrow x :: go r end) l) end)
            (match items with None => None | Some x => Some (narrow x) end) extra
  end.

Definition on_def (d : string) (f : schema -> schema) (defs : list (string * schema)) : list (string * schema) :=
  map (fun kv => if String.eqb (fst kv) d then (fst kv, f (snd kv)) else kv) defs.

Definition apply_rop (o : rop) (defs : list (string * schema)) : list (string * schema) :=
  match o with
  | RDropAlt d a =>
      on_def d (fun s => match s with
                         | SNode ty props req addl enum const (Some l) items extra =>
                             SNode ty props req addl enum const (Some (filter (fun x => negb (is_ref_to a x)) l)) items extra
                         | s => s end) defs
  | RDropProp d p =>
      on_def d (fun s => match s with
                         | SNode ty props req addl enum const anyof items extra =>
                             SNode ty (filter (fun kv => negb (String.eqb (fst kv) p)) props) req addl enum const anyof items extra
                         | s => s end) defs
  | RNarrowNumber => map (fun kv => (fst kv, narrow (snd kv))) defs
  | REnumTyped d =>
      on_def d (fun s => match s with
                         | SNode ty props req addl enum const anyof items _ =>
                             SNode ty props req addl enum const anyof items (Some XEnumTyped)
                         | s => s end) defs
  end.
Definition restrict (ops : list rop) (defs : list (string * schema)) : list (string * schema) :=
  fold_left (fun d o => apply_rop o d) ops defs.

(* JSON values as a parser produces them: object keys are unique, at every depth *)
Fixpoint jwf (j : json) : bool :=
  match j with
  | JArr l => forallb jwf l
  | JObj m => nodupb (keys m) && (fix go (m : list (string * json)) := match m with [] => true | (_, v) :: r => jwf v && go r end) m
  | _ => true end.
