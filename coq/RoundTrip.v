(* RoundTrip.v — the parse direction: for every package table, every JSON value that is valid for a Python annotation
   (relation [pvalid]: the Python-side reading of strict validity) is structured successfully into a WELL-TYPED value whose
   DENOTATION is the input up to nulls; together with Denote.unstr_typed this is the round trip.
   Unions are handled through a semantic hypothesis [HookOK] per union type, which is PROVED for the hooks of the
   key-dispatch fragment from a decidable adequacy check (section "key dispatch").  *)
From Coq Require Import Lia.
From LSP Require Import Base Sem SemThy Denote.

(* equality of JSON up to null-valued object members: a key bound to null and an absent key are the same thing
   (Python's None); ints and integral floats are identified (a decimal position given as an integer) *)
Inductive NEq : json -> json -> Prop :=
| ne_null : NEq JNull JNull | ne_bool b : NEq (JBool b) (JBool b) | ne_int z : NEq (JInt z) (JInt z)
| ne_flt n d : NEq (JFlt n d) (JFlt n d)
| ne_int_flt z : NEq (JInt z) (JFlt z 1)
| ne_str s : NEq (JStr s) (JStr s)
| ne_arr l l' : Forall2 NEq l l' -> NEq (JArr l) (JArr l')
| ne_obj m m' :
    (forall k a, assoc k m = Some a -> a <> JNull -> exists b, assoc k m' = Some b /\ NEq a b) ->
    (forall k b, assoc k m' = Some b -> b <> JNull -> exists a, assoc k m = Some a /\ NEq a b) -> NEq (JObj m) (JObj m').

Section RT.
Variable Sg : sigma.
Variable py_str : json -> string.
(* NL c k = true: the member k of class c may carry an explicit null (a parameter: the Python annotations cannot tell an optional
   property from a null-admitting one; instantiated from the metamodel in LSP.Link, or with "always" for the Python-only reading) *)
Variable NL : string -> string -> bool.
Notation structure := (structure Sg py_str).
Notation step := (step Sg py_str).
Notation has_type := (has_type Sg).
Notation den := (den Sg).

(* what the attrs validator of a field demands, read on the JSON value *)
Definition jvalidate (f : fld) (v : json) : bool :=
  match v, fvalopt f with JNull, true => true | _, _ =>
  match fval f with
  | VNoVal => true
  | VInteger => match v with JInt z => in_range_i z | _ => false end
  | VUInteger => match v with JInt z => in_range_u z | _ => false end
  | VIsStr => match v with JStr _ => true | _ => false end
  | VIsBool => match v with JBool _ => true | _ => false end
  | VIsFloat => match v with JInt _ | JFlt _ _ => true | _ => false end
  | VIn l => match v with JStr s => mem s l | _ => false end end end.

(* an attribute may be absent only when its default None is a value of its annotated type *)
Definition must_present (f : fld) : bool :=
  match fdefault f with DefaultNone => negb (typed_b Sg 3 (ftype f) VNone) | _ => true end.

(* Python-side strict validity of a JSON value for an annotation *)
Inductive pvalid : pty -> json -> Prop :=
| pv_any j : pvalid PyAny j
| pv_opaque n j : pvalid (PyOpaque n) j
| pv_none : pvalid PyNone JNull
| pv_int z : pvalid PyInt (JInt z)
| pv_str s : pvalid PyStr (JStr s)
| pv_bool b : pvalid PyBool (JBool b)
| pv_float_i z : pvalid PyFloat (JInt z)
| pv_float_f n d : pvalid PyFloat (JFlt n d)
| pv_lit l s : In s l -> pvalid (PyLit l) (JStr s)
| pv_enum e d j : lookup_enum Sg e = Some d -> is_prim j = true ->
    (exists m, find (pv_eqb_prim (embed j)) (evals d) = Some m /\ den (VEnum e m) = j) -> pvalid (PyEnum e) j
| pv_seq t l : (forall x, In x l -> pvalid t x) -> pvalid (PySeq t) (JArr l)
| pv_tuple ts l : Forall2 pvalid ts l -> pvalid (PyTuple ts) (JArr l)
| pv_dict k v m : NoDup (keys m) -> (forall a b, In (a, b) m -> pvalid v b) -> k = PyStr -> pvalid (PyDict k v) (JObj m)
| pv_cls c fs m : lookup_cls Sg c = Some fs -> NoDup (keys m) ->
    (forall k v, In (k, v) m -> exists f, In f fs /\ fwire f = k /\ pvalid (ftype f) v /\ jvalidate f v = true /\ (v = JNull -> NL c k = true)) ->
    (forall f, In f fs -> must_present f = true -> In (fwire f) (keys m)) -> pvalid (PyCls c) (JObj m)
| pv_union ms t j : In t ms -> pvalid t j -> pvalid (PyUnion ms) j.

(* the goal for one (annotation, value) pair *)
Definition Good (P : pty) (j : json) : Prop :=
  exists n o, structure n P j = Ok o /\ has_type P o /\ NEq j (den o).
End RT.

(* ---------------------------------------------------------------- fuel monotonicity of structuring *)
Section SMono.
Variable Sg : sigma.
Variable py_str : json -> string.
Variables rec rec' : pty -> json -> res pv.
Hypothesis Hrec : forall t j o, rec t j = Ok o -> rec' t j = Ok o.

Lemma reval_mono r : forall o it x, reval py_str rec r o it = Ok x -> reval py_str rec' r o it = Ok x.
Proof.
  revert r. fix IH 1. intros r o it x. destruct r; cbn [reval]; try (intros H; exact H).
  - destruct (heval e o it) as [v| |]; cbn; try discriminate. apply Hrec.
  - destruct (heval e o it) as [v| |]; cbn; try discriminate. destruct (iter_json v) as [l|]; [|discriminate].
    intros H. destruct (mapM (fun y => reval py_str rec r o (Some y)) l) as [l'| |] eqn:E; cbn in H; try discriminate.
    rewrite (mapM_mono _ (fun y => reval py_str rec' r o (Some y)) _ _ (fun y z _ => IH r o (Some y) z) E). exact H.
  - destruct (ceval c o it) as [b| |]; cbn; try discriminate. destruct b; apply IH.
  - intros H.
    assert (G : forall l y, (fix go (l : list hret) := match l with [] => Ok [] | x :: xs => do y <- reval py_str rec x o it; do ys <- go xs; Ok (y :: ys) end) l = Ok y ->
                            (fix go (l : list hret) := match l with [] => Ok [] | x :: xs => do y <- reval py_str rec' x o it; do ys <- go xs; Ok (y :: ys) end) l = Ok y).
    { induction l0 as [|a l0 IHl]; intros y Hy; [exact Hy|].
      destruct (reval py_str rec a o it) as [ya| |] eqn:Ea; cbn in Hy; try discriminate. rewrite (IH a o it ya Ea). cbn.
      destruct ((fix go (l : list hret) := match l with [] => Ok [] | x :: xs => do y <- reval py_str rec x o it; do ys <- go xs; Ok (y :: ys) end) l0) as [ys| |] eqn:El; cbn in Hy; try discriminate.
      rewrite (IHl ys eq_refl). exact Hy. }
    destruct ((fix go (l : list hret) := match l with [] => Ok [] | x :: xs => do y <- reval py_str rec x o it; do ys <- go xs; Ok (y :: ys) end) l) as [ys| |] eqn:E; cbn in H; try discriminate.
    rewrite (G l ys E). exact H.
Qed.
Lemma hrun_mono h : forall o x, hrun py_str rec h o = Ok x -> hrun py_str rec' h o = Ok x.
Proof.
  induction h; intros o x; cbn.
  - destruct (ceval c o None) as [b| |]; cbn; try discriminate. destruct b; auto.
  - apply reval_mono.
  - discriminate.
Qed.
Lemma sfield_mono o f x : sfield rec o f = Ok x -> sfield rec' o f = Ok x.
Proof.
  unfold sfield. destruct (fdefault f).
  - destruct o; try discriminate. destruct (assoc (fwire f) m); [|discriminate].
    destruct (rec (ftype f) j) as [y| |] eqn:E; cbn; try discriminate. rewrite (Hrec _ _ _ E). auto.
  - destruct (py_in (fwire f) o) as [b| |]; cbn; try discriminate. destruct b; [|auto].
    destruct o; try discriminate. destruct (assoc (fwire f) m); [|discriminate].
    destruct (rec (ftype f) j) as [y| |] eqn:E; cbn; try discriminate. rewrite (Hrec _ _ _ E). auto.
  - destruct (py_in (fwire f) o) as [b| |]; cbn; try discriminate. destruct b; [|auto].
    destruct o; try discriminate. destruct (assoc (fwire f) m); [|discriminate].
    destruct (rec (ftype f) j) as [y| |] eqn:E; cbn; try discriminate. rewrite (Hrec _ _ _ E). auto.
Qed.
Lemma step_mono t j o : step Sg py_str rec t j = Ok o -> step Sg py_str rec' t j = Ok o.
Proof.
  destruct t; cbn [step]; try (intros H; exact H).
  - destruct (lookup_uhook Sg (PyUnion l)) as [h|]; [apply hrun_mono|].
    destruct (filter (fun x => negb (is_none x)) l) as [|x [|y r]]; try (intros H; exact H).
    destruct (Nat.eqb (length l) 2); [|intros H; exact H]. destruct j; try apply Hrec. intros H; exact H.
  - destruct (iter_json j) as [l|]; [|discriminate]. intros H.
    destruct (mapM (rec t) l) as [l'| |] eqn:E; cbn in H; try discriminate.
    rewrite (mapM_mono _ (rec' t) _ _ (fun x y _ => Hrec t x y) E). exact H.
  - destruct j; try discriminate. intros H.
    destruct (mapM _ m) as [m'| |] eqn:E; cbn in H; try discriminate.
    assert (M : forall (kv : string * json) y, In kv m ->
              (do k' <- rec t1 (JStr (fst kv)); do v' <- rec t2 (snd kv); Ok (k', v')) = Ok y ->
              (do k' <- rec' t1 (JStr (fst kv)); do v' <- rec' t2 (snd kv); Ok (k', v')) = Ok y).
    { intros kv y _.
      destruct (rec t1 (JStr (fst kv))) as [k'| |] eqn:E1; cbn; try discriminate. rewrite (Hrec _ _ _ E1). cbn.
      destruct (rec t2 (snd kv)) as [v'| |] eqn:E2; cbn; try discriminate. rewrite (Hrec _ _ _ E2). auto. }
    rewrite (mapM_mono _ _ _ _ M E). exact H.
  - destruct (iter_json j) as [l0|]; [|discriminate]. destruct (Nat.eqb (length l0) (length l)); [|discriminate]. intros H.
    destruct (mapM (fun p => rec (fst p) (snd p)) (combine l l0)) as [l'| |] eqn:E; cbn in H; try discriminate.
    rewrite (mapM_mono _ (fun p => rec' (fst p) (snd p)) _ _ (fun x y _ => Hrec (fst x) (snd x) y) E). exact H.
  - destruct (lookup_cls Sg n) as [fs|]; [|discriminate]. intros H.
    destruct (mapM (sfield rec j) fs) as [kw| |] eqn:E; cbn in H; try discriminate.
    rewrite (mapM_mono _ (sfield rec' j) _ _ (fun f y _ => sfield_mono j f y) E). exact H.
Qed.
End SMono.

Lemma structure_mono Sg py_str n : forall t j o, structure Sg py_str n t j = Ok o -> structure Sg py_str (S n) t j = Ok o.
Proof.
  induction n as [|n IH]; intros t j o H; [discriminate|].
  change (step Sg py_str (structure Sg py_str (S n)) t j = Ok o). change (step Sg py_str (structure Sg py_str n) t j = Ok o) in H.
  eapply step_mono; [|exact H]. exact IH.
Qed.
Lemma structure_mono_le Sg py_str n m t j o : n <= m -> structure Sg py_str n t j = Ok o -> structure Sg py_str m t j = Ok o.
Proof. induction 1 as [|m L IH]; [auto|]. intros H. apply structure_mono. auto. Qed.

(* ---------------------------------------------------------------- helper lemmas *)
Section JsonInd.
Variable P : json -> Prop.
Hypothesis Hnull : P JNull.
Hypothesis Hbool : forall b, P (JBool b).
Hypothesis Hint : forall z, P (JInt z).
Hypothesis Hflt : forall n d, P (JFlt n d).
Hypothesis Hstr : forall s, P (JStr s).
Hypothesis Harr : forall l, (forall x, In x l -> P x) -> P (JArr l).
Hypothesis Hobj : forall m, (forall k v, In (k, v) m -> P v) -> P (JObj m).
Fixpoint json_ind2 (j : json) : P j :=
  match j with
  | JNull => Hnull | JBool b => Hbool b | JInt z => Hint z | JFlt n d => Hflt n d | JStr s => Hstr s
  | JArr l => Harr l ((fix go (l : list json) : forall x, In x l -> P x :=
                         match l with
                         | [] => fun x F => match F with end
                         | y :: r => fun x I => match I with
                                                | or_introl E => eq_rect y P (json_ind2 y) x E
                                                | or_intror I' => go r x I' end end) l)
  | JObj m => Hobj m ((fix go (m : list (string * json)) : forall k v, In (k, v) m -> P v :=
                         match m with
                         | [] => fun k v F => match F with end
                         | (k', y) :: r => fun k v I => match I with
                                                       | or_introl E => eq_rect y P (json_ind2 y) v (f_equal snd E)
                                                       | or_intror I' => go r k v I' end end) m)
  end.
End JsonInd.

Lemma NEq_refl : forall j, NEq j j.
Proof.
  apply json_ind2; try (intros; constructor; fail).
  - intros l IH. constructor. induction l as [|x l IHl]; constructor; [apply IH; left; reflexivity | apply IHl; intros y I; apply IH; right; exact I].
  - intros m IH. constructor; intros k a A _; exists a; (split; [exact A | apply (IH k); apply assoc_in; exact A]).
Qed.

Section Emb.
Variable Sg : sigma.
Lemma den_embed : forall j, den Sg (embed j) = j.
Proof.
  apply json_ind2; try (intros; reflexivity).
  - intros l IH. cbn [embed den]. f_equal. induction l as [|x l IHl]; cbn; [reflexivity|].
    rewrite (IH x (or_introl eq_refl)), IHl; [reflexivity | intros y I; apply IH; right; exact I].
  - intros m IH. cbn [embed den]. f_equal. induction m as [|[k v] m IHm]; cbn; [reflexivity|].
    rewrite (IH k v (or_introl eq_refl)), IHm; [reflexivity | intros k' v' I; apply (IH k'); right; exact I].
Qed.
Lemma wf_embed : forall j, wf Sg (embed j).
Proof.
  apply json_ind2; try (intros; cbn [embed]; constructor; fail).
  - intros l IH. cbn [embed]. constructor. intros x I. apply in_map_iff in I. destruct I as [y [<- Iy]]. apply IH. exact Iy.
  - intros m IH. cbn [embed]. constructor.
    + intros k v I. apply in_map_iff in I. destruct I as [[k' v'] [E _]]. inversion E. reflexivity.
    + intros k v I. apply in_map_iff in I. destruct I as [[k' v'] [E I']]. inversion E. subst. apply (IH k'). exact I'.
Qed.
End Emb.

Lemma json_eq_null j : j = JNull \/ j <> JNull.
Proof. destruct j; [left; reflexivity | right; discriminate ..]. Qed.

(* ---------------------------------------------------------------- the parse theorem *)
Fixpoint nonunion (P : pty) : bool := match P with PyUnion _ => false | _ => true end.
(* unions are flat (typing.Union flattens) and nested types are flat as well *)
Fixpoint flat_ty (P : pty) : bool :=
  match P with
  | PyUnion ms => forallb (fun t => nonunion t && flat_ty t) ms
  | PySeq t => flat_ty t | PyDict k v => flat_ty k && flat_ty v | PyTuple l => forallb flat_ty l | _ => true end.

Section Main.
Variable Sg : sigma.
Variable py_str : json -> string.
Notation structure := (structure Sg py_str).
Notation has_type := (has_type Sg).
Notation den := (den Sg).
Variable NL : string -> string -> bool.
Notation pvalid := (pvalid Sg NL).
Notation Good := (Good Sg py_str).

(* table conditions (each is a decidable predicate over the package table, discharged by vm_compute on the instance) *)
(* the covered part of the package: a set of classes GC and a set of hooked union types GU (everything else is outside the theorem) *)
Variable GC : list string.
Variable GU : list pty.
Hypothesis T_extra : forbid_extra Sg = false.
Hypothesis T_wires : forall c fs, mem c GC = true -> lookup_cls Sg c = Some fs ->
  NoDup (map fwire fs) /\ NoDup (map fname fs) /\ (forall f, In f fs -> fwireo f = fwire f /\ flat_ty (ftype f) = true).
Hypothesis T_defaults : forall c fs f, mem c GC = true -> lookup_cls Sg c = Some fs -> In f fs ->
  match fdefault f with
  | DefaultNone => fval f = VNoVal \/ fvalopt f = true
  | DefaultStr _ => fomit f = false
  | NoDefault => True end.
(* validators accept what the JSON-level reading accepts (shape condition on validated fields) *)
Hypothesis T_val : forall c fs f v x n, mem c GC = true -> lookup_cls Sg c = Some fs -> In f fs ->
  structure n (ftype f) v = Ok x -> jvalidate f v = true -> validate (fval f) (fvalopt f) x = true.

(* unions that dispatch can handle: a registered hook, or Optional[x] *)
Fixpoint handled (P : pty) : bool :=
  match P with
  | PyUnion ms => match lookup_uhook Sg P with
                  | Some _ => existsb (pty_eqb P) GU
                  | None => match ms with [x; PyNone] | [PyNone; x] => negb (is_none x) && handled_nu x | _ => false end end
  | PySeq t => handled t | PyDict k v => handled k && handled v | PyTuple l => forallb handled l | PyFwd _ => false | PyCls c => mem c GC | _ => true end
with handled_nu (P : pty) : bool :=
  match P with
  | PyUnion _ => false
  | PySeq t => handled t | PyDict k v => handled k && handled v | PyTuple l => forallb handled l | PyFwd _ => false | PyCls c => mem c GC | _ => true end.
Definition okty (P : pty) : bool := flat_ty P && handled P.
Hypothesis T_fields : forall c fs f, mem c GC = true -> lookup_cls Sg c = Some fs -> In f fs -> okty (ftype f) = true.


(* what is required of a registered union hook (proved below for the key-dispatch fragment) *)
Definition HookOK (ms : list pty) (h : hook) : Prop :=
  forall j, pvalid (PyUnion ms) j ->
    (forall j' P', jsize j' < jsize j -> okty P' = true -> pvalid P' j' -> Good P' j') ->
    (forall P', nonunion P' = true -> okty P' = true -> pvalid P' j -> Good P' j) ->
    exists n o, hrun py_str (structure n) h j = Ok o /\ has_type (PyUnion ms) o /\ NEq j (den o).
Hypothesis T_hooks : forall ms h, existsb (pty_eqb (PyUnion ms)) GU = true -> lookup_uhook Sg (PyUnion ms) = Some h -> HookOK ms h.

Lemma good_mono P j n o m : n <= m -> structure n P j = Ok o -> structure m P j = Ok o.
Proof. apply structure_mono_le. Qed.

(* merge the fuels of a list of Good facts *)
Lemma good_list (l : list (pty * json)) : (forall p, In p l -> Good (fst p) (snd p)) ->
  exists n, forall p, In p l -> exists o, structure n (fst p) (snd p) = Ok o /\ has_type (fst p) o /\ NEq (snd p) (den o).
Proof.
  induction l as [|a l IH]; intros H; [exists 0; intros p []|].
  destruct (H a (or_introl eq_refl)) as [n1 [o1 [S1 [T1 N1]]]]. destruct (IH (fun p I => H p (or_intror I))) as [n2 H2].
  exists (Nat.max n1 n2). intros p [<-|I].
  - exists o1. split; [eapply good_mono; [|exact S1]; lia | auto].
  - destruct (H2 p I) as [o [S [T N]]]. exists o. split; [eapply good_mono; [|exact S]; lia | auto].
Qed.

Lemma mapM_build {A B} (f : A -> res B) (l : list A) (R : A -> B -> Prop) :
  (forall x, In x l -> exists y, f x = Ok y /\ R x y) -> exists ys, mapM f l = Ok ys /\ Forall2 R l ys.
Proof.
  induction l as [|a l IH]; intros H; [exists []; split; [reflexivity | constructor]|].
  destruct (H a (or_introl eq_refl)) as [y [Ey Ry]]. destruct (IH (fun x I => H x (or_intror I))) as [ys [Es Rs]].
  exists (y :: ys). cbn. rewrite Ey. cbn. rewrite Es. split; [reflexivity | constructor; assumption].
Qed.

Lemma good_all t l : (forall x, In x l -> Good t x) ->
  exists n ys, mapM (structure n t) l = Ok ys /\ Forall2 (fun x y => has_type t y /\ NEq x (den y)) l ys.
Proof.
  intros H. destruct (good_list (map (fun x => (t, x)) l)) as [n Hn].
  { intros p I. apply in_map_iff in I. destruct I as [x [<- Ix]]. exact (H x Ix). }
  exists n. apply mapM_build. intros x Ix. destruct (Hn (t, x)) as [o [S [T N]]]; [apply in_map_iff; exists x; auto|].
  exists o. auto.
Qed.
Lemma Forall2_in_r {A B} (R : A -> B -> Prop) l l' y : Forall2 R l l' -> In y l' -> exists x, In x l /\ R x y.
Proof. induction 1 as [|a b l l' Hab HF IH]; intros I; [contradiction|]. destruct I as [<-|I]; [exists a; split; [left; reflexivity | exact Hab]|]. destruct (IH I) as [x [Ix Rx]]. exists x. split; [right; exact Ix | exact Rx]. Qed.

Lemma seq_case t l : (forall x, In x l -> Good t x) -> Good (PySeq t) (JArr l).
Proof.
  intros H. destruct (good_all t l H) as [n [ys [M F]]].
  exists (S n), (VList ys). cbn [Sem.structure step iter_json]. rewrite M. split; [reflexivity|]. split.
  - constructor. intros y Iy. destruct (Forall2_in_r _ _ _ _ F Iy) as [x [_ [T _]]]. exact T.
  - cbn [Denote.den]. constructor. clear M. induction F as [|x y l ys [T N] F IH]; constructor; [exact N | apply IH; intros z Iz; apply H; right; exact Iz].
Qed.

(* ---- the class case ---- *)
Lemma find_wire fs k f : NoDup (map fwire fs) -> In f fs -> fwire f = k -> find (fun g => String.eqb (fwire g) k) fs = Some f.
Proof.
  induction fs as [|a fs IH]; intros ND I E; [contradiction|]. cbn. inversion ND as [|? ? Na NDr]; subst.
  destruct I as [->|I].
  - rewrite String.eqb_refl. reflexivity.
  - destruct (String.eqb_spec (fwire a) (fwire f)) as [Ea|Na']; [exfalso; apply Na; rewrite Ea; apply in_map; exact I | apply IH; auto].
Qed.
Lemma assoc_fname (fs : list fld) (kw : list (string * pv)) (R : fld -> string * pv -> Prop) f :
  NoDup (map fname fs) -> Forall2 R fs kw -> (forall g p, R g p -> fst p = fname g) -> In f fs ->
  exists x, assoc (fname f) kw = Some x /\ R f (fname f, x).
Proof.
  intros ND F Hn. induction F as [|g p fs kw Rgp F IH]; intros I; [contradiction|].
  inversion ND as [|? ? Ng NDr]; subst. unfold assoc. cbn. destruct I as [->|I].
  - destruct p as [pn px]. pose proof (Hn _ _ Rgp) as E. cbn in E. subst pn. cbn. rewrite String.eqb_refl. cbn. exists px. split; [reflexivity | exact Rgp].
  - destruct p as [pn px]. pose proof (Hn _ _ Rgp) as E. cbn in E. subst pn. cbn.
    destruct (String.eqb_spec (fname g) (fname f)) as [Ef|Nf]; [exfalso; apply Ng; rewrite Ef; apply in_map; exact I|].
    exact (IH NDr I).
Qed.

Lemma cls_case c fs m : mem c GC = true -> lookup_cls Sg c = Some fs -> NoDup (keys m) ->
  (forall k v, In (k, v) m -> exists f, In f fs /\ fwire f = k /\ jvalidate f v = true /\ Good (ftype f) v) ->
  (forall f, In f fs -> must_present Sg f = true -> In (fwire f) (keys m)) ->
  Good (PyCls c) (JObj m).
Proof.
  intros InG L NDm Hp Hr. destruct (T_wires c fs InG L) as [NDw [NDn Hw]].
  (* one fuel for all present values *)
  set (lst := flat_map (fun kv : string * json => match find (fun g => String.eqb (fwire g) (fst kv)) fs with Some f => [(ftype f, snd kv)] | None => [] end) m).
  destruct (good_list lst) as [n Hn].
  { intros p I. apply in_flat_map in I. destruct I as [[k v] [Ikv Ip]]. cbn [fst snd] in Ip.
    destruct (Hp k v Ikv) as [f [If [Ef [_ G]]]]. rewrite (find_wire fs k f NDw If Ef) in Ip. destruct Ip as [<-|[]]. exact G. }
  pose (Rf := fun (f : fld) (p : string * pv) =>
    fst p = fname f /\ has_type (ftype f) (snd p) /\ validate (fval f) (fvalopt f) (snd p) = true /\
    match assoc (fwire f) m with Some v => NEq v (den (snd p)) | None => fdefault f = DefaultNone /\ snd p = VNone end).
  assert (HF : forall f, In f fs -> exists p, sfield (structure n) (JObj m) f = Ok p /\ Rf f p).
  { intros f If. destruct (assoc (fwire f) m) as [v|] eqn:A.
    - pose proof (assoc_in _ _ _ A) as Iv. destruct (Hp _ _ Iv) as [f' [If' [Ef' [Jv _]]]].
      assert (f' = f). { pose proof (find_wire fs (fwire f) f' NDw If' Ef') as F1. pose proof (find_wire fs (fwire f) f NDw If eq_refl) as F2. congruence. }
      subst f'. destruct (Hn (ftype f, v)) as [o [S [T N]]].
      { apply in_flat_map. exists (fwire f, v). split; [exact Iv|]. cbn [fst snd]. rewrite (find_wire fs (fwire f) f NDw If eq_refl). left. reflexivity. }
      cbn [fst snd] in S, T, N. exists (fname f, o). split.
      + rewrite (sfield_present (structure n) m f v A). rewrite S. reflexivity.
      + unfold Rf. rewrite A. cbn [fst snd]. repeat split; auto. exact (T_val c fs f v o n InG L If S Jv).
    - assert (MP : must_present Sg f = false).
      { destruct (must_present Sg f) eqn:MP; [|reflexivity]. exfalso. apply assoc_none in A. apply A. apply Hr; assumption. }
      assert (D : fdefault f = DefaultNone) by (unfold must_present in MP; destruct (fdefault f); try discriminate; reflexivity).
      assert (TN : has_type (ftype f) VNone).
      { unfold must_present in MP. rewrite D in MP. apply negb_false_iff in MP. exact (proj2 (typed_b_sound Sg 3) _ _ MP). }
      pose proof (T_defaults c fs f InG L If) as TV. rewrite D in TV.
      exists (fname f, VNone). split.
      + pose proof (absent_reads_default (structure n) m f A) as AR. rewrite D in AR. apply AR. discriminate.
      + unfold Rf. rewrite A. cbn [fst snd]. repeat split; auto.
        unfold validate. destruct TV as [-> | ->]; [destruct (fvalopt f); reflexivity | reflexivity]. }
  destruct (mapM_build (sfield (structure n) (JObj m)) fs Rf HF) as [kw [M F2]].
  assert (Rn : forall g p, Rf g p -> fst p = fname g) by (intros g p [E _]; exact E).
  exists (S n), (VObj c kw). split; [|split].
  - cbn [Sem.structure step]. rewrite L, M. cbn [bind]. rewrite T_extra. cbn [andb].
    replace (forallb (fun p => validate (fval (fst p)) (fvalopt (fst p)) (snd (snd p))) (combine fs kw)) with true; [reflexivity|].
    symmetry. apply forallb_forall. intros [g p] I. cbn [fst snd].
    clear -F2 I. induction F2 as [|g' p' fs kw R F IH]; [contradiction|]. destruct I as [E|I]; [inversion E; subst; exact (proj1 (proj2 (proj2 R))) | exact (IH I)].
  - constructor. econstructor; [exact L|]. intros f If.
    destruct (assoc_fname fs kw Rf f NDn F2 Rn If) as [x [A R]]. exists x. split; [exact A | exact (proj1 (proj2 R))].
  - (* NEq *)
    cbn [Denote.den]. rewrite L.
    set (pairs := map (fun f => match assoc (fname f) ((fix go (fs0 : list (string * pv)) := match fs0 with [] => [] | (k, v) :: r => (k, (v, den v)) :: go r end) kw) with
                                | Some (x, dx) => if fomit f && pv_is_default (fdefault f) x then None else Some (fwireo f, dx) | None => None end) fs).
    (* characterise membership in the written pairs *)
    assert (PW : forall f, In f fs -> exists x, assoc (fname f) kw = Some x /\ Rf f (fname f, x) /\
                  (fomit f && pv_is_default (fdefault f) x = false -> In (fwire f, den x) (somes pairs)) /\
                  (forall b, In (fwire f, b) (somes pairs) -> b = den x /\ fomit f && pv_is_default (fdefault f) x = false)).
    { intros f If. destruct (assoc_fname fs kw Rf f NDn F2 Rn If) as [x [A R]]. exists x. split; [exact A|]. split; [exact R|].
      assert (EQ : forall g, In g fs -> forall y, assoc (fname g) kw = Some y ->
                match assoc (fname g) ((fix go (fs0 : list (string * pv)) := match fs0 with [] => [] | (k, v) :: r => (k, (v, den v)) :: go r end) kw) with
                | Some (x0, dx) => if fomit g && pv_is_default (fdefault g) x0 then None else Some (fwireo g, dx) | None => None end
                = if fomit g && pv_is_default (fdefault g) y then None else Some (fwire g, den y)).
      { intros g Ig y Ay. rewrite assoc_go, Ay. cbn. rewrite (proj1 (Hw g Ig)). reflexivity. }
      split.
      - intros O. unfold somes. apply in_flat_map. exists (Some (fwire f, den x)). split; [|left; reflexivity].
        unfold pairs. apply in_map_iff. exists f. split; [|exact If]. rewrite (EQ f If x A), O. reflexivity.
      - intros b Ib. unfold somes in Ib. apply in_flat_map in Ib. destruct Ib as [[q|] [Iq Iq2]]; [|contradiction].
        destruct Iq2 as [Eq|[]]. subst q. unfold pairs in Iq. apply in_map_iff in Iq. destruct Iq as [g [Eg Ig]].
        destruct (assoc_fname fs kw Rf g NDn F2 Rn Ig) as [y [Ay _]]. rewrite (EQ g Ig y Ay) in Eg.
        destruct (fomit g && pv_is_default (fdefault g) y) eqn:Og; [discriminate|]. inversion Eg as [[Ew Eb]].
        assert (g = f). { pose proof (find_wire fs (fwire f) g NDw Ig Ew) as F1. pose proof (find_wire fs (fwire f) f NDw If eq_refl) as F3. congruence. }
        subst g. rewrite A in Ay. inversion Ay; subst y. split; [reflexivity | exact Og]. }
    assert (NDp : NoDup (keys (somes pairs))).
    { unfold keys, somes, pairs. clear -NDw Hw. induction fs as [|f fs IH]; cbn; [constructor|].
      inversion NDw as [|? ? Nf NDr]; subst.
      assert (IHr : NoDup (map fst (flat_map (fun o : option (string * json) => match o with Some x => [x] | None => [] end)
                (map (fun f0 => match assoc (fname f0) ((fix go (fs0 : list (string * pv)) := match fs0 with [] => [] | (k, v) :: r => (k, (v, den v)) :: go r end) kw) with
                                | Some (x, dx) => if fomit f0 && pv_is_default (fdefault f0) x then None else Some (fwireo f0, dx) | None => None end) fs)))).
      { apply IH; [exact NDr | intros g Ig; apply Hw; right; exact Ig]. }
      destruct (assoc (fname f) _) as [[x dx]|]; [|exact IHr]. destruct (fomit f && pv_is_default (fdefault f) x); [exact IHr|].
      cbn. constructor; [|exact IHr]. intro I. apply in_map_iff in I. destruct I as [[k b] [Ek Ib]]. cbn in Ek. subst k.
      apply in_flat_map in Ib. destruct Ib as [[q|] [Iq Iq2]]; [|contradiction]. destruct Iq2 as [Eq|[]]. subst q.
      apply in_map_iff in Iq. destruct Iq as [g [Eg Ig]].
      destruct (assoc (fname g) _) as [[y dy]|]; [|discriminate]. destruct (fomit g && pv_is_default (fdefault g) y); [discriminate|].
      inversion Eg as [[Ew Eb]]. apply Nf. rewrite (proj1 (Hw f (or_introl eq_refl))) in Ew. rewrite (proj1 (Hw g (or_intror Ig))) in Ew.
      rewrite <- Ew. apply in_map. exact Ig. }
    constructor.
    + intros k a A Na. pose proof (assoc_in _ _ _ A) as Ia. destruct (Hp _ _ Ia) as [f [If [Ef _]]].
      destruct (PW f If) as [x [Ax [R [Pin _]]]]. destruct R as [_ [_ [_ RN]]]. rewrite Ef, A in RN. cbn [snd] in RN.
      exists (den x). split; [|exact RN]. apply in_assoc_nodup; [exact NDp|]. rewrite <- Ef. apply Pin.
      destruct (fomit f) eqn:Of; [|reflexivity]. cbn [andb].
      pose proof (T_defaults c fs f InG L If) as TD. destruct (fdefault f) eqn:D; [reflexivity | | rewrite Of in TD; discriminate].
      destruct x; try reflexivity. cbn [Denote.den] in RN. inversion RN; subst. congruence.
    + intros k b B Nb. pose proof (assoc_in _ _ _ B) as Ib.
      assert (exists f, In f fs /\ fwire f = k) as [f [If Ef]].
      { unfold somes in Ib. apply in_flat_map in Ib. destruct Ib as [[q|] [Iq Iq2]]; [|contradiction]. destruct Iq2 as [E|[]]. subst q.
        unfold pairs in Iq. apply in_map_iff in Iq. destruct Iq as [g [Eg Ig]]. exists g. split; [exact Ig|].
        destruct (assoc (fname g) _) as [[y dy]|]; [|discriminate]. destruct (fomit g && pv_is_default (fdefault g) y); [discriminate|].
        inversion Eg. rewrite <- (proj1 (Hw g Ig)). reflexivity. }
      subst k. destruct (PW f If) as [x [Ax [R [_ Pout]]]]. destruct (Pout b Ib) as [-> _].
      destruct R as [_ [_ [_ RN]]]. destruct (assoc (fwire f) m) as [v|] eqn:A.
      * exists v. split; [reflexivity | exact RN].
      * destruct RN as [_ RN]. cbn [snd] in RN. subst x. exfalso. apply Nb. reflexivity.
Qed.

Lemma tuple_case ts l : Forall2 (fun t x => Good t x) ts l -> Good (PyTuple ts) (JArr l).
Proof.
  intros F. destruct (good_list (combine ts l)) as [n Hn].
  { intros [t x] I. cbn [fst snd]. clear -F I. induction F as [|t' x' ts l G F IH]; [contradiction|]. destruct I as [E|I]; [inversion E; subst; exact G | exact (IH I)]. }
  assert (Ln : length l = length ts) by (clear -F; induction F; cbn; congruence).
  destruct (mapM_build (fun p => structure n (fst p) (snd p)) (combine ts l) (fun p y => has_type (fst p) y /\ NEq (snd p) (den y))) as [ys [M F2]].
  { intros p I. destruct (Hn p I) as [o [S [T N]]]. exists o. auto. }
  exists (S n), (VTuple ys). cbn [Sem.structure step iter_json]. rewrite Ln, Nat.eqb_refl, M. split; [reflexivity|]. split.
  - constructor. clear -F F2 Ln. revert ys F2. induction F as [|t x ts l G F IH]; intros ys F2; inversion F2; subst; constructor.
    + exact (proj1 H1).
    + apply IH; [cbn in Ln; congruence | assumption].
  - cbn [Denote.den]. constructor. clear -F F2. revert ys F2. induction F as [|t x ts l G F IH]; intros ys F2; inversion F2; subst; constructor.
    + exact (proj2 H1).
    + apply IH. assumption.
Qed.

Lemma dict_case v m : NoDup (keys m) -> (forall a b, In (a, b) m -> Good v b) -> Good (PyDict PyStr v) (JObj m).
Proof.
  intros ND H. destruct (good_all v (map snd m)) as [n [ys [M F]]].
  { intros x I. apply in_map_iff in I. destruct I as [[a b] [<- Iab]]. exact (H a b Iab). }
  assert (M' : mapM (structure (S n) v) (map snd m) = Ok ys)
    by (apply (mapM_mono (structure n v) (structure (S n) v) _ _ (fun x y _ => structure_mono Sg py_str n v x y) M)).
  clear M. rename M' into M.
  assert (M2 : mapM (fun kv : string * json => do k' <- structure (S n) PyStr (JStr (fst kv)); do v' <- structure (S n) v (snd kv); Ok (k', v')) m
               = Ok (combine (map (fun kv => VStr (fst kv)) m) ys)).
  { assert (Es : forall a, structure (S n) PyStr (JStr a) = Ok (VStr a)) by reflexivity.
    clear -M Es. set (g := structure (S n) v) in *. revert ys M. induction m as [|[a b] m IH]; intros ys M; cbn [mapM map snd fst] in M |- *.
    - inversion M. reflexivity.
    - destruct (g b) as [y| |] eqn:Ey; cbn [bind] in M; try discriminate.
      destruct (mapM g (map snd m)) as [ys'| |] eqn:Em; cbn [bind] in M; try discriminate. inversion M; subst.
      rewrite Es. cbn [bind]. rewrite (IH ys' eq_refl). reflexivity. }
  exists (S (S n)), (VDict (combine (map (fun kv => VStr (fst kv)) m) ys)).
  split; [change (Sem.structure Sg py_str (S (S n))) with (Sem.step Sg py_str (Sem.structure Sg py_str (S n))); cbn [Sem.step]; rewrite M2; reflexivity|].
  assert (Ly : length ys = length m) by (apply mapM_ok_in in M; rewrite (proj1 M), map_length; reflexivity).
  split.
  - constructor.
    + intros a b I. apply in_combine_l in I. apply in_map_iff in I. destruct I as [kv [<- _]]. reflexivity.
    + intros a b I. apply in_combine_r in I. destruct (Forall2_in_r _ _ _ _ F I) as [x [_ [T _]]]. exact T.
  - cbn [Denote.den]. rewrite dict_go. constructor.
    + intros k a A Na. clear M M2. revert ys F Ly. induction m as [|[k' b] m IHm]; intros ys F Ly; [discriminate|].
      destruct ys as [|y ys]; [discriminate|]. inversion F as [|? ? ? ? [T N] F']; subst. cbn [map combine fst snd].
      unfold assoc in A |- *. cbn [find fst] in A |- *. cbn [key_str]. destruct (String.eqb k' k).
      * cbn in A |- *. inversion A; subst. exists (den y). split; [reflexivity | exact N].
      * inversion ND; subst. apply IHm; auto. intros a0 b0 I0. apply (H a0 b0). right. exact I0.
    + intros k b B Nb. clear M M2. revert ys F Ly B. induction m as [|[k' b'] m IHm]; intros ys F Ly B; [destruct ys; discriminate|].
      destruct ys as [|y ys]; [discriminate|]. inversion F as [|? ? ? ? [T N] F']; subst. cbn [map combine fst snd] in B.
      unfold assoc in B |- *. cbn [find fst key_str] in B |- *. destruct (String.eqb k' k).
      * cbn in B |- *. inversion B; subst. exists b'. split; [reflexivity | exact N].
      * inversion ND; subst. apply IHm with (ys := ys); auto. intros a0 b0 I0. apply (H a0 b0). right. exact I0.
Qed.

Lemma jsize_in_arr x l : In x l -> jsize x < jsize (JArr l).
Proof. induction l as [|a l IH]; intros I; [contradiction|]. cbn in *. destruct I as [->|I]; [lia | specialize (IH I); lia]. Qed.
Lemma jsize_in_obj k v m : In (k, v) m -> jsize v < jsize (JObj m).
Proof. induction m as [|[a b] m IH]; intros I; [contradiction|]. cbn in *. destruct I as [E|I]; [inversion E; subst; lia | specialize (IH I); lia]. Qed.
Lemma okty_flat P : okty P = true -> flat_ty P = true. Proof. unfold okty. intros H. apply andb_true_iff in H. exact (proj1 H). Qed.
Lemma okty_handled P : okty P = true -> handled P = true. Proof. unfold okty. intros H. apply andb_true_iff in H. exact (proj2 H). Qed.

(* the parse theorem: every Python-valid value of a dispatchable flat type is structured into a well-typed value whose
   denotation is the input up to nulls *)
Theorem parse_good : forall k j, jsize j <= k -> forall P, okty P = true -> pvalid P j -> Good P j.
Proof.
  induction k as [|k IHk]; intros j Hk; [destruct j; cbn in Hk; lia|].
  assert (SUB : forall j' P', jsize j' < jsize j -> okty P' = true -> pvalid P' j' -> Good P' j') by (intros j' P' L O V; apply IHk; [lia | exact O | exact V]).
  (* A: non-union annotations *)
  assert (A : forall P, nonunion P = true -> okty P = true -> pvalid P j -> Good P j).
  { intros P NU O V. destruct V as [j | n0 j | | z | s | b | z | n0 d | l s Il | e d j Le Pj [m [Fm Dm]] | t l HL | ts l HF | kt v m ND HM -> | c fs m L ND HP HR | ms t j It Ht].
    - exists 1, (embed j). repeat split; [constructor; apply wf_embed | rewrite den_embed; apply NEq_refl].
    - exists 1, (embed j). repeat split; [constructor; apply wf_embed | rewrite den_embed; apply NEq_refl].
    - exists 1, VNone. repeat split; constructor.
    - exists 1, (VInt z). repeat split; constructor.
    - exists 1, (VStr s). repeat split; constructor.
    - exists 1, (VBool b). repeat split; constructor.
    - exists 1, (VFlt z 1). repeat split; constructor.
    - exists 1, (VFlt n0 d). repeat split; constructor.
    - exists 1, (VStr s). cbn [Sem.structure step]. apply mem_in in Il. rewrite Il. repeat split; [constructor; apply mem_in; exact Il | constructor].
    - exists 1, (VEnum e m). cbn [Sem.structure step]. rewrite Le, Fm. repeat split.
      + constructor. apply find_some in Fm. destruct Fm as [_ Em]. destruct j; try discriminate; destruct m; try discriminate; reflexivity.
      + rewrite Dm. apply NEq_refl.
    - apply seq_case. intros x Ix. apply SUB; [apply jsize_in_arr; exact Ix | | exact (HL x Ix)].
      unfold okty in *. cbn [flat_ty handled] in O. exact O.
    - apply tuple_case. unfold okty in O. cbn [flat_ty handled] in O. apply andb_true_iff in O. destruct O as [O1 O2].
      rewrite forallb_forall in O1, O2.
      assert (G : forall t x, In t ts -> In x l -> pvalid t x -> Good t x).
      { intros t x It Ix Vx. apply SUB; [apply jsize_in_arr; exact Ix | unfold okty; rewrite (O1 t It), (O2 t It); reflexivity | exact Vx]. }
      clear -HF G. induction HF as [|t x ts l V F IH]; constructor.
      + apply G; [left; reflexivity | left; reflexivity | exact V].
      + apply IH. intros t' x' It Ix. apply G; right; assumption.
    - apply dict_case; [exact ND|]. intros a b I. apply SUB; [exact (jsize_in_obj a b m I) | | exact (HM a b I)].
      unfold okty in *. cbn [flat_ty handled] in O. apply andb_true_iff in O. destruct O as [O1 O2].
      apply andb_true_iff in O1. apply andb_true_iff in O2. rewrite (proj2 O1), (proj2 O2). reflexivity.
    - assert (InG : mem c GC = true) by (unfold okty in O; cbn [flat_ty handled andb] in O; exact O).
      apply (cls_case c fs m InG L ND); [|exact HR]. intros k0 v I. destruct (HP k0 v I) as [f [If [Ef [Vf [Jf _]]]]].
      exists f. repeat split; auto. apply SUB; [exact (jsize_in_obj k0 v m I) | exact (T_fields c fs f InG L If) | exact Vf].
    - discriminate. }
  (* B: all annotations *)
  intros P O V. destruct (nonunion P) eqn:NU; [exact (A P NU O V)|].
  destruct P as [| | | | | |ms| | | | | | | |]; try discriminate.
  pose proof (okty_flat _ O) as FL. pose proof (okty_handled _ O) as HD. cbn [flat_ty] in FL. cbn [handled] in HD.
  rewrite forallb_forall in FL.
  destruct (lookup_uhook Sg (PyUnion ms)) as [h|] eqn:U.
  - destruct (T_hooks ms h HD U j V) as [n [o [Hh [Ht Hn]]]].
    + intros j' P' Lj FP VP. apply SUB; auto.
    + intros P' NP FP VP. apply A; auto.
    + exists (S n), o. cbn [Sem.structure step]. rewrite U. auto.
  - (* Optional[x] *)
    assert (OPT : exists x, (ms = [x; PyNone] \/ ms = [PyNone; x]) /\ is_none x = false /\ handled_nu x = true).
    { destruct ms as [|m1 [|m2 [|m3 mr]]]; try discriminate HD.
      - destruct m1; discriminate HD.
      - destruct m2; destruct m1; try discriminate HD;
          (apply andb_true_iff in HD; destruct HD as [H1 H2]; apply negb_true_iff in H1; try discriminate H1; eauto 8).
      - destruct m1; try discriminate HD; destruct m2; discriminate HD. }
    destruct OPT as [x [Ems [Nx Hx]]].
    assert (Ox : okty x = true /\ nonunion x = true).
    { assert (Ix : In x ms) by (destruct Ems as [-> | ->]; cbn; auto). specialize (FL x Ix). apply andb_true_iff in FL. destruct FL as [F1 F2].
      split; [|exact F1]. unfold okty. rewrite F2. destruct x; try discriminate; cbn [handled handled_nu] in *; exact Hx. }
    destruct Ox as [Ox NUx].
    assert (STEP : forall n, structure (S n) (PyUnion ms) j = match j with JNull => Ok VNone | _ => structure n x j end).
    { intros n. cbn [Sem.structure step]. rewrite U. destruct Ems as [-> | ->]; cbn [filter negb is_none]; rewrite Nx; cbn [negb length Nat.eqb]; reflexivity. }
    destruct (json_eq_null j) as [-> | Nj].
    + exists 1, VNone. rewrite STEP. repeat split; [|constructor]. eapply t_union with (t := PyNone); [destruct Ems as [-> | ->]; cbn; auto | constructor].
    + inversion V as [| | | | | | | | | | | | | |ms' t j' It Ht]; subst.
      assert (t = x). { destruct Ems as [-> | ->]; destruct It as [<-|[<-|[]]]; try reflexivity; inversion Ht; subst; congruence. }
      subst t. destruct (A x NUx Ox Ht) as [n [o [S1 [T1 N1]]]].
      exists (S n), o. rewrite STEP. split; [destruct j; try exact S1; congruence|]. split; [|exact N1].
      eapply t_union; [|exact T1]. destruct Ems as [-> | ->]; cbn; auto.
Qed.
End Main.

(* ---------------------------------------------------------------- the round trip *)
Section Round.
Variable Sg : sigma.
Variable py_str : json -> string.
Theorem roundtrip_of_good P j : Good Sg py_str P j ->
  exists n o j', structure Sg py_str n P j = Ok o /\ has_type Sg P o /\ unstr Sg n (Some P) o = Ok j' /\ NEq j j'.
Proof.
  intros [n1 [o [S [T N]]]]. destruct (unstr_typed Sg P o T) as [n2 U].
  exists (Nat.max n1 n2), o, (den Sg o). repeat split; auto.
  - eapply structure_mono_le; [|exact S]. lia.
  - eapply unstr_mono_le; [|exact U]. lia.
Qed.
End Round.

(* ---------------------------------------------------------------- the table conditions as a boolean checker *)
Section Table.
Variable Sg : sigma.
Variable py_str : json -> string.
Variable GC : list string.
Variable GU : list pty.

Definition val_shape_ok (f : fld) : bool :=
  match fval f with
  | VNoVal => true
  | VInteger | VUInteger => direct_b Sg (ftype f) PyInt
  | VIsStr => direct_b Sg (ftype f) PyStr
  | VIsBool => direct_b Sg (ftype f) PyBool
  | VIsFloat => direct_b Sg (ftype f) PyFloat
  | VIn _ => (pty_eqb (ftype f) PyStr || match ftype f with PyLit _ => true | _ => false end) && negb (fvalopt f) end.
Definition field_ok (f : fld) : bool :=
  String.eqb (fwireo f) (fwire f) && okty Sg GC GU (ftype f) && val_shape_ok f &&
  match fdefault f with
  | DefaultNone => (match fval f with VNoVal => true | _ => fvalopt f end)
  | DefaultStr _ => negb (fomit f)
  | NoDefault => true end.
Definition class_ok (c : string * list fld) : bool :=
  nodupb (map fwire (snd c)) && nodupb (map fname (snd c)) && forallb field_ok (snd c).
Definition table_ok : bool := negb (forbid_extra Sg) && forallb (fun c => negb (mem (fst c) GC) || class_ok c) (classes Sg).

Lemma lookup_in c fs : lookup_cls Sg c = Some fs -> In (c, fs) (classes Sg).
Proof. apply assoc_in. Qed.

Lemma direct_structure t base n v x : direct Sg t base -> is_none base = false -> v <> JNull ->
  structure Sg py_str n t v = Ok x -> exists m, structure Sg py_str m base v = Ok x.
Proof.
  intros D B Nv HS. destruct n as [|n]; [discriminate|]. cbn [structure] in HS.
  destruct (step_direct Sg py_str (structure Sg py_str n) t base v D Nv B) as [E|E]; rewrite E in HS.
  - exists (S n). exact HS.
  - exists n. exact HS.
Qed.
Lemma direct_null t base n x : direct Sg t base -> is_none base = false -> structure Sg py_str n t JNull = Ok x ->
  x = VNone \/ exists m, structure Sg py_str m base JNull = Ok x.
Proof.
  intros [-> | [[-> U] | [-> U]]] B HS.
  - right. exists n. exact HS.
  - left. destruct n as [|n]; [discriminate|]. cbn [structure step] in HS. rewrite U in HS. cbn [filter negb is_none] in HS. rewrite B in HS. cbn in HS. congruence.
  - left. destruct n as [|n]; [discriminate|]. cbn [structure step] in HS. rewrite U in HS. cbn [filter negb is_none] in HS. rewrite B in HS. cbn in HS. congruence.
Qed.

Theorem table_ok_sound : table_ok = true ->
  forbid_extra Sg = false /\
  (forall c fs, mem c GC = true -> lookup_cls Sg c = Some fs -> NoDup (map fwire fs) /\ NoDup (map fname fs) /\ (forall f, In f fs -> fwireo f = fwire f /\ flat_ty (ftype f) = true)) /\
  (forall c fs f, mem c GC = true -> lookup_cls Sg c = Some fs -> In f fs ->
     match fdefault f with
     | DefaultNone => fval f = VNoVal \/ fvalopt f = true
     | DefaultStr _ => fomit f = false | NoDefault => True end) /\
  (forall c fs f v x n, mem c GC = true -> lookup_cls Sg c = Some fs -> In f fs -> structure Sg py_str n (ftype f) v = Ok x -> jvalidate f v = true -> validate (fval f) (fvalopt f) x = true) /\
  (forall c fs f, mem c GC = true -> lookup_cls Sg c = Some fs -> In f fs -> okty Sg GC GU (ftype f) = true).
Proof.
  unfold table_ok. intros H. apply andb_true_iff in H. destruct H as [HE HC]. apply negb_true_iff in HE. rewrite forallb_forall in HC.
  assert (CK : forall c fs, mem c GC = true -> lookup_cls Sg c = Some fs -> class_ok (c, fs) = true).
  { intros c fs InG L. specialize (HC _ (lookup_in c fs L)). cbn [fst] in HC. rewrite InG in HC. exact HC. }
  assert (FO : forall c fs f, mem c GC = true -> lookup_cls Sg c = Some fs -> In f fs -> field_ok f = true).
  { intros c fs f InG L If. pose proof (CK c fs InG L) as HC'. clear HC. rename HC' into HC. unfold class_ok in HC. cbn [snd] in HC.
    apply andb_true_iff in HC. destruct HC as [_ HF]. rewrite forallb_forall in HF. exact (HF f If). }
  split; [exact HE|]. split; [|split; [|split]].
  - intros c fs InG L. pose proof (CK c fs InG L) as HC'. clear HC. rename HC' into HC. unfold class_ok in HC. cbn [snd] in HC.
    apply andb_true_iff in HC. destruct HC as [HC HF]. apply andb_true_iff in HC. destruct HC as [H1 H2].
    split; [apply nodupb_NoDup; exact H1|]. split; [apply nodupb_NoDup; exact H2|].
    intros f If. rewrite forallb_forall in HF. specialize (HF f If). unfold field_ok in HF.
    repeat (apply andb_true_iff in HF; destruct HF as [HF ?]). apply String.eqb_eq in HF. split; [exact HF|].
    match goal with Hk : okty Sg GC GU (ftype f) = true |- _ => exact (proj1 (proj1 (andb_true_iff _ _) Hk)) end.
  - intros c fs f InG L If. pose proof (FO c fs f InG L If) as F. unfold field_ok in F.
    apply andb_true_iff in F. destruct F as [_ F]. destruct (fdefault f); [exact I | |].
    + destruct (fval f); auto.
    + apply negb_true_iff in F. exact F.
  - intros c fs f v x n InG L If HS J. pose proof (FO c fs f InG L If) as F. unfold field_ok in F.
    apply andb_true_iff in F. destruct F as [F _]. apply andb_true_iff in F. destruct F as [_ VS].
    unfold val_shape_ok in VS. unfold jvalidate in J. unfold validate.
    destruct (fval f) eqn:K.
    + destruct x; destruct (fvalopt f); reflexivity.
    + (* integer *)
      apply direct_b_sound in VS; [|reflexivity].
      destruct (json_eq_null v) as [-> | Nv].
      * destruct (fvalopt f); [|discriminate J]. destruct (direct_null _ _ _ _ VS eq_refl HS) as [-> | [m Sm]]; [reflexivity|].
        destruct m; discriminate Sm.
      * destruct (direct_structure _ _ _ _ _ VS eq_refl Nv HS) as [m Sm]. destruct m as [|m]; [discriminate|]. cbn [structure step py_int py_float truthy] in Sm.
        destruct v; try (exfalso; apply Nv; reflexivity); try (destruct (fvalopt f); discriminate J); cbn [py_int py_float truthy] in Sm; inversion Sm; subst. destruct (fvalopt f); exact J.
    + apply direct_b_sound in VS; [|reflexivity].
      destruct (json_eq_null v) as [-> | Nv].
      * destruct (fvalopt f); [|discriminate J]. destruct (direct_null _ _ _ _ VS eq_refl HS) as [-> | [m Sm]]; [reflexivity|].
        destruct m; discriminate Sm.
      * destruct (direct_structure _ _ _ _ _ VS eq_refl Nv HS) as [m Sm]. destruct m as [|m]; [discriminate|]. cbn [structure step py_int py_float truthy] in Sm.
        destruct v; try (exfalso; apply Nv; reflexivity); try (destruct (fvalopt f); discriminate J); cbn [py_int py_float truthy] in Sm; inversion Sm; subst. destruct (fvalopt f); exact J.
    + apply direct_b_sound in VS; [|reflexivity].
      destruct (json_eq_null v) as [-> | Nv].
      * destruct (fvalopt f); [|discriminate J]. destruct (direct_null _ _ _ _ VS eq_refl HS) as [-> | [m Sm]]; [reflexivity|].
        destruct m as [|m]; [discriminate|]. cbn [structure step py_int py_float truthy] in Sm. inversion Sm; subst. reflexivity.
      * destruct (direct_structure _ _ _ _ _ VS eq_refl Nv HS) as [m Sm]. destruct m as [|m]; [discriminate|]. cbn [structure step py_int py_float truthy] in Sm.
        destruct v; try (exfalso; apply Nv; reflexivity); try (destruct (fvalopt f); discriminate J); cbn [py_int py_float truthy] in Sm; inversion Sm; subst. destruct (fvalopt f); reflexivity.
    + apply direct_b_sound in VS; [|reflexivity].
      destruct (json_eq_null v) as [-> | Nv].
      * destruct (fvalopt f); [|discriminate J]. destruct (direct_null _ _ _ _ VS eq_refl HS) as [-> | [m Sm]]; [reflexivity|].
        destruct m as [|m]; [discriminate|]. cbn [structure step py_int py_float truthy] in Sm. inversion Sm; subst. reflexivity.
      * destruct (direct_structure _ _ _ _ _ VS eq_refl Nv HS) as [m Sm]. destruct m as [|m]; [discriminate|]. cbn [structure step py_int py_float truthy] in Sm.
        destruct v; try (exfalso; apply Nv; reflexivity); try (destruct (fvalopt f); discriminate J); cbn [py_int py_float truthy] in Sm; inversion Sm; subst. destruct (fvalopt f); reflexivity.
    + apply direct_b_sound in VS; [|reflexivity].
      destruct (json_eq_null v) as [-> | Nv].
      * destruct (fvalopt f); [|discriminate J]. destruct (direct_null _ _ _ _ VS eq_refl HS) as [-> | [m Sm]]; [reflexivity|].
        destruct m; discriminate Sm.
      * destruct (direct_structure _ _ _ _ _ VS eq_refl Nv HS) as [m Sm]. destruct m as [|m]; [discriminate|]. cbn [structure step py_int py_float truthy] in Sm.
        destruct v; try (exfalso; apply Nv; reflexivity); try (destruct (fvalopt f); discriminate J); cbn [py_int py_float truthy] in Sm; inversion Sm; subst; destruct (fvalopt f); reflexivity.
    + apply andb_true_iff in VS. destruct VS as [VS VO]. apply negb_true_iff in VO. rewrite VO in *.
      apply orb_true_iff in VS. destruct VS as [VS|VS].
      * apply pty_eqb_atomic in VS; [|reflexivity]. rewrite VS in HS. destruct n as [|n]; [discriminate|]. cbn in HS.
        destruct v; try discriminate J. inversion HS; subst. exact J.
      * destruct (ftype f); try discriminate VS. destruct n as [|n]; [discriminate|]. cbn in HS.
        destruct v; try discriminate J. destruct (mem s l0); inversion HS; subst. exact J.
  - intros c fs f InG L If. pose proof (FO c fs f InG L If) as F. unfold field_ok in F.
    repeat (apply andb_true_iff in F; destruct F as [F ?]). assumption.
Qed.
End Table.
