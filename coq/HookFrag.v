(* HookFrag.v — a decidable adequacy check for union hooks, and its soundness:
     hook_ok Sg NL GC GU ms h = true  ->  HookOK Sg py_str NL GC GU ms h
   (HookOK is what RoundTrip.parse_good demands of a registered union hook.)
   The fragment: the hook's path may depend only on the SHAPE of the value — null / non-string primitive / string /
   array (with the shape of its first element) / object with, per key, the kind of the member and for strings possibly the
   text.  [seval]/[sleaf] interpret the hook on a shape; [seval_sound] ties them to the concrete semantics; [sleaf_mono] says
   the leaf computed for a less informative object shape is the leaf of every real shape refining it.  Each member type of the
   union is checked against the leaf reached by the shapes of its valid values: class members by enumeration of the key sets
   consistent with the class (representative shape from declared types and literal validators, [finfo], [kind_sound]),
   array members through their first element, primitives / enums / Any by pass-through.  [compat]/[compat_sound]: an object
   valid at class c is valid at the class c' the hook chooses.  NL is the explicit-null permission (see RoundTrip.pvalid). *)
From LSP Require Import Base Sem SemThy Denote RoundTrip PtyEq.

(* an array's shape records the shape of its FIRST element (None = empty): some hooks decide the element class of a homogeneous
   array by probing object_[0] *)
(* what is known about the value of a member: its kind, for strings possibly the text; KUnk = nothing *)
Inductive kinfo := KNull | KPrim | KStr (s : option string) | KArr | KObj | KUnk.
Definition kinfo_of (j : json) : kinfo :=
  match j with JNull => KNull | JBool _ | JInt _ | JFlt _ _ => KPrim | JStr s => KStr (Some s) | JArr _ => KArr | JObj _ => KObj end.
Inductive shape := ShNull | ShPrimNS | ShStr | ShArr (first : option shape) | ShObj (kvs : list (string * kinfo)).
Fixpoint shape_of (j : json) : shape :=
  match j with
  | JNull => ShNull | JBool _ | JInt _ | JFlt _ _ => ShPrimNS | JStr _ => ShStr
  | JArr l => ShArr (match l with [] => None | x :: _ => Some (shape_of x) end)
  | JObj m => ShObj (map (fun kv => (fst kv, kinfo_of (snd kv))) m) end.
Definition is_first (e : hexpr) : bool := match e with HIdx HObj 0 => true | _ => false end.
Definition key_of (e : hexpr) : option string := match e with HKey HObj k => Some k | _ => None end.
Definition kget (sh : shape) (k : string) : option kinfo := match sh with ShObj kvs => assoc k kvs | _ => None end.
(* a test on the kind of the member e = object_[k] *)
Definition ktest (sh : shape) (e : hexpr) (yes : kinfo -> bool) : option bool :=
  match key_of e with
  | Some k => match kget sh k with Some KUnk => None | Some a => Some (yes a) | None => None end
  | None => None end.

Definition is_hobj (e : hexpr) : bool := match e with HObj => true | _ => false end.
Fixpoint seval (c : hcond) (sh : shape) : option bool :=
  match c with
  | CIsNone e => if is_hobj e then Some (match sh with ShNull => true | _ => false end)
                 else ktest sh e (fun a => match a with KNull => true | _ => false end)
  | CIsPrim e => if is_hobj e then Some (match sh with ShPrimNS | ShStr => true | _ => false end)
                 else ktest sh e (fun a => match a with KPrim | KStr _ => true | _ => false end)
  | CIsStr e => if is_hobj e then Some (match sh with ShStr => true | _ => false end)
                else ktest sh e (fun a => match a with KStr _ => true | _ => false end)
  | CIsList e => if is_hobj e then Some (match sh with ShArr _ => true | _ => false end)
                 else ktest sh e (fun a => match a with KArr => true | _ => false end)
  | CHasKey k e => if is_hobj e then match sh with ShObj kvs => Some (mem k (map fst kvs)) | _ => None end
                   else if is_first e then match sh with ShArr (Some (ShObj kvs)) => Some (mem k (map fst kvs)) | _ => None end else None
  | CEqStr e s => match key_of e with
                  | Some k => match kget sh k with
                              | Some (KStr (Some v)) => Some (String.eqb s v)
                              | Some (KStr None) | Some KUnk | None => None
                              | Some _ => Some false end
                  | None => None end
  | CLenEq0 e => if is_hobj e then match sh with ShArr None => Some true | ShArr (Some _) => Some false | _ => None end else None
  | CNot c => option_map negb (seval c sh)
  | COr a b => match seval a sh with Some true => Some true | Some false => seval b sh | None => None end
  | CAnd a b => match seval a sh with Some true => seval b sh | Some false => Some false | None => None end
  | CAnyItem _ _ => None
  end.
Fixpoint sleaf (h : hook) (sh : shape) : option hret :=
  match h with
  | TIf c a b => match seval c sh with Some true => sleaf a sh | Some false => sleaf b sh | None => None end
  | TRet r => Some r
  | TRaise => None end.

Fixpoint cprobes (c : hcond) : list string :=
  match c with CHasKey k _ => [k] | CNot c => cprobes c | COr a b | CAnd a b => cprobes a ++ cprobes b | _ => [] end.
Fixpoint hprobes (h : hook) : list string :=
  match h with TIf c a b => cprobes c ++ hprobes a ++ hprobes b | _ => [] end.
(* what a member's declared type says about the kind of its value (nl: may it be an explicit null?) *)
Definition kind1 (t : pty) : kinfo :=
  match t with
  | PyNone => KNull | PyInt | PyBool | PyFloat => KPrim | PyStr => KStr None
  | PyLit [s] => KStr (Some s) | PyLit _ => KStr None
  | PySeq _ | PyTuple _ => KArr | PyCls _ | PyDict _ _ => KObj | _ => KUnk end.
Definition kinfo_eqb (a b : kinfo) : bool :=
  match a, b with
  | KNull, KNull | KPrim, KPrim | KArr, KArr | KObj, KObj | KUnk, KUnk | KStr None, KStr None => true
  | KStr (Some s), KStr (Some s') => String.eqb s s' | _, _ => false end.
Definition kind_of_ty (nl : bool) (t : pty) : kinfo :=
  match t with
  | PyUnion ms => match (if nl then ms else filter (fun x => negb (is_none x)) ms) with
                  | x :: r => if forallb (fun y => kinfo_eqb (kind1 y) (kind1 x)) r then kind1 x else KUnk
                  | [] => KUnk end
  | _ => if nl then KUnk else kind1 t end.
(* a is at most as informative as b *)
Definition kle (a b : kinfo) : bool :=
  match a, b with
  | KUnk, _ => true | KStr None, KStr _ => true | _, _ => kinfo_eqb a b end.

(* no condition looks inside the first element *)
Fixpoint cidx_free (c : hcond) : bool :=
  match c with CHasKey _ e => negb (is_first e) | CNot c => cidx_free c | COr a b | CAnd a b => cidx_free a && cidx_free b | _ => true end.
Fixpoint idx_free (h : hook) : bool := match h with TIf c a b => cidx_free c && idx_free a && idx_free b | _ => true end.

Fixpoint subseqs {A} (l : list A) : list (list A) :=
  match l with [] => [[]] | x :: r => let s := subseqs r in map (cons x) s ++ s end.

Definition vkind_eqb (a b : vkind) : bool :=
  match a, b with
  | VNoVal, VNoVal | VInteger, VInteger | VUInteger, VUInteger | VIsStr, VIsStr | VIsBool, VIsBool | VIsFloat, VIsFloat => true
  | VIn l, VIn m => lstr_eqb l m | _, _ => false end.
Definition fld_same (f f' : fld) : bool :=
  String.eqb (fwire f) (fwire f') && pty_eqb (ftype f) (ftype f') && vkind_eqb (fval f) (fval f') && Bool.eqb (fvalopt f) (fvalopt f').

(* Optional[...] stripped: the type a NON-NULL value of t is valid for *)
Definition strip (t : pty) : pty :=
  match t with
  | PyUnion l => match filter (fun x => negb (is_none x)) l with [x] => x | l' => PyUnion l' end
  | _ => t end.
(* an attribute f of class c may stand for the attribute f' of class c' (same wire name): same type and the null permission carries
   over, or — when c does not allow an explicit null at this member — the same type up to Optional[...] *)
Definition fld_compat (nl nl' : bool) (f f' : fld) : bool :=
  String.eqb (fwire f) (fwire f') && vkind_eqb (fval f) (fval f') &&
  ((pty_eqb (ftype f) (ftype f') && Bool.eqb (fvalopt f) (fvalopt f') && implb nl nl')
   || (negb nl && pty_eqb (strip (ftype f)) (strip (ftype f')))).

Section Chk.
Variable Sg : sigma.
Variable NL : string -> string -> bool.
Variable GC : list string.
Variable GU : list pty.

Definition is_self (r : hret) : bool := match r with RSelf HObj => true | _ => false end.
Definition is_self_or_str (r : hret) : bool := match r with RSelf HObj | RStr HObj => true | _ => false end.
Definition leaf_is (o : option hret) (p : hret -> bool) : bool := match o with Some r => p r | None => false end.
Definition self_prim_ty (t : pty) : bool := match t with PyStr | PyInt | PyBool => true | _ => false end.
Definition is_idx (e : hexpr) (i : nat) : bool := match e with HIdx HObj n => Nat.eqb n i | _ => false end.
Definition is_pair_leaf (r : hret) : bool :=
  match r with RTuple [RIntOf a; RIntOf b] => is_idx a 0 && is_idx b 1 | _ => false end.

(* what may follow from knowing that the keys in [pres] are present and the keys in [abs] are absent, for an object valid at class fs:
   it is valid at class fs' as well *)
Definition compat (c c' : string) (fs fs' : list fld) (pres abs : list string) : bool :=
  forallb (fun f => mem (fwire f) abs || existsb (fld_compat (NL c (fwire f)) (NL c' (fwire f)) f) fs') fs
  && forallb (fun f' => negb (must_present Sg f') || mem (fwire f') pres) fs'.

Definition consistent (fs : list fld) (P S : list string) : bool :=
  forallb (fun k => implb (existsb (fun f => String.eqb (fwire f) k && must_present Sg f) fs) (mem k S)
                    && implb (mem k S) (mem k (map fwire fs))) P.

(* the representative shape of an object of class c whose probed present keys are S: each key with what its declared type says *)
Definition finfo (c : string) (fs : list fld) (k : string) : kinfo :=
  match find (fun f => String.eqb (fwire f) k) fs with
  | Some f => match fval f, fvalopt f with
              | VIn [s], false => KStr (Some s)          (* a literal discriminator: the validator admits exactly this string *)
              | _, _ => kind_of_ty (NL c k) (ftype f) end
  | None => KUnk end.
Definition rep_obj (c : string) (fs : list fld) (S : list string) : list (string * kinfo) := map (fun k => (k, finfo c fs k)) S.
Definition rep_unk (S : list string) : list (string * kinfo) := map (fun k => (k, KUnk)) S.

Definition cls_member_ok (ms : list pty) (h : hook) (c : string) : bool :=
  match lookup_cls Sg c with
  | None => false
  | Some fs =>
    let P := hprobes h in
    nodupb (map fwire fs) &&
    forallb (fun S => negb (consistent fs P S) ||
       match sleaf h (ShObj (rep_obj c fs S)) with
       | Some (RStruct HObj (PyCls c')) =>
           existsb (pty_eqb (PyCls c')) ms && mem c' GC &&
           match lookup_cls Sg c' with
           | Some fs' => compat c c' fs fs' (filter (fun k => existsb (fun f => String.eqb (fwire f) k && must_present Sg f) fs) (map fwire fs) ++ S)
                                       (filter (fun k => negb (mem k S)) P)
           | None => false end
       | _ => false end) (subseqs P)
  end.

Definition member_ok (ms : list pty) (h : hook) (t : pty) : bool :=
  match t with
  | PyNone => leaf_is (sleaf h ShNull) (fun r => match r with RNone | RSelf HObj => true | _ => false end)
  | PyBool | PyInt => leaf_is (sleaf h ShPrimNS) is_self
  | PyStr | PyLit _ => leaf_is (sleaf h ShStr) is_self_or_str
  | PyEnum e => leaf_is (sleaf h ShPrimNS) is_self && leaf_is (sleaf h ShStr) is_self_or_str && not_optional_pair ms
  | PyAny | PyOpaque _ => match h with TRet (RSelf HObj) => true | _ => false end
  | PySeq e =>
      (* the empty array *)
      match sleaf h (ShArr None) with Some REmpty | Some (RMap HObj _) => true | _ => false end &&
      (* non-empty arrays: either no condition looks at the first element and the elements are structured at e itself, or e is
         a class and every key set its FIRST element can have leads to a class c' every element is valid for *)
      ((idx_free h && match sleaf h (ShArr (Some ShNull)) with
                      | Some (RMap HObj (RStruct HItem t')) => pty_eqb e t' && okty Sg GC GU e
                      | Some (RMap HObj (RStr HItem)) => pty_eqb e PyStr          (* [str(item) for item in object_] on a list of strings *)
                      | Some (RMap HObj (RIf (CIsPrim HItem) (RSelf HItem) (RStruct HItem (PyCls c')))) =>
                          (* items that are primitives stay, the others are structured as class c': e = Union[c', str, ...] *)
                          match e with
                          | PyUnion ems => forallb (fun x => self_prim_ty x || pty_eqb x (PyCls c')) ems && mem c' GC
                          | _ => false end
                      | _ => false end)
       || match e with
          | PyCls c =>
              match lookup_cls Sg c with
              | None => false
              | Some fs =>
                  let P := hprobes h in
                  forallb (fun S => negb (consistent fs P S) ||
                     match sleaf h (ShArr (Some (ShObj (rep_unk S)))) with
                     | Some (RMap HObj (RStruct HItem (PyCls c'))) =>
                         existsb (pty_eqb (PySeq (PyCls c'))) ms && mem c' GC &&
                         match lookup_cls Sg c' with
                         | Some fs' => compat c c' fs fs' (filter (fun k => existsb (fun f => String.eqb (fwire f) k && must_present Sg f) fs) (map fwire fs)) []
                         | None => false end
                     | _ => false end) (subseqs P)
              end
          | _ => false end)
  | PyCls c => cls_member_ok ms h c
  | PyTuple [PyInt; PyInt] =>
      (* a pair of integers rebuilt component-wise: (int(object_[0]), int(object_[1])) *)
      leaf_is (sleaf h (ShArr (Some ShPrimNS))) is_pair_leaf
  | _ => false end.

Definition hook_ok (ms : list pty) (h : hook) : bool := forallb nonunion ms && forallb (member_ok ms h) ms.
(* every union type listed in GU has a registered hook that passes the check *)
Definition hooks_ok : bool :=
  forallb (fun u => match u with
                    | PyUnion ms => match lookup_uhook Sg u with Some h => hook_ok ms h | None => false end
                    | _ => false end) GU.
End Chk.

(* ---------------------------------------------------------------- soundness *)
Lemma mem_filter k p l : (forall a b, String.eqb a b = true -> p a = p b) -> mem k (filter p l) = mem k l && p k.
Proof.
  intros Hp. induction l as [|x l IH]; [reflexivity|]. cbn [filter]. unfold mem in *. destruct (p x) eqn:Px; cbn [existsb]; rewrite IH.
  - destruct (String.eqb k x) eqn:E; cbn; [rewrite (Hp k x E), Px; reflexivity | reflexivity].
  - destruct (String.eqb k x) eqn:E; cbn; [rewrite (Hp k x E), Px; destruct (existsb (String.eqb k) l); reflexivity | reflexivity].
Qed.
Lemma in_subseqs_filter {A} (p : A -> bool) l : In (filter p l) (subseqs l).
Proof.
  induction l as [|x l IH]; [left; reflexivity|]. cbn [filter subseqs]. apply in_or_app. destruct (p x).
  - left. apply in_map. exact IH.
  - right. exact IH.
Qed.
Lemma lstr_eqb_eq a b : lstr_eqb a b = true -> a = b.
Proof. unfold lstr_eqb. destruct (list_eq_dec string_dec a b); [auto | discriminate]. Qed.
Lemma vkind_eqb_eq a b : vkind_eqb a b = true -> a = b.
Proof. destruct a, b; try discriminate; try reflexivity. cbn. intros H. apply lstr_eqb_eq in H. congruence. Qed.
Lemma existsb_pty_in t ms : existsb (pty_eqb t) ms = true -> In t ms.
Proof. rewrite existsb_exists. intros [x [I E]]. apply pty_eqb_eq in E. subst. exact I. Qed.

Section Sound.
Variable Sg : sigma.
Variable py_str : json -> string.
Variable NL : string -> string -> bool.
Variable GC : list string.
Variable GU : list pty.
Notation structure := (structure Sg py_str).
Notation has_type := (has_type Sg).
Notation den := (den Sg).
Notation pvalid := (pvalid Sg NL).
Notation Good := (Good Sg py_str).

Lemma is_hobj_eq e : is_hobj e = true -> e = HObj.
Proof. destruct e; try discriminate; reflexivity. Qed.

Lemma is_first_eq e : is_first e = true -> e = HIdx HObj 0.
Proof. destruct e; try discriminate. destruct e; try discriminate. destruct n; try discriminate. reflexivity. Qed.
Lemma is_nil_keys {A} (m : list (string * A)) : is_nil_b (keys m) = is_nil_b m.
Proof. destruct m; reflexivity. Qed.

Lemma assoc_map_snd {A B} (g : A -> B) k (m : list (string * A)) :
  assoc k (map (fun kv => (fst kv, g (snd kv))) m) = option_map g (assoc k m).
Proof. unfold assoc. induction m as [|[a b] m IH]; [reflexivity|]. cbn [map find fst snd]. destruct (String.eqb a k); [reflexivity | exact IH]. Qed.
Lemma map_fst_map_snd {A B} (g : A -> B) (m : list (string * A)) : map fst (map (fun kv => (fst kv, g (snd kv))) m) = keys m.
Proof. unfold keys. rewrite map_map. reflexivity. Qed.

Lemma ktest_sound e j yes b : ktest (shape_of j) e yes = Some b ->
  exists x, heval e j None = Ok x /\ yes (kinfo_of x) = b.
Proof.
  unfold ktest. destruct e as [| |e0 n|e0 k]; try discriminate. destruct e0; try discriminate. cbn [key_of].
  destruct j as [| | | | | |m]; try discriminate. cbn [shape_of kget]. rewrite assoc_map_snd.
  destruct (assoc k m) as [x|] eqn:A; [|discriminate]. cbn [option_map]. intros H. exists x. cbn [heval bind]. rewrite A. split; [reflexivity|].
  destruct (kinfo_of x) eqn:K; try discriminate; inversion H; reflexivity.
Qed.

Lemma seval_sound c j : forall b, seval c (shape_of j) = Some b -> ceval c j None = Ok b.
Proof.
  induction c as [e|e|e|e|k e|e s|e|c IH|a IHa b IHb|a IHa b IHb|e0 c0 IH0]; cbn [seval ceval]; intros r H; try discriminate.
  - destruct (is_hobj e) eqn:E; [apply is_hobj_eq in E; subst e; cbn [heval bind]; inversion H; destruct j; reflexivity|].
    destruct (ktest_sound _ _ _ _ H) as [x [Hx Y]]. rewrite Hx. cbn [bind]. rewrite <- Y. destruct x; reflexivity.
  - destruct (is_hobj e) eqn:E; [apply is_hobj_eq in E; subst e; cbn [heval bind]; inversion H; destruct j; reflexivity|].
    destruct (ktest_sound _ _ _ _ H) as [x [Hx Y]]. rewrite Hx. cbn [bind]. rewrite <- Y. destruct x; reflexivity.
  - destruct (is_hobj e) eqn:E; [apply is_hobj_eq in E; subst e; cbn [heval bind]; inversion H; destruct j; reflexivity|].
    destruct (ktest_sound _ _ _ _ H) as [x [Hx Y]]. rewrite Hx. cbn [bind]. rewrite <- Y. destruct x; reflexivity.
  - destruct (is_hobj e) eqn:E; [apply is_hobj_eq in E; subst e; cbn [heval bind]; inversion H; destruct j; reflexivity|].
    destruct (ktest_sound _ _ _ _ H) as [x [Hx Y]]. rewrite Hx. cbn [bind]. rewrite <- Y. destruct x; reflexivity.
  - destruct (is_hobj e) eqn:E.
    + apply is_hobj_eq in E. subst e. cbn [heval bind]. destruct j; try discriminate. cbn [shape_of] in H. inversion H. rewrite map_fst_map_snd. reflexivity.
    + destruct (is_first e) eqn:F; [|discriminate]. apply is_first_eq in F. subst e.
      destruct j as [| | | | |l|]; try discriminate. cbn [shape_of] in H. destruct l as [|x l]; [discriminate|].
      destruct x as [| | | | | |m]; try discriminate. cbn [shape_of] in H. inversion H. rewrite map_fst_map_snd. reflexivity.
  - (* CEqStr *) destruct e as [| |e0 n|e0 k]; try discriminate. destruct e0; try discriminate. cbn [key_of] in H.
    destruct j as [| | | | | |m]; try discriminate. cbn [shape_of kget] in H. rewrite assoc_map_snd in H.
    destruct (assoc k m) as [x|] eqn:A; [|discriminate]. cbn [option_map] in H. cbn [heval bind]. rewrite A. cbn [bind].
    destruct x; cbn [kinfo_of] in H; inversion H; reflexivity.
  - destruct (is_hobj e) eqn:E; [apply is_hobj_eq in E; subst e; cbn [heval bind] | discriminate].
    destruct j as [| | | | |l|]; try discriminate. cbn [shape_of] in H. destruct l; inversion H; reflexivity.
  - destruct (seval c (shape_of j)) as [x|]; [|discriminate]. cbn in H. inversion H. rewrite (IH x eq_refl). reflexivity.
  - destruct (seval a (shape_of j)) as [[|]|]; [| |discriminate].
    + inversion H. rewrite (IHa true eq_refl). reflexivity.
    + rewrite (IHa false eq_refl). cbn. apply IHb. exact H.
  - destruct (seval a (shape_of j)) as [[|]|]; [| |discriminate].
    + rewrite (IHa true eq_refl). cbn. apply IHb. exact H.
    + inversion H. rewrite (IHa false eq_refl). reflexivity.
Qed.

Lemma sleaf_sound rec h j r : sleaf h (shape_of j) = Some r -> hrun py_str rec h j = reval py_str rec r j None.
Proof.
  induction h as [c a IHa b IHb|r0|]; cbn [sleaf hrun]; intros H; [| inversion H; reflexivity | discriminate].
  destruct (seval c (shape_of j)) as [[|]|] eqn:E; [| |discriminate]; rewrite (seval_sound _ _ _ E); cbn; auto.
Qed.

(* refinement: the leaf computed for a LESS informative object shape (same membership of the probed keys, member kinds at most as
   precise) is the leaf of the real shape — for the value itself and for a first element *)
Definition Refines (P : list string) (kvs kvs' : list (string * kinfo)) : Prop :=
  (forall k, In k P -> mem k (map fst kvs) = mem k (map fst kvs')) /\
  (forall k a, assoc k kvs = Some a -> exists b, assoc k kvs' = Some b /\ kle a b = true).

Lemma ktest_mono kvs kvs' e yes r : (forall k a, assoc k kvs = Some a -> exists b, assoc k kvs' = Some b /\ kle a b = true) ->
  (forall a b, kle a b = true -> a <> KUnk -> yes a = yes b) ->
  ktest (ShObj kvs) e yes = Some r -> ktest (ShObj kvs') e yes = Some r.
Proof.
  intros R Y. unfold ktest. destruct (key_of e) as [k|]; [|discriminate]. cbn [kget].
  destruct (assoc k kvs) as [a|] eqn:A; [|discriminate]. destruct (R k a A) as [b [B L]]. rewrite B.
  intros H. assert (NU : a <> KUnk) by (intro E; subst a; discriminate).
  assert (NB : b <> KUnk). { intro E. subst b. destruct a as [| |[s|]| | |]; cbn in L; try discriminate; contradiction. }
  rewrite <- (Y a b L NU). destruct a; try (exfalso; apply NU; reflexivity); destruct b; try (exfalso; apply NB; reflexivity); exact H.
Qed.

Lemma seval_mono c kvs kvs' : Refines (cprobes c) kvs kvs' ->
  (forall r, seval c (ShObj kvs) = Some r -> seval c (ShObj kvs') = Some r) /\
  (forall r, seval c (ShArr (Some (ShObj kvs))) = Some r -> seval c (ShArr (Some (ShObj kvs'))) = Some r).
Proof.
  induction c as [e|e|e|e|k e|e s|e|c IH|a IHa b IHb|a IHa b IHb|e0 c0 IH0]; cbn [seval cprobes]; intros [RM RV].
  - split; intros r; [|destruct (is_hobj e); [auto|]; unfold ktest; destruct (key_of e); auto].
    destruct (is_hobj e); [auto|]. apply ktest_mono; [exact RV|]. intros x y L N. destruct x as [| |[?|]| | |], y as [| |[?|]| | |]; cbn in L; try discriminate; try reflexivity; contradiction.
  - split; intros r; [|destruct (is_hobj e); [auto|]; unfold ktest; destruct (key_of e); auto].
    destruct (is_hobj e); [auto|]. apply ktest_mono; [exact RV|]. intros x y L N. destruct x as [| |[?|]| | |], y as [| |[?|]| | |]; cbn in L; try discriminate; try reflexivity; contradiction.
  - split; intros r; [|destruct (is_hobj e); [auto|]; unfold ktest; destruct (key_of e); auto].
    destruct (is_hobj e); [auto|]. apply ktest_mono; [exact RV|]. intros x y L N. destruct x as [| |[?|]| | |], y as [| |[?|]| | |]; cbn in L; try discriminate; try reflexivity; contradiction.
  - split; intros r; [|destruct (is_hobj e); [auto|]; unfold ktest; destruct (key_of e); auto].
    destruct (is_hobj e); [auto|]. apply ktest_mono; [exact RV|]. intros x y L N. destruct x as [| |[?|]| | |], y as [| |[?|]| | |]; cbn in L; try discriminate; try reflexivity; contradiction.
  - split; intros r.
    + destruct (is_hobj e); [rewrite (RM k (or_introl eq_refl)); auto|]. destruct (is_first e); auto.
    + destruct (is_hobj e); [auto|]. destruct (is_first e); [rewrite (RM k (or_introl eq_refl)); auto | auto].
  - split; intros r; [|destruct (key_of e); auto].
    destruct (key_of e) as [k|]; [|auto]. cbn [kget]. destruct (assoc k kvs) as [a|] eqn:A; [|discriminate].
    destruct (RV k a A) as [b [B L]]. rewrite B. destruct a as [| |[v|]| | |], b as [| |[w|]| | |]; cbn in L; try discriminate; auto.
    apply String.eqb_eq in L. subst w. auto.
  - split; intros r; auto.
  - destruct (IH (conj RM RV)) as [I1 I2]. split; intros r H.
    + destruct (seval c (ShObj kvs)) as [x|] eqn:E; [|discriminate]. rewrite (I1 x eq_refl). exact H.
    + destruct (seval c (ShArr (Some (ShObj kvs)))) as [x|] eqn:E; [|discriminate]. rewrite (I2 x eq_refl). exact H.
  - destruct (IHa (conj (fun k I => RM k (in_or_app _ _ _ (or_introl I))) RV)) as [A1 A2].
    destruct (IHb (conj (fun k I => RM k (in_or_app _ _ _ (or_intror I))) RV)) as [B1 B2]. split; intros r H.
    + destruct (seval a (ShObj kvs)) as [[|]|] eqn:E; [| |discriminate]; rewrite (A1 _ eq_refl); auto.
    + destruct (seval a (ShArr (Some (ShObj kvs)))) as [[|]|] eqn:E; [| |discriminate]; rewrite (A2 _ eq_refl); auto.
  - destruct (IHa (conj (fun k I => RM k (in_or_app _ _ _ (or_introl I))) RV)) as [A1 A2].
    destruct (IHb (conj (fun k I => RM k (in_or_app _ _ _ (or_intror I))) RV)) as [B1 B2]. split; intros r H.
    + destruct (seval a (ShObj kvs)) as [[|]|] eqn:E; [| |discriminate]; rewrite (A1 _ eq_refl); auto.
    + destruct (seval a (ShArr (Some (ShObj kvs)))) as [[|]|] eqn:E; [| |discriminate]; rewrite (A2 _ eq_refl); auto.
  - split; intros r; discriminate.
Qed.
Lemma sleaf_mono h kvs kvs' : Refines (hprobes h) kvs kvs' ->
  (forall r, sleaf h (ShObj kvs) = Some r -> sleaf h (ShObj kvs') = Some r) /\
  (forall r, sleaf h (ShArr (Some (ShObj kvs))) = Some r -> sleaf h (ShArr (Some (ShObj kvs'))) = Some r).
Proof.
  induction h as [c a IHa b IHb|r0|]; cbn [sleaf hprobes]; intros [RM RV]; try (split; intros r H; exact H).
  destruct (seval_mono c kvs kvs' (conj (fun k I => RM k (in_or_app _ _ _ (or_introl I))) RV)) as [C1 C2].
  destruct (IHa (conj (fun k I => RM k (in_or_app _ _ _ (or_intror (in_or_app _ _ _ (or_introl I))))) RV)) as [A1 A2].
  destruct (IHb (conj (fun k I => RM k (in_or_app _ _ _ (or_intror (in_or_app _ _ _ (or_intror I))))) RV)) as [B1 B2].
  split; intros r H.
  - destruct (seval c (ShObj kvs)) as [[|]|] eqn:E; [| |discriminate]; rewrite (C1 _ eq_refl); auto.
  - destruct (seval c (ShArr (Some (ShObj kvs)))) as [[|]|] eqn:E; [| |discriminate]; rewrite (C2 _ eq_refl); auto.
Qed.

(* without a probe of the first element the leaf does not depend on it *)
Lemma seval_idx_free c a b : cidx_free c = true -> seval c (ShArr (Some a)) = seval c (ShArr (Some b)).
Proof.
  induction c as [e|e|e|e|k e|e s|e|c IH|x IHx y IHy|x IHx y IHy|e0 c0 IH0]; cbn [seval cidx_free]; intros H; try reflexivity.
  - destruct (is_hobj e); [reflexivity|]. apply negb_true_iff in H. rewrite H. reflexivity.
  - rewrite (IH H). reflexivity.
  - apply andb_true_iff in H. destruct H as [H1 H2]. rewrite (IHx H1), (IHy H2). reflexivity.
  - apply andb_true_iff in H. destruct H as [H1 H2]. rewrite (IHx H1), (IHy H2). reflexivity.
Qed.
Lemma sleaf_idx_free h a b : idx_free h = true -> sleaf h (ShArr (Some a)) = sleaf h (ShArr (Some b)).
Proof.
  induction h as [c x IHx y IHy|r0|]; cbn [sleaf idx_free]; intros H; try reflexivity.
  apply andb_true_iff in H. destruct H as [H H3]. apply andb_true_iff in H. destruct H as [H1 H2].
  rewrite (seval_idx_free c a b H1), (IHx H2), (IHy H3). reflexivity.
Qed.

Lemma is_prim_embed j : is_prim j = true -> is_prim_v (embed j) = true.
Proof. destruct j; try discriminate; reflexivity. Qed.
Lemma find_existsb {A} (p : A -> bool) l x : find p l = Some x -> existsb p l = true.
Proof. intros F. apply existsb_exists. exists x. apply find_some in F. exact F. Qed.

Lemma self_result rec (r : hret) j : is_self r = true -> reval py_str rec r j None = Ok (embed j).
Proof. destruct r; try discriminate. destruct e; try discriminate. reflexivity. Qed.
Lemma self_or_str_result rec (r : hret) s : is_self_or_str r = true -> reval py_str rec r (JStr s) None = Ok (VStr s).
Proof. destruct r; try discriminate; destruct e; try discriminate; reflexivity. Qed.

Lemma jvalidate_same f f' v : fval f = fval f' -> fvalopt f = fvalopt f' -> jvalidate f v = jvalidate f' v.
Proof. unfold jvalidate. intros -> ->. reflexivity. Qed.

Lemma strip_down t v : pvalid t v -> v <> JNull -> pvalid (strip t) v.
Proof.
  intros V N. destruct t; try exact V. cbn [strip].
  inversion V as [| | | | | | | | | | | | | |ms0 x j0 Ix Vx]; subst.
  assert (Ix' : In x (filter (fun x => negb (is_none x)) l)).
  { apply filter_In. split; [exact Ix|]. destruct x; try reflexivity. inversion Vx; subst. contradiction. }
  destruct (filter (fun x => negb (is_none x)) l) as [|y [|z r]] eqn:F.
  - contradiction.
  - destruct Ix' as [<-|[]]. exact Vx.
  - eapply pv_union; [exact Ix' | exact Vx].
Qed.
Lemma strip_up t v : pvalid (strip t) v -> pvalid t v.
Proof.
  destruct t; try (intros V; exact V). cbn [strip].
  destruct (filter (fun x => negb (is_none x)) l) as [|y [|z r]] eqn:F; intros V.
  - inversion V as [| | | | | | | | | | | | | |ms0 x j0 Ix Vx]; subst. contradiction.
  - assert (Iy : In y l). { assert (I : In y (filter (fun x => negb (is_none x)) l)) by (rewrite F; left; reflexivity). apply filter_In in I. tauto. }
    eapply pv_union; [exact Iy | exact V].
  - inversion V as [| | | | | | | | | | | | | |ms0 x j0 Ix Vx]; subst. rewrite <- F in Ix. apply filter_In in Ix. eapply pv_union; [exact (proj1 Ix) | exact Vx].
Qed.
Lemma jvalidate_nonnull f f' v : v <> JNull -> fval f = fval f' -> jvalidate f v = jvalidate f' v.
Proof. intros N E. unfold jvalidate. rewrite E. destruct v; try reflexivity. contradiction. Qed.

Lemma is_idx_eq e i : is_idx e i = true -> e = HIdx HObj i.
Proof. destruct e as [| |e n|]; try discriminate. destruct e; try discriminate. cbn. intros H. apply Nat.eqb_eq in H. congruence. Qed.
Lemma is_pair_leaf_eq r : is_pair_leaf r = true -> r = RTuple [RIntOf (HIdx HObj 0); RIntOf (HIdx HObj 1)].
Proof.
  destruct r as [| | | | | | | |l]; try discriminate. destruct l as [|r1 [|r2 [|r3 l]]]; try discriminate;
    destruct r1; try discriminate; destruct r2; try discriminate.
  cbn. intros H. apply andb_true_iff in H. destruct H as [H1 H2]. rewrite (is_idx_eq _ _ H1), (is_idx_eq _ _ H2). reflexivity.
Qed.
Lemma seq_leaf_cases (o : option hret) (Q1 : pty -> bool) (q2 : bool) (Q3 : string -> bool) :
  match o with
  | Some (RMap HObj (RStruct HItem t')) => Q1 t'
  | Some (RMap HObj (RStr HItem)) => q2
  | Some (RMap HObj (RIf (CIsPrim HItem) (RSelf HItem) (RStruct HItem (PyCls c')))) => Q3 c'
  | _ => false end = true ->
  (exists t', o = Some (RMap HObj (RStruct HItem t')) /\ Q1 t' = true) \/
  (o = Some (RMap HObj (RStr HItem)) /\ q2 = true) \/
  (exists c', o = Some (RMap HObj (RIf (CIsPrim HItem) (RSelf HItem) (RStruct HItem (PyCls c')))) /\ Q3 c' = true).
Proof.
  destruct o as [r|]; [|discriminate]. destruct r as [| | | | | |e body| |]; try discriminate. destruct e; try discriminate.
  destruct body as [| | |e t'|e| | |c a b|]; try discriminate.
  - destruct e; try discriminate. eauto.
  - destruct e; try discriminate. eauto.
  - destruct c as [|e| | | | | | | | |]; try discriminate. destruct e; try discriminate.
    destruct a as [|e| | | | | | |]; try discriminate. destruct e; try discriminate.
    destruct b as [| | |e t'| | | | |]; try discriminate. destruct e; try discriminate. destruct t'; try discriminate. eauto 6.
Qed.
Lemma leaf_map_inv (o : option hret) (Q : pty -> bool) :
  match o with Some (RMap HObj (RStruct HItem t')) => Q t' | _ => false end = true ->
  exists t', o = Some (RMap HObj (RStruct HItem t')) /\ Q t' = true.
Proof.
  destruct o as [r|]; [|discriminate]. destruct r; try discriminate. destruct e; try discriminate. destruct r; try discriminate.
  destruct e; try discriminate. eauto.
Qed.

Lemma kinfo_eqb_eq a b : kinfo_eqb a b = true -> a = b.
Proof. destruct a as [| |[?|]| | |], b as [| |[?|]| | |]; cbn; try discriminate; try reflexivity. intros H. apply String.eqb_eq in H. congruence. Qed.
Lemma kle_refl_of_eq a b : a = b -> kle a b = true.
Proof. intros ->. destruct b as [| |[?|]| | |]; cbn; try reflexivity. apply String.eqb_refl. Qed.
Lemma kind1_sound t v : pvalid t v -> kle (kind1 t) (kinfo_of v) = true.
Proof.
  intros V. destruct V; cbn [kind1 kinfo_of kle kinfo_eqb]; try reflexivity.
  destruct l as [|s0 [|s1 l]]; try reflexivity. destruct H as [<-|[]]. cbn. apply String.eqb_refl.
Qed.
Lemma kind_sound nl t v : pvalid t v -> (v = JNull -> nl = true) -> kle (kind_of_ty nl t) (kinfo_of v) = true.
Proof.
  intros V N. destruct t; try (cbn [kind_of_ty]; destruct nl; [reflexivity | apply kind1_sound; exact V]).
  cbn [kind_of_ty]. inversion V as [| | | | | | | | | | | | | |ms0 x j0 Ix Vx]; subst.
  set (L := if nl then l else filter (fun x => negb (is_none x)) l).
  assert (IL : In x L).
  { unfold L. destruct nl; [exact Ix|]. apply filter_In. split; [exact Ix|]. destruct x; try reflexivity. inversion Vx; subst. specialize (N eq_refl). discriminate. }
  destruct L as [|y r]; [contradiction|].
  destruct (forallb (fun z => kinfo_eqb (kind1 z) (kind1 y)) r) eqn:F; [|reflexivity].
  destruct IL as [<-|Ir]; [apply kind1_sound; exact Vx|].
  rewrite forallb_forall in F. rewrite <- (kinfo_eqb_eq _ _ (F x Ir)). apply kind1_sound. exact Vx.
Qed.
Lemma in_keys_assoc {A} k (m : list (string * A)) : In k (keys m) -> exists v, assoc k m = Some v.
Proof.
  unfold keys, assoc. induction m as [|[a b] m IH]; [intros []|]. cbn [map find fst]. intros [E|I].
  - cbn in E. subst a. rewrite String.eqb_refl. cbn. eauto.
  - destruct (String.eqb a k); [cbn; eauto | exact (IH I)].
Qed.
Lemma assoc_map_key {B} (g : string -> B) k S : assoc k (map (fun k => (k, g k)) S) = if mem k S then Some (g k) else None.
Proof.
  unfold assoc, mem. induction S as [|x S IH]; [reflexivity|]. cbn [map find existsb fst]. rewrite (String.eqb_sym k x).
  destruct (String.eqb x k) eqn:E; [apply String.eqb_eq in E; subst x; reflexivity | exact IH].
Qed.
Lemma map_fst_map_key {B} (g : string -> B) S : map fst (map (fun k => (k, g k)) S) = S.
Proof. rewrite map_map. cbn. apply map_id. Qed.

(* facts about one object that is valid at class c *)
Definition ValidAt (c : string) (fs : list fld) (m : list (string * json)) : Prop :=
  (forall k v, In (k, v) m -> exists f, In f fs /\ fwire f = k /\ pvalid (ftype f) v /\ jvalidate f v = true /\ (v = JNull -> NL c k = true)) /\
  (forall f, In f fs -> must_present Sg f = true -> In (fwire f) (keys m)).

Lemma memK_filter P (K : list string) k : In k P -> mem k (filter (fun k => mem k K) P) = mem k K.
Proof.
  intros Ik. rewrite mem_filter; [|intros a b E; apply String.eqb_eq in E; subst; reflexivity]. apply mem_in in Ik. rewrite Ik. reflexivity.
Qed.
Lemma memK_filter_sub P (K : list string) k : mem k (filter (fun k => mem k K) P) = true -> mem k K = true.
Proof. rewrite mem_filter; [|intros a b E; apply String.eqb_eq in E; subst; reflexivity]. intros E. apply andb_true_iff in E. tauto. Qed.

Lemma consistent_valid c fs m P : ValidAt c fs m -> consistent Sg fs P (filter (fun k => mem k (keys m)) P) = true.
Proof.
  intros [Hp Hr]. unfold consistent. apply forallb_forall. intros k Ik. apply andb_true_iff. split.
  - destruct (existsb (fun f => String.eqb (fwire f) k && must_present Sg f) fs) eqn:EX; [|reflexivity]. cbn.
    apply existsb_exists in EX. destruct EX as [f [If Ef]]. apply andb_true_iff in Ef. destruct Ef as [E1 E2]. apply String.eqb_eq in E1. subst k.
    rewrite (memK_filter P _ _ Ik). apply mem_in. apply Hr; assumption.
  - destruct (mem k (filter (fun k0 => mem k0 (keys m)) P)) eqn:EM; [|reflexivity]. cbn. apply memK_filter_sub in EM. apply mem_in in EM.
    unfold keys in EM. apply in_map_iff in EM. destruct EM as [[k' v] [E I]]. cbn in E. subst k'.
    destruct (Hp k v I) as [f [If [Ef _]]]. apply mem_in. apply in_map_iff. exists f. auto.
Qed.

Lemma compat_sound c c' fs fs' m pres abs : lookup_cls Sg c' = Some fs' -> NoDup (keys m) -> ValidAt c fs m ->
  (forall k, In k pres -> In k (keys m)) -> (forall k, In k abs -> ~ In k (keys m)) ->
  compat Sg NL c c' fs fs' pres abs = true -> pvalid (PyCls c') (JObj m).
Proof.
  intros L' ND [Hp Hr] HPres HAbs HM. unfold compat in HM. apply andb_true_iff in HM. destruct HM as [C1 C2]. rewrite forallb_forall in C1, C2.
  eapply pv_cls; [exact L' | exact ND | |].
  - intros k v I. destruct (Hp k v I) as [f [If [Ef [Pf [Jf Nf]]]]]. specialize (C1 f If). apply orb_true_iff in C1. destruct C1 as [C1|C1].
    + exfalso. apply mem_in in C1. rewrite Ef in C1. apply (HAbs k C1). unfold keys. apply in_map_iff. exists (k, v). auto.
    + apply existsb_exists in C1. destruct C1 as [f' [If' Sf]]. unfold fld_compat in Sf.
      apply andb_true_iff in Sf. destruct Sf as [Sf ALT]. apply andb_true_iff in Sf. destruct Sf as [Sw Sv].
      apply String.eqb_eq in Sw. apply vkind_eqb_eq in Sv. rewrite Ef in ALT.
      exists f'. split; [exact If'|]. split; [congruence|].
      apply orb_true_iff in ALT. destruct ALT as [ALT|ALT].
      * apply andb_true_iff in ALT. destruct ALT as [ALT IM]. apply andb_true_iff in ALT. destruct ALT as [ET EO].
        apply pty_eqb_eq in ET. apply Bool.eqb_prop in EO.
        split; [rewrite <- ET; exact Pf|]. split; [rewrite <- (jvalidate_same f f' v Sv EO); exact Jf|].
        intros EN. specialize (Nf EN). rewrite Nf in IM. exact IM.
      * apply andb_true_iff in ALT. destruct ALT as [NLF ES]. apply negb_true_iff in NLF. apply pty_eqb_eq in ES.
        assert (NN : v <> JNull) by (intros EN; specialize (Nf EN); congruence).
        split; [apply strip_up; rewrite <- ES; apply strip_down; assumption|].
        split; [rewrite <- (jvalidate_nonnull f f' v NN Sv); exact Jf | intros EN; contradiction].
  - intros f' If' Mf'. specialize (C2 f' If'). rewrite Mf' in C2. cbn in C2. apply mem_in in C2. exact (HPres _ C2).
Qed.

Lemma required_present c fs m : ValidAt c fs m ->
  forall k, In k (filter (fun k => existsb (fun f => String.eqb (fwire f) k && must_present Sg f) fs) (map fwire fs)) -> In k (keys m).
Proof.
  intros [_ Hr] k I. apply filter_In in I. destruct I as [_ C2]. apply existsb_exists in C2. destruct C2 as [f [If Ef]].
  apply andb_true_iff in Ef. destruct Ef as [E1 E2]. apply String.eqb_eq in E1. rewrite <- E1. apply Hr; assumption.
Qed.

(* a hook hands every primitive back unchanged iff its leaf at the two primitive shapes is the value itself — whatever the
   conditions look like (used by C13 for open enumerations) *)
Definition prim_passthrough_b (h : hook) : bool := leaf_is (sleaf h ShPrimNS) is_self && leaf_is (sleaf h ShStr) is_self_or_str.
Theorem prim_passthrough_sound rec h j : prim_passthrough_b h = true -> is_prim j = true -> hrun py_str rec h j = Ok (embed j).
Proof.
  unfold prim_passthrough_b, leaf_is. intros H J. apply andb_true_iff in H. destruct H as [H1 H2].
  destruct j as [|b|z|fn fd|s|l|mo]; try discriminate.
  - destruct (sleaf h ShPrimNS) as [r|] eqn:L; [|discriminate]. rewrite (sleaf_sound _ h (JBool b) r L). apply (self_result _ r _ H1).
  - destruct (sleaf h ShPrimNS) as [r|] eqn:L; [|discriminate]. rewrite (sleaf_sound _ h (JInt z) r L). apply (self_result _ r _ H1).
  - destruct (sleaf h ShPrimNS) as [r|] eqn:L; [|discriminate]. rewrite (sleaf_sound _ h (JFlt fn fd) r L). apply (self_result _ r _ H1).
  - destruct (sleaf h ShStr) as [r|] eqn:L; [|discriminate]. rewrite (sleaf_sound _ h (JStr s) r L). apply (self_or_str_result _ r _ H2).
Qed.

Theorem hook_ok_sound ms h : hook_ok Sg NL GC GU ms h = true -> HookOK Sg py_str NL GC GU ms h.
Proof.
  unfold hook_ok, HookOK. intros H j V SUB A. apply andb_true_iff in H. destruct H as [_ HM]. rewrite forallb_forall in HM.
  inversion V as [| | | | | | | | | | | | | |ms0 t j0 It Vt]; subst ms0 j0. specialize (HM t It).
  assert (RAW : forall o, (exists n, hrun py_str (structure n) h j = Ok o) -> has_type t o -> NEq j (den o) ->
                exists n o, hrun py_str (structure n) h j = Ok o /\ has_type (PyUnion ms) o /\ NEq j (den o)).
  { intros o [n Hn] T N. exists n, o. split; [exact Hn|]. split; [eapply t_union; eauto | exact N]. }
  destruct t; cbn [member_ok] in HM; try discriminate.
  - (* PyAny *) destruct h as [| r |]; try discriminate. destruct r; try discriminate. destruct e; try discriminate.
    apply (RAW (embed j)); [exists 0; reflexivity | constructor; apply wf_embed | rewrite den_embed; apply NEq_refl].
  - (* PyNone *) inversion Vt; subst. unfold leaf_is in HM. destruct (sleaf h ShNull) as [r|] eqn:L; [|discriminate].
    apply (RAW VNone); [exists 0; rewrite (sleaf_sound _ h JNull r L) | constructor | constructor].
    destruct r; try discriminate; [reflexivity | destruct e; try discriminate; reflexivity].
  - (* PyInt *) inversion Vt; subst. unfold leaf_is in HM. destruct (sleaf h ShPrimNS) as [r|] eqn:L; [|discriminate].
    apply (RAW (VInt z)); [exists 0; rewrite (sleaf_sound _ h (JInt z) r L); apply (self_result _ r (JInt z) HM) | constructor | constructor].
  - (* PyStr *) inversion Vt; subst. unfold leaf_is in HM. destruct (sleaf h ShStr) as [r|] eqn:L; [|discriminate].
    apply (RAW (VStr s)); [exists 0; rewrite (sleaf_sound _ h (JStr s) r L); apply (self_or_str_result _ r s HM) | constructor | constructor].
  - (* PyBool *) inversion Vt; subst. unfold leaf_is in HM. destruct (sleaf h ShPrimNS) as [r|] eqn:L; [|discriminate].
    apply (RAW (VBool b)); [exists 0; rewrite (sleaf_sound _ h (JBool b) r L); apply (self_result _ r (JBool b) HM) | constructor | constructor].
  - (* PySeq *) inversion Vt as [| | | | | | | | | |t0 l Hl| | | |]; subst.
    apply andb_true_iff in HM. destruct HM as [HE HN].
    destruct l as [|x0 l0].
    + (* the empty array *)
      assert (R : hrun py_str (structure 0) h (JArr []) = Ok (VList [])).
      { destruct (sleaf h (ShArr None)) as [r|] eqn:L; [|discriminate]. rewrite (sleaf_sound _ h (JArr []) r L).
        destruct r; try discriminate; [reflexivity|]. destruct e; try discriminate. reflexivity. }
      apply (RAW (VList [])); [exists 0; exact R | constructor; intros y [] | cbn [Denote.den]; constructor; constructor].
    + apply orb_true_iff in HN. destruct HN as [HN|HN].
      * (* no condition looks at the first element *)
        apply andb_true_iff in HN. destruct HN as [IF HN].
        assert (L : sleaf h (shape_of (JArr (x0 :: l0))) = sleaf h (ShArr (Some ShNull))) by (cbn [shape_of]; apply sleaf_idx_free; exact IF).
        destruct (seq_leaf_cases _ _ _ _ HN) as [[t' [L0 HN']]|[[L0 HN']|[c' [L0 HN']]]]; rewrite L0 in L; clear HN.
        2:{ (* strings mapped through str() *)
            apply pty_eqb_eq in HN'. subst t.
            assert (ST : forall x, In x (x0 :: l0) -> exists s, x = JStr s) by (intros x Ix; specialize (Hl x Ix); inversion Hl; eauto).
            apply (RAW (VList (map (fun x => VStr (py_str_of py_str x)) (x0 :: l0)))).
            - exists 0. rewrite (sleaf_sound _ h (JArr (x0 :: l0)) _ L). cbn [reval heval bind iter_json].
              rewrite (mapM_all_ok _ (fun x => VStr (py_str_of py_str x))); [reflexivity | intros x _; reflexivity].
            - constructor. intros y Iy. apply in_map_iff in Iy. destruct Iy as [x [<- Ix]]. constructor.
            - cbn [Denote.den]. constructor. rewrite map_map. clear -ST. induction (x0 :: l0) as [|x l IH]; constructor.
              + destruct (ST x (or_introl eq_refl)) as [s ->]. cbn. constructor.
              + apply IH. intros y Iy. apply ST. right. exact Iy. }
        2:{ (* primitive items stay, object items are structured as c' *)
            destruct t as [| | | | | |ems| | | | | | | |]; try discriminate.
            apply andb_true_iff in HN'. destruct HN' as [EM InG]. rewrite forallb_forall in EM.
            assert (OK' : okty Sg GC GU (PyCls c') = true) by (unfold okty; cbn [flat_ty handled andb]; exact InG).
            set (l := x0 :: l0) in *.
            assert (CASE : forall x, In x l -> (is_prim x = true /\ has_type (PyUnion ems) (embed x)) \/ (is_prim x = false /\ In (PyCls c') ems /\ pvalid (PyCls c') x)).
            { intros x Ix. specialize (Hl x Ix). inversion Hl as [| | | | | | | | | | | | | |ms0 y j0 Iy Vy]; subst. specialize (EM y Iy).
              apply orb_true_iff in EM. destruct EM as [EM|EM].
              - left. destruct y; try discriminate; inversion Vy; subst; (split; [reflexivity|]); (eapply t_union; [exact Iy | constructor]).
              - right. apply pty_eqb_eq in EM. subst y. inversion Vy; subst. split; [reflexivity|]. split; [exact Iy | exact Vy]. }
            destruct (good_list Sg py_str (flat_map (fun x => if is_prim x then [] else [(PyCls c', x)]) l)) as [n Hn].
            { intros p Ip. apply in_flat_map in Ip. destruct Ip as [x [Ix Ip]]. destruct (CASE x Ix) as [[PR _]|[PR [_ Vx]]]; rewrite PR in Ip; [contradiction|].
              destruct Ip as [<-|[]]. cbn [fst snd]. apply SUB; [apply jsize_in_arr; exact Ix | exact OK' | exact Vx]. }
            destruct (mapM_build (fun x => reval py_str (structure n) (RIf (CIsPrim HItem) (RSelf HItem) (RStruct HItem (PyCls c'))) (JArr l) (Some x)) l
                        (fun x y => has_type (PyUnion ems) y /\ NEq x (den y))) as [ys [M F]].
            { intros x Ix. cbn [reval ceval heval bind]. destruct (CASE x Ix) as [[PR T]|[PR [Ic Vx]]]; rewrite PR; cbn [bind].
              - exists (embed x). split; [reflexivity|]. split; [exact T | rewrite den_embed; apply NEq_refl].
              - destruct (Hn (PyCls c', x)) as [o [S1 [T1 N1]]]; [apply in_flat_map; exists x; split; [exact Ix | rewrite PR; left; reflexivity]|].
                exists o. split; [exact S1|]. split; [eapply t_union; [exact Ic | exact T1] | exact N1]. }
            apply (RAW (VList ys)).
            - exists n. rewrite (sleaf_sound _ h (JArr l) _ L). cbn [reval heval bind iter_json].
              rewrite (mapM_ext _ (fun x => reval py_str (structure n) (RIf (CIsPrim HItem) (RSelf HItem) (RStruct HItem (PyCls c'))) (JArr l) (Some x)) l);
                [rewrite M; reflexivity | intros x _; reflexivity].
            - constructor. intros y Iy. destruct (Forall2_in_r _ _ _ _ F Iy) as [x [_ [T _]]]. exact T.
            - cbn [Denote.den]. constructor. clear -F. induction F as [|x y l ys [T N] F IH]; constructor; assumption. }
        rename HN' into HN.
        apply andb_true_iff in HN. destruct HN as [E O]. apply pty_eqb_eq in E. subst t'.
        destruct (good_all Sg py_str t (x0 :: l0)) as [n [ys [M F]]].
        { intros x Ix. apply SUB; [apply jsize_in_arr; exact Ix | exact O | exact (Hl x Ix)]. }
        apply (RAW (VList ys)).
        -- exists n. rewrite (sleaf_sound _ h (JArr (x0 :: l0)) _ L). cbn [reval heval bind iter_json].
           rewrite (mapM_ext _ (structure n t) (x0 :: l0)); [rewrite M; reflexivity | intros x _; reflexivity].
        -- constructor. intros y Iy. destruct (Forall2_in_r _ _ _ _ F Iy) as [x [_ [T _]]]. exact T.
        -- cbn [Denote.den]. constructor. clear -F. induction F as [|x y l ys [T N] F IH]; constructor; assumption.
      * (* the element class is decided by the key set of the first element *)
        destruct t as [| | | | | | | | | | | |c| |]; try discriminate.
        destruct (lookup_cls Sg c) as [fs|] eqn:Lc; [|discriminate]. rewrite forallb_forall in HN.
        assert (VA : forall x, In x (x0 :: l0) -> exists m, x = JObj m /\ NoDup (keys m) /\ ValidAt c fs m).
        { intros x Ix. specialize (Hl x Ix). inversion Hl as [| | | | | | | | | | | | |c0 fs0 m L0 ND Hp Hr|]; subst.
          rewrite Lc in L0. inversion L0; subst fs0. exists m. split; [reflexivity|]. split; [exact ND | split; assumption]. }
        destruct (VA x0 (or_introl eq_refl)) as [m0 [E0 [ND0 VA0]]]. subst x0.
        set (P := hprobes h) in *. set (S0 := filter (fun k => mem k (keys m0)) P).
        specialize (HN S0 (in_subseqs_filter _ P)). pose proof (consistent_valid c fs m0 P VA0) as CO. fold S0 in CO. rewrite CO in HN. cbn [negb orb] in HN.
        destruct (leaf_map_inv _ (fun t' => match t' with PyCls c' => _ | _ => false end) HN) as [t' [LF HN']]. clear HN.
        assert (LK : sleaf h (shape_of (JArr (JObj m0 :: l0))) = Some (RMap HObj (RStruct HItem t'))).
        { cbn [shape_of].
          assert (RF : Refines P (rep_unk S0) (map (fun kv => (fst kv, kinfo_of (snd kv))) m0)); [split | exact (proj2 (sleaf_mono h _ _ RF) _ LF)].
          - intros k Ik. unfold rep_unk. rewrite map_fst_map_key, map_fst_map_snd. apply memK_filter. exact Ik.
          - intros k a As. unfold rep_unk in As. rewrite assoc_map_key in As. destruct (mem k S0) eqn:MS; [|discriminate]. inversion As; subst a.
            apply memK_filter_sub in MS. apply mem_in in MS. destruct (in_keys_assoc k m0 MS) as [v Av].
            exists (kinfo_of v). split; [rewrite assoc_map_snd, Av; reflexivity | reflexivity]. }
        destruct t' as [| | | | | | | | | | | |c'| |]; try discriminate.
        apply andb_true_iff in HN'. destruct HN' as [IN HC]. apply andb_true_iff in IN. destruct IN as [IN InG]. apply existsb_pty_in in IN.
        destruct (lookup_cls Sg c') as [fs'|] eqn:L'; [|discriminate].
        assert (OK' : okty Sg GC GU (PyCls c') = true) by (unfold okty; cbn [flat_ty handled andb]; exact InG).
        destruct (good_all Sg py_str (PyCls c') (JObj m0 :: l0)) as [n [ys [M F]]].
        { intros x Ix. destruct (VA x Ix) as [m [-> [ND VAm]]]. apply SUB; [apply jsize_in_arr; exact Ix | exact OK' |].
          apply (compat_sound c c' fs fs' m _ [] L' ND VAm (required_present c fs m VAm)); [intros k [] | exact HC]. }
        exists n, (VList ys). split; [|split].
        -- rewrite (sleaf_sound _ h (JArr (JObj m0 :: l0)) _ LK). cbn [reval heval bind iter_json].
           rewrite (mapM_ext _ (structure n (PyCls c')) (JObj m0 :: l0)); [rewrite M; reflexivity | intros x _; reflexivity].
        -- apply (t_union Sg ms (PySeq (PyCls c')) (VList ys) IN). constructor. intros y Iy. destruct (Forall2_in_r _ _ _ _ F Iy) as [x [_ [T _]]]. exact T.
        -- cbn [Denote.den]. constructor. clear -F. induction F as [|x y l ys [T N] F IH]; constructor; assumption.
  - (* PyTuple [PyInt; PyInt] *)
    destruct l as [|t1 [|t2 [|t3 l]]]; try discriminate; destruct t1; try discriminate; destruct t2; try discriminate.
    inversion Vt as [| | | | | | | | | | |ts l0 HF| | |]; subst.
    inversion HF as [|? x1 ? l1 V1 HF1]; subst. inversion HF1 as [|? x2 ? l2 V2 HF2]; subst. inversion HF2; subst.
    inversion V1; subst. inversion V2; subst.
    unfold leaf_is in HM. destruct (sleaf h (ShArr (Some ShPrimNS))) as [r|] eqn:L; [|discriminate].
    apply is_pair_leaf_eq in HM. subst r. apply (RAW (VTuple [VInt z; VInt z0])).
    + exists 0. rewrite (sleaf_sound _ h (JArr [JInt z; JInt z0]) _ L). reflexivity.
    + constructor. repeat constructor.
    + cbn [Denote.den map]. repeat constructor.
  - (* PyLit *) inversion Vt; subst. unfold leaf_is in HM. destruct (sleaf h ShStr) as [r|] eqn:L; [|discriminate].
    apply (RAW (VStr s)); [exists 0; rewrite (sleaf_sound _ h (JStr s) r L); apply (self_or_str_result _ r s HM) | constructor; assumption | constructor].
  - (* PyEnum *) inversion Vt as [| | | | | | | | |e0 d j0 Le Pj [m [Fm Dm]]| | | | |]; subst e0 j0.
    apply andb_true_iff in HM. destruct HM as [HM NO]. apply andb_true_iff in HM. destruct HM as [H1 H2].
    assert (R : exists n0, hrun py_str (structure n0) h j = Ok (embed j)).
    { exists 0. unfold leaf_is in H1, H2. destruct j as [|b|z|fn fd|s|l|mo]; try discriminate.
      - destruct (sleaf h ShPrimNS) as [r|] eqn:L; [|discriminate]. rewrite (sleaf_sound _ h (JBool b) r L). apply (self_result _ r _ H1).
      - destruct (sleaf h ShPrimNS) as [r|] eqn:L; [|discriminate]. rewrite (sleaf_sound _ h (JInt z) r L). apply (self_result _ r _ H1).
      - destruct (sleaf h ShPrimNS) as [r|] eqn:L; [|discriminate]. rewrite (sleaf_sound _ h (JFlt fn fd) r L). apply (self_result _ r _ H1).
      - destruct (sleaf h ShStr) as [r|] eqn:L; [|discriminate]. rewrite (sleaf_sound _ h (JStr s) r L). apply (self_or_str_result _ r _ H2). }
    destruct R as [n0 R]. exists n0, (embed j). split; [exact R|]. split.
    + eapply t_union_raw; [exact It | exact Le | eapply find_existsb; exact Fm | exact NO | apply is_prim_embed; exact Pj].
    + rewrite den_embed. apply NEq_refl.
  - (* PyCls *) rename n into c. inversion Vt as [| | | | | | | | | | | | |c0 fs m L ND Hp Hr|]; subst c0 j.
    assert (VA : ValidAt c fs m) by (split; assumption).
    unfold cls_member_ok in HM. rewrite L in HM. apply andb_true_iff in HM. destruct HM as [NDW HM]. apply nodupb_NoDup in NDW. rewrite forallb_forall in HM.
    set (P := hprobes h) in *. set (S0 := filter (fun k => mem k (keys m)) P).
    specialize (HM S0 (in_subseqs_filter _ P)). pose proof (consistent_valid c fs m P VA) as CO. fold S0 in CO. rewrite CO in HM. cbn [negb orb] in HM.
    destruct (sleaf h (ShObj (rep_obj NL c fs S0))) as [r|] eqn:LF; [|discriminate].
    assert (LK : sleaf h (shape_of (JObj m)) = Some r).
    { cbn [shape_of].
      assert (RF : Refines P (rep_obj NL c fs S0) (map (fun kv => (fst kv, kinfo_of (snd kv))) m)); [split | exact (proj1 (sleaf_mono h _ _ RF) _ LF)].
      - intros k Ik. unfold rep_obj. rewrite map_fst_map_key, map_fst_map_snd. apply memK_filter. exact Ik.
      - intros k a As. unfold rep_obj in As. rewrite assoc_map_key in As. destruct (mem k S0) eqn:MS; [|discriminate]. inversion As; subst a.
        apply memK_filter_sub in MS. apply mem_in in MS. destruct (in_keys_assoc k m MS) as [v Av].
        exists (kinfo_of v). split; [rewrite assoc_map_snd, Av; reflexivity|].
        destruct (Hp k v (assoc_in _ _ _ Av)) as [f [If [Ef [Pf [Jf Nf]]]]].
        unfold finfo. rewrite (find_wire fs k f NDW If Ef).
        assert (KS : kle (kind_of_ty (NL c k) (ftype f)) (kinfo_of v) = true) by (apply kind_sound; [exact Pf | exact Nf]).
        destruct (fval f) as [| | | | | |l] eqn:FV; try exact KS. destruct l as [|s0 [|s1 l]]; try exact KS.
        destruct (fvalopt f) eqn:FO; [exact KS|]. unfold jvalidate in Jf. rewrite FV, FO in Jf.
        destruct v; try discriminate Jf. cbn in Jf. rewrite orb_false_r in Jf. cbn. rewrite String.eqb_sym. exact Jf. }
    destruct r; try discriminate. destruct e; try discriminate. destruct t; try discriminate. rename n into c'.
    apply andb_true_iff in HM. destruct HM as [IN HM]. apply andb_true_iff in IN. destruct IN as [IN InG]. apply existsb_pty_in in IN.
    destruct (lookup_cls Sg c') as [fs'|] eqn:L'; [|discriminate].
    assert (V' : pvalid (PyCls c') (JObj m)).
    { match type of HM with compat _ _ _ _ _ _ ?pres ?abs = true => apply (compat_sound c c' fs fs' m pres abs L' ND VA); [| | exact HM] end.
      - intros k Ik. apply in_app_or in Ik. destruct Ik as [Ik|Ik]; [exact (required_present c fs m VA k Ik)|].
        apply mem_in. apply (memK_filter_sub P). apply mem_in. exact Ik.
      - intros k Ik Kin. apply filter_In in Ik. destruct Ik as [IkP Ik]. apply negb_true_iff in Ik.
        unfold S0 in Ik. rewrite (memK_filter P _ _ IkP) in Ik. apply mem_in in Kin. congruence. }
    assert (OK' : okty Sg GC GU (PyCls c') = true) by (unfold okty; cbn [flat_ty handled andb]; exact InG).
    destruct (A (PyCls c') eq_refl OK' V') as [n [o [S1 [T1 N1]]]].
    exists n, o. split; [rewrite (sleaf_sound _ h (JObj m) _ LK); exact S1|]. split; [exact (t_union Sg ms (PyCls c') o IN T1) | exact N1].
  - (* PyOpaque *) destruct h as [| r |]; try discriminate. destruct r; try discriminate. destruct e; try discriminate.
    apply (RAW (embed j)); [exists 0; reflexivity | constructor; apply wf_embed | rewrite den_embed; apply NEq_refl].
Qed.
End Sound.

(* ---------------------------------------------------------------- the composite theorem *)
Section Covered.
Variable Sg : sigma.
Variable py_str : json -> string.
Variable NL : string -> string -> bool.
Variable GC : list string.
Variable GU : list pty.

Lemma hooks_ok_sound : hooks_ok Sg NL GC GU = true ->
  forall ms h, existsb (pty_eqb (PyUnion ms)) GU = true -> lookup_uhook Sg (PyUnion ms) = Some h -> HookOK Sg py_str NL GC GU ms h.
Proof.
  unfold hooks_ok. intros H ms h E L. rewrite forallb_forall in H. apply existsb_pty_in in E. specialize (H _ E). cbn beta iota in H.
  rewrite L in H. apply hook_ok_sound. exact H.
Qed.

(* THE PARSE / ROUND-TRIP THEOREM for the covered part of a package table:
   if the two boolean checks hold, every Python-valid JSON value of every covered annotation is structured (with enough fuel) into a value
   of that annotation's type, which serialises back to the input up to null-valued members. *)
Theorem covered_roundtrip : table_ok Sg GC GU = true -> hooks_ok Sg NL GC GU = true ->
  forall P j, okty Sg GC GU P = true -> pvalid Sg NL P j ->
  exists n o j', structure Sg py_str n P j = Ok o /\ has_type Sg P o /\ unstr Sg n (Some P) o = Ok j' /\ NEq j j'.
Proof.
  intros T H P j O V. destruct (table_ok_sound Sg py_str GC GU T) as [T1 [T2 [T3 [T4 T5]]]].
  apply roundtrip_of_good.
  exact (parse_good Sg py_str NL GC GU T1 T2 T3 T4 T5 (hooks_ok_sound H) (jsize j) j (le_n _) P O V).
Qed.
End Covered.

(* ---------------------------------------------------------------- computing the covered part (greatest fixpoint by iteration) *)
Section Cover.
Variable Sg : sigma.
Variable NL : string -> string -> bool.
Definition shrink (p : list string * list pty) : list string * list pty :=
  let (gc, gu) := p in
  (filter (fun c => match lookup_cls Sg c with Some fs => class_ok Sg gc gu (c, fs) | None => false end) gc,
   filter (fun u => match u with
                    | PyUnion ms => match lookup_uhook Sg u with Some h => hook_ok Sg NL gc gu ms h | None => false end
                    | _ => false end) gu).
Fixpoint iter_shrink (n : nat) (p : list string * list pty) : list string * list pty :=
  match n with 0 => p | S n => iter_shrink n (shrink p) end.
Definition cover0 : list string * list pty := (map fst (classes Sg), map fst (uhooks Sg)).
End Cover.
