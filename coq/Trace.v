(* Trace.v — which union handlers (and which leaf of their decision tree) a structuring run goes through.
   Executable companion of Sem.step, used to attribute a failing input to a (union type, leaf) site. *)
From LSP Require Import Base Sem.

Section Tr.
Variable Sg : sigma.

(* path of a decision tree on a value: the branch taken at each TIf (None if a condition raises) *)
Fixpoint hpath (h : hook) (o : json) : list bool :=
  match h with
  | TIf c a b => match ceval c o None with Ok true => true :: hpath a o | Ok false => false :: hpath b o | _ => [] end
  | _ => [] end.
Fixpoint hleaf (h : hook) (o : json) : option hret :=
  match h with
  | TIf c a b => match ceval c o None with Ok true => hleaf a o | Ok false => hleaf b o | _ => None end
  | TRet r => Some r | TRaise => None end.
(* the (type, value) pairs a leaf hands back to the converter *)
Fixpoint leaf_calls (r : hret) (o : json) (it : option json) {struct r} : list (pty * json) :=
  match r with
  | RStruct e t => match heval e o it with Ok v => [(t, v)] | _ => [] end
  | RMap e body => match heval e o it with
                   | Ok v => match iter_json v with Some l => flat_map (fun x => leaf_calls body o (Some x)) l | None => [] end
                   | _ => [] end
  | RIf c a b => match ceval c o it with Ok true => leaf_calls a o it | Ok false => leaf_calls b o it | _ => [] end
  | RTuple l => (fix go (l : list hret) := match l with [] => [] | x :: xs => leaf_calls x o it ++ go xs end) l
  | _ => [] end.

Definition site := (pty * option (list bool))%type.     (* None = no handler for this union *)
Fixpoint trace (n : nat) (t : pty) (j : json) : list site :=
  match n with O => [] | S n =>
  match t with
  | PySeq t' => match iter_json j with Some l => flat_map (trace n t') l | None => [] end
  | PyTuple ts => match iter_json j with Some l => flat_map (fun p => trace n (fst p) (snd p)) (combine ts l) | None => [] end
  | PyDict k v => match j with JObj m => flat_map (fun kv => trace n v (snd kv)) m | _ => [] end
  | PyCls c => match lookup_cls Sg c, j with
               | Some fs, JObj m => flat_map (fun f => match assoc (fwire f) m with Some v => trace n (ftype f) v | None => [] end) fs
               | _, _ => [] end
  | PyUnion ms =>
      match lookup_uhook Sg t with
      | Some h => (t, Some (hpath h j)) ::
                  match hleaf h j with Some r => flat_map (fun p => trace n (fst p) (snd p)) (leaf_calls r j None) | None => [] end
      | None =>
        match filter (fun x => negb (is_none x)) ms with
        | [x] => if Nat.eqb (length ms) 2 then match j with JNull => [] | _ => trace n x j end else [(t, None)]
        | _ => [(t, None)] end end
  | _ => [] end end.

(* print a site as (index of the union in a table, path) — index = length table when absent *)
Fixpoint index_of (t : pty) (tbl : list pty) : nat :=
  match tbl with [] => 0 | x :: r => if pty_eqb x t then 0 else S (index_of t r) end.
Definition show (tbl : list pty) (s : site) : nat * option (list bool) := (index_of (fst s) tbl, snd s).
End Tr.
