(* MM.v — the LSP metamodel as Coq data, flattening, and STRICT validity of a JSON value for a metamodel type.
   The instance (Gen.MMData) is regenerated from generator/lsp.json by lib/x_mm.py on every run. *)
From LSP Require Import Base.

Inductive base := BString | BInteger | BUInteger | BDecimal | BBoolean | BNull | BDocumentUri | BURI | BRegExp.
Inductive ty :=
| TBase (b : base) | TRef (n : string) | TArr (t : ty) | TMap (k v : ty)
| TAnd (l : list ty) | TOr (l : list ty) | TTuple (l : list ty)
| TLit (ps : list (string * ty * bool))          (* anonymous literal: (name, type, optional) *)
| TStrLit (s : string) | TIntLit (z : Z) | TBoolLit (b : bool).

Record prop := { p_name : string; p_type : ty; p_opt : bool; p_proposed : bool }.
Record structure := { s_name : string; s_extends : list ty; s_mixins : list ty; s_props : list prop; s_proposed : bool }.
Inductive evalue := EVStr (s : string) | EVInt (z : Z).
Record enumeration := { e_name : string; e_base : base; e_values : list (string * evalue * bool (* proposed *));
                        e_custom : bool; e_proposed : bool }.
Record alias := { a_name : string; a_type : ty; a_proposed : bool }.
Inductive direction := ClientToServer | ServerToClient | Both.
Record request := { r_method : string; r_typename : option string; r_params : option ty; r_result : ty;
                    r_partial : option ty; r_errdata : option ty; r_regopts : option ty; r_regmethod : option string;
                    r_dir : direction; r_proposed : bool }.
Record notification := { n_method : string; n_typename : option string; n_params : option ty;
                         n_regopts : option ty; n_regmethod : option string; n_dir : direction; n_proposed : bool }.
Record MM := { structures : list structure; enumerations : list enumeration; aliases : list alias;
               requests : list request; notifications : list notification; version : string }.

Definition base_eqb (a b : base) : bool :=
  match a, b with
  | BString, BString | BInteger, BInteger | BUInteger, BUInteger | BDecimal, BDecimal | BBoolean, BBoolean
  | BNull, BNull | BDocumentUri, BDocumentUri | BURI, BURI | BRegExp, BRegExp => true | _, _ => false end.

Fixpoint ty_eqb (a b : ty) {struct a} : bool :=
  let fix leq (x y : list ty) := match x, y with [], [] => true | p :: ps, q :: qs => ty_eqb p q && leq ps qs | _, _ => false end in
  let fix peq (x y : list (string * ty * bool)) :=
      match x, y with [], [] => true
      | (n, t, o) :: ps, (n', t', o') :: qs => String.eqb n n' && ty_eqb t t' && Bool.eqb o o' && peq ps qs
      | _, _ => false end in
  match a, b with
  | TBase x, TBase y => base_eqb x y | TRef n, TRef m => String.eqb n m | TArr t, TArr u => ty_eqb t u
  | TMap k v, TMap k' v' => ty_eqb k k' && ty_eqb v v'
  | TAnd l, TAnd m | TOr l, TOr m | TTuple l, TTuple m => leq l m
  | TLit ps, TLit qs => peq ps qs
  | TStrLit s, TStrLit s' => String.eqb s s' | TIntLit z, TIntLit z' => (z =? z')%Z | TBoolLit b, TBoolLit b' => Bool.eqb b b'
  | _, _ => false end.

Section WithMM.
Variable mm : MM.

Definition find_struct (n : string) : option structure := find (fun s => String.eqb (s_name s) n) (structures mm).
Definition find_enum (n : string) : option enumeration := find (fun e => String.eqb (e_name e) n) (enumerations mm).
Definition find_alias (n : string) : option alias := find (fun a => String.eqb (a_name a) n) (aliases mm).

(* Flattened property list of a structure: own properties, then extends, then mixins, depth first;
   the first declaration of a name wins ("nearest wins").  Fuel bounds the inheritance depth. *)
Definition add_props (acc ps : list prop) : list prop :=
  fold_left (fun a p => if mem (p_name p) (map p_name a) then a else a ++ [p]) ps acc.
Fixpoint flat_acc (n : nat) (acc : list prop) (name : string) : list prop :=
  match n with O => acc | S n =>
    match find_struct name with None => acc | Some s =>
      fold_left (fun a t => match t with TRef b => flat_acc n a b | _ => a end)
                (s_extends s ++ s_mixins s) (add_props acc (s_props s)) end end.
Definition FLAT_FUEL := 12.
Definition flat (name : string) : list prop := flat_acc FLAT_FUEL [] name.

Definition is_null (t : ty) : bool := match t with TBase BNull => true | _ => false end.
Definition null_admitting (t : ty) : bool := match t with TOr l => existsb is_null l | TBase BNull => true | _ => false end.

Definition int32 (z : Z) : bool := ((-2147483648 <=? z) && (z <=? 2147483647))%Z.
Definition uint31 (z : Z) : bool := ((0 <=? z) && (z <=? 2147483647))%Z.

Definition evalue_matches (v : evalue) (j : json) : bool :=
  match v, j with EVStr s, JStr s' => String.eqb s s' | EVInt z, JInt z' => (z =? z')%Z | _, _ => false end.

(* Strict validity.  Objects are order-insensitive: no duplicate keys, every present key is a declared property with
   a valid value, every required property is present.  A structure or literal WITHOUT properties is an extension
   point and accepts any object (the metamodel's convention, see DESIGN.md C17). *)
Definition props_of_lit (ps : list (string * ty * bool)) : list prop :=
  map (fun x => {| p_name := fst (fst x); p_type := snd (fst x); p_opt := snd x; p_proposed := false |}) ps.
Definition and_props (l : list ty) : list prop :=
  fold_left (fun acc t => match t with
                          | TRef n => add_props acc (flat n)
                          | TLit ps => add_props acc (props_of_lit ps)
                          | _ => acc end) l [].
Definition opaque_ref (n : string) : bool := String.eqb n "LSPAny" || String.eqb n "LSPObject" || String.eqb n "LSPArray".
(* the property list of an object-like type *)
Definition obj_props (t : ty) : option (list prop) :=
  match t with
  | TRef n => if opaque_ref n then None else match find_struct n with Some _ => Some (flat n) | None => None end
  | TLit ps => Some (props_of_lit ps)
  | TAnd l => Some (and_props l)
  | _ => None end.

Inductive valid : ty -> json -> Prop :=
| v_string s : valid (TBase BString) (JStr s)
| v_uri s : valid (TBase BURI) (JStr s)
| v_docuri s : valid (TBase BDocumentUri) (JStr s)
| v_regexp s : valid (TBase BRegExp) (JStr s)
| v_integer z : int32 z = true -> valid (TBase BInteger) (JInt z)
| v_uinteger z : uint31 z = true -> valid (TBase BUInteger) (JInt z)
| v_decimal_i z : valid (TBase BDecimal) (JInt z)
| v_decimal_f n d : valid (TBase BDecimal) (JFlt n d)
| v_boolean b : valid (TBase BBoolean) (JBool b)
| v_null : valid (TBase BNull) JNull
| v_strlit s : valid (TStrLit s) (JStr s)
| v_intlit z : valid (TIntLit z) (JInt z)
| v_boollit b : valid (TBoolLit b) (JBool b)
| v_arr t l : (forall x, In x l -> valid t x) -> valid (TArr t) (JArr l)
| v_map k v m : NoDup (keys m) -> (forall a b, In (a, b) m -> valid k (JStr a) /\ valid v b) -> valid (TMap k v) (JObj m)
| v_tuple ts l : Forall2 valid ts l -> valid (TTuple ts) (JArr l)
| v_or l t j : In t l -> valid t j -> valid (TOr l) j
| v_any j : valid (TRef "LSPAny") j
| v_lspobject m : valid (TRef "LSPObject") (JObj m)
| v_lsparray l : valid (TRef "LSPArray") (JArr l)
| v_obj_open t m : obj_props t = Some [] -> NoDup (keys m) -> valid t (JObj m)
| v_obj t ps m : obj_props t = Some ps -> ps <> [] -> NoDup (keys m) ->
    (forall k v, In (k, v) m -> exists p, In p ps /\ p_name p = k /\ valid (p_type p) v) ->
    (forall p, In p ps -> p_opt p = false -> In (p_name p) (keys m)) -> valid t (JObj m)
| v_alias n a j : find_alias n = Some a -> opaque_ref n = false -> valid (a_type a) j -> valid (TRef n) j
| v_enum_member n e j : find_enum n = Some e ->
    existsb (fun x => evalue_matches (snd (fst x)) j) (e_values e) = true -> valid (TRef n) j
| v_enum_custom n e j : find_enum n = Some e -> e_custom e = true -> valid (TBase (e_base e)) j -> valid (TRef n) j.

(* Boolean twin, fuelled (alias unfolding does not consume the value). *)
Definition is_nil {A} (l : list A) : bool := match l with [] => true | _ => false end.
Fixpoint valid_b (n : nat) (t : ty) (j : json) {struct n} : bool :=
  match n with O => false | S n =>
  let obj (ps : list prop) (m : list (string * json)) : bool :=
      nodupb (keys m) &&
      (is_nil ps ||
       (forallb (fun kv => existsb (fun p => String.eqb (p_name p) (fst kv) && valid_b n (p_type p) (snd kv)) ps) m
        && forallb (fun p => p_opt p || mem (p_name p) (keys m)) ps)) in
  match t with
  | TBase BString | TBase BURI | TBase BDocumentUri | TBase BRegExp => match j with JStr _ => true | _ => false end
  | TBase BInteger => match j with JInt z => int32 z | _ => false end
  | TBase BUInteger => match j with JInt z => uint31 z | _ => false end
  | TBase BDecimal => match j with JInt _ | JFlt _ _ => true | _ => false end
  | TBase BBoolean => match j with JBool _ => true | _ => false end
  | TBase BNull => match j with JNull => true | _ => false end
  | TStrLit s => match j with JStr s' => String.eqb s s' | _ => false end
  | TIntLit z => match j with JInt z' => (z =? z')%Z | _ => false end
  | TBoolLit b => match j with JBool b' => Bool.eqb b b' | _ => false end
  | TArr t' => match j with JArr l => forallb (valid_b n t') l | _ => false end
  | TMap k v => match j with
                | JObj m => nodupb (keys m) && forallb (fun kv => valid_b n k (JStr (fst kv)) && valid_b n v (snd kv)) m
                | _ => false end
  | TTuple ts => match j with
                 | JArr l => Nat.eqb (length ts) (length l) && forallb (fun p => valid_b n (fst p) (snd p)) (combine ts l)
                 | _ => false end
  | TOr l => existsb (fun t' => valid_b n t' j) l
  | TLit _ | TAnd _ => match obj_props t, j with Some ps, JObj m => obj ps m | _, _ => false end
  | TRef name =>
      if String.eqb name "LSPAny" then true
      else if String.eqb name "LSPObject" then match j with JObj _ => true | _ => false end
      else if String.eqb name "LSPArray" then match j with JArr _ => true | _ => false end
      else match find_struct name with
           | Some _ => match j with JObj m => obj (flat name) m | _ => false end
           | None =>
             match find_alias name with
             | Some a => valid_b n (a_type a) j
             | None =>
               match find_enum name with
               | Some e => existsb (fun x => evalue_matches (snd (fst x)) j) (e_values e)
                           || (e_custom e && valid_b n (TBase (e_base e)) j)
               | None => false end end end
  end end.

(* message envelopes (JSON-RPC 2.0), as literal types built from the metamodel entry *)
Definition id_ty : ty := TOr [TBase BInteger; TBase BString].
Definition env_common : list (string * ty * bool) := [("jsonrpc", TStrLit "2.0", false)].
Definition request_ty (r : request) : ty :=
  TLit (("id", id_ty, false) :: match r_params r with Some p => [("params", p, false)] | None => [] end
        ++ [("method", TStrLit (r_method r), false)] ++ env_common).
Definition response_ty (r : request) : ty :=
  TLit ([("id", id_ty, false); ("result", r_result r, false)] ++ env_common).
Definition notification_ty (n : notification) : ty :=
  TLit (match n_params n with Some p => [("params", p, false)] | None => [] end
        ++ [("method", TStrLit (n_method n), false)] ++ env_common).
End WithMM.
