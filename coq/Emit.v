(* Emit.v — an abstract emission pipeline for the generator plugins (property C16, label: PARTIAL).

   What is proved here is about the ABSTRACT pipeline, for all id assignments, all iteration orders of the sets and all prior
   directory states:
     emit_id_invariant        the emitted lines do not depend on the (injective) assignment of random ids to model objects,
                              when ids are used only as keys of the insertion-ordered TypeData table;
     emit_perm_invariant      the value computed from a set does not depend on its iteration order when the set is sorted before
                              use (possibly after an element-wise map), or used only for membership tests, or only for its size;
     key_sorted_perm_invariant / key_sorted_ties_exposed   sorted(S, key=k) (a stable sort by the keys) is a function of the set
                              when k is injective on it, and is NOT when two elements share a key: they come out in iteration order;
     glob_delete_invariant / glob_write_invariant   deleting a listed set of files, or writing one file per listed item under
                              distinct names, does not depend on the listing order;
     run_history_independent  the files a plugin owns after a run do not depend on the directory's previous contents, when the
                              plugin removes its owned pattern before writing, or always writes the same fixed set of names;
     view_state_history_independent / const_state_history_independent / memo_history_independent
                              the output of the n-th generation of one process equals that of a fresh process, when no
                              generation changes the part of the module state the output depends on, or when the only state is
                              a memo table over a pure function.
   That each Python expression of the plugins is an instance of one of these classes is established by the syntactic
   classification of lib/x_emit.py (Gen.EmitData) and validated by differential runs of the real plugins — not proved. *)
From Coq Require Import List Arith Bool Permutation Lia String Ascii NArith.
Import ListNotations.

(* ------------------------------------------------------------------------------------------------ 1. ids as keys *)
Section Ids.
Variable id : Type.
Variable id_eqb : id -> id -> bool.
Hypothesis id_eqb_spec : forall a b, reflect (a = b) (id_eqb a b).
Variable V : Type.            (* (type name, lines) — contains no id: "ids occur only as keys" *)

(* TypeData: an insertion-ordered association list keyed by ids *)
Definition tdata := list (id * V).
Definition has (td : tdata) (k : id) : bool := existsb (fun e => id_eqb (fst e) k) td.

(* one step of a generator: under guards `has_id(obj_j) = b`, add_type_info(obj_i, v); a duplicate id raises *)
Record op := mkOp { guards : list (nat * bool); target : nat; val : V }.

Section WithAssignment.
Variable K : Type.
Variable keqb : K -> K -> bool.
Variable key : nat -> K.                       (* the id of model object number i *)
Definition hasK (td : list (K * V)) (k : K) : bool := existsb (fun e => keqb (fst e) k) td.
Definition exec (td : list (K * V)) (o : op) : option (list (K * V)) :=
  if forallb (fun g => Bool.eqb (hasK td (key (fst g))) (snd g)) (guards o)
  then if hasK td (key (target o)) then None else Some (td ++ [(key (target o), val o)])
  else Some td.
Fixpoint gen_from (td : list (K * V)) (prog : list op) : option (list (K * V)) :=
  match prog with
  | [] => Some td
  | o :: r => match exec td o with Some td' => gen_from td' r | None => None end
  end.
End WithAssignment.

Definition gen (ida : nat -> id) (prog : list op) : option tdata := gen_from id id_eqb ida [] prog.
Definition geni (prog : list op) : option (list (nat * V)) := gen_from nat Nat.eqb (fun i => i) [] prog.
Definition lines {K} (td : list (K * V)) : list V := map snd td.
Definition injective (ida : nat -> id) : Prop := forall i j, ida i = ida j -> i = j.

Definition relabel (ida : nat -> id) (e : nat * V) : id * V := (ida (fst e), snd e).

Lemma has_relabel : forall ida, injective ida -> forall td k,
  hasK id id_eqb (map (relabel ida) td) (ida k) = hasK nat Nat.eqb td k.
Proof.
  intros ida inj td k. unfold hasK. induction td as [|[i v] td IH]; [reflexivity|].
  cbn [map existsb relabel fst snd]. rewrite IH. f_equal.
  destruct (id_eqb_spec (ida i) (ida k)) as [e|ne], (Nat.eqb_spec i k) as [e'|ne']; try reflexivity.
  - apply inj in e. contradiction.
  - subst. contradiction.
Qed.

Lemma gen_relabel : forall ida, injective ida -> forall prog td,
  gen_from id id_eqb ida (map (relabel ida) td) prog
  = option_map (map (relabel ida)) (gen_from nat Nat.eqb (fun i => i) td prog).
Proof.
  intros ida inj. induction prog as [|o r IH]; intros td; [reflexivity|].
  cbn [gen_from]. unfold exec.
  assert (G : forallb (fun g => Bool.eqb (hasK id id_eqb (map (relabel ida) td) (ida (fst g))) (snd g)) (guards o)
            = forallb (fun g => Bool.eqb (hasK nat Nat.eqb td (fst g)) (snd g)) (guards o)).
  { induction (guards o) as [|g gs IHg]; [reflexivity|]. cbn [forallb]. rewrite IHg, has_relabel by exact inj. reflexivity. }
  rewrite G. destruct (forallb (fun g => Bool.eqb (hasK nat Nat.eqb td (fst g)) (snd g)) (guards o)).
  - rewrite has_relabel by exact inj. destruct (hasK nat Nat.eqb td (target o)); [reflexivity|].
    rewrite <- IH. rewrite map_app. reflexivity.
  - apply IH.
Qed.

Theorem emit_id_invariant : forall ida ida', injective ida -> injective ida' ->
  forall prog, option_map lines (gen ida prog) = option_map lines (gen ida' prog).
Proof.
  intros ida ida' I I' prog. unfold gen.
  pose proof (gen_relabel ida I prog []) as A. pose proof (gen_relabel ida' I' prog []) as B.
  cbn [map] in A, B. rewrite A, B.
  destruct (gen_from nat Nat.eqb (fun i => i) [] prog) as [td|]; [|reflexivity].
  cbn [option_map]. f_equal. unfold lines. rewrite !map_map. reflexivity.
Qed.
End Ids.

(* ------------------------------------------------------------------------------------------------ 2. set iteration order *)
Section Sets.
Variable A : Type.
Variable leb : A -> A -> bool.
Hypothesis leb_total : forall a b, leb a b = true \/ leb b a = true.
Hypothesis leb_antisym : forall a b, leb a b = true -> leb b a = true -> a = b.
Hypothesis leb_trans : forall a b c, leb a b = true -> leb b c = true -> leb a c = true.
Variable eqb : A -> A -> bool.

Fixpoint insert (x : A) (l : list A) : list A :=
  match l with [] => [x] | y :: r => if leb x y then x :: l else y :: insert x r end.
Fixpoint isort (l : list A) : list A := match l with [] => [] | x :: r => insert x (isort r) end.

Ltac ins := repeat (cbn [insert]; try match goal with H : leb ?a ?b = _ |- context [leb ?a ?b] => rewrite H end).
Lemma insert_comm : forall x y l, insert x (insert y l) = insert y (insert x l).
Proof.
  intros x y l. induction l as [|z l IH].
  - destruct (leb x y) eqn:XY, (leb y x) eqn:YX; ins; try reflexivity.
    + rewrite (leb_antisym _ _ XY YX). reflexivity.
    + destruct (leb_total x y); congruence.
  - destruct (leb y z) eqn:YZ, (leb x z) eqn:XZ.
    + destruct (leb x y) eqn:XY, (leb y x) eqn:YX; ins; try reflexivity.
      * rewrite (leb_antisym _ _ XY YX). reflexivity.
      * destruct (leb_total x y); congruence.
    + assert (XY : leb x y = false).
      { destruct (leb x y) eqn:XY; [|reflexivity]. rewrite (leb_trans _ _ _ XY YZ) in XZ. discriminate. }
      ins. reflexivity.
    + assert (YX : leb y x = false).
      { destruct (leb y x) eqn:YX; [|reflexivity]. rewrite (leb_trans _ _ _ YX XZ) in YZ. discriminate. }
      ins. reflexivity.
    + ins. rewrite IH. reflexivity.
Qed.

Lemma isort_perm : forall l l', Permutation l l' -> isort l = isort l'.
Proof.
  induction 1; cbn [isort].
  - reflexivity.
  - rewrite IHPermutation. reflexivity.
  - apply insert_comm.
  - congruence.
Qed.

Definition mem (x : A) (l : list A) : bool := existsb (eqb x) l.
Lemma mem_perm : forall l l', Permutation l l' -> forall x, mem x l = mem x l'.
Proof.
  unfold mem. induction 1; intros q; cbn [existsb].
  - reflexivity.
  - rewrite IHPermutation. reflexivity.
  - destruct (eqb q x), (eqb q y); reflexivity.
  - rewrite IHPermutation1. apply IHPermutation2.
Qed.

(* how the rest of the generator consumes a set whose iteration order is l *)
Inductive consumer (O : Type) :=
| CSorted (k : list A -> O)                       (* sorted(S) *)
| CMapSorted (f : A -> A) (k : list A -> O)       (* sorted([f(x) for x in S]) *)
| CMember (queries : list A) (k : list bool -> O) (* only `q in S` tests *)
| CSize (k : nat -> O).                           (* only len(S) *)
Definition consume {O} (c : consumer O) (l : list A) : O :=
  match c with
  | CSorted _ k => k (isort l)
  | CMapSorted _ f k => k (isort (map f l))
  | CMember _ qs k => k (map (fun q => mem q l) qs)
  | CSize _ k => k (List.length l)
  end.

Theorem emit_perm_invariant : forall O (c : consumer O) l l', Permutation l l' -> consume c l = consume c l'.
Proof.
  intros O c l l' H. destruct c; cbn [consume].
  - rewrite (isort_perm _ _ H). reflexivity.
  - rewrite (isort_perm _ _ (Permutation_map f H)). reflexivity.
  - f_equal. apply map_ext. intros q. apply mem_perm. exact H.
  - rewrite (Permutation_length H). reflexivity.
Qed.
End Sets.

(* sorted(S, key=k) / min / max with a key.  Python's sort is stable: it orders by the keys only, elements whose keys compare equal
   stay in the order in which they were iterated.  isort above is that sort (insert puts x in front of the first y with
   leb x y, and x was iterated before y), taken at the order "compare the keys". *)
Section KeySorted.
Variables (A B : Type).
Variable lebB : B -> B -> bool.
Hypothesis lebB_total : forall a b, lebB a b = true \/ lebB b a = true.
Hypothesis lebB_antisym : forall a b, lebB a b = true -> lebB b a = true -> a = b.
Hypothesis lebB_trans : forall a b c, lebB a b = true -> lebB b c = true -> lebB a c = true.
Variable key : A -> B.
Definition leb_key (a b : A) : bool := lebB (key a) (key b).
Definition sort_by_key (l : list A) : list A := isort A leb_key l.

(* with an INJECTIVE key the result is a function of the set alone ... *)
Theorem key_sorted_perm_invariant : (forall a b, key a = key b -> a = b) ->
  forall l l', Permutation l l' -> sort_by_key l = sort_by_key l'.
Proof.
  intros inj l l' H. unfold sort_by_key. apply isort_perm; [| | |exact H]; unfold leb_key.
  - intros a b. apply lebB_total.
  - intros a b H1 H2. apply inj. apply lebB_antisym; assumption.
  - intros a b c. apply lebB_trans.
Qed.

(* ... and with any key the KEYS come out in the same order (what differs is which of the tied elements stands where) *)
Lemma map_insert_key : forall x l, map key (insert A leb_key x l) = insert B lebB (key x) (map key l).
Proof.
  intros x l. induction l as [|y r IH]; [reflexivity|].
  cbn [insert map]. unfold leb_key at 1. destruct (lebB (key x) (key y)); cbn [map]; [reflexivity|]. rewrite IH. reflexivity.
Qed.
Lemma map_sort_by_key : forall l, map key (sort_by_key l) = isort B lebB (map key l).
Proof.
  unfold sort_by_key. induction l as [|x r IH]; [reflexivity|]. cbn [isort map]. rewrite map_insert_key, IH. reflexivity.
Qed.
Theorem key_sorted_keys_invariant : forall l l', Permutation l l' -> map key (sort_by_key l) = map key (sort_by_key l').
Proof.
  intros l l' H. rewrite !map_sort_by_key. apply isort_perm; try assumption. apply Permutation_map. exact H.
Qed.
End KeySorted.

(* without injectivity the iteration order of the set shows: two elements with the same key come out in the order they went in
   (site class SSortedByKey, not covered) *)
Theorem key_sorted_ties_exposed : forall (A B : Type) (lebB : B -> B -> bool) (key : A -> B) (x y : A),
  lebB (key x) (key y) = true -> lebB (key y) (key x) = true -> x <> y ->
  Permutation [x; y] [y; x] /\ sort_by_key A B lebB key [x; y] <> sort_by_key A B lebB key [y; x].
Proof.
  intros A B lebB key x y XY YX D. split; [apply perm_swap|].
  unfold sort_by_key, leb_key. cbn [isort insert]. rewrite XY, YX. intros E. injection E as E _. exact (D E).
Qed.

(* ------------------------------------------------------------------------------------------------ 3. the output directory *)
Section FS.
Variable name : Type.
Variable neqb : name -> name -> bool.
Hypothesis neqb_spec : forall a b, reflect (a = b) (neqb a b).
Variable content : Type.

Definition fs := name -> option content.
Definition write (f : fs) (n : name) (c : content) : fs := fun x => if neqb x n then Some c else f x.
Definition remove (f : fs) (n : name) : fs := fun x => if neqb x n then None else f x.
Definition remove_owned (owned : name -> bool) (f : fs) : fs := fun x => if owned x then None else f x.
Definition write_all (outs : list (name * content)) (f : fs) : fs := fold_left (fun f nc => write f (fst nc) (snd nc)) outs f.
Definition delete_all (l : list name) (f : fs) : fs := fold_left remove l f.

(* a plugin run: [cleanup of the owned pattern;] write the emitted files *)
Definition run (cleanup : bool) (owned : name -> bool) (outs : list (name * content)) (f : fs) : fs :=
  write_all outs (if cleanup then remove_owned owned f else f).

Lemma write_all_notin : forall outs f n, ~ In n (map fst outs) -> write_all outs f n = f n.
Proof.
  induction outs as [|[m c] r IH]; intros f n H; [reflexivity|].
  cbn [write_all fold_left fst snd]. fold (write_all r (write f m c)). rewrite IH.
  - unfold write. destruct (neqb_spec n m) as [e|ne]; [|reflexivity]. exfalso. apply H. left. symmetry. exact e.
  - intros I. apply H. right. exact I.
Qed.
Lemma write_all_in : forall outs f g n, In n (map fst outs) -> write_all outs f n = write_all outs g n.
Proof.
  induction outs as [|[m c] r IH]; intros f g n H; [destruct H|].
  cbn [write_all fold_left fst snd]. fold (write_all r (write f m c)). fold (write_all r (write g m c)).
  destruct (in_dec (fun a b => match neqb_spec a b with ReflectT _ e => left e | ReflectF _ ne => right ne end) n (map fst r)) as [I|NI].
  - apply IH. exact I.
  - rewrite !write_all_notin by exact NI. destruct H as [e|I]; [|contradiction]. cbn in e. subst m.
    unfold write. destruct (neqb_spec n n); [reflexivity|contradiction].
Qed.

Theorem run_history_independent : forall cleanup owned outs,
  (cleanup = true \/ (forall n, owned n = true -> In n (map fst outs))) ->
  forall f1 f2 n, owned n = true -> run cleanup owned outs f1 n = run cleanup owned outs f2 n.
Proof.
  intros cleanup owned outs H f1 f2 n On. unfold run.
  destruct (in_dec (fun a b => match neqb_spec a b with ReflectT _ e => left e | ReflectF _ ne => right ne end) n (map fst outs)) as [I|NI].
  - apply write_all_in. exact I.
  - destruct H as [C|F]; [|exfalso; apply NI, F, On]. subst cleanup.
    rewrite !write_all_notin by exact NI. unfold remove_owned. rewrite On. reflexivity.
Qed.

(* files outside the owned pattern are never touched when every written name is owned *)
Theorem run_preserves_foreign : forall cleanup owned outs, (forall n, In n (map fst outs) -> owned n = true) ->
  forall f n, owned n = false -> run cleanup owned outs f n = f n.
Proof.
  intros cleanup owned outs W f n On. unfold run. rewrite write_all_notin.
  - destruct cleanup; [|reflexivity]. unfold remove_owned. rewrite On. reflexivity.
  - intros I. apply W in I. congruence.
Qed.

(* order of a directory listing *)
Lemma delete_all_spec : forall l f n, delete_all l f n = if existsb (neqb n) l then None else f n.
Proof.
  induction l as [|m r IH]; intros f n; [reflexivity|].
  cbn [delete_all fold_left existsb]. fold (delete_all r (remove f m)). rewrite IH. unfold remove.
  destruct (neqb n m), (existsb (neqb n) r); reflexivity.
Qed.
Theorem glob_delete_invariant : forall l l', Permutation l l' -> forall f n, delete_all l f n = delete_all l' f n.
Proof.
  intros l l' H f n. rewrite !delete_all_spec.
  assert (E : existsb (neqb n) l = existsb (neqb n) l').
  { clear f. induction H; cbn [existsb]; try congruence. destruct (neqb n x), (neqb n y); reflexivity. }
  rewrite E. reflexivity.
Qed.

(* the listing taken as a SNAPSHOT before the first deletion (`v = list(d.glob(PAT)); for x in v: x.unlink()`): if the snapshot
   lists, in whatever order and with whatever repetitions, exactly the owned names that exist in the directory at that moment,
   deleting its elements IS the cleanup step of `run` *)
Theorem snapshot_delete_is_cleanup : forall (owned : name -> bool) (l : list name) (f : fs),
  (forall n, In n l <-> (owned n = true /\ f n <> None)) ->
  forall n, delete_all l f n = remove_owned owned f n.
Proof.
  intros owned l f H n. rewrite delete_all_spec. unfold remove_owned.
  destruct (existsb (neqb n) l) eqn:E.
  - apply existsb_exists in E. destruct E as [m [I e]]. destruct (neqb_spec n m) as [e'|]; [|discriminate]. subst m.
    apply H in I. destruct I as [O _]. rewrite O. reflexivity.
  - destruct (owned n) eqn:O; [|reflexivity]. destruct (f n) eqn:F; [|reflexivity]. exfalso.
    assert (I : In n l) by (apply H; split; [exact O|rewrite F; discriminate]).
    assert (T : existsb (neqb n) l = true).
    { apply existsb_exists. exists n. split; [exact I|]. destruct (neqb_spec n n); [reflexivity|contradiction]. }
    congruence.
Qed.
Lemma write_all_swap : forall a b r f n, fst a <> fst b ->
  write_all (a :: b :: r) f n = write_all (b :: a :: r) f n.
Proof.
  intros [n1 c1] [n2 c2] r f n D. cbn [fst] in D. cbn [write_all fold_left fst snd].
  fold (write_all r (write (write f n1 c1) n2 c2)). fold (write_all r (write (write f n2 c2) n1 c1)).
  assert (E : forall x, write (write f n1 c1) n2 c2 x = write (write f n2 c2) n1 c1 x).
  { intros x. unfold write. destruct (neqb_spec x n2), (neqb_spec x n1); try reflexivity. congruence. }
  revert E. generalize (write (write f n1 c1) n2 c2), (write (write f n2 c2) n1 c1). clear.
  induction r as [|[m c] r IH]; intros g h E; [apply E|].
  cbn [write_all fold_left fst snd]. apply IH. intros x. unfold write. rewrite E. reflexivity.
Qed.
Lemma write_all_ext : forall outs g h, (forall x, g x = h x) -> forall n, write_all outs g n = write_all outs h n.
Proof.
  induction outs as [|[m c] r IH]; intros g h E n; [apply E|].
  cbn [write_all fold_left fst snd]. apply IH. intros x. unfold write. rewrite E. reflexivity.
Qed.
(* hence a run whose cleanup is such a loop is `run true`: history independent by run_history_independent *)
Corollary snapshot_cleanup_run : forall owned l outs f,
  (forall n, In n l <-> (owned n = true /\ f n <> None)) ->
  forall n, write_all outs (delete_all l f) n = run true owned outs f n.
Proof.
  intros owned l outs f H n. unfold run. apply write_all_ext. intros x. apply snapshot_delete_is_cleanup. exact H.
Qed.

Theorem glob_write_invariant : forall outs outs', Permutation outs outs' -> NoDup (map fst outs) ->
  forall f n, write_all outs f n = write_all outs' f n.
Proof.
  induction 1; intros ND f n.
  - reflexivity.
  - destruct x as [m c]. cbn [write_all fold_left fst snd]. apply IHPermutation. inversion ND; assumption.
  - apply write_all_swap. inversion ND as [|? ? NI _]; subst. intros E. apply NI. left. symmetry. exact E.
  - rewrite IHPermutation1 by exact ND. apply IHPermutation2.
    apply (Permutation_NoDup (Permutation_map fst H)). exact ND.
Qed.
End FS.

(* ------------------------------------------------------------------------------------------------ 4. String.leb is a total order *)
Lemma ascii_compare_trans_lt : forall a b c, Ascii.compare a b = Lt -> Ascii.compare b c = Lt -> Ascii.compare a c = Lt.
Proof. unfold Ascii.compare. intros a b c. rewrite !N.compare_lt_iff. apply N.lt_trans. Qed.
Lemma ascii_compare_eq : forall a b, Ascii.compare a b = Eq -> a = b.
Proof. intros a b H. apply Ascii.compare_eq_iff. exact H. Qed.
Lemma ascii_compare_refl : forall a, Ascii.compare a a = Eq.
Proof. intros a. unfold Ascii.compare. apply N.compare_refl. Qed.

Lemma string_compare_trans_le : forall s1 s2 s3,
  String.compare s1 s2 <> Gt -> String.compare s2 s3 <> Gt -> String.compare s1 s3 <> Gt.
Proof.
  induction s1 as [|a s1 IH]; intros s2 s3 H12 H23.
  - destruct s3; cbn; discriminate.
  - destruct s2 as [|b s2]; [cbn in H12; congruence|].
    destruct s3 as [|c s3]; [cbn in H23; congruence|].
    cbn [String.compare] in *.
    destruct (Ascii.compare a b) eqn:AB; [| |congruence].
    + apply ascii_compare_eq in AB. subst b.
      destruct (Ascii.compare a c) eqn:AC; [|discriminate|congruence].
      apply (IH s2 s3); assumption.
    + destruct (Ascii.compare b c) eqn:BC; [| |congruence].
      * apply ascii_compare_eq in BC. subst c. rewrite AB. discriminate.
      * rewrite (ascii_compare_trans_lt _ _ _ AB BC). discriminate.
Qed.
Lemma string_leb_trans : forall a b c, String.leb a b = true -> String.leb b c = true -> String.leb a c = true.
Proof.
  unfold String.leb. intros a b c H1 H2.
  assert (A : String.compare a b <> Gt) by (destruct (String.compare a b); congruence).
  assert (B : String.compare b c <> Gt) by (destruct (String.compare b c); congruence).
  pose proof (string_compare_trans_le _ _ _ A B) as C. destruct (String.compare a c); congruence.
Qed.

(* ------------------------------------------------------------------------------------------------ 5. process history *)
(* One Python process performs a sequence of generations.  Whatever survives from one generation to the next lives in module
   objects (module-level names, class attributes, default-argument values, functools caches): the module state St.
   A generation is   step : St -> M -> St * O   (state before, model) |-> (state after, output). *)
Section Process.
Variables (St M O : Type).
Variable step : St -> M -> St * O.
Definition after (s0 : St) (hist : list M) : St := fold_left (fun s m => fst (step s m)) hist s0.

(* the output may depend on a VIEW of the state only, and no generation changes that view (state outside the view — logger
   configuration, regex caches — may change freely) *)
Section View.
Variable W : Type.
Variable view : St -> W.
Hypothesis view_const : forall s m, view (fst (step s m)) = view s.
Hypothesis out_view : forall s s' m, view s = view s' -> snd (step s m) = snd (step s' m).
Lemma after_view : forall hist s0, view (after s0 hist) = view s0.
Proof.
  induction hist as [|m r IH]; intros s0; [reflexivity|].
  cbn [after fold_left]. fold (after (fst (step s0 m)) r). rewrite IH. apply view_const.
Qed.
Theorem view_state_history_independent : forall s0 hist m, snd (step (after s0 hist) m) = snd (step s0 m).
Proof. intros s0 hist m. apply out_view. apply after_view. Qed.
End View.

(* special case: the module state is constant after import (site class SModConst) *)
Theorem const_state_history_independent : (forall s m, fst (step s m) = s) ->
  forall s0 hist m, snd (step (after s0 hist) m) = snd (step s0 m).
Proof.
  intros C s0 hist m. apply (view_state_history_independent St (fun s => s)).
  - exact C.
  - intros s s' m' E. rewrite E. reflexivity.
Qed.
End Process.

(* a memo table over a PURE function (site class SMemoPure): whatever consistent table earlier generations left behind —
   the empty one of a fresh process, or any part of one after eviction — every call returns f k *)
Section Memo.
Variables (K V : Type).
Variable keqb : K -> K -> bool.
Hypothesis keqb_eq : forall a b, keqb a b = true -> a = b.     (* keys that the table identifies are the same argument *)
Variable f : K -> V.
Definition table := list (K * V).
Fixpoint lookup (c : table) (k : K) : option V :=
  match c with [] => None | e :: r => if keqb k (fst e) then Some (snd e) else lookup r k end.
Definition consistent (c : table) : Prop := forall k v, lookup c k = Some v -> v = f k.
Definition call (c : table) (k : K) : table * V :=
  match lookup c k with Some v => (c, v) | None => ((k, f k) :: c, f k) end.
Fixpoint calls (c : table) (ks : list K) : table * list V :=
  match ks with
  | [] => (c, [])
  | k :: r => (fst (calls (fst (call c k)) r), snd (call c k) :: snd (calls (fst (call c k)) r))
  end.

Lemma consistent_nil : consistent [].
Proof. intros k v H. discriminate H. Qed.
Lemma call_value : forall c k, consistent c -> snd (call c k) = f k.
Proof.
  intros c k H. unfold call. destruct (lookup c k) as [v|] eqn:L; cbn [snd]; [|reflexivity]. apply H. exact L.
Qed.
Lemma call_consistent : forall c k, consistent c -> consistent (fst (call c k)).
Proof.
  intros c k H. unfold call. destruct (lookup c k) as [v|] eqn:L; cbn [fst]; [exact H|].
  intros k' v'. cbn [lookup fst snd]. destruct (keqb k' k) eqn:E.
  - intros Q. injection Q as Q. subst v'. rewrite (keqb_eq _ _ E). reflexivity.
  - apply H.
Qed.
Theorem memo_history_independent : forall ks c, consistent c -> snd (calls c ks) = map f ks.
Proof.
  induction ks as [|k r IH]; intros c H; [reflexivity|].
  cbn [calls snd map]. rewrite (call_value c k H). f_equal. apply IH. apply call_consistent. exact H.
Qed.
Corollary memo_same_as_fresh : forall ks c, consistent c -> snd (calls c ks) = snd (calls [] ks).
Proof. intros ks c H. rewrite (memo_history_independent ks c H), (memo_history_independent ks [] consistent_nil). reflexivity. Qed.
Lemma calls_consistent : forall ks c, consistent c -> consistent (fst (calls c ks)).
Proof.
  induction ks as [|k r IH]; intros c H; [exact H|]. cbn [calls fst]. apply IH. apply call_consistent. exact H.
Qed.
End Memo.

(* ------------------------------------------------------------------------------------------------ 6. site table *)
Inductive site_class :=
| SSorted        (* sorted(...) applied before any order-dependent use, no key or a key that is
                    injective for syntactic reasons           -> emit_perm_invariant (CSorted / CMapSorted), key_sorted_perm_invariant *)
| SSortedByKey   (* sorted/min/max(..., key=k), k not known to be injective: elements with equal keys keep the iteration
                    order of the set (key_sorted_ties_exposed): NOT covered *)
| SMember        (* used only in `x in S` tests                                        -> emit_perm_invariant (CMember) *)
| SSize          (* only len(S) / truth value                                           -> emit_perm_invariant (CSize) *)
| SKeyOnly       (* a random id used as dict key / in a membership test on such a dict -> emit_id_invariant *)
| SErrorOnly     (* inside a `raise`: no output is produced on that path *)
| SValuesOnly    (* iteration over the values of the id-keyed dict: insertion order   -> emit_id_invariant *)
| SDeleteOnly    (* directory listing whose items are only deleted                     -> glob_delete_invariant *)
| SKeyedWrite    (* directory listing, one write per item under the item's own name    -> glob_write_invariant *)
| SIdSource      (* a random value stored only as the id_ field of a model object: the `ida` of emit_id_invariant; its reads are sites *)
| SModConst      (* module-level mutable value that no function changes                -> const_state_history_independent *)
| SMemoPure      (* functools cache over a pure function of immutable arguments        -> memo_history_independent *)
| SModState      (* module-level state changed by a function: output may depend on earlier generations: NOT covered *)
| SExposed.      (* iteration order or id value can reach the output: NOT covered *)
Definition covered (c : site_class) : bool := match c with SExposed | SSortedByKey | SModState => false | _ => true end.
Definition stateless (c : site_class) : bool := match c with SModState => false | _ => true end.
Record site := mkSite { s_file : string; s_line : nat; s_what : string; s_class : site_class }.
(* a plugin either removes its owned pattern before writing or always writes the same fixed names *)
Record plugin := mkPlugin { p_name : string; p_cleanup_first : bool; p_fixed_names : bool; p_writes_owned : bool }.
Definition plugin_ok (p : plugin) : bool := (p_cleanup_first p || p_fixed_names p) && p_writes_owned p.
Definition sites_ok (l : list site) : bool := forallb (fun s => covered (s_class s)) l.
Definition plugins_ok (l : list plugin) : bool := forallb plugin_ok l.
Definition exposed (l : list site) : list site := filter (fun s => negb (covered (s_class s))) l.
(* no module-level state that a generation can change *)
Definition state_ok (l : list site) : bool := forallb (fun s => stateless (s_class s)) l.
Definition history_sites (l : list site) : list site := filter (fun s => negb (stateless (s_class s))) l.
Lemma sites_ok_state_ok : forall l, sites_ok l = true -> state_ok l = true.
Proof.
  intros l H. unfold sites_ok, state_ok in *. rewrite forallb_forall in *. intros s I. specialize (H s I).
  destruct (s_class s); try reflexivity; discriminate H.
Qed.
Lemma state_ok_no_history_sites : forall l, state_ok l = true -> history_sites l = [].
Proof.
  induction l as [|s r IH]; intros H; [reflexivity|].
  unfold state_ok in H. cbn [forallb] in H. apply andb_true_iff in H. destruct H as [A B].
  unfold history_sites. cbn [filter]. rewrite A. cbn [negb]. apply IH. exact B.
Qed.
