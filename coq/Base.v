(* Base.v — JSON values, the result monad, association-list helpers shared by every model. *)
From Coq Require Export String List ZArith Bool Ascii.
Export ListNotations.
Open Scope string_scope.
Open Scope list_scope.

(* JSON.  A float is kept as the exact ratio CPython reports (float.as_integer_ratio): num / den, den > 0. *)
Inductive json :=
| JNull | JBool (b : bool) | JInt (z : Z) | JFlt (num den : Z) | JStr (s : string)
| JArr (l : list json) | JObj (m : list (string * json)).

Inductive res (A : Type) := Ok (a : A) | Err (e : string) | Fuel.
Arguments Ok {A}. Arguments Err {A}. Arguments Fuel {A}.
Definition bind {A B} (r : res A) (f : A -> res B) : res B :=
  match r with Ok a => f a | Err e => Err e | Fuel => Fuel end.
Notation "'do' x <- r ; k" := (bind r (fun x => k)) (at level 200, x name, right associativity).
Fixpoint mapM {A B} (f : A -> res B) (l : list A) : res (list B) :=
  match l with [] => Ok [] | x :: xs => do y <- f x; do ys <- mapM f xs; Ok (y :: ys) end.
Definition is_ok {A} (r : res A) : bool := match r with Ok _ => true | _ => false end.

Definition assoc {A} (k : string) (m : list (string * A)) : option A :=
  option_map snd (find (fun kv => String.eqb (fst kv) k) m).
Definition mem (k : string) (l : list string) : bool := existsb (String.eqb k) l.
Definition somes {A} (l : list (option A)) : list A :=
  flat_map (fun o => match o with Some x => [x] | None => [] end) l.
Fixpoint nodupb (l : list string) : bool :=
  match l with [] => true | x :: xs => negb (mem x xs) && nodupb xs end.
Definition keys {A} (m : list (string * A)) : list string := map fst m.
Definition is_nil_b {A} (l : list A) : bool := match l with [] => true | _ => false end.
Definition lstr_eqb (a b : list string) : bool := if list_eq_dec string_dec a b then true else false.
Definition subset (a b : list string) : bool := forallb (fun x => mem x b) a.
Definition seteq (a b : list string) : bool := subset a b && subset b a.

(* size of a JSON value: the measure of the strong inductions *)
Fixpoint jsize (j : json) : nat :=
  match j with
  | JArr l => S (fold_right (fun x n => jsize x + n) 0 l)
  | JObj m => S (fold_right (fun kv n => jsize (snd kv) + n) 0 m)
  | _ => 1 end.

(* executable structural equality, ints and integral floats identified, objects compared as written (the harness sorts keys) *)
Fixpoint jeqb (a b : json) {struct a} : bool :=
  let fix leq x y := match x, y with [], [] => true | p :: ps, r :: rs => jeqb p r && leq ps rs | _, _ => false end in
  let fix meq x y := match x, y with [], [] => true | (k, p) :: ps, (k', r) :: rs => String.eqb k k' && jeqb p r && meq ps rs | _, _ => false end in
  match a, b with
  | JNull, JNull => true | JBool x, JBool y => Bool.eqb x y | JInt x, JInt y => (x =? y)%Z
  | JFlt n d, JFlt n' d' => (n * d' =? n' * d)%Z
  | JInt x, JFlt n d | JFlt n d, JInt x => (x * d =? n)%Z
  | JStr x, JStr y => String.eqb x y | JArr x, JArr y => leq x y | JObj x, JObj y => meq x y
  | _, _ => false end.

(* key-sorted normal form, used only by the executable comparison in cases files *)
Fixpoint ins_sorted (kv : string * json) (l : list (string * json)) :=
  match l with [] => [kv] | x :: xs => if String.leb (fst kv) (fst x) then kv :: l else x :: ins_sorted kv xs end.
Fixpoint canon (j : json) : json :=
  match j with
  | JArr l => JArr (map canon l)
  | JObj m => JObj (fold_right ins_sorted [] (map (fun kv => (fst kv, canon (snd kv))) m))
  | _ => j end.

Lemma mem_in k l : mem k l = true <-> In k l.
Proof.
  unfold mem. rewrite existsb_exists. split.
  - intros [x [I E]]. apply String.eqb_eq in E. subst. exact I.
  - intros I. exists k. split; [exact I | apply String.eqb_refl].
Qed.
Lemma nodupb_NoDup l : nodupb l = true <-> NoDup l.
Proof.
  induction l as [|x xs IH]; cbn.
  - split; [constructor | reflexivity].
  - rewrite andb_true_iff, negb_true_iff, IH. split.
    + intros [H1 H2]. constructor; [|exact H2]. intro I. apply mem_in in I. congruence.
    + intros H. inversion H as [|? ? N D]; subst. split; [|exact D].
      destruct (mem x xs) eqn:E; [apply mem_in in E; contradiction | reflexivity].
Qed.
Lemma assoc_in {A} k (m : list (string * A)) v : assoc k m = Some v -> In (k, v) m.
Proof.
  unfold assoc. destruct (find _ m) as [[k' v']|] eqn:F; [|discriminate]. cbn. intros [= <-].
  apply find_some in F. destruct F as [I E]. cbn in E. apply String.eqb_eq in E. subst. exact I.
Qed.
Lemma assoc_none {A} k (m : list (string * A)) : assoc k m = None <-> ~ In k (keys m).
Proof.
  unfold assoc, keys. induction m as [|[k' v] m IH]; cbn.
  - split; [intros _ [] | reflexivity].
  - destruct (String.eqb_spec k' k) as [->|N]; cbn.
    + split; [discriminate | intros H; exfalso; apply H; left; reflexivity].
    + rewrite IH. split; [intros H [E|I]; [congruence|auto] | intros H I; apply H; right; exact I].
Qed.
Lemma in_assoc_nodup {A} k (v : A) m : NoDup (keys m) -> In (k, v) m -> assoc k m = Some v.
Proof.
  unfold assoc, keys. induction m as [|[k' v'] m IH]; cbn; [intros _ []|].
  intros ND [E|I].
  - inversion E; subst. rewrite String.eqb_refl. reflexivity.
  - inversion ND as [|? ? NI ND']; subst. destruct (String.eqb_spec k' k) as [->|N]; cbn.
    + exfalso. apply NI. change k with (fst (k, v)). apply in_map. exact I.
    + apply IH; assumption.
Qed.
