(* Built.v — property C02 at the model level: a value as the generated constructors produce it (well-typed, enum members genuine,
   attrs validators passed) unstructures to its denotation [den] — the normal form — and that JSON is valid on the Python side, so
   (for covered annotations) structuring it again succeeds and serialising the result gives the same JSON up to null-valued
   members.  No parsing is involved on the way in. *)
From Coq Require Import Lia.
From LSP Require Import Base Sem SemThy Denote PtyEq RoundTrip HookFrag.

Section Built.
Variable Sg : sigma.
Variable NL : string -> string -> bool.
Notation den := (den Sg).
Notation pvalid := (pvalid Sg NL).
Notation has_type := (has_type Sg).

Inductive built : pty -> pv -> Prop :=
| b_any j : built PyAny (embed j)                       (* LSPAny payloads are plain JSON-like data *)
| b_opaque n j : built (PyOpaque n) (embed j)
| b_none : built PyNone VNone
| b_int z : built PyInt (VInt z)
| b_str s : built PyStr (VStr s)
| b_bool b : built PyBool (VBool b)
| b_float a b : built PyFloat (VFlt a b)
| b_lit l s : In s l -> built (PyLit l) (VStr s)
| b_enum e d m : lookup_enum Sg e = Some d -> is_prim_v m = true -> find (pv_eqb_prim m) (evals d) = Some m ->
    built (PyEnum e) (VEnum e m)                         (* a genuine member of a value-unique enumeration *)
| b_seq t l : (forall x, In x l -> built t x) -> built (PySeq t) (VList l)
| b_tuple ts l : Forall2 built ts l -> built (PyTuple ts) (VTuple l)
| b_dict v m : NoDup (map (fun kv => key_str (fst kv)) m) -> (forall k x, In (k, x) m -> is_key k = true /\ built v x) ->
    built (PyDict PyStr v) (VDict m)
| b_cls c fds fs : lookup_cls Sg c = Some fds ->
    (forall f, In f fds -> exists x, assoc (fname f) fs = Some x /\ built (ftype f) x /\ validate (fval f) (fvalopt f) x = true /\
                                     (x = VNone -> fomit f && pv_is_default (fdefault f) VNone = false -> NL c (fwire f) = true)) ->
    built (PyCls c) (VObj c fs)
| b_union ms t o : In t ms -> built t o -> built (PyUnion ms) o.

Lemma is_prim_v_embed m : is_prim_v m = true -> embed (den m) = m.
Proof. destruct m; try discriminate; reflexivity. Qed.

Theorem built_typed : forall P o, built P o -> has_type P o.
Proof.
  fix IH 3. intros P o B. destruct B.
  - constructor. apply wf_embed.
  - constructor. apply wf_embed.
  - constructor. - constructor. - constructor. - constructor. - constructor.
  - constructor. assumption.
  - constructor. assumption.
  - constructor. intros x I. apply IH. auto.
  - constructor. induction H; constructor; [apply IH; assumption | assumption].
  - constructor; intros a b I; destruct (H0 a b I) as [K B]; [exact K | apply IH; exact B].
  - constructor. econstructor; [eassumption|]. intros f If. destruct (H0 f If) as [x [A [B _]]]. exists x. split; [exact A | apply IH; exact B].
  - eapply t_union; [eassumption | apply IH; assumption].
Qed.

(* ---- table conditions (boolean, discharged on the instance) *)
Definition cls_ok_b (c : string * list fld) : bool :=
  nodupb (map fwire (snd c)) &&
  forallb (fun f => String.eqb (fwireo f) (fwire f) && flat_ty (ftype f) && val_shape_ok Sg f
                    && match fdefault f with DefaultStr _ => negb (fomit f) | _ => true end) (snd c).
Definition all_cls_ok : bool := forallb cls_ok_b (classes Sg).

Lemma built_none_typed t : flat_ty t = true -> built t VNone -> typed_b Sg 3 t VNone = true.
Proof.
  intros F B. destruct t; try (inversion B; fail); try reflexivity.
  inversion B as [| | | | | | | | | | | | |ms x o I Bx]; subst.
  cbn [typed_b]. apply orb_true_iff. left. apply existsb_exists. exists x. split; [exact I|].
  inversion Bx; subst; try reflexivity.
  exfalso. cbn in F. rewrite forallb_forall in F. specialize (F _ I). discriminate.
Qed.

Lemma built_direct t base x : direct Sg t base -> built t x -> built base x \/ x = VNone.
Proof.
  intros [->|[[-> _]|[-> _]]] B; [left; exact B| |]; inversion B as [| | | | | | | | | | | | |ms y o I By]; subst;
    destruct I as [<-|[<-|[]]]; try (left; exact By); right; inversion By; reflexivity.
Qed.

Lemma val_ok f x : val_shape_ok Sg f = true -> built (ftype f) x -> validate (fval f) (fvalopt f) x = true -> jvalidate f (den x) = true.
Proof.
  unfold val_shape_ok, validate, jvalidate. intros VS B V. destruct (fval f) eqn:K.
  - destruct (den x), (fvalopt f); reflexivity.
  - apply direct_b_sound in VS; [|reflexivity]. destruct (built_direct _ _ x VS B) as [Bx| ->]; [inversion Bx; subst | destruct (fvalopt f); [reflexivity | discriminate V]].
    destruct (fvalopt f); exact V.
  - apply direct_b_sound in VS; [|reflexivity]. destruct (built_direct _ _ x VS B) as [Bx| ->]; [inversion Bx; subst | destruct (fvalopt f); [reflexivity | discriminate V]].
    destruct (fvalopt f); exact V.
  - apply direct_b_sound in VS; [|reflexivity]. destruct (built_direct _ _ x VS B) as [Bx| ->]; [inversion Bx; subst | destruct (fvalopt f); [reflexivity | discriminate V]].
    destruct (fvalopt f); reflexivity.
  - apply direct_b_sound in VS; [|reflexivity]. destruct (built_direct _ _ x VS B) as [Bx| ->]; [inversion Bx; subst | destruct (fvalopt f); [reflexivity | discriminate V]].
    destruct (fvalopt f); reflexivity.
  - apply direct_b_sound in VS; [|reflexivity]. destruct (built_direct _ _ x VS B) as [Bx| ->]; [inversion Bx; subst | destruct (fvalopt f); [reflexivity | discriminate V]].
    destruct (fvalopt f); reflexivity.
  - apply andb_true_iff in VS. destruct VS as [VS VO]. apply negb_true_iff in VO. rewrite VO in *.
    apply orb_true_iff in VS. destruct VS as [VS|VS].
    + apply pty_eqb_atomic in VS; [|reflexivity]. rewrite VS in B. inversion B; subst. exact V.
    + destruct (ftype f); try discriminate VS. inversion B; subst. exact V.
Qed.

Hypothesis HC : all_cls_ok = true.
Lemma cls_facts c fds : lookup_cls Sg c = Some fds ->
  NoDup (map fwire fds) /\ forall f, In f fds -> fwireo f = fwire f /\ flat_ty (ftype f) = true /\ val_shape_ok Sg f = true /\
    (forall s, fdefault f = DefaultStr s -> fomit f = false).
Proof.
  intros L. unfold all_cls_ok in HC. rewrite forallb_forall in HC. specialize (HC _ (lookup_in Sg c fds L)). unfold cls_ok_b in HC. cbn [snd] in HC.
  apply andb_true_iff in HC. destruct HC as [ND HF]. split; [apply nodupb_NoDup; exact ND|]. rewrite forallb_forall in HF.
  intros f If. specialize (HF f If). repeat (apply andb_true_iff in HF; destruct HF as [HF ?]).
  apply String.eqb_eq in HF. repeat split; auto. intros s E. rewrite E in *. apply negb_true_iff. assumption.
Qed.

(* the members written by [den] for an object *)
Lemma somes_in {A} (l : list (option A)) x : In x (somes l) <-> In (Some x) l.
Proof.
  unfold somes. rewrite in_flat_map. split.
  - intros [o [Io Ix]]. destruct o; [destruct Ix as [<-|[]]; exact Io | contradiction].
  - intros I. exists (Some x). split; [exact I | left; reflexivity].
Qed.
Lemma keys_somes_sub {A} (g : fld -> option (string * A)) fds : (forall f kv, g f = Some kv -> fst kv = fwire f) -> NoDup (map fwire fds) ->
  NoDup (keys (somes (map g fds))).
Proof.
  intros Hg. induction fds as [|f fds IH]; intros ND; [constructor|]. cbn [map] in *. inversion ND as [|? ? Nf NDr]; subst.
  unfold somes in *. cbn [flat_map]. destruct (g f) as [kv|] eqn:G; [|exact (IH NDr)]. cbn [app keys map]. constructor; [|exact (IH NDr)].
  rewrite (Hg f kv G). intro I. apply Nf. unfold keys in I. apply in_map_iff in I. destruct I as [kv' [E I']].
  apply in_flat_map in I'. destruct I' as [o [Io Ikv]]. apply in_map_iff in Io. destruct Io as [f' [<- If']].
  destruct (g f') as [kv''|] eqn:G'; [|contradiction]. destruct Ikv as [<-|[]]. rewrite (Hg f' kv'' G') in E. rewrite <- E. apply in_map. exact If'.
Qed.

Lemma built_null : forall t x, built t x -> den x = JNull -> x = VNone.
Proof.
  fix IH 3. intros t x B E. destruct B; try reflexivity; try discriminate E.
  - rewrite den_embed in E. subst j. reflexivity.
  - rewrite den_embed in E. subst j. reflexivity.
  - cbn [Denote.den] in E. destruct m; discriminate.
  - cbn [Denote.den] in E. rewrite H in E. discriminate.
  - exact (IH t o B E).
Qed.

Theorem built_pvalid : forall P o, built P o -> pvalid P (den o).
Proof.
  fix IH 3. intros P o B. destruct B.
  - rewrite den_embed. constructor.
  - rewrite den_embed. constructor.
  - constructor. - constructor. - constructor. - constructor. - apply pv_float_f.
  - constructor. assumption.
  - cbn [Denote.den]. eapply pv_enum; [eassumption | destruct m; try discriminate; reflexivity |].
    exists m. rewrite (is_prim_v_embed m H0). split; [assumption | reflexivity].
  - cbn [Denote.den]. constructor. intros y Iy. apply in_map_iff in Iy. destruct Iy as [x [<- Ix]]. apply IH. auto.
  - cbn [Denote.den]. constructor. induction H; cbn [map]; constructor; [apply IH; assumption | assumption].
  - cbn [Denote.den]. rewrite dict_go. constructor; [| |reflexivity].
    + unfold keys. rewrite map_map. exact H.
    + intros a b I. apply in_map_iff in I. destruct I as [[k x] [E Ikx]]. inversion E; subst. destruct (H0 k x Ikx) as [_ Bx]. apply IH. exact Bx.
  - (* class *) cbn [Denote.den]. rewrite H. destruct (cls_facts c fds H) as [NDw FF].
    set (g := fun f : fld => match assoc (fname f) ((fix go (fs : list (string * pv)) := match fs with [] => [] | (k, v) :: r => (k, (v, den v)) :: go r end) fs) with
                             | Some (x, dx) => if fomit f && pv_is_default (fdefault f) x then None else Some (fwireo f, dx)
                             | None => None end).
    assert (GW : forall f kv, In f fds -> g f = Some kv -> exists x, assoc (fname f) fs = Some x /\ kv = (fwire f, den x) /\
                  (fomit f && pv_is_default (fdefault f) x = false)).
    { intros f kv If G. unfold g in G. rewrite assoc_go in G. destruct (assoc (fname f) fs) as [x|] eqn:A; [|discriminate]. cbn [option_map] in G.
      destruct (fomit f && pv_is_default (fdefault f) x) eqn:W; [discriminate|]. inversion G. exists x. rewrite (proj1 (FF f If)). auto. }
    eapply pv_cls; [exact H | | |].
    + (* keys distinct: a sublist of the wire names *)
      clear IH. revert NDw GW. generalize g. clear. intros g. induction fds as [|f fds IHf]; intros ND GW; [constructor|].
      inversion ND as [|? ? Nf NDr]; subst. unfold somes. cbn [map flat_map]. fold (somes (map g fds)).
      assert (IHr : NoDup (keys (somes (map g fds)))) by (apply IHf; [exact NDr | intros f' kv If' G'; apply GW; [right; exact If' | exact G']]).
      destruct (g f) as [kv|] eqn:G; [|exact IHr]. cbn [app keys map]. constructor; [|exact IHr].
      destruct (GW f kv (or_introl eq_refl) G) as [x [_ [-> _]]]. cbn [fst]. intro I. apply Nf.
      unfold keys in I. apply in_map_iff in I. destruct I as [kv' [E I']]. apply somes_in in I'. apply in_map_iff in I'. destruct I' as [f' [G' If']].
      destruct (GW f' kv' (or_intror If') G') as [x' [_ [-> _]]]. cbn [fst] in E. rewrite <- E. apply in_map. exact If'.
    + intros k v I. apply somes_in in I. apply in_map_iff in I. destruct I as [f [G If]].
      destruct (GW f (k, v) If G) as [x [A [E W]]]. inversion E; subst k v.
      destruct (H0 f If) as [x' [A' [Bx [Vx Nx]]]]. rewrite A in A'. inversion A'; subst x'.
      exists f. split; [exact If|]. split; [reflexivity|]. split; [apply IH; exact Bx|]. split; [exact (val_ok f x (proj1 (proj2 (proj2 (FF f If)))) Bx Vx)|].
      intros EN. pose proof (built_null _ x Bx EN) as EX. subst x. exact (Nx eq_refl W).
    + (* every attribute that may not be absent is written *)
      intros f If MP. destruct (H0 f If) as [x [A [Bx [Vx Nx]]]]. destruct (FF f If) as [EW [FL [_ DS]]].
      assert (WR : fomit f && pv_is_default (fdefault f) x = false).
      { unfold must_present in MP. destruct (fdefault f) as [| |s] eqn:FD.
        - destruct (fomit f); reflexivity.
        - apply negb_true_iff in MP. destruct x; try (destruct (fomit f); reflexivity).
          rewrite (built_none_typed _ FL Bx) in MP. discriminate.
        - rewrite (DS s eq_refl). reflexivity. }
      unfold keys. apply in_map_iff. exists (fwire f, den x). split; [reflexivity|]. apply somes_in. apply in_map_iff. exists f. split; [|exact If].
      unfold g. rewrite assoc_go, A. cbn [option_map]. rewrite WR, EW. reflexivity.
  - eapply pv_union; [eassumption | apply IH; assumption].
Qed.
End Built.

(* ---------------------------------------------------------------- C02, composite *)
Section C02.
Variable Sg : sigma.
Variable py_str : json -> string.
Variable NL : string -> string -> bool.
Variable GC : list string.
Variable GU : list pty.

(* a constructor-built value of a covered annotation serialises to its denotation (the normal form: attributes under their wire
   names unless omit-if-default and equal to the default, members as values, tuples and lists as arrays); that JSON parses again
   into a value of the same type, which serialises to the same JSON up to null-valued members *)
Theorem built_serialises_and_reparses : all_cls_ok Sg = true -> table_ok Sg GC GU = true -> hooks_ok Sg NL GC GU = true ->
  forall P o, okty Sg GC GU P = true -> built Sg NL P o ->
  exists n o' j', unstr Sg n (Some P) o = Ok (den Sg o) /\
                  structure Sg py_str n P (den Sg o) = Ok o' /\ has_type Sg P o' /\ unstr Sg n (Some P) o' = Ok j' /\ NEq (den Sg o) j'.
Proof.
  intros HC HT HH P o O B.
  destruct (unstr_typed Sg P o (built_typed Sg NL P o B)) as [n1 U1].
  destruct (covered_roundtrip Sg py_str NL GC GU HT HH P (den Sg o) O (built_pvalid Sg NL HC P o B)) as [n2 [o' [j' [S2 [T2 [U2 N2]]]]]].
  exists (Nat.max n1 n2), o', j'. repeat split; auto.
  - eapply unstr_mono_le; [|exact U1]. lia.
  - eapply structure_mono_le; [|exact S2]. lia.
  - eapply unstr_mono_le; [|exact U2]. lia.
Qed.
End C02.
