(* CatSpec.v — specification (checker form) of the method catalogue, message envelope classes, exported constants and
   type registry of the Python package as a function of the metamodel (property C09; envelope facts reused by C10). *)
From LSP Require Import Base MM Sem Catalog Image.

Section Cat.
Variable mm : MM.
Variable Sg : sigma.
Variable alias_objects : list (string * pty).
Variable catalogue : list catrow.
Variable method_constants : list (string * string).
Variable registry_names : list string.
Variable defined_types : list string.

Definition dir_str (d : direction) : string :=
  match d with ClientToServer => "clientToServer" | ServerToClient => "serverToClient" | Both => "both" end.
Notation sm := (smatch mm Sg alias_objects SM_FUEL).
Notation pyof := (py_of mm PY_FUEL).

Definition get_field (fs : list fld) (w : string) : option fld := find (fun f => String.eqb (fwire f) w) fs.
Definition fld_is (fs : list fld) (w : string) (d : dflt) (t : spy) (omit : option bool) : bool :=
  match get_field fs w with
  | Some f => String.eqb (fwireo f) w && dflt_eqb (fdefault f) d && sm t (ftype f)
              && match omit with Some b => Bool.eqb (fomit f) b | None => true end
  | None => false end.
Definition method_field (fs : list fld) (m : string) : bool :=
  match get_field fs "method" with
  | Some f => String.eqb (fwireo f) "method" && dflt_eqb (fdefault f) (DefaultStr m)
              && match ftype f with PyLit [m'] => String.eqb m m' | _ => false end && negb (fomit f)
  | None => false end.
Definition jsonrpc_field (fs : list fld) : bool := fld_is fs "jsonrpc" (DefaultStr "2.0") SStr (Some false).
Definition params_field (fs : list fld) (p : option ty) : bool :=
  match p with
  | Some t => fld_is fs "params" NoDefault (pyof t) None
  | None => fld_is fs "params" DefaultNone SNone (Some true) end.
Definition only_fields (fs : list fld) (ws : list string) : bool := seteq (map fwire fs) ws && nodupb (map fwire fs).

Definition request_class_ok (c : string) (r : request) : bool :=
  match assoc c (classes Sg) with
  | Some fs => only_fields fs ["id"; "params"; "method"; "jsonrpc"] && fld_is fs "id" NoDefault (SUnion [SInt; SStr]) None
               && params_field fs (r_params r) && method_field fs (r_method r) && jsonrpc_field fs
  | None => false end.
Definition response_class_ok (c : string) (r : request) : bool :=
  match assoc c (classes Sg) with
  | Some fs => only_fields fs ["id"; "result"; "jsonrpc"] && fld_is fs "id" NoDefault (SUnion [SInt; SStr; SNone]) None
               && fld_is fs "result" DefaultNone (pyof (r_result r)) (Some false) && jsonrpc_field fs
  | None => false end.
Definition notification_class_ok (c : string) (n : notification) : bool :=
  match assoc c (classes Sg) with
  | Some fs => only_fields fs ["params"; "method"; "jsonrpc"] && params_field fs (n_params n) && method_field fs (n_method n) && jsonrpc_field fs
  | None => false end.

Definition opt_ty_ok (t : option ty) (p : option pty) : bool :=
  match t, p with Some t', Some p' => sm (pyof t') p' | None, None => true | _, _ => false end.
Definition row_of (m : string) : option catrow := find (fun r => String.eqb (cm_method r) m) catalogue.
Definition has_constant (m : string) : bool := existsb (fun c => String.eqb (snd c) m) method_constants.

Inductive cwhy := CNoRow | CReqClass | CRespClass | CParams | CRegOpts | CDirection | CConstant | CNotifClass | CRespNotNone
                | CExtraRow | CDupRow | CExtraConstant | CNotInRegistry.

Definition request_why (r : request) : list (string * cwhy) :=
  let m := r_method r in
  match row_of m with
  | None => [(m, CNoRow)]
  | Some row =>
      (match cm_cls row with Some c => if request_class_ok c r then [] else [(m, CReqClass)] | None => [(m, CReqClass)] end)
      ++ (match cm_resp row with Some c => if response_class_ok c r then [] else [(m, CRespClass)] | None => [(m, CRespClass)] end)
      ++ (if opt_ty_ok (r_params r) (cm_params row) then [] else [(m, CParams)])
      ++ (if opt_ty_ok (r_regopts r) (cm_regopts row) then [] else [(m, CRegOpts)])
      ++ (match cm_dir row with Some d => if String.eqb d (dir_str (r_dir r)) then [] else [(m, CDirection)] | None => [(m, CDirection)] end)
      ++ (if has_constant m then [] else [(m, CConstant)]) end.
Definition notification_why (n : notification) : list (string * cwhy) :=
  let m := n_method n in
  match row_of m with
  | None => [(m, CNoRow)]
  | Some row =>
      (match cm_cls row with Some c => if notification_class_ok c n then [] else [(m, CNotifClass)] | None => [(m, CNotifClass)] end)
      ++ (match cm_resp row with None => [] | Some _ => [(m, CRespNotNone)] end)
      ++ (if opt_ty_ok (n_params n) (cm_params row) then [] else [(m, CParams)])
      ++ (if opt_ty_ok (n_regopts n) (cm_regopts row) then [] else [(m, CRegOpts)])
      ++ (match cm_dir row with Some d => if String.eqb d (dir_str (n_dir n)) then [] else [(m, CDirection)] | None => [(m, CDirection)] end)
      ++ (if has_constant m then [] else [(m, CConstant)]) end.
Definition mm_methods : list string := map r_method (requests mm) ++ map n_method (notifications mm).
Definition converse_why : list (string * cwhy) :=
  flat_map (fun row => if mem (cm_method row) mm_methods then [] else [(cm_method row, CExtraRow)]) catalogue
  ++ (if nodupb (map cm_method catalogue) then [] else [("", CDupRow)])
  ++ flat_map (fun c => if mem (snd c) mm_methods then [] else [(fst c, CExtraConstant)]) method_constants.
Definition registry_why : list (string * cwhy) :=
  flat_map (fun n => if mem n registry_names then [] else [(n, CNotInRegistry)]) (defined_types ++ map fst (classes Sg) ++ map ename (enums Sg) ++ map fst alias_objects).

Definition cat_why : list (string * cwhy) :=
  flat_map request_why (requests mm) ++ flat_map notification_why (notifications mm) ++ converse_why ++ registry_why.
Definition W_cat : bool := is_nil_b cat_why.
End Cat.
