(* Typing.v — shape of successful structuring results (property C03), for every table, callback and input. *)
From LSP Require Import Base Sem SemThy.

Section T.
Variable Sg : sigma.
Variable py_str : json -> string.

Lemma sfield_name rec o f x : sfield rec o f = Ok x -> fst x = fname f.
Proof.
  unfold sfield. destruct (fdefault f).
  - destruct o; try discriminate. destruct (assoc (fwire f) m); [|discriminate].
    destruct (rec (ftype f) j); cbn; try discriminate. intros H. inversion H. reflexivity.
  - destruct (py_in (fwire f) o) as [b| |]; cbn; try discriminate. destruct b.
    + destruct o; try discriminate. destruct (assoc (fwire f) m); [|discriminate].
      destruct (rec (ftype f) j); cbn; try discriminate. intros H. inversion H. reflexivity.
    + intros H. inversion H. reflexivity.
  - destruct (py_in (fwire f) o) as [b| |]; cbn; try discriminate. destruct b.
    + destruct o; try discriminate. destruct (assoc (fwire f) m); [|discriminate].
      destruct (rec (ftype f) j); cbn; try discriminate. intros H. inversion H. reflexivity.
    + intros H. inversion H. reflexivity.
Qed.
Lemma mapM_names rec o fs kw : mapM (sfield rec o) fs = Ok kw -> map fst kw = map fname fs.
Proof.
  revert kw. induction fs as [|f fs IH]; cbn; intros kw H.
  - inversion H. reflexivity.
  - destruct (sfield rec o f) as [x| |] eqn:E; cbn in H; try discriminate.
    destruct (mapM (sfield rec o) fs) as [xs| |] eqn:El; cbn in H; try discriminate. inversion H; subst. cbn.
    rewrite (sfield_name _ _ _ _ E), (IH xs eq_refl). reflexivity.
Qed.

Theorem class_result_shape rec c fs j o : lookup_cls Sg c = Some fs ->
  step Sg py_str rec (PyCls c) j = Ok o -> exists kw, o = VObj c kw /\ map fst kw = map fname fs.
Proof.
  intros L H. cbn [step] in H. rewrite L in H.
  destruct (mapM (sfield rec j) fs) as [kw| |] eqn:E; cbn in H; try discriminate.
  destruct (forbid_extra Sg && _); [discriminate|]. destruct (forallb _ _); [|discriminate]. inversion H; subst.
  exists kw. split; [reflexivity | exact (mapM_names _ _ _ _ E)].
Qed.
Theorem seq_result_shape rec t j o : step Sg py_str rec (PySeq t) j = Ok o -> exists l, o = VList l.
Proof.
  cbn [step]. destruct (iter_json j); [|discriminate]. destruct (mapM (rec t) l) as [l'| |]; cbn; try discriminate.
  intros H. inversion H. eauto.
Qed.
Theorem tuple_result_shape rec ts j o : step Sg py_str rec (PyTuple ts) j = Ok o -> exists l, o = VTuple l /\ length l = length ts.
Proof.
  cbn [step]. destruct (iter_json j) as [l0|]; [|discriminate]. destruct (Nat.eqb_spec (length l0) (length ts)) as [E|]; [|discriminate].
  destruct (mapM _ (combine ts l0)) as [l'| |] eqn:M; cbn; try discriminate. intros H. inversion H; subst.
  exists l'. split; [reflexivity|]. apply mapM_ok_in in M. destruct M as [Ln _]. rewrite Ln, combine_length, E. apply Nat.min_id.
Qed.
Theorem enum_result_is_member rec e d j o : lookup_enum Sg e = Some d ->
  step Sg py_str rec (PyEnum e) j = Ok o -> exists m, o = VEnum e m /\ In m (evals d).
Proof.
  intros L. cbn [step]. rewrite L. destruct (find (pv_eqb_prim (embed j)) (evals d)) as [m|] eqn:F; [|discriminate].
  intros H. inversion H; subst. exists m. split; [reflexivity|]. apply find_some in F. exact (proj1 F).
Qed.
End T.
