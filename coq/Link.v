(* Link.v — from metamodel validity to Python-side validity:
     cvalid mm t j  ->  smatch (py_of t) p  ->  pvalid Sg p j
   where [cvalid] is MM.valid without extra members at property-less structures (those are extension points: the converter
   drops such members, so they are outside any round-trip claim), [py_of] is the documented type mapping of Image.v and
   [smatch] the relation the image checker W_img establishes between the mapping and the package's annotations.
   Together with RoundTrip.parse_good / HookFrag.covered_roundtrip this states the parse / round-trip theorem for
   METAMODEL-valid values of covered types. *)
From Coq Require Import Lia.
From LSP Require Import Base MM Sem SemThy Denote PtyEq RoundTrip Image ImageThy.

(* ---------------------------------------------------------------- well-formed annotations: flat unions, no forward reference *)
Fixpoint nofwd (p : pty) : bool :=
  match p with
  | PyFwd _ => false | PyUnion l | PyTuple l => forallb nofwd l | PySeq t => nofwd t | PyDict k v => nofwd k && nofwd v | _ => true end.
Fixpoint strkeys (p : pty) : bool :=
  match p with
  | PyDict k v => pty_eqb k PyStr && strkeys v | PyUnion l | PyTuple l => forallb strkeys l | PySeq t => strkeys t | _ => true end.
Definition wfp (p : pty) : bool := flat_ty p && nofwd p && strkeys p.
Definition memb_ok (b : pty) : bool := nonunion b && wfp b.

Ltac split_andb := repeat match goal with H : _ && _ = true |- _ => apply andb_true_iff in H; destruct H end.
Lemma wfp_members l b : wfp (PyUnion l) = true -> In b l -> memb_ok b = true.
Proof.
  unfold memb_ok, wfp. intros H I. cbn [flat_ty nofwd strkeys] in H. split_andb.
  repeat match goal with H : forallb _ _ = true |- _ => rewrite forallb_forall in H; specialize (H b I) end. split_andb.
  repeat match goal with H : _ = true |- _ => rewrite H; clear H end. reflexivity.
Qed.
Lemma wfp_seq t : wfp (PySeq t) = true -> wfp t = true. Proof. unfold wfp. cbn. auto. Qed.
Lemma wfp_dict k v : wfp (PyDict k v) = true -> k = PyStr /\ wfp v = true.
Proof.
  unfold wfp. cbn [flat_ty nofwd strkeys]. intros H. split_andb. split; [apply pty_eqb_eq; assumption|].
  repeat match goal with H : _ = true |- _ => rewrite H; clear H end. reflexivity.
Qed.
Lemma wfp_tuple l t : wfp (PyTuple l) = true -> In t l -> wfp t = true.
Proof.
  unfold wfp. cbn [flat_ty nofwd strkeys]. intros H I. split_andb.
  repeat match goal with H : forallb _ _ = true |- _ => rewrite forallb_forall in H; specialize (H t I) end.
  repeat match goal with H : _ = true |- _ => rewrite H; clear H end. reflexivity.
Qed.
Lemma wfp_union_tail b l : wfp (PyUnion (b :: l)) = true -> wfp (PyUnion l) = true.
Proof.
  unfold wfp. cbn [flat_ty nofwd strkeys forallb]. intros H. split_andb.
  repeat match goal with H : _ = true |- _ => rewrite H; clear H end. reflexivity.
Qed.

Section Link.
Variable mm : MM.
Variable Sg : sigma.
Variable alias_objects : list (string * pty).
Notation smatch := (smatch mm Sg alias_objects).
Notation py_of := (py_of mm).
Notation pvalid := (pvalid Sg).

Lemma pmembers_memb n b : memb_ok b = true -> pmembers alias_objects n b = [b].
Proof. destruct n; [reflexivity|]. unfold memb_ok, wfp. destruct b; cbn; try reflexivity; intros H; split_andb; discriminate. Qed.
Lemma pmembers_wfp p : wfp p = true -> pmembers alias_objects 6 p = pflat p.
Proof.
  intros W. destruct p; try reflexivity.
  - change (pmembers alias_objects 6 (PyUnion l)) with (flat_map (pmembers alias_objects 5) l). cbn [pflat].
    induction l as [|b l IH]; [reflexivity|]. cbn [flat_map].
    rewrite (pmembers_memb 5 b (wfp_members (b :: l) b W (or_introl eq_refl))). cbn. f_equal. apply IH.
    exact (wfp_union_tail b l W).
  - unfold wfp in W. cbn in W. discriminate.
Qed.

Definition is_sunion (s : spy) : bool := match s with SUnion _ => true | _ => false end.
Definition is_punion (p : pty) : bool := match p with PyUnion _ => true | _ => false end.
Lemma smatch_union k s p : is_sunion s || is_punion p = true ->
  smatch (S k) s p = forallb (fun a => existsb (fun b => smatch k a b) (pmembers alias_objects 6 p)) (sflat s)
                     && forallb (fun b => existsb (fun a => smatch k a b) (sflat s)) (pmembers alias_objects 6 p).
Proof. destruct s, p; cbn [is_sunion is_punion orb]; intros H; try discriminate; reflexivity. Qed.

(* a value valid at one member of the specification side is valid at the matched annotation *)
Lemma via_member (s : spy) (j : json) (a : spy) :
  In a (sflat s) -> (forall k b, memb_ok b = true -> smatch k a b = true -> pvalid b j) ->
  forall k p, wfp p = true -> smatch k s p = true -> pvalid p j.
Proof.
  intros Ia Ha k p W M. destruct k as [|k]; [discriminate|].
  destruct (is_sunion s || is_punion p) eqn:U.
  - rewrite (smatch_union k s p U) in M. apply andb_true_iff in M. destruct M as [M _]. rewrite forallb_forall in M.
    specialize (M a Ia). apply existsb_exists in M. destruct M as [b [Ib Mb]]. rewrite (pmembers_wfp p W) in Ib.
    destruct p; cbn [pflat] in Ib; try (destruct Ib as [<-|[]]; apply (Ha k); [unfold memb_ok; rewrite W; reflexivity | exact Mb]).
    apply pv_union with (t := b); [exact Ib|]. apply (Ha k); [exact (wfp_members l b W Ib) | exact Mb].
  - apply orb_false_iff in U. destruct U as [U1 U2].
    assert (E : sflat s = [s]) by (destruct s; try reflexivity; discriminate). rewrite E in Ia. destruct Ia as [<-|[]].
    apply (Ha (S k)); [|exact M]. unfold memb_ok. rewrite W. destruct p; try reflexivity; discriminate.
Qed.

(* ---- inversion of smatch at non-union heads (b is a well-formed non-union annotation) *)
Ltac sm_inv := let k := fresh "k" in let b := fresh "b" in let M := fresh "M" in let H := fresh "H" in
  intros k b M H; destruct k as [|k]; [discriminate|]; destruct b; cbn in M; try discriminate; cbn in H; try discriminate.
Lemma sm_any : forall k b, memb_ok b = true -> smatch k SAny b = true -> b = PyAny. Proof. sm_inv; reflexivity. Qed.
Lemma sm_none : forall k b, memb_ok b = true -> smatch k SNone b = true -> b = PyNone. Proof. sm_inv; reflexivity. Qed.
Lemma sm_int : forall k b, memb_ok b = true -> smatch k SInt b = true -> b = PyInt. Proof. sm_inv; reflexivity. Qed.
Lemma sm_str : forall k b, memb_ok b = true -> smatch k SStr b = true -> b = PyStr. Proof. sm_inv; reflexivity. Qed.
Lemma sm_bool : forall k b, memb_ok b = true -> smatch k SBool b = true -> b = PyBool. Proof. sm_inv; reflexivity. Qed.
Lemma sm_float : forall k b, memb_ok b = true -> smatch k SFloat b = true -> b = PyFloat. Proof. sm_inv; reflexivity. Qed.
Lemma sm_seq a : forall k b, memb_ok b = true -> smatch k (SSeq a) b = true -> exists b' k', b = PySeq b' /\ smatch k' a b' = true.
Proof. sm_inv. eauto. Qed.
Lemma sm_dict x y : forall k b, memb_ok b = true -> smatch k (SDict x y) b = true -> exists kk vv k', b = PyDict kk vv /\ smatch k' y vv = true.
Proof. sm_inv. apply andb_true_iff in H. destruct H. eauto. Qed.
Lemma sm_enum n : forall k b, memb_ok b = true -> smatch k (SEnum n) b = true -> b = PyEnum n.
Proof. sm_inv. apply String.eqb_eq in H. congruence. Qed.
Lemma sm_cls n : forall k b, memb_ok b = true -> smatch k (SCls n) b = true -> b = PyCls n.
Proof. sm_inv. apply String.eqb_eq in H. congruence. Qed.
Lemma sm_opaque n : forall k b, memb_ok b = true -> smatch k (SOpaque n) b = true -> b = PyOpaque n.
Proof. sm_inv. apply String.eqb_eq in H. congruence. Qed.
Lemma sm_tuple l : forall k b, memb_ok b = true -> smatch k (STuple l) b = true -> exists m k', b = PyTuple m /\ Forall2 (fun a c => smatch k' a c = true) l m.
Proof.
  sm_inv. exists l0, k. split; [reflexivity|]. clear M. revert l0 H. induction l as [|a l IH]; intros [|c m] H; try discriminate; constructor.
  - apply andb_true_iff in H. tauto.
  - apply andb_true_iff in H. destruct H as [_ H]. apply IH. exact H.
Qed.

(* ---- the two forms of the induction statement *)
Definition Pm (t : ty) (j : json) : Prop :=
  forall n, exists a, In a (sflat (py_of n t)) /\ forall k b, memb_ok b = true -> smatch k a b = true -> pvalid b j.
Definition Qm (t : ty) (j : json) : Prop :=
  forall n k p, wfp p = true -> smatch k (py_of n t) p = true -> pvalid p j.
Lemma Pm_Qm t j : Pm t j -> Qm t j.
Proof. intros H n k p W M. destruct (H n) as [a [Ia Ha]]. exact (via_member (py_of n t) j a Ia Ha k p W M). Qed.

Lemma Pm_simple t j s0 : (forall n, py_of (S n) t = s0) -> is_sunion s0 = false ->
  (forall k b, memb_ok b = true -> smatch k s0 b = true -> pvalid b j) -> Pm t j.
Proof.
  intros E U F [|n].
  - exists SAny. split; [left; reflexivity|]. intros k b Mb Sm. rewrite (sm_any k b Mb Sm). constructor.
  - rewrite E. exists s0. split; [destruct s0; try (left; reflexivity); discriminate | exact F].
Qed.
End Link.
