(* Link.v — from metamodel validity to Python-side validity:
     cvalid mm t j  ->  smatch (py_of t) p  ->  pvalid Sg p j
   where [cvalid] is MM.valid without extra members at property-less structures (those are extension points: the converter
   drops such members, so they are outside any round-trip claim), [py_of] is the documented type mapping of Image.v and
   [smatch] the relation the image checker W_img establishes between the mapping and the package's annotations.
   Together with RoundTrip.parse_good / HookFrag.covered_roundtrip this states the parse / round-trip theorem for
   METAMODEL-valid values of covered types. *)
From Coq Require Import Lia.
From LSP Require Import Base MM Sem SemThy Denote PtyEq RoundTrip Image ImageThy.

(* ---------------------------------------------------------------- well-formed annotations: flat unions, no forward reference *)
Fixpoint nofwd (p : pty) : bool :=
  match p with
  | PyFwd _ => false | PyUnion l | PyTuple l => forallb nofwd l | PySeq t => nofwd t | PyDict k v => nofwd k && nofwd v | _ => true end.
Fixpoint strkeys (p : pty) : bool :=
  match p with
  | PyDict k v => pty_eqb k PyStr && strkeys v | PyUnion l | PyTuple l => forallb strkeys l | PySeq t => strkeys t | _ => true end.
Definition wfp (p : pty) : bool := flat_ty p && nofwd p && strkeys p.
Definition memb_ok (b : pty) : bool := nonunion b && wfp b.

Ltac split_andb := repeat match goal with H : _ && _ = true |- _ => apply andb_true_iff in H; destruct H end.
Lemma wfp_members l b : wfp (PyUnion l) = true -> In b l -> memb_ok b = true.
Proof.
  unfold memb_ok, wfp. intros H I. cbn [flat_ty nofwd strkeys] in H. split_andb.
  repeat match goal with H : forallb _ _ = true |- _ => rewrite forallb_forall in H; specialize (H b I) end. split_andb.
  repeat match goal with H : _ = true |- _ => rewrite H; clear H end. reflexivity.
Qed.
Lemma wfp_seq t : wfp (PySeq t) = true -> wfp t = true. Proof. unfold wfp. cbn. auto. Qed.
Lemma wfp_dict k v : wfp (PyDict k v) = true -> k = PyStr /\ wfp v = true.
Proof.
  unfold wfp. cbn [flat_ty nofwd strkeys]. intros H. split_andb. split; [apply pty_eqb_eq; assumption|].
  repeat match goal with H : _ = true |- _ => rewrite H; clear H end. reflexivity.
Qed.
Lemma wfp_tuple l t : wfp (PyTuple l) = true -> In t l -> wfp t = true.
Proof.
  unfold wfp. cbn [flat_ty nofwd strkeys]. intros H I. split_andb.
  repeat match goal with H : forallb _ _ = true |- _ => rewrite forallb_forall in H; specialize (H t I) end.
  repeat match goal with H : _ = true |- _ => rewrite H; clear H end. reflexivity.
Qed.
Lemma wfp_tuple_tail b l : wfp (PyTuple (b :: l)) = true -> wfp (PyTuple l) = true.
Proof.
  unfold wfp. cbn [flat_ty nofwd strkeys forallb]. intros H. split_andb.
  repeat match goal with H : _ = true |- _ => rewrite H; clear H end. reflexivity.
Qed.
Lemma wfp_union_tail b l : wfp (PyUnion (b :: l)) = true -> wfp (PyUnion l) = true.
Proof.
  unfold wfp. cbn [flat_ty nofwd strkeys forallb]. intros H. split_andb.
  repeat match goal with H : _ = true |- _ => rewrite H; clear H end. reflexivity.
Qed.

(* a null-permission table: class -> the wire names that may carry an explicit null; classes not listed are unrestricted *)
Definition NLtab (tab : list (string * list string)) (c k : string) : bool :=
  match assoc c tab with Some l => mem k l | None => true end.

Section Link.
Variable mm : MM.
Variable Sg : sigma.
Variable alias_objects : list (string * pty).
Notation smatch := (smatch mm Sg alias_objects).
Notation py_of := (py_of mm).

(* may a value of t be null?  (fuel exhaustion answers yes: the answer is only used to PERMIT an explicit null) *)
Fixpoint admits_null (n : nat) (t : ty) : bool :=
  match n with O => true | S n =>
  match t with
  | TBase BNull => true
  | TOr l => existsb (admits_null n) l
  | TRef name => if String.eqb name "LSPAny" then true else
                 match find_alias mm name with
                 | Some a => if opaque_ref name then false else admits_null n (a_type a)
                 | None => match find_enum mm name with Some e => match e_base e with BNull => true | _ => false end | None => false end end
  | _ => false end end.
(* the null permission of the metamodel, read per (class, wire name): members of classes that are not metamodel structures
   (generated for literals / and-types / envelopes) are not restricted *)
Definition nl_entry (s : MM.structure) : string * list string :=
  (s_name s, map p_name (filter (fun q => admits_null 12 (p_type q)) (flat mm (s_name s)))).
Definition nl_table : list (string * list string) := map nl_entry (structures mm).
Definition NLmm : string -> string -> bool := NLtab nl_table.
Lemma assoc_nl_table name : assoc name nl_table = option_map (fun s => snd (nl_entry s)) (find_struct mm name).
Proof.
  unfold nl_table, find_struct, assoc. induction (structures mm) as [|x l IH]; [reflexivity|].
  cbn [map find]. change (fst (nl_entry x)) with (s_name x).
  destruct (String.eqb (s_name x) name) eqn:E; [reflexivity | exact IH].
Qed.
Notation pvalid := (pvalid Sg NLmm).

Lemma pmembers_memb n b : memb_ok b = true -> pmembers alias_objects n b = [b].
Proof. destruct n; [reflexivity|]. unfold memb_ok, wfp. destruct b; cbn; try reflexivity; intros H; split_andb; discriminate. Qed.
Lemma pmembers_wfp p : wfp p = true -> pmembers alias_objects 6 p = pflat p.
Proof.
  intros W. destruct p; try reflexivity.
  - change (pmembers alias_objects 6 (PyUnion l)) with (flat_map (pmembers alias_objects 5) l). cbn [pflat].
    induction l as [|b l IH]; [reflexivity|]. cbn [flat_map].
    rewrite (pmembers_memb 5 b (wfp_members (b :: l) b W (or_introl eq_refl))). cbn. f_equal. apply IH.
    exact (wfp_union_tail b l W).
  - unfold wfp in W. cbn in W. discriminate.
Qed.

Definition is_sunion (s : spy) : bool := match s with SUnion _ => true | _ => false end.
Definition is_punion (p : pty) : bool := match p with PyUnion _ => true | _ => false end.
Lemma smatch_union k s p : is_sunion s || is_punion p = true ->
  smatch (S k) s p = forallb (fun a => existsb (fun b => smatch k a b) (pmembers alias_objects 6 p)) (sflat s)
                     && forallb (fun b => existsb (fun a => smatch k a b) (sflat s)) (pmembers alias_objects 6 p).
Proof. destruct s, p; cbn [is_sunion is_punion orb]; intros H; try discriminate; reflexivity. Qed.

(* a value valid at one member of the specification side is valid at the matched annotation *)
Lemma via_member (s : spy) (j : json) (a : spy) :
  In a (sflat s) -> (forall k b, memb_ok b = true -> smatch k a b = true -> pvalid b j) ->
  forall k p, wfp p = true -> smatch k s p = true -> pvalid p j.
Proof.
  intros Ia Ha k p W M. destruct k as [|k]; [discriminate|].
  destruct (is_sunion s || is_punion p) eqn:U.
  - rewrite (smatch_union k s p U) in M. apply andb_true_iff in M. destruct M as [M _]. rewrite forallb_forall in M.
    specialize (M a Ia). apply existsb_exists in M. destruct M as [b [Ib Mb]]. rewrite (pmembers_wfp p W) in Ib.
    destruct p; cbn [pflat] in Ib; try (destruct Ib as [<-|[]]; apply (Ha k); [unfold memb_ok; rewrite W; reflexivity | exact Mb]).
    apply pv_union with (t := b); [exact Ib|]. apply (Ha k); [exact (wfp_members l b W Ib) | exact Mb].
  - apply orb_false_iff in U. destruct U as [U1 U2].
    assert (E : sflat s = [s]) by (destruct s; try reflexivity; discriminate). rewrite E in Ia. destruct Ia as [<-|[]].
    apply (Ha (S k)); [|exact M]. unfold memb_ok. rewrite W. destruct p; try reflexivity; discriminate.
Qed.

(* ---- inversion of smatch at non-union heads (b is a well-formed non-union annotation) *)
Ltac sm_inv := let k := fresh "k" in let b := fresh "b" in let M := fresh "M" in let H := fresh "H" in
  intros k b M H; destruct k as [|k]; [discriminate|]; destruct b; cbn in M; try discriminate; cbn in H; try discriminate.
Lemma sm_any : forall k b, memb_ok b = true -> smatch k SAny b = true -> b = PyAny. Proof. sm_inv; reflexivity. Qed.
Lemma sm_none : forall k b, memb_ok b = true -> smatch k SNone b = true -> b = PyNone. Proof. sm_inv; reflexivity. Qed.
Lemma sm_int : forall k b, memb_ok b = true -> smatch k SInt b = true -> b = PyInt. Proof. sm_inv; reflexivity. Qed.
Lemma sm_str : forall k b, memb_ok b = true -> smatch k SStr b = true -> b = PyStr. Proof. sm_inv; reflexivity. Qed.
Lemma sm_bool : forall k b, memb_ok b = true -> smatch k SBool b = true -> b = PyBool. Proof. sm_inv; reflexivity. Qed.
Lemma sm_float : forall k b, memb_ok b = true -> smatch k SFloat b = true -> b = PyFloat. Proof. sm_inv; reflexivity. Qed.
Lemma sm_seq a : forall k b, memb_ok b = true -> smatch k (SSeq a) b = true -> exists b' k', b = PySeq b' /\ smatch k' a b' = true.
Proof. sm_inv. eauto. Qed.
Lemma sm_dict x y : forall k b, memb_ok b = true -> smatch k (SDict x y) b = true -> exists kk vv k', b = PyDict kk vv /\ smatch k' y vv = true.
Proof. sm_inv. apply andb_true_iff in H. destruct H. eauto. Qed.
Lemma sm_enum n : forall k b, memb_ok b = true -> smatch k (SEnum n) b = true -> b = PyEnum n.
Proof. sm_inv. apply String.eqb_eq in H. congruence. Qed.
Lemma sm_cls n : forall k b, memb_ok b = true -> smatch k (SCls n) b = true -> b = PyCls n.
Proof. sm_inv. apply String.eqb_eq in H. congruence. Qed.
Lemma sm_opaque n : forall k b, memb_ok b = true -> smatch k (SOpaque n) b = true -> b = PyOpaque n.
Proof. sm_inv. apply String.eqb_eq in H. congruence. Qed.
Lemma sm_tuple l : forall k b, memb_ok b = true -> smatch k (STuple l) b = true -> exists m k', b = PyTuple m /\ Forall2 (fun a c => smatch k' a c = true) l m.
Proof.
  sm_inv. exists l0, k. split; [reflexivity|]. clear M. revert l0 H. induction l as [|a l IH]; intros [|c m] H; try discriminate; constructor.
  - apply andb_true_iff in H. tauto.
  - apply andb_true_iff in H. destruct H as [_ H]. apply IH. exact H.
Qed.

(* ---- the two forms of the induction statement *)
Definition Pm (t : ty) (j : json) : Prop :=
  forall n, exists a, In a (sflat (py_of n t)) /\ forall k b, memb_ok b = true -> smatch k a b = true -> pvalid b j.
Definition Qm (t : ty) (j : json) : Prop :=
  forall n k p, wfp p = true -> smatch k (py_of n t) p = true -> pvalid p j.
Lemma Pm_Qm t j : Pm t j -> Qm t j.
Proof. intros H n k p W M. destruct (H n) as [a [Ia Ha]]. exact (via_member (py_of n t) j a Ia Ha k p W M). Qed.

Lemma Pm_simple t j s0 : (forall n, py_of (S n) t = s0) -> is_sunion s0 = false ->
  (forall k b, memb_ok b = true -> smatch k s0 b = true -> pvalid b j) -> Pm t j.
Proof.
  intros E U F [|n].
  - exists SAny. split; [left; reflexivity|]. intros k b Mb Sm. rewrite (sm_any k b Mb Sm). constructor.
  - rewrite E. exists s0. split; [destruct s0; try (left; reflexivity); discriminate | exact F].
Qed.

(* ================================================================ closed validity *)
Definition is_strlit (t : ty) : bool := match t with TStrLit _ => true | _ => false end.
(* MM.valid with two restrictions that round-tripping needs: a property-less structure (extension point) carries no members, and a
   string-literal property is present even when it is marked optional (an absent one comes back filled in) *)
Inductive cvalid : ty -> json -> Prop :=
| c_string s : cvalid (TBase BString) (JStr s)
| c_uri s : cvalid (TBase BURI) (JStr s)
| c_docuri s : cvalid (TBase BDocumentUri) (JStr s)
| c_regexp s : cvalid (TBase BRegExp) (JStr s)
| c_integer z : int32 z = true -> cvalid (TBase BInteger) (JInt z)
| c_uinteger z : uint31 z = true -> cvalid (TBase BUInteger) (JInt z)
| c_decimal_i z : cvalid (TBase BDecimal) (JInt z)
| c_decimal_f n d : cvalid (TBase BDecimal) (JFlt n d)
| c_boolean b : cvalid (TBase BBoolean) (JBool b)
| c_null : cvalid (TBase BNull) JNull
| c_strlit s : cvalid (TStrLit s) (JStr s)
| c_intlit z : cvalid (TIntLit z) (JInt z)
| c_boollit b : cvalid (TBoolLit b) (JBool b)
| c_arr t l : (forall x, In x l -> cvalid t x) -> cvalid (TArr t) (JArr l)
| c_map k v m : NoDup (keys m) -> (forall a b, In (a, b) m -> cvalid k (JStr a) /\ cvalid v b) -> cvalid (TMap k v) (JObj m)
| c_tuple ts l : Forall2 cvalid ts l -> cvalid (TTuple ts) (JArr l)
| c_or l t j : In t l -> cvalid t j -> cvalid (TOr l) j
| c_any j : cvalid (TRef "LSPAny") j
| c_lspobject m : cvalid (TRef "LSPObject") (JObj m)
| c_lsparray l : cvalid (TRef "LSPArray") (JArr l)
| c_obj_open t : obj_props mm t = Some [] -> cvalid t (JObj [])
| c_obj t ps m : obj_props mm t = Some ps -> ps <> [] -> NoDup (map p_name ps) -> NoDup (keys m) ->
    (forall k v, In (k, v) m -> exists p, In p ps /\ p_name p = k /\ cvalid (p_type p) v) ->
    (forall p, In p ps -> p_opt p = false \/ is_strlit (p_type p) = true -> In (p_name p) (keys m)) -> cvalid t (JObj m)
| c_alias n a j : find_alias mm n = Some a -> opaque_ref n = false -> cvalid (a_type a) j -> cvalid (TRef n) j
| c_enum_member n e j : find_enum mm n = Some e ->
    existsb (fun x => evalue_matches (snd (fst x)) j) (e_values e) = true -> cvalid (TRef n) j
| c_enum_custom n e j : find_enum mm n = Some e -> e_custom e = true -> cvalid (TBase (e_base e)) j -> cvalid (TRef n) j.

(* it is a restriction of MM.valid *)
Lemma cvalid_valid : forall t j, cvalid t j -> valid mm t j.
Proof.
  fix IH 3. intros t j H. destruct H.
  - constructor. - constructor. - constructor. - constructor. - constructor; assumption. - constructor; assumption.
  - constructor. - constructor. - constructor. - constructor. - constructor. - constructor. - constructor.
  - constructor. intros x I. apply IH. auto.
  - constructor; [assumption|]. intros a b I. destruct (H0 a b I). split; apply IH; assumption.
  - constructor. induction H; constructor; [apply IH; assumption | assumption].
  - eapply v_or; [eassumption | apply IH; assumption].
  - constructor. - constructor. - constructor.
  - apply v_obj_open; [assumption | constructor].
  - eapply v_obj; try eassumption.
    + intros k v I. destruct (H3 k v I) as [p [Ip [En V]]]. exists p. split; [exact Ip|]. split; [exact En | apply IH; exact V].
    + intros p Ip O. apply H4; auto.
  - eapply v_alias; [eassumption | assumption | apply IH; assumption].
  - eapply v_enum_member; eassumption.
  - eapply v_enum_custom; [eassumption | assumption | apply IH; assumption].
Qed.

(* ================================================================ objects *)
Variable plain_classes : list string.
Hypothesis HW : W_img mm Sg alias_objects plain_classes = true.
(* table conditions on the package (decidable; discharged on the instance) *)
Hypothesis HF : forall c fs f, lookup_cls Sg c = Some fs -> In f fs -> wfp (ftype f) = true.
Hypothesis HD : forall c fs f, lookup_cls Sg c = Some fs -> In f fs -> fdefault f = DefaultNone -> In PyNone (pflat (ftype f)) ->
  must_present Sg f = false.

(* what ties a property list to a class's attribute table *)
Definition Corr (ps : list prop) (fs : list fld) : Prop :=
  NoDup (map fwire fs) /\
  (forall q, In q ps -> exists f k, In f fs /\ fwire f = p_name q /\ fdefault f = expected_default q /\
     smatch k (expected_type mm q) (ftype f) = true /\ fval f = expected_vkind q /\ fvalopt f = expected_valopt q) /\
  (forall f, In f fs -> In (fwire f) (map p_name ps)).

Lemma jvalidate_ok (q : prop) (f : fld) v : cvalid (p_type q) v -> fval f = expected_vkind q -> jvalidate f v = true.
Proof.
  intros V E. unfold jvalidate. rewrite E. unfold expected_vkind.
  destruct (p_type q) as [b| | | | | | | | | |]; try (destruct v, (fvalopt f); reflexivity).
  - destruct b; inversion V; subst; try (destruct (fvalopt f); reflexivity); try discriminate.
    all: try (match goal with H : int32 _ = true |- _ => unfold int32 in H end); try (match goal with H : uint31 _ = true |- _ => unfold uint31 in H end).
    all: try (destruct (fvalopt f); cbn; assumption).
  - inversion V; subst; try discriminate. cbn. rewrite String.eqb_refl. reflexivity.
Qed.

Lemma sflat_mk_union_l (x : spy) (a : spy) : In a (sflat x) -> In a (sflat (mk_union [x; SNone])).
Proof. unfold mk_union. cbn [sflat flat_map]. intros I. apply in_or_app. left. exact I. Qed.

Lemma none_member k s p : wfp p = true -> smatch k (mk_union [s; SNone]) p = true -> In PyNone (pflat p).
Proof.
  intros W M. destruct k as [|k]; [discriminate|]. rewrite (smatch_union k (mk_union [s; SNone]) p (eq_refl : is_sunion (mk_union [s; SNone]) || is_punion p = true)) in M. apply andb_true_iff in M. destruct M as [M _].
  rewrite forallb_forall in M. assert (I : In SNone (sflat (mk_union [s; SNone]))) by (unfold mk_union; cbn [sflat flat_map]; apply in_or_app; right; left; reflexivity).
  specialize (M SNone I). apply existsb_exists in M. destruct M as [b [Ib Mb]]. rewrite (pmembers_wfp p W) in Ib.
  assert (Ok : memb_ok b = true).
  { destruct p; cbn [pflat] in Ib; try (destruct Ib as [<-|[]]; unfold memb_ok; rewrite W; reflexivity). exact (wfp_members l b W Ib). }
  rewrite <- (sm_none k b Ok Mb). exact Ib.
Qed.

Lemma obj_pvalid c fs ps m :
  lookup_cls Sg c = Some fs -> Corr ps fs -> NoDup (map p_name ps) -> NoDup (keys m) ->
  (forall k v, In (k, v) m -> exists p, In p ps /\ p_name p = k /\ Pm (p_type p) v /\ cvalid (p_type p) v) ->
  (forall p, In p ps -> p_opt p = false \/ is_strlit (p_type p) = true -> In (p_name p) (keys m)) ->
  (forall q, In q ps -> cvalid (p_type q) JNull -> NLmm c (p_name q) = true) ->
  pvalid (PyCls c) (JObj m).
Proof.
  intros L [NDf [Cq Cf]] NDp NDm Hm Hr HNL. eapply pv_cls; [exact L | exact NDm | |].
  - intros k v I. destruct (Hm k v I) as [q [Iq [En [PM CV]]]]. destruct (Cq q Iq) as [f [k0 [If [Ew [Ed [Et [Ev Eo]]]]]]].
    exists f. split; [exact If|]. split; [congruence|]. split; [|split; [exact (jvalidate_ok q f v CV Ev) | intros EN; rewrite <- En; apply HNL; [exact Iq | rewrite <- EN; exact CV]]].
    destruct (PM PY_FUEL) as [a [Ia Ha]]. unfold expected_type in Et.
    destruct (is_optional q).
    + exact (via_member _ v a (sflat_mk_union_l _ a Ia) Ha k0 (ftype f) (HF c fs f L If) Et).
    + exact (via_member _ v a Ia Ha k0 (ftype f) (HF c fs f L If) Et).
  - intros f If MP. pose proof (Cf f If) as Iw. apply in_map_iff in Iw. destruct Iw as [q [Eq Iq]].
    destruct (Cq q Iq) as [f' [k0 [If' [Ew [Ed [Et _]]]]]].
    assert (f' = f).
    { assert (E : fwire f' = fwire f) by congruence. clear - NDf If If' E. induction fs as [|x l IH]; [contradiction|].
      cbn in NDf. inversion NDf as [|? ? Nx Nl]; subst. destruct If as [->|If], If' as [->|If']; auto.
      - exfalso. apply Nx. rewrite <- E. apply in_map. exact If'.
      - exfalso. apply Nx. rewrite E. apply in_map. exact If. }
    subst f'. rewrite <- Eq. unfold expected_default in Ed.
    unfold expected_type in Et.
    destruct (p_type q) eqn:T; try (destruct (is_optional q) eqn:O;
      [ rewrite (HD c fs f L If Ed (none_member _ _ _ (HF c fs f L If) Et)) in MP; discriminate
      | apply Hr; [exact Iq|]; left; unfold is_optional in O; apply orb_false_iff in O; tauto ]).
    apply Hr; [exact Iq|]. right. rewrite T. reflexivity.
Qed.

Lemma corr_struct s : In s (structures mm) -> s_name s <> "LSPObject" ->
  exists fs, lookup_cls Sg (s_name s) = Some fs /\ Corr (flat mm (s_name s)) fs.
Proof.
  intros Is Hn. destruct (W_img_structures mm Sg alias_objects plain_classes HW s Is Hn) as [fs [A [ND [P X]]]].
  exists fs. split; [exact A|]. split; [exact ND|]. split; [|exact X].
  intros q Iq. destruct (P q Iq) as [f [If F]]. exists f, SM_FUEL. destruct F. repeat split; auto.
Qed.

Lemma corr_lit k pl c : smatch (S k) (SLitCls pl) (PyCls c) = true -> NoDup (map p_name pl) ->
  exists fs, lookup_cls Sg c = Some fs /\ Corr pl fs.
Proof.
  intros M NDp. cbn [Image.smatch] in M. apply andb_true_iff in M. destruct M as [_ M].
  unfold lookup_cls. destruct (assoc c (classes Sg)) as [fs|]; [|discriminate]. exists fs. split; [reflexivity|].
  apply andb_true_iff in M. destruct M as [M Mq]. apply andb_true_iff in M. destruct M as [Ml Mn].
  apply Nat.eqb_eq in Ml. apply nodupb_NoDup in Mn. rewrite forallb_forall in Mq.
  assert (Cq : forall q, In q pl -> exists f k0, In f fs /\ fwire f = p_name q /\ fdefault f = expected_default q /\
     smatch k0 (expected_type mm q) (ftype f) = true /\ fval f = expected_vkind q /\ fvalopt f = expected_valopt q).
  { intros q Iq. specialize (Mq q Iq). apply existsb_exists in Mq. destruct Mq as [f [If Hf]].
    repeat (apply andb_true_iff in Hf; destruct Hf as [Hf ?]).
    exists f, k. repeat split; auto.
    - apply String.eqb_eq. assumption.
    - apply dflt_eqb_eq. assumption.
    - apply vkind_eqb_eq. assumption.
    - apply Bool.eqb_prop. assumption. }
  split; [exact Mn|]. split; [exact Cq|].
  (* nothing extra: |pl| = |fs|, names distinct, every name is a wire *)
  assert (INC : incl (map p_name pl) (map fwire fs)).
  { intros x Ix. apply in_map_iff in Ix. destruct Ix as [q [<- Iq]]. destruct (Cq q Iq) as [f [_ [If [Ew _]]]]. rewrite <- Ew. apply in_map. exact If. }
  assert (INC' : incl (map fwire fs) (map p_name pl)).
  { apply NoDup_length_incl; [exact NDp | rewrite !map_length; lia | exact INC]. }
  intros f If. apply INC'. apply in_map. exact If.
Qed.

(* ================================================================ enumerations *)
Lemma pv_eqb_eq a b : pv_eqb a b = true -> a = b.
Proof. destruct a, b; cbn; try discriminate; intros H; [apply Z.eqb_eq in H | apply String.eqb_eq in H]; congruence. Qed.
Lemma pvl_eqb_eq a : forall b, pvl_eqb a b = true -> a = b.
Proof.
  induction a as [|x a IH]; intros [|y b] H; try discriminate; [reflexivity|].
  cbn in H. apply andb_true_iff in H. destruct H as [H1 H2]. rewrite (pv_eqb_eq _ _ H1), (IH b H2). reflexivity.
Qed.

Lemma find_first_prim (l : list evalue) (v : evalue) (j : json) : In v l -> evalue_matches v j = true ->
  exists m, find (pv_eqb_prim (embed j)) (map evalue_pv l) = Some m /\ m = embed j.
Proof.
  intros I E.
  assert (EJ : evalue_pv v = embed j).
  { destruct v, j; cbn in E; try discriminate; cbn; [apply String.eqb_eq in E | apply Z.eqb_eq in E]; congruence. }
  assert (SH : (exists s, j = JStr s) \/ (exists z, j = JInt z)) by (destruct v, j; cbn in E; try discriminate; eauto).
  induction l as [|x l IH]; [contradiction|]. cbn [map find].
  destruct (pv_eqb_prim (embed j) (evalue_pv x)) eqn:Q.
  - exists (evalue_pv x). split; [reflexivity|].
    destruct SH as [[s ->]|[z ->]]; destruct x; cbn in Q |- *; try discriminate.
    + apply String.eqb_eq in Q. congruence.
    + apply Z.eqb_eq in Q. f_equal. lia.
  - destruct I as [->|I]; [|exact (IH I)].
    exfalso. rewrite EJ in Q. destruct SH as [[s ->]|[z ->]]; cbn in Q.
    + rewrite String.eqb_refl in Q. discriminate.
    + rewrite Z.eqb_refl in Q. discriminate.
Qed.

Lemma enum_member_pvalid n e j : find_enum mm n = Some e ->
  existsb (fun x => evalue_matches (snd (fst x)) j) (e_values e) = true -> pvalid (PyEnum n) j.
Proof.
  intros F X. apply find_some in F. destruct F as [Ie En]. apply String.eqb_eq in En.
  pose proof (W_img_enums mm Sg alias_objects plain_classes HW e Ie) as EO. unfold enum_ok in EO. rewrite En in EO.
  destruct (find (fun d => String.eqb (ename d) n) (enums Sg)) as [d|] eqn:FD; [|discriminate].
  apply andb_true_iff in EO. destruct EO as [EV _]. apply pvl_eqb_eq in EV.
  apply existsb_exists in X. destruct X as [x [Ix Mx]].
  destruct (find_first_prim (map (fun x => snd (fst x)) (e_values e)) (snd (fst x)) j) as [m [Fm Em]];
    [apply in_map_iff; exists x; auto | exact Mx |].
  eapply pv_enum; [exact FD | destruct (snd (fst x)), j; cbn in Mx; try discriminate; reflexivity |].
  exists m. split.
  - rewrite EV. rewrite map_map in Fm. exact Fm.
  - rewrite Em. cbn [Denote.den]. apply den_embed.
Qed.

(* ================================================================ the induction *)
(* name discipline of the metamodel (decidable; discharged on the instance by names_ok below) *)
Hypothesis HN_struct : forall n s, find_struct mm n = Some s -> String.eqb n "LSPAny" = false.
Hypothesis HN_enum : forall n e, find_enum mm n = Some e ->
  find_struct mm n = None /\ String.eqb n "LSPAny" = false /\ String.eqb n "LSPObject" = false.
Hypothesis HN_alias : forall n a, find_alias mm n = Some a -> opaque_ref n = false -> find_struct mm n = None /\ find_enum mm n = None.
Hypothesis HA : find_struct mm "LSPArray" = None /\ find_enum mm "LSPArray" = None /\
  exists a0, find_alias mm "LSPArray" = Some a0 /\ a_type a0 = TArr (TRef "LSPAny").

Lemma Pm_at t j : (forall n, exists s0, py_of (S n) t = s0 /\ is_sunion s0 = false /\
    forall k b, memb_ok b = true -> smatch k s0 b = true -> pvalid b j) -> Pm t j.
Proof.
  intros F [|n].
  - exists SAny. split; [left; reflexivity|]. intros k b Mb Sm. rewrite (sm_any k b Mb Sm). constructor.
  - destruct (F n) as [s0 [E [U G]]]. rewrite E. exists s0. split; [destruct s0; try (left; reflexivity); discriminate | exact G].
Qed.

Lemma memb_wfp b : memb_ok b = true -> wfp b = true.
Proof. unfold memb_ok. intros H. apply andb_true_iff in H. tauto. Qed.

Lemma Pm_arr t l : (forall x, In x l -> Qm t x) -> Pm (TArr t) (JArr l).
Proof.
  intros H. apply Pm_at. intros n. exists (SSeq (py_of n t)). split; [reflexivity|]. split; [reflexivity|].
  intros k b Mb Sm. destruct (sm_seq _ k b Mb Sm) as [b' [k' [-> Sm']]]. constructor. intros x Ix.
  exact (H x Ix n k' b' (wfp_seq b' (memb_wfp _ Mb)) Sm').
Qed.
Lemma Pm_any j : Pm (TRef "LSPAny") j.
Proof.
  intros [|n].
  - exists SAny. split; [left; reflexivity|]. intros k b Mb Sm. rewrite (sm_any k b Mb Sm). constructor.
  - exists SAny. split; [cbn; auto|]. intros k b Mb Sm. rewrite (sm_any k b Mb Sm). constructor.
Qed.

Lemma py_of_struct n name s : find_struct mm name = Some s -> String.eqb name "LSPObject" = false -> py_of (S n) (TRef name) = SCls name.
Proof. intros F O. cbn [Image.py_of]. rewrite (HN_struct name s F), O, F. reflexivity. Qed.
Lemma py_of_enum n name e : find_enum mm name = Some e ->
  py_of (S n) (TRef name) = if enum_open e then SUnion [SEnum name; py_base (e_base e)] else SEnum name.
Proof. intros F. destruct (HN_enum name e F) as [A [B C]]. cbn [Image.py_of]. rewrite B, C, A, F. reflexivity. Qed.
Lemma py_of_alias n name a : find_alias mm name = Some a -> opaque_ref name = false -> py_of (S n) (TRef name) = py_of n (a_type a).
Proof.
  intros F O. destruct (HN_alias name a F O) as [A B]. unfold opaque_ref in O. apply orb_false_iff in O. destruct O as [O _].
  apply orb_false_iff in O. destruct O as [O1 O2]. cbn [Image.py_of]. rewrite O1, O2, A, B, F. reflexivity.
Qed.

Lemma sm_litcls pl : forall k b, memb_ok b = true -> smatch k (SLitCls pl) b = true -> exists c k', b = PyCls c /\ smatch (S k') (SLitCls pl) (PyCls c) = true.
Proof. intros k b M H. destruct k as [|k]; [discriminate|]. destruct b; cbn in M; try discriminate; try (cbn in H; discriminate). eauto. Qed.

(* the null permission is complete for closed validity *)
Lemma admits_null_complete : forall t, cvalid t JNull -> forall n, admits_null n t = true.
Proof.
  fix IH 2. intros t V n. destruct n as [|n]; [reflexivity|].
  inversion V as [| | | | | | | | | | | | | | | |l t0 j0 It Vt|j0| | | | |n0 a j0 Fa Oa Va|n0 e j0 Fe Xe|n0 e j0 Fe Ce Ve]; subst; cbn [admits_null]; try reflexivity.
  - apply existsb_exists. exists t0. split; [exact It | apply IH; exact Vt].
  - destruct (String.eqb n0 "LSPAny"); [reflexivity|]. rewrite Fa, Oa. apply IH. exact Va.
  - exfalso. apply existsb_exists in Xe. destruct Xe as [x [_ Mx]]. destruct (snd (fst x)); discriminate.
  - destruct (HN_enum n0 e Fe) as [_ [A _]]. rewrite A.
    destruct (find_alias mm n0) as [a|] eqn:FA.
    + destruct (opaque_ref n0) eqn:O; [|destruct (HN_alias n0 a FA O) as [_ X]; congruence].
      exfalso. unfold opaque_ref in O. destruct (HN_enum n0 e Fe) as [_ [B C]]. rewrite B, C in O. cbn in O.
      apply String.eqb_eq in O. subst n0. destruct HA as [_ [HA2 _]]. congruence.
    + rewrite Fe. inversion Ve; subst; reflexivity.
Qed.
Lemma NL_struct name s q : find_struct mm name = Some s -> In q (flat mm name) -> cvalid (p_type q) JNull -> NLmm name (p_name q) = true.
Proof.
  intros F I V. unfold NLmm, NLtab. rewrite assoc_nl_table, F. cbn [option_map nl_entry snd]. apply mem_in. apply in_map.
  pose proof (find_some _ _ F) as [_ En]. apply String.eqb_eq in En. rewrite En.
  apply filter_In. split; [exact I | apply admits_null_complete; exact V].
Qed.
Lemma NL_lit k pl c x : smatch (S k) (SLitCls pl) (PyCls c) = true -> NLmm c x = true.
Proof.
  intros M. cbn [Image.smatch] in M. apply andb_true_iff in M. destruct M as [M _]. apply negb_true_iff in M.
  unfold NLmm, NLtab, is_mm_name in *. rewrite assoc_nl_table. destruct (find_struct mm c); [discriminate | reflexivity].
Qed.

(* object-like types *)
Lemma Pm_obj t ps m : obj_props mm t = Some ps -> NoDup (map p_name ps) -> NoDup (keys m) ->
  (forall k v, In (k, v) m -> exists p, In p ps /\ p_name p = k /\ Pm (p_type p) v /\ cvalid (p_type p) v) ->
  (forall p, In p ps -> p_opt p = false \/ is_strlit (p_type p) = true -> In (p_name p) (keys m)) ->
  Pm t (JObj m).
Proof.
  intros OP NDp NDm Hm Hr. destruct t as [|name| | | | | |lp| | |]; try discriminate OP.
  - (* structure *) cbn [obj_props] in OP. destruct (opaque_ref name) eqn:O; [discriminate|].
    destruct (find_struct mm name) as [s|] eqn:F; [|discriminate]. inversion OP; subst ps.
    assert (O2 : String.eqb name "LSPObject" = false).
    { unfold opaque_ref in O. apply orb_false_iff in O. destruct O as [O _]. apply orb_false_iff in O. tauto. }
    apply Pm_at. intros n. exists (SCls name). split; [exact (py_of_struct n name s F O2)|]. split; [reflexivity|].
    intros k b Mb Sm. rewrite (sm_cls name k b Mb Sm).
    pose proof (find_some _ _ F) as [Is En]. apply String.eqb_eq in En.
    destruct (corr_struct s Is) as [fs [L C]]; [rewrite En; intro E; rewrite E in O2; discriminate|]. rewrite En in L, C.
    exact (obj_pvalid name fs (flat mm name) m L C NDp NDm Hm Hr (fun q Iq Vq => NL_struct name s q F Iq Vq)).
  - (* and-type *) cbn [obj_props] in OP. inversion OP; subst ps.
    apply Pm_at. intros n. exists (SLitCls (and_props mm l)). split; [reflexivity|]. split; [reflexivity|].
    intros k b Mb Sm. destruct (sm_litcls _ k b Mb Sm) as [c [k' [-> Sm']]].
    destruct (corr_lit k' _ c Sm' NDp) as [fs [L C]]. exact (obj_pvalid c fs _ m L C NDp NDm Hm Hr (fun q _ _ => NL_lit k' _ c (p_name q) Sm')).
  - (* literal *) cbn [obj_props] in OP. inversion OP; subst ps. destruct lp as [|x r].
    + apply Pm_at. intros n. exists SAny. split; [reflexivity|]. split; [reflexivity|].
      intros k b Mb Sm. rewrite (sm_any k b Mb Sm). constructor.
    + apply Pm_at. intros n. exists (SLitCls (props_of_lit (x :: r))). split; [reflexivity|]. split; [reflexivity|].
      intros k b Mb Sm. destruct (sm_litcls _ k b Mb Sm) as [c [k' [-> Sm']]].
      destruct (corr_lit k' _ c Sm' NDp) as [fs [L C]]. exact (obj_pvalid c fs _ m L C NDp NDm Hm Hr (fun q _ _ => NL_lit k' _ c (p_name q) Sm')).
Qed.

Ltac base_case s0 inv ctor :=
  apply (Pm_simple _ _ s0); [intros; reflexivity | reflexivity | let k := fresh in let b := fresh in let Mb := fresh in let Sm := fresh in
    intros k b Mb Sm; rewrite (inv k b Mb Sm); ctor].

Theorem cvalid_Pm : forall t j, cvalid t j -> Pm t j.
Proof.
  fix IH 3. intros t j H. destruct H.
  - base_case SStr sm_str ltac:(constructor).
  - base_case SStr sm_str ltac:(constructor).
  - base_case SStr sm_str ltac:(constructor).
  - base_case SStr sm_str ltac:(constructor).
  - base_case SInt sm_int ltac:(constructor).
  - base_case SInt sm_int ltac:(constructor).
  - base_case SFloat sm_float ltac:(apply pv_float_i).
  - base_case SFloat sm_float ltac:(apply pv_float_f).
  - base_case SBool sm_bool ltac:(constructor).
  - base_case SNone sm_none ltac:(constructor).
  - base_case SStr sm_str ltac:(constructor).
  - base_case SInt sm_int ltac:(constructor).
  - base_case SBool sm_bool ltac:(constructor).
  - (* array *) apply Pm_arr. intros x Ix. apply Pm_Qm. apply IH. auto.
  - (* map *) apply Pm_at. intros n. exists (SDict (py_of n k) (py_of n v)). split; [reflexivity|]. split; [reflexivity|].
    intros k0 b Mb Sm. destruct (sm_dict _ _ k0 b Mb Sm) as [kk [vv [k' [-> Sm']]]].
    destruct (wfp_dict kk vv (memb_wfp _ Mb)) as [-> Wv]. constructor; [assumption | | reflexivity].
    intros a b I. destruct (H0 a b I) as [_ Vb]. exact (Pm_Qm v b (IH v b Vb) n k' vv Wv Sm').
  - (* tuple *) apply Pm_at. intros n. exists (STuple (map (py_of n) ts)). split; [reflexivity|]. split; [reflexivity|].
    intros k0 b Mb Sm. destruct (sm_tuple _ k0 b Mb Sm) as [m' [k' [-> F]]]. constructor.
    pose proof (memb_wfp _ Mb) as W. clear Sm Mb.
    revert m' F W. induction H as [|t x ts l V R IHR]; intros m' F W; cbn [map] in F; inversion F; subst; constructor.
    + apply (Pm_Qm t x (IH t x V) n k'); [apply (wfp_tuple _ _ W); left; reflexivity | assumption].
    + apply IHR; [assumption|]. exact (wfp_tuple_tail _ _ W).
  - (* or *) intros [|n].
    + exists SAny. split; [left; reflexivity|]. intros k b Mb Sm. rewrite (sm_any k b Mb Sm). constructor.
    + destruct (IH t j H0 n) as [a [Ia Ha]]. exists a. split; [|exact Ha].
      cbn [Image.py_of]. unfold mk_union. cbn [sflat]. apply in_flat_map. exists (py_of n t). split; [apply in_map; assumption | exact Ia].
  - exact (Pm_any j).
  - (* LSPObject *) apply (Pm_simple _ _ (SOpaque "LSPObject")); [intros; reflexivity | reflexivity|].
    intros k b Mb Sm. rewrite (sm_opaque _ k b Mb Sm). constructor.
  - (* LSPArray *) destruct HA as [A1 [A2 [a0 [A3 A4]]]]. intros [|n].
    + exists SAny. split; [left; reflexivity|]. intros k b Mb Sm. rewrite (sm_any k b Mb Sm). constructor.
    + assert (E : py_of (S n) (TRef "LSPArray") = py_of n (TArr (TRef "LSPAny"))).
      { cbn [Image.py_of]. cbn [String.eqb Ascii.eqb Bool.eqb]. rewrite A1, A2, A3, A4. reflexivity. }
      rewrite E. apply (Pm_arr (TRef "LSPAny") l). intros x _. apply Pm_Qm. apply Pm_any.
  - (* property-less object *) apply (Pm_obj t [] []); [assumption | constructor | constructor | intros k v [] | intros p []].
  - (* object *) apply (Pm_obj t ps m); try assumption.
    intros k v I. destruct (H3 k v I) as [p [Ip [En V]]]. exists p. split; [exact Ip|]. split; [exact En|]. split; [apply IH; exact V | exact V].
  - (* alias *) intros [|n'].
    + exists SAny. split; [left; reflexivity|]. intros k b Mb Sm. rewrite (sm_any k b Mb Sm). constructor.
    + rewrite (py_of_alias n' n a H H0). exact (IH (a_type a) j H1 n').
  - (* enum member *) intros [|n'].
    + exists SAny. split; [left; reflexivity|]. intros k b Mb Sm. rewrite (sm_any k b Mb Sm). constructor.
    + rewrite (py_of_enum n' n e H). exists (SEnum n). split; [destruct (enum_open e); cbn; auto|].
      intros k b Mb Sm. rewrite (sm_enum n k b Mb Sm). exact (enum_member_pvalid n e j H H0).
  - (* enum custom value *) intros [|n'].
    + exists SAny. split; [left; reflexivity|]. intros k b Mb Sm. rewrite (sm_any k b Mb Sm). constructor.
    + rewrite (py_of_enum n' n e H). unfold enum_open. rewrite H0. cbn [orb].
      destruct (IH _ j H1 1) as [a [Ia Ha]].
      destruct (e_base e); cbn in Ia; destruct Ia as [<-|[]]; (eexists; split; [cbn; right; left; reflexivity | exact Ha]).
Qed.

(* one direction of smatch is enough for validity: every alternative of the specification side has a matching member *)
Definition fwd (k : nat) (s : spy) (p : pty) : bool :=
  forallb (fun a => existsb (fun b => smatch k a b) (pmembers alias_objects 6 p)) (sflat s).
Lemma via_member_fwd (s : spy) (j : json) (a : spy) :
  In a (sflat s) -> (forall k b, memb_ok b = true -> smatch k a b = true -> pvalid b j) ->
  forall k p, wfp p = true -> fwd k s p = true -> pvalid p j.
Proof.
  intros Ia Ha k p W M. unfold fwd in M. rewrite forallb_forall in M. specialize (M a Ia). apply existsb_exists in M. destruct M as [b [Ib Mb]].
  rewrite (pmembers_wfp p W) in Ib.
  destruct p; cbn [pflat] in Ib; try (destruct Ib as [<-|[]]; apply (Ha k); [unfold memb_ok; rewrite W; reflexivity | exact Mb]).
  apply pv_union with (t := b); [exact Ib|]. apply (Ha k); [exact (wfp_members l b W Ib) | exact Mb].
Qed.

(* ---- classes that are NOT images in the sense of smatch (message envelopes: a params attribute even when the message has none,
   defaults without validators): a weaker correspondence suffices for validity *)
Definition CorrW (ps : list prop) (fs : list fld) : Prop :=
  (forall q, In q ps -> exists f k, In f fs /\ fwire f = p_name q /\
     (fwd k (expected_type mm q) (ftype f) = true \/ exists s l, p_type q = TStrLit s /\ ftype f = PyLit l /\ In s l) /\
     (fval f = expected_vkind q \/ fval f = VNoVal)) /\
  (forall f, In f fs -> must_present Sg f = true -> exists q, In q ps /\ p_name q = fwire f /\ (p_opt q = false \/ is_strlit (p_type q) = true)).
Definition corrw_b (ps : list prop) (fs : list fld) : bool :=
  forallb (fun q => existsb (fun f => String.eqb (fwire f) (p_name q)
                                      && (fwd SM_FUEL (expected_type mm q) (ftype f)
                                          || match p_type q, ftype f with TStrLit s, PyLit l => mem s l | _, _ => false end)
                                      && (vkind_eqb (fval f) (expected_vkind q) || vkind_eqb (fval f) VNoVal)) fs) ps
  && forallb (fun f => negb (must_present Sg f) || existsb (fun q => String.eqb (p_name q) (fwire f) && (negb (p_opt q) || is_strlit (p_type q))) ps) fs.
Lemma corrw_b_sound ps fs : corrw_b ps fs = true -> CorrW ps fs.
Proof.
  unfold corrw_b. intros H. apply andb_true_iff in H. destruct H as [H1 H2]. rewrite forallb_forall in H1, H2. split.
  - intros q Iq. specialize (H1 q Iq). apply existsb_exists in H1. destruct H1 as [f [If Hf]]. split_andb.
    exists f, SM_FUEL. split; [exact If|]. split; [apply String.eqb_eq; assumption|]. split.
    + match goal with H : fwd _ _ _ || _ = true |- _ => apply orb_true_iff in H; destruct H as [H|H]; [left; exact H|] end.
      right. destruct (p_type q) eqn:T; try discriminate. destruct (ftype f) eqn:F; try discriminate. exists s, l. repeat split; auto. apply mem_in. assumption.
    + match goal with H : vkind_eqb _ _ || _ = true |- _ => apply orb_true_iff in H; destruct H as [H|H]; apply vkind_eqb_eq in H; auto end.
  - intros f If MP. specialize (H2 f If). rewrite MP in H2. cbn [negb orb] in H2. apply existsb_exists in H2. destruct H2 as [q [Iq Hq]].
    split_andb. exists q. split; [exact Iq|]. split; [apply String.eqb_eq; assumption|].
    match goal with H : _ || _ = true |- _ => apply orb_true_iff in H; destruct H as [H|H]; [left; apply negb_true_iff in H; exact H | right; exact H] end.
Qed.

Lemma obj_pvalid_w c fs ps m :
  lookup_cls Sg c = Some fs -> CorrW ps fs -> NoDup (keys m) ->
  (forall k v, In (k, v) m -> exists p, In p ps /\ p_name p = k /\ Pm (p_type p) v /\ cvalid (p_type p) v) ->
  (forall p, In p ps -> p_opt p = false \/ is_strlit (p_type p) = true -> In (p_name p) (keys m)) ->
  (forall k, NLmm c k = true) ->
  pvalid (PyCls c) (JObj m).
Proof.
  intros L [Cq Cf] NDm Hm Hr HNL. eapply pv_cls; [exact L | exact NDm | |].
  - intros k v I. destruct (Hm k v I) as [q [Iq [En [PM CV]]]]. destruct (Cq q Iq) as [f [k0 [If [Ew [Et Ev]]]]].
    exists f. split; [exact If|]. split; [congruence|]. split; [|split; [|intros _; apply HNL]].
    + destruct Et as [Et|[s [l [Tq [Tf Is]]]]].
      * destruct (PM PY_FUEL) as [a [Ia Ha]]. unfold expected_type in Et. destruct (is_optional q).
        -- exact (via_member_fwd _ v a (sflat_mk_union_l _ a Ia) Ha k0 (ftype f) (HF c fs f L If) Et).
        -- exact (via_member_fwd _ v a Ia Ha k0 (ftype f) (HF c fs f L If) Et).
      * rewrite Tq in CV. inversion CV; subst; try (match goal with H : obj_props _ (TStrLit _) = Some _ |- _ => discriminate H end). rewrite Tf. constructor. exact Is.
    + destruct Ev as [Ev|Ev]; [exact (jvalidate_ok q f v CV Ev)|]. unfold jvalidate. rewrite Ev. destruct v, (fvalopt f); reflexivity.
  - intros f If MP. destruct (Cf f If MP) as [q [Iq [En Rq]]]. rewrite <- En. apply Hr; assumption.
Qed.

(* a literal type (message envelopes are literal types) at a class that corresponds to it in the weak sense *)
Theorem lit_pvalid ps0 c fs j : lookup_cls Sg c = Some fs -> find_struct mm c = None -> corrw_b (props_of_lit ps0) fs = true ->
  cvalid (TLit ps0) j -> pvalid (PyCls c) j.
Proof.
  intros L NS CB V. pose proof (corrw_b_sound _ _ CB) as CW.
  assert (NLc : forall k, NLmm c k = true) by (intros k; unfold NLmm, NLtab; rewrite assoc_nl_table, NS; reflexivity).
  inversion V as [| | | | | | | | | | | | | | | | | | | |t OP|t ps m OP NE NDp NDm Hm Hr| | |]; subst.
  - cbn [obj_props] in OP. inversion OP as [E]. rewrite E in CW.
    apply (obj_pvalid_w c fs [] []); [exact L | exact CW | constructor | intros k v [] | intros p [] | exact NLc].
  - cbn [obj_props] in OP. inversion OP; subst ps.
    apply (obj_pvalid_w c fs (props_of_lit ps0) m); [exact L | exact CW | exact NDm | | exact Hr | exact NLc].
    intros k v I. destruct (Hm k v I) as [p [Ip [En Vp]]]. exists p. split; [exact Ip|]. split; [exact En|]. split; [apply cvalid_Pm; exact Vp | exact Vp].
Qed.

(* THE LINK: a metamodel-valid (closed) value of t is Python-valid at every annotation that is the image of t *)
Theorem cvalid_pvalid t j p k n : cvalid t j -> wfp p = true -> smatch k (py_of n t) p = true -> pvalid p j.
Proof. intros V W M. exact (Pm_Qm t j (cvalid_Pm t j V) n k p W M). Qed.
End Link.

(* ================================================================ the side conditions as boolean checkers *)
Section Checkers.
Variable mm : MM.
Variable Sg : sigma.

Definition none {A} (o : option A) : bool := match o with None => true | Some _ => false end.
Definition names_ok : bool :=
  forallb (fun s => negb (String.eqb (s_name s) "LSPAny")) (structures mm)
  && forallb (fun e => none (find_struct mm (e_name e)) && negb (String.eqb (e_name e) "LSPAny") && negb (String.eqb (e_name e) "LSPObject")) (enumerations mm)
  && forallb (fun a => opaque_ref (a_name a) || (none (find_struct mm (a_name a)) && none (find_enum mm (a_name a)))) (aliases mm)
  && none (find_struct mm "LSPArray") && none (find_enum mm "LSPArray")
  && match find_alias mm "LSPArray" with Some a0 => ty_eqb (a_type a0) (TArr (TRef "LSPAny")) | None => false end.

Lemma none_eq {A} (o : option A) : none o = true -> o = None. Proof. destruct o; [discriminate | reflexivity]. Qed.

Lemma names_ok_sound : names_ok = true ->
  (forall n s, find_struct mm n = Some s -> String.eqb n "LSPAny" = false) /\
  (forall n e, find_enum mm n = Some e -> find_struct mm n = None /\ String.eqb n "LSPAny" = false /\ String.eqb n "LSPObject" = false) /\
  (forall n a, find_alias mm n = Some a -> opaque_ref n = false -> find_struct mm n = None /\ find_enum mm n = None) /\
  (find_struct mm "LSPArray" = None /\ find_enum mm "LSPArray" = None /\
   exists a0, find_alias mm "LSPArray" = Some a0 /\ a_type a0 = TArr (TRef "LSPAny")).
Proof.
  unfold names_ok. intros H. split_andb.
  repeat match goal with H : forallb _ _ = true |- _ => rewrite forallb_forall in H end.
  split; [|split; [|split]].
  - intros n s F. apply find_some in F. destruct F as [I E]. apply String.eqb_eq in E. subst n.
    match goal with H : forall x, In x (structures mm) -> _ |- _ => specialize (H s I); apply negb_true_iff in H; exact H end.
  - intros n e F. apply find_some in F. destruct F as [I E]. apply String.eqb_eq in E. subst n.
    match goal with H : forall x, In x (enumerations mm) -> _ |- _ => specialize (H e I) end. split_andb.
    repeat match goal with H : negb _ = true |- _ => apply negb_true_iff in H end. auto using none_eq.
  - intros n a F O. apply find_some in F. destruct F as [I E]. apply String.eqb_eq in E. subst n.
    match goal with H : forall x, In x (aliases mm) -> _ |- _ => specialize (H a I) end. rewrite O in *. cbn [orb] in *. split_andb. auto using none_eq.
  - split; [apply none_eq; assumption|]. split; [apply none_eq; assumption|].
    destruct (find_alias mm "LSPArray") as [a0|]; [|discriminate]. exists a0. split; [reflexivity|].
    match goal with H : ty_eqb _ _ = true |- _ => revert H end. generalize (a_type a0). intros t E.
    destruct t; try discriminate. cbn in E. destruct t; try discriminate. cbn in E. apply String.eqb_eq in E. subst. reflexivity.
Qed.

Definition fields_ok2 : bool :=
  forallb (fun c => forallb (fun f => wfp (ftype f) && match fdefault f with
                                                         | DefaultNone => negb (existsb is_none (pflat (ftype f))) || negb (must_present Sg f)
                                                         | _ => true end) (snd c)) (classes Sg).
Lemma fields_ok2_sound : fields_ok2 = true ->
  (forall c fs f, lookup_cls Sg c = Some fs -> In f fs -> wfp (ftype f) = true) /\
  (forall c fs f, lookup_cls Sg c = Some fs -> In f fs -> fdefault f = DefaultNone -> In PyNone (pflat (ftype f)) -> must_present Sg f = false).
Proof.
  unfold fields_ok2. intros H. rewrite forallb_forall in H.
  assert (G : forall c fs f, lookup_cls Sg c = Some fs -> In f fs ->
              wfp (ftype f) && match fdefault f with DefaultNone => negb (existsb is_none (pflat (ftype f))) || negb (must_present Sg f) | _ => true end = true).
  { intros c fs f L If. specialize (H (c, fs) (lookup_in Sg c fs L)). cbn [snd] in H. rewrite forallb_forall in H. exact (H f If). }
  split.
  - intros c fs f L If. specialize (G c fs f L If). apply andb_true_iff in G. tauto.
  - intros c fs f L If D IN. specialize (G c fs f L If). apply andb_true_iff in G. destruct G as [_ G]. rewrite D in G.
    apply orb_true_iff in G. destruct G as [G|G]; [|apply negb_true_iff in G; exact G].
    apply negb_true_iff in G. assert (X : existsb is_none (pflat (ftype f)) = true) by (apply existsb_exists; exists PyNone; auto). congruence.
Qed.
End Checkers.
