(* ImageThy.v — what the boolean image checker of Image.v means (reflection lemmas), and facts about [flat]. *)
From Coq Require Import Lia.
From LSP Require Import Base MM Sem Image.

Lemma is_nil_b_nil {A} (l : list A) : is_nil_b l = true -> l = [].
Proof. destruct l; [reflexivity | discriminate]. Qed.

Lemma app_nil_both {A} (a b : list A) : a ++ b = [] -> a = [] /\ b = [].
Proof. destruct a; cbn; [auto | discriminate]. Qed.

Lemma flat_map_nil {A B} (f : A -> list B) l : flat_map f l = [] -> forall x, In x l -> f x = [].
Proof.
  induction l as [|a l IH]; cbn; intros H x I; [contradiction|].
  apply app_nil_both in H. destruct H as [Ha Hl]. destruct I as [<-|I]; auto.
Qed.

Section Thy.
Variable mm : MM.
Variable Sg : sigma.
Variable alias_objects : list (string * pty).
Variable plain_classes : list string.

Notation field_why := (field_why mm Sg alias_objects).
Notation field_ok := (field_ok mm Sg alias_objects).
Notation class_why := (class_why mm Sg alias_objects).
Notation class_ok := (class_ok mm Sg alias_objects).

(* what a correct attribute is, as a proposition *)
Record FieldSpec (q : prop) (f : fld) : Prop := {
  fs_wire_in : fwire f = p_name q;
  fs_wire_out : fwireo f = p_name q;
  fs_default : fdefault f = expected_default q;
  fs_type : smatch mm Sg alias_objects SM_FUEL (expected_type mm q) (ftype f) = true;
  fs_validator : fval f = expected_vkind q;
  fs_valopt : fvalopt f = expected_valopt q;
  fs_omit : fdefault f <> NoDefault -> fomit f = negb (is_special q) }.

Lemma dflt_eqb_eq a b : dflt_eqb a b = true -> a = b.
Proof. destruct a, b; cbn; try discriminate; auto. intros H. apply String.eqb_eq in H. congruence. Qed.
Lemma lstr_eqb_eq a b : lstr_eqb a b = true -> a = b.
Proof. unfold lstr_eqb. destruct (list_eq_dec string_dec a b); [auto | discriminate]. Qed.
Lemma vkind_eqb_eq a b : vkind_eqb a b = true -> a = b.
Proof. destruct a, b; cbn; try discriminate; auto. intros H. apply lstr_eqb_eq in H. congruence. Qed.

Lemma field_ok_spec q f : field_ok q f = true -> FieldSpec q f.
Proof.
  unfold Image.field_ok, Image.field_why. intros H. apply is_nil_b_nil in H.
  repeat match goal with H : _ ++ _ = [] |- _ => apply app_nil_both in H; destruct H end.
  repeat match goal with
         | H : (if ?c then [] else [_]) = [] |- _ => destruct c eqn:?; [clear H | discriminate H]
         end.
  repeat match goal with H : _ && _ = true |- _ => apply andb_true_iff in H; destruct H end.
  constructor; auto using dflt_eqb_eq, vkind_eqb_eq, eqb_prop; try (apply String.eqb_eq; assumption).
  intros N. match goal with H : omit_okb f q = true |- _ => unfold omit_okb in H; destruct (fdefault f); [contradiction | apply eqb_prop; exact H ..] end.
Qed.

Lemma class_ok_spec c ps : class_ok c ps = true ->
  exists fs, assoc c (classes Sg) = Some fs /\ NoDup (map fwire fs) /\
    (forall q, In q ps -> exists f, In f fs /\ FieldSpec q f) /\
    (forall f, In f fs -> In (fwire f) (map p_name ps)).
Proof.
  unfold Image.class_ok, Image.class_why. intros H. apply is_nil_b_nil in H.
  destruct (assoc c (classes Sg)) as [fs|]; [|discriminate].
  exists fs. split; [reflexivity|].
  apply app_nil_both in H. destruct H as [H1 H]. apply app_nil_both in H. destruct H as [H2 H3].
  split; [|split].
  - destruct (nodupb (map fwire fs)) eqn:E; [apply nodupb_NoDup; exact E | discriminate].
  - intros q Iq. pose proof (flat_map_nil _ _ H2 q Iq) as Hq. cbn in Hq.
    destruct (find (fun f => String.eqb (fwire f) (p_name q)) fs) as [f|] eqn:F; [|discriminate].
    apply find_some in F. destruct F as [If _]. exists f. split; [exact If|].
    apply field_ok_spec. unfold Image.field_ok. destruct (Image.field_why mm Sg alias_objects q f); [reflexivity | discriminate].
  - intros f If. pose proof (flat_map_nil _ _ H3 f If) as Hf. cbn in Hf.
    destruct (mem (fwire f) (map p_name ps)) eqn:E; [apply mem_in; exact E | discriminate].
Qed.

Theorem W_img_structures : W_img mm Sg alias_objects plain_classes = true ->
  forall s, In s (structures mm) -> s_name s <> "LSPObject" ->
  exists fs, assoc (s_name s) (classes Sg) = Some fs /\ NoDup (map fwire fs) /\
    (forall q, In q (flat mm (s_name s)) -> exists f, In f fs /\ FieldSpec q f) /\
    (forall f, In f fs -> In (fwire f) (map p_name (flat mm (s_name s)))).
Proof.
  unfold W_img. intros H s Is Hn. apply andb_true_iff in H. destruct H as [H _]. apply andb_true_iff in H. destruct H as [H _].
  apply is_nil_b_nil in H. unfold struct_classes_why in H.
  pose proof (flat_map_nil _ _ H s Is) as Hs. cbv beta in Hs.
  destruct (String.eqb_spec (s_name s) "LSPObject"); [contradiction|].
  apply class_ok_spec. unfold Image.class_ok. rewrite Hs. reflexivity.
Qed.

Theorem W_img_enums : W_img mm Sg alias_objects plain_classes = true ->
  forall e, In e (enumerations mm) -> enum_ok Sg e = true.
Proof.
  unfold W_img. intros H e Ie. apply andb_true_iff in H. destruct H as [H _]. apply andb_true_iff in H. destruct H as [_ H].
  apply is_nil_b_nil in H. unfold enums_bad in H.
  destruct (enum_ok Sg e) eqn:E; [reflexivity|].
  assert (I : In e (filter (fun e => negb (enum_ok Sg e)) (enumerations mm))) by (apply filter_In; split; [exact Ie | rewrite E; reflexivity]).
  apply (in_map e_name) in I. rewrite H in I. contradiction.
Qed.

Theorem W_img_aliases : W_img mm Sg alias_objects plain_classes = true ->
  forall a, In a (aliases mm) -> alias_ok mm Sg alias_objects plain_classes a = true.
Proof.
  unfold W_img. intros H a Ia. apply andb_true_iff in H. destruct H as [_ H].
  apply is_nil_b_nil in H. unfold aliases_bad in H.
  destruct (alias_ok mm Sg alias_objects plain_classes a) eqn:E; [reflexivity|].
  assert (I : In a (filter (fun a => negb (alias_ok mm Sg alias_objects plain_classes a)) (aliases mm))) by (apply filter_In; split; [exact Ia | rewrite E; reflexivity]).
  apply (in_map a_name) in I. rewrite H in I. contradiction.
Qed.
End Thy.

(* ---- facts about the flattening specification, for every metamodel ---- *)
Lemma NoDup_snoc {A} (l : list A) x : NoDup l -> ~ In x l -> NoDup (l ++ [x]).
Proof.
  induction l as [|a l IH]; cbn; intros ND NI; [constructor; [auto | constructor]|].
  inversion ND as [|? ? Na NDl]; subst. constructor.
  - intro I. apply in_app_or in I. destruct I as [I|[E|[]]]; [contradiction | subst; apply NI; left; reflexivity].
  - apply IH; [exact NDl | intro I; apply NI; right; exact I].
Qed.

Section Flat.
Variable mm : MM.

Lemma add_props_keeps acc ps p : In p acc -> In p (add_props acc ps).
Proof.
  revert acc. induction ps as [|x ps IH]; cbn; intros acc I; [exact I|].
  apply IH. destruct (mem (p_name x) (map p_name acc)); [exact I | apply in_or_app; left; exact I].
Qed.
Lemma add_props_nodup acc ps : NoDup (map p_name acc) -> NoDup (map p_name (add_props acc ps)).
Proof.
  revert acc. induction ps as [|x ps IH]; cbn; intros acc ND; [exact ND|].
  apply IH. destruct (mem (p_name x) (map p_name acc)) eqn:E; [exact ND|].
  rewrite map_app. cbn. apply NoDup_snoc; [exact ND|].
  intro I. apply mem_in in I. congruence.
Qed.
(* a property whose name is new is added *)
Lemma add_props_adds acc ps p : In p ps -> NoDup (map p_name ps) -> ~ In (p_name p) (map p_name acc) -> In p (add_props acc ps).
Proof.
  revert acc. induction ps as [|x ps IH]; cbn; intros acc I ND NI; [contradiction|].
  inversion ND as [|? ? Nx NDps]; subst. destruct I as [->|I].
  - apply add_props_keeps. destruct (mem (p_name p) (map p_name acc)) eqn:E; [apply mem_in in E; contradiction|].
    apply in_or_app. right. left. reflexivity.
  - apply IH; [exact I | exact NDps |].
    destruct (mem (p_name x) (map p_name acc)) eqn:E; [exact NI|].
    rewrite map_app. cbn. intro J. apply in_app_or in J. destruct J as [J|[J|[]]]; [contradiction|].
    apply Nx. rewrite J. apply in_map. exact I.
Qed.

Lemma flat_acc_keeps n : forall acc name p, In p acc -> In p (flat_acc mm n acc name).
Proof.
  induction n as [|n IH]; cbn; intros acc name p I; [exact I|].
  destruct (find_struct mm name) as [s|]; [|exact I].
  assert (G : forall l a, In p a -> In p (fold_left (fun a t => match t with TRef b => flat_acc mm n a b | _ => a end) l a)).
  { induction l as [|t l IHl]; cbn; intros a Ia; [exact Ia|]. apply IHl. destruct t; auto. }
  apply G. apply add_props_keeps. exact I.
Qed.
Lemma flat_acc_nodup n : forall acc name, NoDup (map p_name acc) -> NoDup (map p_name (flat_acc mm n acc name)).
Proof.
  induction n as [|n IH]; cbn; intros acc name ND; [exact ND|].
  destruct (find_struct mm name) as [s|]; [|exact ND].
  assert (G : forall l a, NoDup (map p_name a) -> NoDup (map p_name (fold_left (fun a t => match t with TRef b => flat_acc mm n a b | _ => a end) l a))).
  { induction l as [|t l IHl]; cbn; intros a Ia; [exact Ia|]. apply IHl. destruct t; auto. }
  apply G. apply add_props_nodup. exact ND.
Qed.

(* C04 "exactly one attribute per property ... the nearest declaration winning" on the specification side *)
Theorem flat_names_unique name : NoDup (map p_name (flat mm name)).
Proof. apply flat_acc_nodup. constructor. Qed.
Theorem flat_own_wins name s p : find_struct mm name = Some s -> NoDup (map p_name (s_props s)) -> In p (s_props s) ->
  In p (flat mm name) /\ forall q, In q (flat mm name) -> p_name q = p_name p -> q = p.
Proof.
  intros F ND I. assert (Ip : In p (flat mm name)).
  { unfold flat. change FLAT_FUEL with (S 11). cbn [flat_acc]. rewrite F.
    assert (G : forall l a, In p a -> In p (fold_left (fun a t => match t with TRef b => flat_acc mm 11 a b | _ => a end) l a)).
    { induction l as [|t l IHl]; cbn [fold_left]; intros a Ia; [exact Ia|]. apply IHl. destruct t; auto using flat_acc_keeps. }
    apply G. apply add_props_adds; [exact I | exact ND | cbn; auto]. }
  split; [exact Ip|]. intros q Iq E.
  pose proof (flat_names_unique name) as U.
  clear - Ip Iq E U. induction (flat mm name) as [|x l IH]; [contradiction|].
  cbn in U. inversion U as [|? ? Nx Ul]; subst.
  destruct Ip as [->|Ip], Iq as [->|Iq]; auto.
  - exfalso. apply Nx. rewrite <- E. apply in_map. exact Iq.
  - exfalso. apply Nx. rewrite E. apply in_map. exact Ip.
Qed.
End Flat.
