(* Catalog.v — data types for the method catalogue / registry part of the package (property C09). *)
From LSP Require Import Base Sem.
Record catrow := { cm_method : string; cm_cls : option string; cm_resp : option string;
                   cm_params : option pty; cm_regopts : option pty; cm_dir : option string }.
