(* Strict.v — message-level strict validity: the reading of property C17 (DESIGN.md, C17 "Interpretation, pinned now").

   A test vector is a JSON-RPC 2.0 message of one of three kinds built from a metamodel entry:
     request       {jsonrpc:"2.0", id:int32|string, method:<the method>, params}      and nothing else
     notification  {jsonrpc:"2.0", method:<the method>, params}                       and nothing else (in particular no id)
     response      {jsonrpc:"2.0", id:int32|string, result?, error?}                  and nothing else
   params: when the metamodel declares params they must be present and valid; when it declares none, `params` is absent or null.
   result (if present) is a valid instance of the declared result type; error (if present) is
   ResponseError {code:integer, message:string, data?:LSPAny} and nothing else.
   Payload validity is MM.valid (declared properties only, required ones present, ranges, closed enumerations, literals; a
   structure or literal without properties is an extension point).

   `msg_valid` states this directly (association-list look-ups, no encoding); `msg_ty` encodes the same envelope as a literal
   type so that the verified validator of ValidB.v applies; `msg_valid_iff` proves the two coincide.  *)
From Coq Require Import Lia Arith.
From LSP Require Import Base MM ValidB.

Inductive msg := MReq (r : request) | MResp (r : request) | MNotif (n : notification).

(* ---------------------------------------------------------------- class names of the message classes (file-name prefix) *)
Definition ends_with (suf s : string) : bool :=
  let ls := String.length s in let lf := String.length suf in
  Nat.leb lf ls && String.eqb (substring (ls - lf) lf s) suf.
Definition with_suffix (suf s : string) : string := if ends_with suf s then s else s ++ suf.
Definition drop_suffix (suf s : string) : string :=
  if ends_with suf s then substring 0 (String.length s - String.length suf) s else s.
Definition req_class (tn : string) : string := with_suffix "Request" tn.
Definition resp_class (tn : string) : string := drop_suffix "Request" (req_class tn) ++ "Response".
Definition notif_class (tn : string) : string := with_suffix "Notification" tn.

Definition msg_classes (mm : MM) : list (string * msg) :=
  flat_map (fun r => match r_typename r with
                     | Some tn => [(req_class tn, MReq r); (resp_class tn, MResp r)]
                     | None => [] end) (requests mm)
  ++ flat_map (fun n => match n_typename n with Some tn => [(notif_class tn, MNotif n)] | None => [] end) (notifications mm).
Definition unnamed_entries (mm : MM) : nat :=
  length (filter (fun r => match r_typename r with None => true | _ => false end) (requests mm))
  + length (filter (fun n => match n_typename n with None => true | _ => false end) (notifications mm)).
Definition find_msg (mm : MM) (cls : string) : option msg := assoc cls (msg_classes mm).

(* ---------------------------------------------------------------- the envelope as a literal type *)
Definition field := (string * ty * bool)%type.
Definition fname (f : field) : string := fst (fst f).
Definition ftype (f : field) : ty := snd (fst f).
Definition fopt (f : field) : bool := snd f.

Definition sid_ty : ty := TOr [TBase BInteger; TBase BString].
Definition f_jsonrpc : field := ("jsonrpc", TStrLit "2.0", false).
Definition f_id : field := ("id", sid_ty, false).
Definition f_method (m : string) : field := ("method", TStrLit m, false).
Definition f_params (p : option ty) : field :=
  match p with Some t => ("params", t, false) | None => ("params", TBase BNull, true) end.
Definition error_fields : list field :=
  [("code", TBase BInteger, false); ("message", TBase BString, false); ("data", TRef "LSPAny", true)].
Definition response_error_ty : ty := TLit error_fields.
Definition msg_fields (k : msg) : list field :=
  match k with
  | MReq r => [f_jsonrpc; f_id; f_method (r_method r); f_params (r_params r)]
  | MNotif n => [f_jsonrpc; f_method (n_method n); f_params (n_params n)]
  | MResp r => [f_jsonrpc; f_id; ("result", r_result r, true); ("error", response_error_ty, true)]
  end.
Definition msg_ty (k : msg) : ty := TLit (msg_fields k).

Section Strict.
Variable mm : MM.
Notation valid := (valid mm).

(* ---------------------------------------------------------------- the specification, stated directly *)
Definition id_ok (j : json) : Prop := (exists z, j = JInt z /\ int32 z = true) \/ (exists s, j = JStr s).
Definition only_keys (m : list (string * json)) (allowed : list string) : Prop := forall k, In k (keys m) -> In k allowed.
Definition params_ok (p : option ty) (o : option json) : Prop :=
  match p, o with
  | Some t, Some v => valid t v      (* declared: present and valid *)
  | Some _, None => False
  | None, None => True               (* not declared: absent ... *)
  | None, Some v => v = JNull        (* ... or null *)
  end.
Definition error_ok (e : json) : Prop :=
  exists m, e = JObj m /\ NoDup (keys m) /\ only_keys m ["code"; "message"; "data"]
            /\ (exists z, assoc "code" m = Some (JInt z) /\ int32 z = true)
            /\ (exists s, assoc "message" m = Some (JStr s)).

Inductive msg_valid : msg -> json -> Prop :=
| mv_request r m :
    NoDup (keys m) -> only_keys m ["jsonrpc"; "id"; "method"; "params"] ->
    assoc "jsonrpc" m = Some (JStr "2.0") ->
    (exists i, assoc "id" m = Some i /\ id_ok i) ->
    assoc "method" m = Some (JStr (r_method r)) ->
    params_ok (r_params r) (assoc "params" m) ->
    msg_valid (MReq r) (JObj m)
| mv_notification n m :
    NoDup (keys m) -> only_keys m ["jsonrpc"; "method"; "params"] ->
    assoc "jsonrpc" m = Some (JStr "2.0") ->
    assoc "method" m = Some (JStr (n_method n)) ->
    params_ok (n_params n) (assoc "params" m) ->
    msg_valid (MNotif n) (JObj m)
| mv_response r m :
    NoDup (keys m) -> only_keys m ["jsonrpc"; "id"; "result"; "error"] ->
    assoc "jsonrpc" m = Some (JStr "2.0") ->
    (exists i, assoc "id" m = Some i /\ id_ok i) ->
    (forall v, assoc "result" m = Some v -> valid (r_result r) v) ->
    (forall e, assoc "error" m = Some e -> error_ok e) ->
    msg_valid (MResp r) (JObj m).

(* ---------------------------------------------------------------- literal types with pairwise distinct field names *)
Definition field_ok (m : list (string * json)) (f : field) : Prop :=
  match assoc (fname f) m with Some v => valid (ftype f) v | None => fopt f = true end.

Lemma valid_lit_inv ps j : ps <> [] -> valid (TLit ps) j ->
  exists m, j = JObj m /\ NoDup (keys m)
    /\ (forall k v, In (k, v) m -> exists f, In f ps /\ fname f = k /\ valid (ftype f) v)
    /\ (forall f, In f ps -> fopt f = false -> In (fname f) (keys m)).
Proof.
  intros NE V. inversion V; subst.
  - match goal with H : obj_props mm (TLit ps) = Some [] |- _ => cbn in H; injection H as H end.
    destruct ps; [congruence | discriminate].
  - match goal with H : obj_props mm (TLit ps) = Some _ |- _ => cbn in H; injection H as <- end.
    eexists. split; [reflexivity|]. split; [assumption|]. split.
    + intros k v I. match goal with H : forall k v, In (k, v) _ -> _ |- _ => destruct (H k v I) as [p [Ip [En Hv]]] end.
      unfold props_of_lit in Ip. apply in_map_iff in Ip. destruct Ip as [f [<- If]]. exists f. cbn in *. auto.
    + intros f If Ho. match goal with H : forall p, In p (props_of_lit ps) -> _ |- _ =>
        apply (H {| p_name := fname f; p_type := ftype f; p_opt := fopt f; p_proposed := false |}) end; [|exact Ho].
      unfold props_of_lit. apply in_map_iff. exists f. split; [reflexivity | exact If].
Qed.

Lemma in_keys {A} k (m : list (string * A)) : In k (keys m) <-> exists v, In (k, v) m.
Proof.
  unfold keys. rewrite in_map_iff. split.
  - intros [[k' v] [E I]]. cbn in E. subst. exists v. exact I.
  - intros [v I]. exists (k, v). auto.
Qed.

Lemma nodup_names_eq (ps : list field) f g : NoDup (map fname ps) -> In f ps -> In g ps -> fname f = fname g -> f = g.
Proof.
  induction ps as [|h ps IH]; cbn; [intros _ []|]. intros ND [->|If] [->|Ig] E; inversion ND as [|? ? NI ND']; subst.
  - reflexivity.
  - exfalso. apply NI. rewrite E. apply in_map. exact Ig.
  - exfalso. apply NI. rewrite <- E. apply in_map. exact If.
  - apply IH; assumption.
Qed.

Lemma lit_fields ps m : NoDup (map fname ps) -> ps <> [] ->
  (valid (TLit ps) (JObj m) <-> NoDup (keys m) /\ only_keys m (map fname ps) /\ Forall (field_ok m) ps).
Proof.
  intros NDp NE. split.
  - intros V. destruct (valid_lit_inv ps _ NE V) as [m' [E [ND [HP HR]]]]. injection E as <-.
    split; [exact ND|]. split.
    + intros k Ik. apply in_keys in Ik. destruct Ik as [v I]. destruct (HP k v I) as [f [If [En _]]]. rewrite <- En. apply in_map. exact If.
    + apply Forall_forall. intros f If. unfold field_ok. destruct (assoc (fname f) m) as [v|] eqn:A.
      * apply assoc_in in A. destruct (HP _ _ A) as [g [Ig [En Hv]]].
        rewrite (nodup_names_eq ps f g NDp If Ig (eq_sym En)). exact Hv.
      * destruct (fopt f) eqn:O; [reflexivity|]. exfalso. apply assoc_none in A. apply A. apply HR; assumption.
  - intros [ND [OK FF]]. rewrite Forall_forall in FF.
    apply (v_obj mm (TLit ps) (props_of_lit ps) m eq_refl).
    + destruct ps; [congruence | discriminate].
    + exact ND.
    + intros k v I. assert (Ik : In k (keys m)) by (apply in_keys; exists v; exact I).
      specialize (OK k Ik). apply in_map_iff in OK. destruct OK as [f [En If]].
      exists {| p_name := fname f; p_type := ftype f; p_opt := fopt f; p_proposed := false |}. cbn.
      split; [unfold props_of_lit; apply in_map_iff; exists f; split; [reflexivity | exact If]|]. split; [exact En|].
      specialize (FF f If). unfold field_ok in FF. rewrite En, (in_assoc_nodup k v m ND I) in FF. exact FF.
    + intros p Ip Ho. unfold props_of_lit in Ip. apply in_map_iff in Ip. destruct Ip as [f [<- If]]. cbn in *.
      specialize (FF f If). unfold field_ok, fname in FF. destruct (assoc (fst (fst f)) m) eqn:A.
      * apply assoc_in in A. apply in_keys. eexists. exact A.
      * unfold fopt in FF. congruence.
Qed.

(* ---------------------------------------------------------------- leaves of the envelope *)
Lemma valid_strlit s v : valid (TStrLit s) v <-> v = JStr s.
Proof. split; [intros V; inversion V; subst; try reflexivity; discriminate | intros ->; constructor]. Qed.
Lemma valid_null v : valid (TBase BNull) v <-> v = JNull.
Proof. split; [intros V; inversion V; subst; try reflexivity; discriminate | intros ->; constructor]. Qed.
Lemma valid_integer v : valid (TBase BInteger) v <-> exists z, v = JInt z /\ int32 z = true.
Proof.
  split; [intros V; inversion V; subst; try discriminate; eexists; split; [reflexivity | assumption]
         | intros [z [-> H]]; constructor; exact H].
Qed.
Lemma valid_string v : valid (TBase BString) v <-> exists s, v = JStr s.
Proof. split; [intros V; inversion V; subst; try discriminate; eexists; reflexivity | intros [s ->]; constructor]. Qed.
Lemma valid_id v : valid sid_ty v <-> id_ok v.
Proof.
  unfold sid_ty, id_ok. split.
  - intros V. inversion V; subst; try discriminate.
    match goal with H : In _ [_; _] |- _ => destruct H as [<-|[<-|[]]] end;
      [left; apply valid_integer; assumption | right; apply valid_string; assumption].
  - intros [H|H]; [apply (v_or mm _ (TBase BInteger)); [left; reflexivity | apply valid_integer; exact H]
                  | apply (v_or mm _ (TBase BString)); [right; left; reflexivity | apply valid_string; exact H]].
Qed.

Lemma field_req n t m : field_ok m (n, t, false) <-> exists v, assoc n m = Some v /\ valid t v.
Proof.
  unfold field_ok. cbn. destruct (assoc n m) as [v|]; split.
  - intros H. exists v. auto.
  - intros [v' [[= <-] H]]. exact H.
  - discriminate.
  - intros [v' [H _]]. discriminate.
Qed.
Lemma field_opt n t m : field_ok m (n, t, true) <-> forall v, assoc n m = Some v -> valid t v.
Proof.
  unfold field_ok. cbn. destruct (assoc n m) as [v|]; split; auto.
  - intros H v' [= <-]. exact H.
  - intros _ v' H. discriminate.
Qed.

Lemma field_jsonrpc m : field_ok m f_jsonrpc <-> assoc "jsonrpc" m = Some (JStr "2.0").
Proof.
  unfold f_jsonrpc. rewrite field_req. split.
  - intros [v [A V]]. apply valid_strlit in V. subst. exact A.
  - intros A. eexists. split; [exact A | constructor].
Qed.
Lemma field_method s m : field_ok m (f_method s) <-> assoc "method" m = Some (JStr s).
Proof.
  unfold f_method. rewrite field_req. split.
  - intros [v [A V]]. apply valid_strlit in V. subst. exact A.
  - intros A. eexists. split; [exact A | constructor].
Qed.
Lemma field_id m : field_ok m f_id <-> exists i, assoc "id" m = Some i /\ id_ok i.
Proof.
  unfold f_id. rewrite field_req. split; intros [v [A V]]; exists v; (split; [exact A | apply valid_id; exact V]).
Qed.
Lemma field_params p m : field_ok m (f_params p) <-> params_ok p (assoc "params" m).
Proof.
  unfold f_params, params_ok. destruct p as [t|].
  - rewrite field_req. destruct (assoc "params" m) as [v|]; split.
    + intros [v' [[= <-] V]]. exact V.
    + intros V. exists v. auto.
    + intros [v' [H _]]. discriminate.
    + intros [].
  - rewrite field_opt. destruct (assoc "params" m) as [v|]; split.
    + intros H. apply valid_null. apply H. reflexivity.
    + intros -> v' [= <-]. constructor.
    + auto.
    + intros _ v' H. discriminate.
Qed.

Lemma nodup_error : NoDup (map fname error_fields).
Proof. apply nodupb_NoDup. reflexivity. Qed.

Lemma valid_error e : valid response_error_ty e <-> error_ok e.
Proof.
  unfold response_error_ty, error_ok. split.
  - intros V. assert (NE : error_fields <> []) by discriminate.
    destruct (valid_lit_inv _ _ NE V) as [m [-> _]]. apply (lit_fields _ m nodup_error NE) in V.
    destruct V as [ND [OK FF]]. exists m. split; [reflexivity|]. split; [exact ND|]. split; [exact OK|].
    unfold error_fields in FF. inversion FF as [|? ? F1 FF1]; subst. inversion FF1 as [|? ? F2 FF2]; subst.
    apply field_req in F1. apply field_req in F2. destruct F1 as [c [A1 V1]]. destruct F2 as [s [A2 V2]].
    apply valid_integer in V1. apply valid_string in V2. destruct V1 as [z [-> Hz]]. destruct V2 as [s' ->].
    split; [exists z; auto | exists s'; exact A2].
  - intros [m [-> [ND [OK [[z [A1 Hz]] [s A2]]]]]]. apply (lit_fields _ m nodup_error); [discriminate|].
    split; [exact ND|]. split; [exact OK|]. unfold error_fields. repeat constructor.
    + apply field_req. exists (JInt z). split; [exact A1 | constructor; exact Hz].
    + apply field_req. exists (JStr s). split; [exact A2 | constructor].
    + apply field_opt. intros v _. apply v_any.
Qed.

Lemma nodup_msg_fields k : NoDup (map fname (msg_fields k)).
Proof.
  apply nodupb_NoDup. destruct k as [r|r|n]; cbn; try reflexivity.
  - destruct (r_params r); reflexivity.
  - destruct (n_params n); reflexivity.
Qed.
Lemma msg_fields_ne k : msg_fields k <> [].
Proof. destruct k; discriminate. Qed.

Lemma params_name p : fname (f_params p) = "params".
Proof. destruct p; reflexivity. Qed.

(* the direct specification and the literal-type encoding coincide *)
Theorem msg_valid_iff k j : msg_valid k j <-> valid (msg_ty k) j.
Proof.
  unfold msg_ty. split.
  - intros V. destruct V as [r m ND OK J I M P | n m ND OK J M P | r m ND OK J I R E];
      apply lit_fields; try apply nodup_msg_fields; try apply msg_fields_ne;
      (split; [exact ND|]); (split; [cbn; rewrite ?params_name; exact OK|]); cbn [msg_fields]; repeat constructor.
    + apply field_jsonrpc; exact J.
    + apply field_id; exact I.
    + apply field_method; exact M.
    + apply field_params; exact P.
    + apply field_jsonrpc; exact J.
    + apply field_method; exact M.
    + apply field_params; exact P.
    + apply field_jsonrpc; exact J.
    + apply field_id; exact I.
    + apply field_opt; exact R.
    + apply field_opt. intros e A. apply valid_error. apply E. exact A.
  - intros V. destruct (valid_lit_inv _ _ (msg_fields_ne k) V) as [m [-> _]].
    apply (lit_fields _ m (nodup_msg_fields k) (msg_fields_ne k)) in V. destruct V as [ND [OK FF]].
    destruct k as [r|r|n]; cbn [msg_fields] in FF, OK.
    + inversion FF as [|? ? F1 FF1]; subst. inversion FF1 as [|? ? F2 FF2]; subst.
      inversion FF2 as [|? ? F3 FF3]; subst. inversion FF3 as [|? ? F4 _]; subst.
      cbn in OK. rewrite params_name in OK.
      apply mv_request; [exact ND | exact OK | apply field_jsonrpc; exact F1 | apply field_id; exact F2
                         | apply field_method; exact F3 | apply field_params; exact F4].
    + inversion FF as [|? ? F1 FF1]; subst. inversion FF1 as [|? ? F2 FF2]; subst.
      inversion FF2 as [|? ? F3 FF3]; subst. inversion FF3 as [|? ? F4 _]; subst.
      apply mv_response; [exact ND | exact OK | apply field_jsonrpc; exact F1 | apply field_id; exact F2
                          | apply field_opt; exact F3 |].
      intros e A. apply valid_error. apply (proj1 (field_opt _ _ _) F4). exact A.
    + inversion FF as [|? ? F1 FF1]; subst. inversion FF1 as [|? ? F2 FF2]; subst. inversion FF2 as [|? ? F3 _]; subst.
      cbn in OK. rewrite params_name in OK.
      apply mv_notification; [exact ND | exact OK | apply field_jsonrpc; exact F1 | apply field_method; exact F2
                              | apply field_params; exact F3].
Qed.

(* ---------------------------------------------------------------- the verified checkers *)
Definition msg_valid_b (n : nat) (k : msg) (j : json) : bool := valid_b mm n (msg_ty k) j.
Definition msg_valid_d (n : nat) (k : msg) (j : json) : option bool := valid_d mm n (msg_ty k) j.

Theorem msg_valid_b_sound n k j : msg_valid_b n k j = true -> msg_valid k j.
Proof. intros H. apply msg_valid_iff. exact (valid_b_sound mm n _ _ H). Qed.
Theorem msg_valid_b_mono n m k j : n <= m -> msg_valid_b n k j = true -> msg_valid_b m k j = true.
Proof. apply valid_b_mono. Qed.
Theorem msg_valid_b_complete : mm_wf mm = true -> forall k j, msg_valid k j -> exists n, msg_valid_b n k j = true.
Proof. intros WF k j V. apply msg_valid_iff in V. exact (valid_b_complete mm WF _ _ V). Qed.
Theorem msg_valid_d_correct : mm_wf mm = true -> forall n k j b, msg_valid_d n k j = Some b -> (msg_valid k j <-> b = true).
Proof. intros WF n k j b R. rewrite msg_valid_iff. exact (valid_d_correct mm WF n _ _ b R). Qed.

(* ---------------------------------------------------------------- what is evaluated on each vector *)
(* code: 0 label agrees with the verdict; 1 label True but invalid; 2 label False but valid; 3 fuel exhausted; 4 unknown class *)
Definition vector_code (fuel : nat) (cls : string) (label : bool) (j : json) : nat :=
  match find_msg mm cls with
  | None => 4
  | Some k => match msg_valid_d fuel k j with
              | None => 3
              | Some b => if Bool.eqb b label then 0 else if label then 1 else 2 end end.

Theorem vector_code_0 : mm_wf mm = true -> forall fuel cls label j, vector_code fuel cls label j = 0 ->
  exists k, find_msg mm cls = Some k /\ (msg_valid k j <-> label = true).
Proof.
  intros WF fuel cls label j H. unfold vector_code in H. destruct (find_msg mm cls) as [k|]; [|discriminate].
  exists k. split; [reflexivity|]. destruct (msg_valid_d fuel k j) as [b|] eqn:R; [|discriminate].
  destruct (Bool.eqb b label) eqn:E; [|destruct label; discriminate]. apply Bool.eqb_prop in E. subst.
  exact (msg_valid_d_correct WF fuel k j label R).
Qed.
Theorem vector_code_mislabelled : mm_wf mm = true -> forall fuel cls label j c, vector_code fuel cls label j = c -> (c = 1 \/ c = 2) ->
  exists k, find_msg mm cls = Some k /\ ~ (msg_valid k j <-> label = true).
Proof.
  intros WF fuel cls label j c H C. unfold vector_code in H. destruct (find_msg mm cls) as [k|]; [|destruct C; congruence].
  exists k. split; [reflexivity|]. destruct (msg_valid_d fuel k j) as [b|] eqn:R; [|destruct C; congruence].
  pose proof (msg_valid_d_correct WF fuel k j b R) as Q.
  destruct (Bool.eqb b label) eqn:E; [destruct C; congruence|]. apply Bool.eqb_false_iff in E.
  intros Q'. apply E. destruct b, label; try reflexivity.
  - symmetry. apply Q'. apply Q. reflexivity.
  - apply Q. apply Q'. reflexivity.
Qed.
End Strict.
