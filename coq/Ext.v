(* Ext.v — forward compatibility at every depth (property C15) for the covered part of a package table.
   [xt P j j']: j' is j with properties outside the declared-name list D added — at any position among the members — to objects that
   sit where the annotation P says a protocol object (a generated class) is — at any depth, through arrays, maps, class attributes and unions (at a union the
   extension has to be an extension for every alternative the value is valid for; inside LSPAny / LSPObject payloads and tuples
   nothing is added: what is added there is data, not an unknown property).
   [ext_inv]: for every covered annotation P, every Python-valid j and every such j', structuring j' gives, for all sufficiently
   large fuels, exactly what structuring j gives.  [ext_same_result] combines it with HookFrag.covered_roundtrip: both succeed with
   the SAME value, whose serialisation is j up to nulls.  The proof follows parse_good (strong induction on the size of j, unions
   after non-unions); hooks: the leaf the shape analysis finds for j is the leaf for j' ([sleaf_mono]: the probed keys are declared
   names, the kinds of the members do not change), and what the leaf structures is again an extension. *)
From Coq Require Import Lia.
From LSP Require Import Base Sem SemThy Denote PtyEq RoundTrip HookFrag.

Lemma uniform {A} (Q : A -> nat -> Prop) (l : list A) : (forall x, In x l -> exists n0, forall n, n0 <= n -> Q x n) ->
  exists N, forall n, N <= n -> forall x, In x l -> Q x n.
Proof.
  induction l as [|a l IH]; intros H; [exists 0; intros n _ x []|].
  destruct (H a (or_introl eq_refl)) as [n1 H1]. destruct (IH (fun x I => H x (or_intror I))) as [n2 H2].
  exists (Nat.max n1 n2). intros n Ln x [<-|I]; [apply H1; lia | apply H2; [lia | exact I]].
Qed.
Lemma uniform2 {A B} (R : A -> B -> Prop) (Q : A -> B -> nat -> Prop) l l' : Forall2 R l l' ->
  (forall x y, In x l -> R x y -> exists n0, forall n, n0 <= n -> Q x y n) ->
  exists N, forall n, N <= n -> Forall2 (fun x y => Q x y n) l l'.
Proof.
  induction 1 as [|x y l l' Rxy F IH]; intros H; [exists 0; intros; constructor|].
  destruct (H x y (or_introl eq_refl) Rxy) as [n1 H1]. destruct (IH (fun a b I r => H a b (or_intror I) r)) as [n2 H2].
  exists (Nat.max n1 n2). intros n Ln. constructor; [apply H1; lia | apply H2; lia].
Qed.
Lemma mapM_F2 {A B} (f g : A -> res B) l l' : Forall2 (fun x y => g y = f x) l l' -> mapM g l' = mapM f l.
Proof. induction 1 as [|x y l l' E F IH]; [reflexivity|]. cbn [mapM]. rewrite E, IH. reflexivity. Qed.
Lemma F2_inst {A B C} (R : C -> C -> A -> B -> Prop) la lb : Forall2 (fun x y => forall o o', R o o' x y) la lb -> forall o o', Forall2 (R o o') la lb.
Proof. induction 1; intros o o'; constructor; auto. Qed.
Lemma F2_eq {A} (l l' : list A) : Forall2 (fun x y => y = x) l l' -> l' = l.
Proof. induction 1 as [|x y l l' E F IH]; [reflexivity|]. subst. reflexivity. Qed.
Lemma F2_keys {A} (Q : string * A -> string * A -> Prop) m m2 : Forall2 (fun a b => fst a = fst b /\ Q a b) m m2 -> keys m2 = keys m.
Proof. induction 1 as [|a b m m2 [E _] F IH]; [reflexivity|]. unfold keys in *. cbn [map]. rewrite IH, E. reflexivity. Qed.
Lemma F2_assoc {A} (Q : string * A -> string * A -> Prop) m m2 k : Forall2 (fun a b => fst a = fst b /\ Q a b) m m2 ->
  forall v, assoc k m = Some v -> exists v', assoc k m2 = Some v' /\ Q (k, v) (k, v').
Proof.
  unfold assoc. induction 1 as [|[ka va] [kb vb] m m2 [E q] F IH]; intros v; [discriminate|]. cbn [find fst] in *. subst kb.
  destruct (String.eqb_spec ka k) as [->|N]; cbn [option_map snd].
  - intros [= <-]. exists vb. split; [reflexivity | exact q].
  - exact (IH v).
Qed.
Lemma assoc_app_l {A} k (m ex : list (string * A)) v : assoc k m = Some v -> assoc k (m ++ ex) = Some v.
Proof.
  unfold assoc. induction m as [|[a b] m IH]; [discriminate|]. cbn [app find fst]. destruct (String.eqb a k); [exact (fun H => H) | exact IH].
Qed.
Lemma match_nonnull {A} (j : json) (a b : A) : j <> JNull ->
  match j with JNull => a | _ => b end = b.
Proof. destruct j; try reflexivity. intros H. contradiction. Qed.

Section Ext.
Variable Sg : sigma.
Variable py_str : json -> string.
Variable NL : string -> string -> bool.
Variable GC : list string.
Variable GU : list pty.
Variable D : list string.          (* the declared names: a key outside D is an unknown property *)
Notation structure := (structure Sg py_str).
Notation pvalid := (pvalid Sg NL).
Notation okty := (okty Sg GC GU).

(* the declared part of an object: its members whose names are declared, in order; everything else is an unknown property *)
Definition kn (m : list (string * json)) : list (string * json) := filter (fun kv => mem (fst kv) D) m.

Inductive xt : pty -> json -> json -> Prop :=
| xt_refl P j : xt P j j
| xt_seq t l l' : Forall2 (xt t) l l' -> xt (PySeq t) (JArr l) (JArr l')
| xt_dict k v m m' : Forall2 (fun a b => fst a = fst b /\ xt v (snd a) (snd b)) m m' -> xt (PyDict k v) (JObj m) (JObj m')
| xt_cls c fs m m' : lookup_cls Sg c = Some fs ->
    Forall2 (fun a b => fst a = fst b /\ forall f, In f fs -> fwire f = fst a -> xt (ftype f) (snd a) (snd b)) m (kn m') ->
    xt (PyCls c) (JObj m) (JObj m')
| xt_union ms j j' : (forall t, In t ms -> pvalid t j -> xt t j j') -> xt (PyUnion ms) j j'.

Definition Inv (P : pty) (j j' : json) : Prop := exists n0, forall n, n0 <= n -> structure n P j' = structure n P j.
Lemma inv_refl P j : Inv P j j. Proof. exists 0. reflexivity. Qed.

(* an extension keeps the kind of the value (and the text of a string) *)
Lemma xt_kinfo_nu P v v' : nonunion P = true -> xt P v v' -> kinfo_of v' = kinfo_of v.
Proof. intros NU X. inversion X; subst; try reflexivity. discriminate. Qed.
Lemma xt_kinfo P v : pvalid P v -> forall v', xt P v v' -> kinfo_of v' = kinfo_of v.
Proof.
  induction 1 as [j | n0 j | | z | s | b | z | n0 d | l s Il | e d j Le Pj Hm | t l HL | ts l HF | kt v m ND HM E | c fs m L ND HP HR | ms t j It Ht IH];
    intros v' X; try (eapply xt_kinfo_nu; [|exact X]; reflexivity).
  inversion X as [| | | |ms0 j0 j0' U]; subst; [reflexivity|]. exact (IH v' (U t It Ht)).
Qed.

Lemma assoc_kn k m' : mem k D = true -> assoc k (kn m') = assoc k m'.
Proof.
  intros M. unfold assoc, kn. induction m' as [|[a b] m' IH]; [reflexivity|]. cbn [filter fst find].
  destruct (mem a D) eqn:MA; cbn [find fst].
  - destruct (String.eqb a k); [reflexivity | exact IH].
  - destruct (String.eqb_spec a k) as [->|N]; [congruence | exact IH].
Qed.
Lemma mem_kn k m' : mem k D = true -> mem k (keys (kn m')) = mem k (keys m').
Proof.
  intros M. unfold keys, kn, mem. induction m' as [|[a b] m' IH]; [reflexivity|]. cbn [filter fst map existsb].
  destruct (existsb (String.eqb a) D) eqn:MA; cbn [map existsb fst].
  - rewrite IH. reflexivity.
  - rewrite IH. destruct (String.eqb_spec k a) as [->|N]; [unfold mem in M; congruence | reflexivity].
Qed.
(* facts about an object and an extension of it *)
Lemma mem_ext (Q : string * json -> string * json -> Prop) m m' k :
  Forall2 (fun a b => fst a = fst b /\ Q a b) m (kn m') -> mem k D = true -> mem k (keys m') = mem k (keys m).
Proof. intros F M. rewrite <- (mem_kn k m' M), (F2_keys _ _ _ F). reflexivity. Qed.
Lemma assoc_ext_some (Q : string * json -> string * json -> Prop) m m' k v :
  Forall2 (fun a b => fst a = fst b /\ Q a b) m (kn m') -> mem k D = true -> assoc k m = Some v ->
  exists v', assoc k m' = Some v' /\ Q (k, v) (k, v').
Proof. intros F M A. destruct (F2_assoc _ _ _ k F v A) as [v' [A' q]]. exists v'. split; [rewrite <- (assoc_kn k m' M); exact A' | exact q]. Qed.
Lemma assoc_ext_none (Q : string * json -> string * json -> Prop) m m' k :
  Forall2 (fun a b => fst a = fst b /\ Q a b) m (kn m') -> mem k D = true -> assoc k m = None -> assoc k m' = None.
Proof. intros F M A. rewrite <- (assoc_kn k m' M). apply assoc_none. rewrite (F2_keys _ _ _ F). apply assoc_none. exact A. Qed.

(* one attribute reads the same from the extended object *)
Lemma sfield_ext rec m m' f : mem (fwire f) (keys m') = mem (fwire f) (keys m) ->
  (forall v, assoc (fwire f) m = Some v -> exists v', assoc (fwire f) m' = Some v' /\ rec (ftype f) v' = rec (ftype f) v) ->
  (assoc (fwire f) m = None -> assoc (fwire f) m' = None) ->
  sfield rec (JObj m') f = sfield rec (JObj m) f.
Proof.
  intros K H HN. unfold sfield.
  assert (AS : match assoc (fwire f) m with
               | Some v => exists v', assoc (fwire f) m' = Some v' /\ rec (ftype f) v' = rec (ftype f) v
               | None => assoc (fwire f) m' = None end).
  { destruct (assoc (fwire f) m) as [v|] eqn:A; [exact (H v eq_refl) | exact (HN eq_refl)]. }
  assert (PI : py_in (fwire f) (JObj m') = py_in (fwire f) (JObj m)) by (cbn [py_in]; rewrite K; reflexivity).
  destruct (fdefault f).
  - destruct (assoc (fwire f) m) as [v|]; [destruct AS as [v' [-> ->]]; reflexivity | rewrite AS; reflexivity].
  - rewrite PI. destruct (py_in (fwire f) (JObj m)) as [[|]| |]; cbn [bind]; try reflexivity.
    destruct (assoc (fwire f) m) as [v|]; [destruct AS as [v' [-> ->]]; reflexivity | rewrite AS; reflexivity].
  - rewrite PI. destruct (py_in (fwire f) (JObj m)) as [[|]| |]; cbn [bind]; try reflexivity.
    destruct (assoc (fwire f) m) as [v|]; [destruct AS as [v' [-> ->]]; reflexivity | rewrite AS; reflexivity].
Qed.

Lemma reval_map rec body l : reval py_str rec (RMap HObj body) (JArr l) None = do l' <- mapM (fun x => reval py_str rec body (JArr l) (Some x)) l; Ok (VList l').
Proof. reflexivity. Qed.

(* the leaf found for a first element whose probed keys are the ones of m0 *)
Lemma leaf_unk h (K : list string) m' r :
  sleaf h (ShArr (Some (ShObj (rep_unk (filter (fun k => mem k K) (hprobes h)))))) = Some r ->
  (forall k, In k (hprobes h) -> mem k (keys m') = mem k K) ->
  sleaf h (ShArr (Some (shape_of (JObj m')))) = Some r.
Proof.
  intros LF HK. cbn [shape_of]. set (P := hprobes h) in *. set (S0 := filter (fun k => mem k K) P) in *.
  assert (RF : Refines P (rep_unk S0) (map (fun kv => (fst kv, kinfo_of (snd kv))) m')); [split | exact (proj2 (sleaf_mono h _ _ RF) _ LF)].
  - intros k Ik. unfold rep_unk. rewrite map_fst_map_key, map_fst_map_snd. rewrite (HK k Ik). apply memK_filter. exact Ik.
  - intros k a As. unfold rep_unk in As. rewrite assoc_map_key in As. destruct (mem k S0) eqn:MS; [|discriminate]. inversion As; subst a.
    assert (Ik : In k P) by (apply mem_in in MS; apply filter_In in MS; tauto).
    apply (memK_filter_sub NL) in MS. rewrite <- (HK k Ik) in MS. apply mem_in in MS. destruct (in_keys_assoc k m' MS) as [v Av].
    exists (kinfo_of v). split; [rewrite assoc_map_snd, Av; reflexivity | reflexivity].
Qed.

Hypothesis T_extra : forbid_extra Sg = false.
Hypothesis T_wires : forall c fs, mem c GC = true -> lookup_cls Sg c = Some fs -> NoDup (map fwire fs).
Hypothesis T_fields : forall c fs f, mem c GC = true -> lookup_cls Sg c = Some fs -> In f fs -> okty (ftype f) = true.
Hypothesis D_wires : forall c fs f, lookup_cls Sg c = Some fs -> In f fs -> mem (fwire f) D = true.
Hypothesis D_probes : forall u h k, lookup_uhook Sg u = Some h -> In k (hprobes h) -> mem k D = true.

(* ------------------------------------------------------------ hooks *)
Lemma hook_ext ms h : hook_ok Sg NL GC GU ms h = true -> (forall k, In k (hprobes h) -> mem k D = true) ->
  forall j, pvalid (PyUnion ms) j -> forall j', xt (PyUnion ms) j j' ->
  (forall x P' x', jsize x < jsize j -> okty P' = true -> pvalid P' x -> xt P' x x' -> Inv P' x x') ->
  (forall P', nonunion P' = true -> okty P' = true -> pvalid P' j -> xt P' j j' -> Inv P' j j') ->
  exists n0, forall n, n0 <= n -> hrun py_str (structure n) h j' = hrun py_str (structure n) h j.
Proof.
  unfold hook_ok. intros H HPr j V j' X SUB A. apply andb_true_iff in H. destruct H as [_ HM]. rewrite forallb_forall in HM.
  inversion X as [| | | |ms0 j0 j0' U]; subst; [exists 0; reflexivity|].
  inversion V as [| | | | | | | | | | | | | |ms0 t j0 It Vt]; subst ms0 j0. specialize (HM t It). pose proof (U t It Vt) as Xt.
  destruct t; cbn [member_ok] in HM; try discriminate; try (inversion Xt; subst; exists 0; reflexivity).
  - (* PySeq *)
    inversion Vt as [| | | | | | | | | |t0 l Hl| | | |]; subst.
    inversion Xt as [|t0 l1 l' F| | |]; subst; [exists 0; reflexivity|].
    apply andb_true_iff in HM. destruct HM as [HE HN].
    destruct l as [|x0 l0]; [inversion F; subst; exists 0; reflexivity|].
    destruct l' as [|x0' l0']; [inversion F|].
    apply orb_true_iff in HN. destruct HN as [HN|HN].
    + (* no condition looks at the first element *)
      apply andb_true_iff in HN. destruct HN as [IF HN].
      assert (L : sleaf h (shape_of (JArr (x0 :: l0))) = sleaf h (ShArr (Some ShNull))) by (cbn [shape_of]; apply sleaf_idx_free; exact IF).
      assert (L' : sleaf h (shape_of (JArr (x0' :: l0'))) = sleaf h (ShArr (Some ShNull))) by (cbn [shape_of]; apply sleaf_idx_free; exact IF).
      destruct (seq_leaf_cases _ _ _ _ HN) as [[t' [L0 HN']]|[[L0 HN']|[c' [L0 HN']]]]; rewrite L0 in L, L'; clear HN.
      * apply andb_true_iff in HN'. destruct HN' as [E O]. apply pty_eqb_eq in E. subst t'.
        destruct (uniform2 (xt t) (fun x x' n => structure n t x' = structure n t x) _ _ F) as [N HN].
        { intros x x' Ix Xx. apply (SUB x t x'); [apply jsize_in_arr; exact Ix | exact O | exact (Hl x Ix) | exact Xx]. }
        exists N. intros n Ln. rewrite (sleaf_sound _ _ h (JArr (x0 :: l0)) _ L), (sleaf_sound _ _ h (JArr (x0' :: l0')) _ L').
        cbn [reval heval bind iter_json].
        rewrite (mapM_ext _ (structure n t) (x0' :: l0')); [|intros x _; reflexivity].
        rewrite (mapM_ext _ (structure n t) (x0 :: l0)); [|intros x _; reflexivity].
        rewrite (mapM_F2 (structure n t) (structure n t) (x0 :: l0) (x0' :: l0')); [reflexivity | exact (HN n Ln)].
      * apply pty_eqb_eq in HN'. subst t.
        assert (E : x0' :: l0' = x0 :: l0).
        { apply F2_eq. clear -F. induction F as [|x y l l' Xx F IH]; constructor; [inversion Xx; reflexivity | exact IH]. }
        rewrite E. exists 0. reflexivity.
      * destruct t as [| | | | | |ems| | | | | | | |]; try discriminate.
        apply andb_true_iff in HN'. destruct HN' as [EM InG]. rewrite forallb_forall in EM.
        assert (OK' : okty (PyCls c') = true) by (unfold RoundTrip.okty; cbn [flat_ty handled andb]; exact InG).
        set (body := RIf (CIsPrim HItem) (RSelf HItem) (RStruct HItem (PyCls c'))).
        destruct (uniform2 (xt (PyUnion ems)) (fun x x' n => forall o o', reval py_str (structure n) body o' (Some x') = reval py_str (structure n) body o (Some x)) _ _ F) as [N HN].
        { intros x x' Ix Xx. specialize (Hl x Ix).
          inversion Xx as [| | | |ms0 j0 j0' U2]; subst; [exists 0; reflexivity|].
          inversion Hl as [| | | | | | | | | | | | | |ms0 y j0 Iy Vy]; subst. specialize (EM y Iy). pose proof (U2 y Iy Vy) as Xy.
          apply orb_true_iff in EM. destruct EM as [EM|EM].
          - destruct y; try discriminate; inversion Xy; subst; exists 0; reflexivity.
          - apply pty_eqb_eq in EM. subst y.
            destruct (SUB x (PyCls c') x' (jsize_in_arr _ _ Ix) OK' Vy Xy) as [n0 Hn0].
            exists n0. intros n Ln o o'. unfold body. cbn [reval ceval heval bind].
            inversion Vy; subst. inversion Xy; subst; cbn [is_prim]; [reflexivity | apply Hn0; exact Ln]. }
        exists N. intros n Ln. rewrite (sleaf_sound _ _ h (JArr (x0 :: l0)) _ L), (sleaf_sound _ _ h (JArr (x0' :: l0')) _ L').
        rewrite !reval_map. fold body.
        rewrite (mapM_F2 (fun x => reval py_str (structure n) body (JArr (x0 :: l0)) (Some x))
                         (fun x => reval py_str (structure n) body (JArr (x0' :: l0')) (Some x)) (x0 :: l0) (x0' :: l0')); [reflexivity|].
        exact (F2_inst (fun o o' x y => reval py_str (structure n) body o' (Some y) = reval py_str (structure n) body o (Some x)) _ _ (HN n Ln) _ _).
    + (* the element class is decided by the key set of the first element *)
      destruct t as [| | | | | | | | | | | |c| |]; try discriminate.
      destruct (lookup_cls Sg c) as [fs|] eqn:Lc; [|discriminate]. rewrite forallb_forall in HN.
      assert (VA : forall x, In x (x0 :: l0) -> exists m, x = JObj m /\ NoDup (keys m) /\ ValidAt Sg NL c fs m).
      { intros x Ix. specialize (Hl x Ix). inversion Hl as [| | | | | | | | | | | | |c0 fs0 m L0 ND Hp Hr|]; subst.
        rewrite Lc in L0. inversion L0; subst fs0. exists m. split; [reflexivity|]. split; [exact ND | split; assumption]. }
      destruct (VA x0 (or_introl eq_refl)) as [m0 [E0 [ND0 VA0]]]. subst x0.
      set (P := hprobes h) in *. set (S0 := filter (fun k => mem k (keys m0)) P).
      specialize (HN S0 (in_subseqs_filter _ P)). pose proof (consistent_valid Sg NL c fs m0 P VA0) as CO. fold S0 in CO. rewrite CO in HN. cbn [negb orb] in HN.
      destruct (leaf_map_inv _ (fun t' => match t' with PyCls c' => _ | _ => false end) HN) as [t' [LF HN']]. clear HN.
      destruct t' as [| | | | | | | | | | | |c'| |]; try discriminate.
      apply andb_true_iff in HN'. destruct HN' as [IN HC]. apply andb_true_iff in IN. destruct IN as [IN InG]. apply existsb_pty_in in IN.
      destruct (lookup_cls Sg c') as [fs'|] eqn:L'; [|discriminate].
      assert (OK' : okty (PyCls c') = true) by (unfold RoundTrip.okty; cbn [flat_ty handled andb]; exact InG).
      assert (Vc' : forall x, In x (JObj m0 :: l0) -> pvalid (PyCls c') x).
      { intros x Ix. destruct (VA x Ix) as [m [-> [ND VAm]]].
        apply (compat_sound Sg py_str NL c c' fs fs' m _ [] L' ND VAm (required_present Sg NL c fs m VAm)); [intros k [] | exact HC]. }
      pose proof (U (PySeq (PyCls c')) IN (pv_seq Sg NL _ _ Vc')) as X'.
      inversion X' as [|t0 l1 l1' F'| | |]; subst; [exists 0; reflexivity|].
      assert (LK : sleaf h (shape_of (JArr (JObj m0 :: l0))) = Some (RMap HObj (RStruct HItem (PyCls c')))).
      { cbn [shape_of]. apply (leaf_unk h (keys m0) m0 _ LF). intros k _. reflexivity. }
      assert (LK' : sleaf h (shape_of (JArr (x0' :: l0'))) = Some (RMap HObj (RStruct HItem (PyCls c')))).
      { inversion F' as [|a b la lb Xa Fa]; subst. cbn [shape_of].
        inversion Xa as [|  | |c0 fs0 ma m1' L0 Fm|]; subst.
        - apply (leaf_unk h (keys m0) m0 _ LF). intros k _. reflexivity.
        - apply (leaf_unk h (keys m0) m1' _ LF). intros k Ik. apply (mem_ext _ _ _ _ Fm). apply HPr. exact Ik. }
      destruct (uniform2 (xt (PyCls c')) (fun x x' n => structure n (PyCls c') x' = structure n (PyCls c') x) _ _ F') as [N HN].
      { intros x x' Ix Xx. apply (SUB x (PyCls c') x'); [apply jsize_in_arr; exact Ix | exact OK' | exact (Vc' x Ix) | exact Xx]. }
      exists N. intros n Ln. rewrite (sleaf_sound _ _ h _ _ LK), (sleaf_sound _ _ h _ _ LK').
      cbn [reval heval bind iter_json].
      rewrite (mapM_ext _ (structure n (PyCls c')) (x0' :: l0')); [|intros x _; reflexivity].
      rewrite (mapM_ext _ (structure n (PyCls c')) (JObj m0 :: l0)); [|intros x _; reflexivity].
      rewrite (mapM_F2 (structure n (PyCls c')) (structure n (PyCls c')) (JObj m0 :: l0) (x0' :: l0')); [reflexivity | exact (HN n Ln)].
  - (* PyCls *)
    rename n into c. inversion Vt as [| | | | | | | | | | | | |c0 fs m L ND Hp Hr|]; subst c0 j.
    inversion Xt as [| | |c0 fs0 m1 m' L0 Fm|]; subst; [exists 0; reflexivity|].
    rewrite L in L0. inversion L0; subst fs0. clear L0.
    assert (VA : ValidAt Sg NL c fs m) by (split; assumption).
    unfold cls_member_ok in HM. rewrite L in HM. apply andb_true_iff in HM. destruct HM as [NDW HM]. apply nodupb_NoDup in NDW. rewrite forallb_forall in HM.
    set (P := hprobes h) in *. set (S0 := filter (fun k => mem k (keys m)) P).
    specialize (HM S0 (in_subseqs_filter _ P)). pose proof (consistent_valid Sg NL c fs m P VA) as CO. fold S0 in CO. rewrite CO in HM. cbn [negb orb] in HM.
    destruct (sleaf h (ShObj (rep_obj NL c fs S0))) as [r|] eqn:LF; [|discriminate].
    assert (LK : sleaf h (shape_of (JObj m)) = Some r).
    { cbn [shape_of].
      assert (RF : Refines P (rep_obj NL c fs S0) (map (fun kv => (fst kv, kinfo_of (snd kv))) m)); [split | exact (proj1 (sleaf_mono h _ _ RF) _ LF)].
      - intros k Ik. unfold rep_obj. rewrite map_fst_map_key, map_fst_map_snd. apply memK_filter. exact Ik.
      - intros k a As. unfold rep_obj in As. rewrite assoc_map_key in As. destruct (mem k S0) eqn:MS; [|discriminate]. inversion As; subst a.
        apply (memK_filter_sub NL) in MS. apply mem_in in MS. destruct (in_keys_assoc k m MS) as [v Av].
        exists (kinfo_of v). split; [rewrite assoc_map_snd, Av; reflexivity|].
        destruct (Hp k v (assoc_in _ _ _ Av)) as [f [If [Ef [Pf [Jf Nf]]]]].
        unfold finfo. rewrite (find_wire fs k f NDW If Ef).
        assert (KS : kle (kind_of_ty (NL c k) (ftype f)) (kinfo_of v) = true) by (apply (kind_sound Sg NL); [exact Pf | exact Nf]).
        destruct (fval f) as [| | | | | |l] eqn:FV; try exact KS. destruct l as [|s0 [|s1 l]]; try exact KS.
        destruct (fvalopt f) eqn:FO; [exact KS|]. unfold jvalidate in Jf. rewrite FV, FO in Jf.
        destruct v; try discriminate Jf. cbn in Jf. rewrite orb_false_r in Jf. cbn. rewrite String.eqb_sym. exact Jf. }
    assert (LK' : sleaf h (shape_of (JObj m')) = Some r).
    { cbn [shape_of] in *.
      assert (RF : Refines P (map (fun kv => (fst kv, kinfo_of (snd kv))) m) (map (fun kv => (fst kv, kinfo_of (snd kv))) m'));
        [split | exact (proj1 (sleaf_mono h _ _ RF) _ LK)].
      - intros k Ik. rewrite !map_fst_map_snd. symmetry. apply (mem_ext _ _ _ _ Fm). apply HPr. exact Ik.
      - intros k a As. rewrite assoc_map_snd in As. destruct (assoc k m) as [v|] eqn:Av; [|discriminate]. cbn in As. inversion As; subst a.
        destruct (Hp k v (assoc_in _ _ _ Av)) as [f [If [Ef [Pf _]]]].
        assert (MK : mem k D = true) by (rewrite <- Ef; exact (D_wires c fs f L If)).
        destruct (assoc_ext_some _ _ _ k v Fm MK Av) as [v' [Av' Q]]. cbn [fst snd] in Q.
        exists (kinfo_of v'). split; [rewrite assoc_map_snd, Av'; reflexivity|].
        apply kle_refl_of_eq. symmetry. apply (xt_kinfo _ _ Pf). apply Q; assumption. }
    destruct r; try discriminate. destruct e; try discriminate. destruct t; try discriminate. rename n into c'.
    apply andb_true_iff in HM. destruct HM as [IN HM]. apply andb_true_iff in IN. destruct IN as [IN InG]. apply existsb_pty_in in IN.
    destruct (lookup_cls Sg c') as [fs'|] eqn:L'; [|discriminate].
    assert (V' : pvalid (PyCls c') (JObj m)).
    { match type of HM with compat _ _ _ _ _ _ ?pres ?abs = true => apply (compat_sound Sg py_str NL c c' fs fs' m pres abs L' ND VA); [| | exact HM] end.
      - intros k Ik. apply in_app_or in Ik. destruct Ik as [Ik|Ik]; [exact (required_present Sg NL c fs m VA k Ik)|].
        apply mem_in. apply (memK_filter_sub NL P). apply mem_in. exact Ik.
      - intros k Ik Kin. apply filter_In in Ik. destruct Ik as [IkP Ik]. apply negb_true_iff in Ik.
        unfold S0 in Ik. rewrite (memK_filter P _ _ IkP) in Ik. apply mem_in in Kin. congruence. }
    assert (OK' : okty (PyCls c') = true) by (unfold RoundTrip.okty; cbn [flat_ty handled andb]; exact InG).
    destruct (A (PyCls c') eq_refl OK' V' (U (PyCls c') IN V')) as [n0 Hn0].
    exists n0. intros n Ln. rewrite (sleaf_sound _ _ h _ _ LK), (sleaf_sound _ _ h _ _ LK'). cbn [reval heval bind]. apply Hn0. exact Ln.
Qed.

Hypothesis T_hooks : hooks_ok Sg NL GC GU = true.

(* ------------------------------------------------------------ the theorem *)
Theorem ext_inv : forall k j, jsize j <= k -> forall P, okty P = true -> pvalid P j -> forall j', xt P j j' -> Inv P j j'.
Proof.
  induction k as [|k IHk]; intros j Hk; [destruct j; cbn in Hk; lia|].
  assert (SUB : forall x P' x', jsize x < jsize j -> okty P' = true -> pvalid P' x -> xt P' x x' -> Inv P' x x')
    by (intros x P' x' Lx O V X; apply (IHk x); [lia | exact O | exact V | exact X]).
  assert (A : forall P, nonunion P = true -> okty P = true -> pvalid P j -> forall j', xt P j j' -> Inv P j j').
  { intros P NU O V. destruct V as [j | n0 j | | z | s | b | z | n0 d | l s Il | e d j Le Pj Hm | t l HL | ts l HF | kt v m ND HM -> | c fs m L ND HP HR | ms t j It Ht];
      intros j' X; try (inversion X; subst; apply inv_refl); try discriminate.
    - (* PySeq *)
      inversion X as [|t0 l0 l' F| | |]; subst; [apply inv_refl|].
      assert (Ot : okty t = true) by (unfold RoundTrip.okty in *; cbn [flat_ty handled] in O; exact O).
      destruct (uniform2 (xt t) (fun x x' n => structure n t x' = structure n t x) _ _ F) as [N HN].
      { intros x x' Ix Xx. apply (SUB x t x'); [apply jsize_in_arr; exact Ix | exact Ot | exact (HL x Ix) | exact Xx]. }
      exists (S N). intros n Ln. destruct n as [|n]; [lia|]. cbn [Sem.structure step iter_json].
      rewrite (mapM_F2 (structure n t) (structure n t) l l'); [reflexivity | apply HN; lia].
    - (* PyDict *)
      inversion X as [| |k0 v0 m0 m' F| |]; subst; [apply inv_refl|].
      assert (Ov : okty v = true).
      { unfold RoundTrip.okty in *. cbn [flat_ty handled] in O. apply andb_true_iff in O. destruct O as [O1 O2].
        apply andb_true_iff in O1. apply andb_true_iff in O2. rewrite (proj2 O1), (proj2 O2). reflexivity. }
      destruct (uniform2 _ (fun (a b : string * json) n => structure n v (snd b) = structure n v (snd a)) _ _ F) as [N HN].
      { intros a b Ia [E Xab]. destruct a as [ka va]. apply (SUB va v (snd b)); [exact (jsize_in_obj ka va m Ia) | exact Ov | exact (HM ka va Ia) | exact Xab]. }
      exists (S N). intros n Ln. destruct n as [|n]; [lia|]. cbn [Sem.structure step].
      rewrite (mapM_F2 (fun kv => do k' <- structure n PyStr (JStr (fst kv)); do v' <- structure n v (snd kv); Ok (k', v'))
                       (fun kv => do k' <- structure n PyStr (JStr (fst kv)); do v' <- structure n v (snd kv); Ok (k', v')) m m'); [reflexivity|].
      assert (HN' : Forall2 (fun a b : string * json => structure n v (snd b) = structure n v (snd a)) m m') by (apply HN; lia).
      clear -F HN'. induction F as [|a b m m' [E _] F IH]; [constructor|]. inversion HN' as [|? ? ? ? E1 HN1]; subst.
      constructor; [rewrite E, E1; reflexivity | apply IH; exact HN1].
    - (* PyCls *)
      inversion X as [| | |c0 fs0 m1 m' L0 Fm|]; subst; [apply inv_refl|].
      rewrite L in L0. inversion L0; subst fs0. clear L0.
      assert (InG : mem c GC = true) by (unfold RoundTrip.okty in O; cbn [flat_ty handled andb] in O; exact O).
      pose proof (T_wires c fs InG L) as NDW.
      destruct (uniform (fun f n => sfield (structure n) (JObj m') f = sfield (structure n) (JObj m) f) fs) as [N HN].
      { intros f If.
        pose proof (D_wires c fs f L If) as MK.
        destruct (assoc (fwire f) m) as [v|] eqn:Av.
        - destruct (assoc_ext_some _ _ _ (fwire f) v Fm MK Av) as [v' [Av' Q]]. cbn [fst snd] in Q.
          destruct (HP (fwire f) v (assoc_in _ _ _ Av)) as [f' [If' [Ef' [Pf' _]]]].
          assert (f' = f).
          { pose proof (find_wire fs (fwire f) f' NDW If' Ef') as F1. pose proof (find_wire fs (fwire f) f NDW If eq_refl) as F2. congruence. }
          subst f'.
          destruct (SUB v (ftype f) v' (jsize_in_obj _ _ _ (assoc_in _ _ _ Av)) (T_fields c fs f InG L If) Pf' (Q f If eq_refl)) as [n0 Hn0].
          exists n0. intros n Ln. apply sfield_ext; [exact (mem_ext _ _ _ _ Fm MK) | | intros AN; rewrite Av in AN; discriminate].
          intros v0 Av0. rewrite Av in Av0. inversion Av0; subst v0. exists v'. split; [exact Av' | apply Hn0; exact Ln].
        - exists 0. intros n _. apply sfield_ext; [exact (mem_ext _ _ _ _ Fm MK) | intros v0 Av0; rewrite Av in Av0; discriminate | intros _; exact (assoc_ext_none _ _ _ _ Fm MK Av)]. }
      exists (S N). intros n Ln. destruct n as [|n]; [lia|]. cbn [Sem.structure step]. rewrite L.
      rewrite (mapM_ext (sfield (structure n) (JObj m')) (sfield (structure n) (JObj m)) fs); [|intros f If; apply HN; [lia | exact If]].
      rewrite T_extra. reflexivity. }
  intros P O V j' X. destruct (nonunion P) eqn:NU; [exact (A P NU O V j' X)|].
  destruct P as [| | | | | |ms| | | | | | | |]; try discriminate.
  pose proof (okty_flat _ _ _ _ O) as FL. pose proof (okty_handled _ _ _ _ O) as HD. cbn [flat_ty] in FL. cbn [handled] in HD.
  rewrite forallb_forall in FL.
  destruct (lookup_uhook Sg (PyUnion ms)) as [h|] eqn:U.
  - assert (HK : hook_ok Sg NL GC GU ms h = true).
    { unfold hooks_ok in T_hooks. rewrite forallb_forall in T_hooks. apply existsb_pty_in in HD. specialize (T_hooks _ HD). cbn beta iota in T_hooks.
      rewrite U in T_hooks. exact T_hooks. }
    destruct (hook_ext ms h HK (fun k Ik => D_probes _ h k U Ik) j V j' X SUB (fun P' NP OP VP XP => A P' NP OP VP j' XP)) as [n0 Hn0].
    exists (S n0). intros n Ln. destruct n as [|n]; [lia|]. cbn [Sem.structure step]. rewrite U. apply Hn0. lia.
  - assert (OPT : exists x, (ms = [x; PyNone] \/ ms = [PyNone; x]) /\ is_none x = false /\ handled_nu Sg GC GU x = true).
    { destruct ms as [|m1 [|m2 [|m3 mr]]]; try discriminate HD.
      - destruct m1; discriminate HD.
      - destruct m2; destruct m1; try discriminate HD;
          (apply andb_true_iff in HD; destruct HD as [H1 H2]; apply negb_true_iff in H1; try discriminate H1; eauto 8).
      - destruct m1; try discriminate HD; destruct m2; discriminate HD. }
    destruct OPT as [x [Ems [Nx Hx]]].
    assert (Ix : In x ms) by (destruct Ems as [-> | ->]; cbn; auto).
    assert (Ox : okty x = true /\ nonunion x = true).
    { specialize (FL x Ix). apply andb_true_iff in FL. destruct FL as [F1 F2].
      split; [|exact F1]. unfold RoundTrip.okty. rewrite F2. destruct x; try discriminate; cbn [handled handled_nu] in *; exact Hx. }
    destruct Ox as [Ox NUx].
    assert (STEP : forall n y, structure (S n) (PyUnion ms) y = match y with JNull => Ok VNone | _ => structure n x y end).
    { intros n y. cbn [Sem.structure step]. rewrite U. destruct Ems as [-> | ->]; cbn [filter negb is_none]; rewrite Nx; cbn [negb length Nat.eqb]; reflexivity. }
    inversion X as [| | | |ms0 j0 j0' UX]; subst; [apply inv_refl|].
    inversion V as [| | | | | | | | | | | | | |ms' t j0 It Ht]; subst.
    destruct (json_eq_null j) as [-> | Nj].
    + assert (IN : In PyNone ms) by (destruct Ems as [-> | ->]; cbn; auto).
      pose proof (UX PyNone IN (pv_none Sg NL)) as XN. inversion XN; subst. apply inv_refl.
    + assert (t = x). { destruct Ems as [-> | ->]; destruct It as [<-|[<-|[]]]; try reflexivity; inversion Ht; subst; congruence. }
      subst t. pose proof (UX x Ix Ht) as Xx. destruct (A x NUx Ox Ht j' Xx) as [n0 Hn0].
      assert (Nj' : j' <> JNull).
      { intros E. subst j'. pose proof (xt_kinfo_nu _ _ _ NUx Xx) as K. destruct j; try discriminate K. contradiction. }
      exists (S n0). intros n Ln. destruct n as [|n]; [lia|]. rewrite !STEP. rewrite (match_nonnull j _ _ Nj), (match_nonnull j' _ _ Nj'). apply Hn0. lia.
Qed.
End Ext.

(* ---------------------------------------------------------------- with the two table checks: same result, and it serialises to j *)
Section ExtCovered.
Variable Sg : sigma.
Variable py_str : json -> string.
Variable NL : string -> string -> bool.
Variable GC : list string.
Variable GU : list pty.
Variable D : list string.

Definition names_declared : bool :=
  forallb (fun c => subset (map fwire (snd c)) D) (classes Sg) && forallb (fun uh => subset (hprobes (snd uh)) D) (uhooks Sg).

Lemma subset_mem a b x : subset a b = true -> In x a -> mem x b = true.
Proof. unfold subset. rewrite forallb_forall. intros H I. exact (H x I). Qed.

Theorem ext_same_result : table_ok Sg GC GU = true -> hooks_ok Sg NL GC GU = true -> names_declared = true ->
  forall P j, okty Sg GC GU P = true -> pvalid Sg NL P j -> forall j', xt Sg NL D P j j' ->
  exists n o jj, structure Sg py_str n P j = Ok o /\ structure Sg py_str n P j' = Ok o /\ has_type Sg P o /\
                 unstr Sg n (Some P) o = Ok jj /\ NEq j jj.
Proof.
  intros T H ND P j O V j' X. destruct (table_ok_sound Sg py_str GC GU T) as [T1 [T2 [T3 [T4 T5]]]].
  unfold names_declared in ND. apply andb_true_iff in ND. destruct ND as [N1 N2]. rewrite forallb_forall in N1, N2.
  destruct (covered_roundtrip Sg py_str NL GC GU T H P j O V) as [n1 [o [jj [S1 [Ty [U1 Ne]]]]]].
  destruct (ext_inv Sg py_str NL GC GU D T1 (fun c fs G L => proj1 (T2 c fs G L)) T5) with (k := jsize j) (j := j) (P := P) (j' := j') as [n0 Hn0]; auto.
  - intros c fs f L If. apply (subset_mem (map fwire fs) D); [exact (N1 (c, fs) (lookup_in Sg c fs L)) | apply in_map; exact If].
  - intros u h k L Ik. unfold lookup_uhook in L. destruct (find (fun c => pty_eqb (fst c) u) (uhooks Sg)) as [[u' h']|] eqn:F; [|discriminate].
    cbn in L. inversion L; subst h'. apply find_some in F. destruct F as [I _]. exact (subset_mem _ D k (N2 _ I) Ik).
  - exists (Nat.max n0 n1), o, jj. split; [eapply structure_mono_le; [|exact S1]; lia|].
    split; [rewrite Hn0; [eapply structure_mono_le; [|exact S1]; lia | lia]|]. split; [exact Ty|]. split; [eapply unstr_mono_le; [|exact U1]; lia | exact Ne].
Qed.
End ExtCovered.
