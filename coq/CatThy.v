(* CatThy.v — what the catalogue checker means (reflection lemmas). *)
From LSP Require Import Base MM Sem Catalog Image ImageThy CatSpec.

Section T.
Variable mm : MM.
Variable Sg : sigma.
Variable alias_objects : list (string * pty).
Variable catalogue : list catrow.
Variable method_constants : list (string * string).
Variable registry_names : list string.
Variable defined_types : list string.
Notation Wc := (W_cat mm Sg alias_objects catalogue method_constants registry_names defined_types).

Ltac split_apps H := repeat match type of H with _ ++ _ = [] => apply app_nil_both in H; let H1 := fresh "H" in destruct H as [H1 H] end.

Record RequestSpec (r : request) : Prop := {
  rq_row : exists row, row_of catalogue (r_method r) = Some row /\
    (exists c, cm_cls row = Some c /\ request_class_ok mm Sg alias_objects c r = true) /\
    (exists c, cm_resp row = Some c /\ response_class_ok mm Sg alias_objects c r = true) /\
    opt_ty_ok mm Sg alias_objects (r_params r) (cm_params row) = true /\
    opt_ty_ok mm Sg alias_objects (r_regopts r) (cm_regopts row) = true /\
    cm_dir row = Some (dir_str (r_dir r));
  rq_const : has_constant method_constants (r_method r) = true }.

Lemma cat_parts : Wc = true ->
  (forall r, In r (requests mm) -> request_why mm Sg alias_objects catalogue method_constants r = []) /\
  (forall n, In n (notifications mm) -> notification_why mm Sg alias_objects catalogue method_constants n = []) /\
  converse_why mm catalogue method_constants = [] /\
  registry_why Sg alias_objects registry_names defined_types = [].
Proof.
  unfold W_cat, cat_why. intros H. apply is_nil_b_nil in H.
  apply app_nil_both in H. destruct H as [H1 H]. apply app_nil_both in H. destruct H as [H2 H]. apply app_nil_both in H. destruct H as [H3 H4].
  split; [|split; [|split]]; auto.
  - intros r I. exact (flat_map_nil _ _ H1 r I).
  - intros n I. exact (flat_map_nil _ _ H2 n I).
Qed.

Theorem W_cat_requests : Wc = true -> forall r, In r (requests mm) -> RequestSpec r.
Proof.
  intros H r I. destruct (cat_parts H) as [HR _]. specialize (HR r I). unfold request_why in HR.
  destruct (row_of catalogue (r_method r)) as [row|] eqn:E; [|discriminate].
  repeat match type of HR with _ ++ _ = [] => apply app_nil_both in HR; let H1 := fresh "P" in destruct HR as [H1 HR] end.
  constructor.
  - exists row. split; [first [exact E | reflexivity]|]. repeat split.
    + destruct (cm_cls row) as [c|]; [|discriminate]. exists c. split; [reflexivity|].
      destruct (request_class_ok mm Sg alias_objects c r); [reflexivity | discriminate].
    + destruct (cm_resp row) as [c|]; [|discriminate]. exists c. split; [reflexivity|].
      destruct (response_class_ok mm Sg alias_objects c r); [reflexivity | discriminate].
    + destruct (opt_ty_ok mm Sg alias_objects (r_params r) (cm_params row)); [reflexivity | discriminate].
    + destruct (opt_ty_ok mm Sg alias_objects (r_regopts r) (cm_regopts row)); [reflexivity | discriminate].
    + destruct (cm_dir row) as [d|]; [|discriminate]. destruct (String.eqb_spec d (dir_str (r_dir r))); [congruence | discriminate].
  - destruct (has_constant method_constants (r_method r)); [reflexivity | discriminate].
Qed.

Theorem W_cat_notifications : Wc = true -> forall n, In n (notifications mm) ->
  exists row, row_of catalogue (n_method n) = Some row /\
    (exists c, cm_cls row = Some c /\ notification_class_ok mm Sg alias_objects c n = true) /\ cm_resp row = None /\
    opt_ty_ok mm Sg alias_objects (n_params n) (cm_params row) = true /\
    opt_ty_ok mm Sg alias_objects (n_regopts n) (cm_regopts row) = true /\
    cm_dir row = Some (dir_str (n_dir n)) /\ has_constant method_constants (n_method n) = true.
Proof.
  intros H n I. destruct (cat_parts H) as [_ [HN _]]. specialize (HN n I). unfold notification_why in HN.
  destruct (row_of catalogue (n_method n)) as [row|] eqn:E; [|discriminate].
  repeat match type of HN with _ ++ _ = [] => apply app_nil_both in HN; let H1 := fresh "P" in destruct HN as [H1 HN] end.
  exists row. split; [first [exact E | reflexivity]|]. repeat split.
  - destruct (cm_cls row) as [c|]; [|discriminate]. exists c. split; [reflexivity|].
    destruct (notification_class_ok mm Sg alias_objects c n); [reflexivity | discriminate].
  - destruct (cm_resp row); [discriminate | reflexivity].
  - destruct (opt_ty_ok mm Sg alias_objects (n_params n) (cm_params row)); [reflexivity | discriminate].
  - destruct (opt_ty_ok mm Sg alias_objects (n_regopts n) (cm_regopts row)); [reflexivity | discriminate].
  - destruct (cm_dir row) as [d|]; [|discriminate]. destruct (String.eqb_spec d (dir_str (n_dir n))); [congruence | discriminate].
  - destruct (has_constant method_constants (n_method n)); [reflexivity | discriminate].
Qed.

(* "and for nothing else": every catalogue row and every exported constant is a metamodel method; one row per method *)
Theorem W_cat_nothing_else : Wc = true ->
  (forall row, In row catalogue -> In (cm_method row) (mm_methods mm)) /\ NoDup (map cm_method catalogue) /\
  (forall c, In c method_constants -> In (snd c) (mm_methods mm)).
Proof.
  intros H. destruct (cat_parts H) as [_ [_ [HC _]]]. unfold converse_why in HC.
  apply app_nil_both in HC. destruct HC as [H1 HC]. apply app_nil_both in HC. destruct HC as [H2 H3].
  repeat split.
  - intros row I. pose proof (flat_map_nil _ _ H1 row I) as X. cbv beta in X.
    destruct (mem (cm_method row) (mm_methods mm)) eqn:E; [apply mem_in; exact E | discriminate].
  - destruct (nodupb (map cm_method catalogue)) eqn:E; [apply nodupb_NoDup; exact E | discriminate].
  - intros c I. pose proof (flat_map_nil _ _ H3 c I) as X. cbv beta in X.
    destruct (mem (snd c) (mm_methods mm)) eqn:E; [apply mem_in; exact E | discriminate].
Qed.

Theorem W_cat_registry : Wc = true ->
  forall n, In n (defined_types ++ map fst (classes Sg) ++ map ename (enums Sg) ++ map fst alias_objects) -> In n registry_names.
Proof.
  intros H n I. destruct (cat_parts H) as [_ [_ [_ HR]]]. unfold registry_why in HR.
  pose proof (flat_map_nil _ _ HR n I) as X. cbv beta in X.
  destruct (mem n registry_names) eqn:E; [apply mem_in; exact E | discriminate].
Qed.
End T.
