(* Property C11 — spec-invalid single-field deviations are rejected, never silently repaired.
   Generic rejection theorems of LSP.SemThy (for every table, callback and fuel) instantiated through an eligibility table
   computed from the CURRENT metamodel and package tables: every eligible (structure, property) has the field shape the
   generic theorem needs.  "Any valid surrounding value": the theorems hold for EVERY object m carrying the edited key. *)
From Coq Require Import Lia.
From LSP Require Import Base MM Sem SemThy Image ImageThy.
Open Scope Z_scope. Open Scope nat_scope.
From Gen Require Import MMData PkgData.

Section AnyStr.
Variable pystr0 : json -> string.    (* str() of non-strings: the theorems hold whatever it returns *)

(* eligibility, from the metamodel *)
Definition elig_required (q : prop) : bool := negb (is_optional q) && match p_type q with TStrLit _ => false | _ => true end.
Definition elig_int (q : prop) : option vkind := match p_type q with TBase BInteger => Some VInteger | TBase BUInteger => Some VUInteger | _ => None end.
Definition elig_enum (q : prop) : option enumeration :=
  match p_type q with TRef n => match find_enum mm n with Some e => if enum_open e then None else Some e | None => None end | _ => None end.
Definition elig_lit (q : prop) : option string := match p_type q with TStrLit s => Some s | _ => None end.

Definition evals_match (e : enumeration) : bool :=
  match lookup_enum Sg (e_name e) with
  | Some d => pvl_eqb (evals d) (map (fun x => evalue_pv (snd (fst x))) (e_values e)) | None => false end.

Definition field_elig_ok (q : prop) (f : fld) : bool :=
  (if elig_required q then dflt_eqb (fdefault f) NoDefault else true)
  && (match elig_int q with Some k => direct_b Sg (ftype f) PyInt && vkind_eqb (fval f) k | None => true end)
  && (match elig_enum q with Some e => direct_b Sg (ftype f) (PyEnum (e_name e)) && evals_match e | None => true end)
  && (match elig_lit q with Some s => pty_eqb (ftype f) PyStr && vkind_eqb (fval f) (VIn [s]) | None => true end).
Definition c11_ok (s : MM.structure) (q : prop) : bool :=
  match assoc (s_name s) (classes Sg) with
  | None => String.eqb (s_name s) "LSPObject"
  | Some fs => match find (fun f => String.eqb (fwire f) (p_name q)) fs with Some f => field_elig_ok q f | None => false end end.

Theorem C11_eligibility_table : forallb (fun s => forallb (c11_ok s) (flat mm (s_name s))) (structures mm) = true.
Proof. vm_compute. reflexivity. Qed.

Lemma table_field s q fs : In s (structures mm) -> In q (flat mm (s_name s)) -> assoc (s_name s) (classes Sg) = Some fs ->
  exists f, In f fs /\ fwire f = p_name q /\ field_elig_ok q f = true.
Proof.
  intros Is Iq A. pose proof C11_eligibility_table as T. rewrite forallb_forall in T. specialize (T s Is).
  rewrite forallb_forall in T. specialize (T q Iq). unfold c11_ok in T. rewrite A in T.
  destruct (find (fun f => String.eqb (fwire f) (p_name q)) fs) as [f|] eqn:F; [|discriminate].
  apply find_some in F. destruct F as [If E]. apply String.eqb_eq in E. exists f. auto.
Qed.
Ltac unpack H := unfold field_elig_ok in H; repeat (apply andb_true_iff in H; let H' := fresh "K" in destruct H as [H H']).

(* 1. removing a required property (not optional, not null-admitting, not a string literal) *)
Theorem C11_missing_required : forall s q fs m n o,
  In s (structures mm) -> In q (flat mm (s_name s)) -> assoc (s_name s) (classes Sg) = Some fs ->
  elig_required q = true -> assoc (p_name q) m = None ->
  structure Sg pystr0 n (PyCls (s_name s)) (JObj m) <> Ok o.
Proof.
  intros s q fs m n o Is Iq A El Ab. destruct (table_field s q fs Is Iq A) as [f [If [W T]]]. unpack T. rewrite El in T.
  apply ImageThy.dflt_eqb_eq in T. destruct n as [|n]; [discriminate|]. cbn [structure].
  eapply reject_missing_required; eauto. rewrite W. exact Ab.
Qed.

(* 2. an integer / uinteger property replaced by a number outside its range *)
Theorem C11_int_out_of_range : forall s q fs m n o k z,
  In s (structures mm) -> In q (flat mm (s_name s)) -> assoc (s_name s) (classes Sg) = Some fs ->
  elig_int q = Some k -> (match k with VUInteger => uint31 z | _ => int32 z end) = false ->
  assoc (p_name q) m = Some (JInt z) ->
  structure Sg pystr0 n (PyCls (s_name s)) (JObj m) <> Ok o.
Proof.
  intros s q fs m n o k z Is Iq A El R Pr. destruct (table_field s q fs Is Iq A) as [f [If [W T]]]. unpack T. rewrite El in K1.
  apply andb_true_iff in K1. destruct K1 as [D V]. apply ImageThy.vkind_eqb_eq in V.
  assert (Kk : k = VInteger \/ k = VUInteger) by (unfold elig_int in El; destruct (p_type q) as [[]| | | | | | | | | |]; inversion El; auto).
  eapply reject_int_range; eauto.
  - apply direct_b_sound; [reflexivity | exact D].
  - rewrite V. destruct Kk as [-> | ->]; exact R.
  - rewrite W. exact Pr.
Qed.

(* 3. a closed-enumeration property replaced by a value of the base type outside the enumeration *)
Definition outside (e : enumeration) (j : json) : Prop :=
  match j with
  | JStr s => forall x, In x (e_values e) -> snd (fst x) <> EVStr s
  | JInt z => forall x, In x (e_values e) -> snd (fst x) <> EVInt z
  | _ => False end.
Lemma outside_no_member e d j : outside e j -> evals d = map (fun x => evalue_pv (snd (fst x))) (e_values e) ->
  forall mb, In mb (evals d) -> pv_eqb_prim (embed j) mb = false.
Proof.
  intros O E mb I. rewrite E in I. apply in_map_iff in I. destruct I as [x [<- Ix]].
  destruct j as [| | z | | s | |]; try contradiction; cbn in O; specialize (O x Ix); destruct (snd (fst x)) as [s'|z']; cbn; try reflexivity.
  - destruct (Z.eqb_spec (z * 1) (z' * 1)); [exfalso; apply O; f_equal; lia | reflexivity].
  - destruct (String.eqb_spec s s'); [exfalso; apply O; congruence | reflexivity].
Qed.
Lemma pvl_eqb_eq a b : pvl_eqb a b = true -> a = b.
Proof.
  revert b. induction a as [|x a IH]; intros [|y b] H; try discriminate; [reflexivity|].
  cbn in H. apply andb_true_iff in H. destruct H as [H1 H2]. f_equal; [|apply IH; exact H2].
  destruct x, y; try discriminate; cbn in H1; [apply Z.eqb_eq in H1 | apply String.eqb_eq in H1]; congruence.
Qed.
Theorem C11_closed_enum_outside : forall s q fs m n o e j,
  In s (structures mm) -> In q (flat mm (s_name s)) -> assoc (s_name s) (classes Sg) = Some fs ->
  elig_enum q = Some e -> outside e j -> assoc (p_name q) m = Some j ->
  structure Sg pystr0 n (PyCls (s_name s)) (JObj m) <> Ok o.
Proof.
  intros s q fs m n o e j Is Iq A El O Pr. destruct (table_field s q fs Is Iq A) as [f [If [W T]]]. unpack T. rewrite El in K0.
  apply andb_true_iff in K0. destruct K0 as [D V]. unfold evals_match in V.
  destruct (lookup_enum Sg (e_name e)) as [d|] eqn:Le; [|discriminate]. apply pvl_eqb_eq in V.
  assert (Dd : direct Sg (ftype f) (PyEnum (e_name e))) by (apply direct_b_sound; [reflexivity | exact D]).
  assert (Jn : j <> JNull) by (destruct j; cbn in O; try contradiction; discriminate).
  assert (Hm : forall mb, In mb (evals d) -> pv_eqb_prim (embed j) mb = false) by (eapply outside_no_member; eauto).
  assert (Ap : assoc (fwire f) m = Some j) by (rewrite W; exact Pr).
  exact (reject_closed_enum Sg pystr0 (s_name s) fs f m (e_name e) d j n A If Dd Le Jn Hm Ap o).
Qed.

(* 4. a string-literal property replaced by a different string *)
Theorem C11_literal_mismatch : forall s q fs m n o lit s',
  In s (structures mm) -> In q (flat mm (s_name s)) -> assoc (s_name s) (classes Sg) = Some fs ->
  elig_lit q = Some lit -> s' <> lit -> assoc (p_name q) m = Some (JStr s') ->
  structure Sg pystr0 n (PyCls (s_name s)) (JObj m) <> Ok o.
Proof.
  intros s q fs m n o lit s' Is Iq A El N Pr. destruct (table_field s q fs Is Iq A) as [f [If [W T]]]. unpack T. rewrite El in K.
  apply andb_true_iff in K. destruct K as [Ty V]. apply pty_eqb_atomic in Ty; [|reflexivity]. apply ImageThy.vkind_eqb_eq in V.
  eapply reject_literal_in; eauto. rewrite W. exact Pr.
Qed.

End AnyStr.

(* non-vacuity: how many (structure, property) pairs are eligible for each edit on the current tree *)
Definition count_elig (p : prop -> bool) : nat :=
  length (flat_map (fun s => filter p (flat mm (s_name s))) (structures mm)).
Example C11_example :
  count_elig elig_required >= 100 /\ count_elig (fun q => match elig_int q with Some _ => true | None => false end) >= 10 /\
  count_elig (fun q => match elig_enum q with Some _ => true | None => false end) >= 10 /\
  count_elig (fun q => match elig_lit q with Some _ => true | None => false end) >= 5.
Proof. vm_compute. repeat split; repeat constructor. Qed.

Print Assumptions C11_eligibility_table.
Print Assumptions C11_missing_required.
Print Assumptions C11_int_out_of_range.
Print Assumptions C11_closed_enum_outside.
Print Assumptions C11_literal_mismatch.
