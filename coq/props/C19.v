(* Property C19 — converters are independent of creation order, count, configuration and threads.
   Instance theorems over the once-initialiser and the write set of register_hooks AS TRANSLATED from the current
   _hooks.py / converters.py (Gen.OnceData), under the interleaving semantics of LSP.Once.
   All statements are for every number of classes K, every number of threads N and every schedule.
   The history part comes first: it does not depend on the locking discipline. *)
From Coq Require Import List Arith Bool.
Import ListNotations.
From LSP Require Import Once.
From Gen Require Import OnceData.

(* ---- creation histories: register_hooks writes nothing but its converter argument (and the initialiser the flag) *)
Lemma calls_once_current : reg_calls_once = true.
Proof. vm_compute. reflexivity. Qed.
Lemma reg_pure_current : reg_pure reg_writes = true.
Proof. vm_compute. reflexivity. Qed.

Theorem C19_history_independent : forall (cfg : Type) (h h' : list cfg) (x : cfg),
  behaviour cfg (creates cfg reg_writes (h ++ [x])) (length h)
  = behaviour cfg (creates cfg reg_writes (h' ++ [x])) (length h').
Proof. intros. apply history_independent. exact reg_pure_current. Qed.
Print Assumptions C19_history_independent.

Theorem C19_creation_noninterference : forall (cfg : Type) (h : list cfg) (x : cfg) (later : list cfg),
  behaviour cfg (creates cfg reg_writes ((h ++ [x]) ++ later)) (length h)
  = behaviour cfg (creates cfg reg_writes (h ++ [x])) (length h).
Proof. intros. apply creation_noninterference. exact reg_pure_current. Qed.
Print Assumptions C19_creation_noninterference.

(* ---- threads: the translated initialiser has mutual exclusion and a re-check under the lock *)
Lemma lock_ok_current : lock_ok once_prog = true.
Proof. vm_compute. reflexivity. Qed.

Theorem C19_once_safe : forall K N sched t, crashed (th (run once_prog K N sched) t) = false.
Proof. exact (once_safe _ lock_ok_current). Qed.
Print Assumptions C19_once_safe.

Theorem C19_once_done : forall K N sched t, finished once_prog (th (run once_prog K N sched) t) = true ->
  flag (run once_prog K N sched) = true /\ all_resolved K (run once_prog K N sched).
Proof. exact (once_done _ lock_ok_current). Qed.
Print Assumptions C19_once_done.

Theorem C19_resolve_exactly_once : forall K N sched t, finished once_prog (th (run once_prog K N sched) t) = true ->
  forall i, i < K -> count_occ Nat.eq_dec (log (run once_prog K N sched)) i = 1.
Proof. exact (resolve_exactly_once _ lock_ok_current). Qed.
Print Assumptions C19_resolve_exactly_once.

Theorem C19_resolve_at_most_once : forall K N sched i, count_occ Nat.eq_dec (log (run once_prog K N sched)) i <= 1.
Proof. exact (resolve_at_most_once _ lock_ok_current). Qed.
Print Assumptions C19_resolve_at_most_once.

(* the same for the macro schedules the harness replays on the real code *)
Theorem C19_once_safe_macro : forall K N ms t, crashed (th (runm once_prog K N ms) t) = false.
Proof. exact (once_safe_macro _ lock_ok_current). Qed.
Print Assumptions C19_once_safe_macro.
