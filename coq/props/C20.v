(* Property C20 — Position order is lexicographic and total; Range/Location equality is structural; reprs.
   Theorems about the comparison methods AS TRANSLATED from the current types.py (Gen.PosData), under the
   model of CPython's rich-comparison protocol and functools.total_ordering in LSP.Order.
   All statements are for every integer (no grid), every string, every fuel >= the stated bound. *)
From Coq Require Import String List ZArith Bool Lia.
Import ListNotations.
From LSP Require Import Order.
From Gen Require Import PosData.
Open Scope string_scope. Open Scope Z_scope.

Definition pos (l c : Z) : val := VO "Position" [("line", VI l); ("character", VI c)].
Definition rng (a b : val) : val := VO "Range" [("start", a); ("end", b)].
Definition loc (u : string) (r : val) : val := VO "Location" [("uri", VS u); ("range", r)].
Definition op (n : nat) := binop classes n.

(* the specification: compare the (line, character) pairs *)
Definition lex (o : cop) (l c l' c' : Z) : bool :=
  match o with
  | Lt => (l <? l') || ((l =? l') && (c <? c'))
  | Le => (l <? l') || ((l =? l') && (c <=? c'))
  | Gt => (l' <? l) || ((l =? l') && (c' <? c))
  | Ge => (l' <? l) || ((l =? l') && (c' <=? c))
  | Eq => (l =? l') && (c =? c')
  | Ne => negb ((l =? l') && (c =? c')) end.

Ltac zcases :=
  repeat match goal with
         | |- context [Z.eqb ?a ?b] => destruct (Z.eqb_spec a b)
         | |- context [Z.ltb ?a ?b] => destruct (Z.ltb_spec a b)
         | |- context [Z.leb ?a ?b] => destruct (Z.leb_spec a b)
         | |- context [str_eqb ?a ?b] => unfold str_eqb; destruct (String.eqb_spec a b)
         end.
Ltac crunch := cbv -[Z.eqb Z.ltb Z.leb str_eqb]; zcases; cbv; subst; try reflexivity; try lia; try congruence.

Definition FUEL := 6%nat.

Theorem C20_ops_agree_lex : forall o l c l' c',
  op FUEL o (pos l c) (pos l' c') = Val (VB (lex o l c l' c')).
Proof. intros o l c l' c'. destruct o; crunch. Qed.

Theorem C20_trichotomy : forall l c l' c',
  let t o := op FUEL o (pos l c) (pos l' c') in
  (t Lt = Val (VB true) /\ t Eq = Val (VB false) /\ t Gt = Val (VB false)) \/
  (t Lt = Val (VB false) /\ t Eq = Val (VB true) /\ t Gt = Val (VB false)) \/
  (t Lt = Val (VB false) /\ t Eq = Val (VB false) /\ t Gt = Val (VB true)).
Proof.
  intros l c l' c' t. unfold t. rewrite !C20_ops_agree_lex. unfold lex.
  destruct (Z.ltb_spec l l'), (Z.eqb_spec l l'), (Z.ltb_spec l' l), (Z.ltb_spec c c'), (Z.eqb_spec c c'), (Z.ltb_spec c' c);
    try lia; cbn; auto.
Qed.

Theorem C20_range_eq_iff : forall a b a' b' c d c' d',
  op FUEL Eq (rng (pos a b) (pos c d)) (rng (pos a' b') (pos c' d'))
  = Val (VB ((a =? a') && (b =? b') && ((c =? c') && (d =? d')))) /\
  op FUEL Ne (rng (pos a b) (pos c d)) (rng (pos a' b') (pos c' d'))
  = Val (VB (negb ((a =? a') && (b =? b') && ((c =? c') && (d =? d'))))).
Proof. intros. split; crunch. Qed.

Theorem C20_location_eq_iff : forall u u' a b a' b' c d c' d',
  op FUEL Eq (loc u (rng (pos a b) (pos c d))) (loc u' (rng (pos a' b') (pos c' d')))
  = Val (VB (str_eqb u u' && ((a =? a') && (b =? b') && ((c =? c') && (d =? d'))))) /\
  op FUEL Ne (loc u (rng (pos a b) (pos c d))) (loc u' (rng (pos a' b') (pos c' d')))
  = Val (VB (negb (str_eqb u u' && ((a =? a') && (b =? b') && ((c =? c') && (d =? d')))))).
Proof. intros. split; crunch. Qed.

(* unrelated operands: foreign objects, ints, strings, tuples, and the other two classes *)
Inductive unrelated : val -> Prop :=
| U_other : unrelated VOther | U_int z : unrelated (VI z) | U_str s : unrelated (VS s) | U_tup l : unrelated (VT l).
Definition is_order (o : cop) := match o with Lt | Le | Gt | Ge => True | _ => False end.

Definition three (x : val) : Prop :=
  (exists l c, x = pos l c) \/ (exists a b c d, x = rng (pos a b) (pos c d)) \/
  (exists u a b c d, x = loc u (rng (pos a b) (pos c d))).

Theorem C20_unrelated_eq_false : forall x u, three x -> unrelated u ->
  op FUEL Eq x u = Val (VB false) /\ op FUEL Eq u x = Val (VB false) /\
  op FUEL Ne x u = Val (VB true) /\ op FUEL Ne u x = Val (VB true).
Proof.
  intros x u [(l & c & ->) | [(a & b & c & d & ->) | (s & a & b & c & d & ->)]] U; destruct U; repeat split; reflexivity.
Qed.

Theorem C20_unrelated_order_typeerror : forall x u o, three x -> unrelated u -> is_order o ->
  op FUEL o x u = TypeErr /\ op FUEL o u x = TypeErr.
Proof.
  intros x u o [(l & c & ->) | [(a & b & c & d & ->) | (s & a & b & c & d & ->)]] U O;
    destruct U; destruct o; try contradiction; split; reflexivity.
Qed.

(* the three classes are unrelated to each other as well *)
Theorem C20_cross_class : forall l c a b c' d u o,
  let p := pos l c in let r := rng (pos a b) (pos c' d) in let lo := loc u r in
  op FUEL Eq p r = Val (VB false) /\ op FUEL Eq r p = Val (VB false) /\
  op FUEL Eq p lo = Val (VB false) /\ op FUEL Eq lo r = Val (VB false) /\
  (is_order o -> op FUEL o p r = TypeErr /\ op FUEL o r p = TypeErr /\ op FUEL o lo p = TypeErr /\
                 op FUEL o r r = TypeErr /\ op FUEL o lo lo = TypeErr).
Proof. intros. repeat split; try reflexivity; destruct o; try contradiction; reflexivity. Qed.

Section Repr.
Variable dec : Z -> string.
Theorem C20_repr : forall l c l' c' u,
  repr classes dec 4 (pos l c) = RS [dec l; ":"; dec c] /\
  repr classes dec 4 (rng (pos l c) (pos l' c')) = RS [dec l; ":"; dec c; "-"; dec l'; ":"; dec c'] /\
  repr classes dec 4 (loc u (rng (pos l c) (pos l' c'))) = RS [u; ":"; dec l; ":"; dec c; "-"; dec l'; ":"; dec c'].
Proof. intros. repeat split; reflexivity. Qed.
End Repr.

(* non-vacuity: concrete positions and a concrete evaluation *)
Example C20_example : op FUEL Ge (pos 3 7) (pos 3 2) = Val (VB true) /\ op FUEL Lt (pos 2147483647 0) (pos 0 2147483647) = Val (VB false).
Proof. split; reflexivity. Qed.

Print Assumptions C20_ops_agree_lex.
Print Assumptions C20_trichotomy.
Print Assumptions C20_range_eq_iff.
Print Assumptions C20_location_eq_iff.
Print Assumptions C20_unrelated_eq_false.
Print Assumptions C20_unrelated_order_typeerror.
Print Assumptions C20_cross_class.
Print Assumptions C20_repr.
