(* Property C03 — structured results are well-typed instances of the declared classes.
   Proved here (generic, LSP.Typing): a class-typed result is always an object OF THAT CLASS whose attribute list is
   exactly the class's attribute list, for every input, callback and fuel; elements of sequences / dict values / tuple
   components are produced by the converter for the element type.
   ROUND 2/4 — the statement itself for the covered part of the package (props/Cover.v): [C03_whenever_structuring_succeeds] /
   [.._any_type] / [.._messages]: for every covered structure / annotation / message class and EVERY closed-valid value of the
   metamodel, whenever structuring succeeds — with any fuel — the result has the requested type at every depth (Denote.has_type:
   nested protocol objects are objects of the generated classes, sequences hold converted elements, tuples are tuples, enumeration
   positions hold members, only LSPAny positions hold uninterpreted JSON, at a union a value of one of its alternatives), and it
   does succeed with enough fuel.  Outside the covered part: the typed oracle on the real results of the streams. *)
From LSP Require Import Base MM Sem SemThy Disp Typing Denote RoundTrip HookFrag Image ImageThy Link MMRound.
From Gen Require Import MMData PkgData Known.
From Props Require Import Cover.

Section AnyStr.
Variable pystr : json -> string.
(* whenever structuring at a class succeeds, the result is an instance of the requested class with one value per attribute, in order *)
Theorem C03_class_result_shape : forall n c fs j o, lookup_cls Sg c = Some fs ->
  structure Sg pystr n (PyCls c) j = Ok o -> exists kw, o = VObj c kw /\ map fst kw = map fname fs.
Proof. intros n c fs j o L H. destruct n as [|n]; [discriminate|]. exact (class_result_shape Sg pystr _ c fs j o L H). Qed.
(* a sequence position holds a list of converted elements; a tuple position holds a tuple of the right arity *)
Theorem C03_seq_result_shape : forall n t j o, structure Sg pystr n (PySeq t) j = Ok o -> exists l, o = VList l.
Proof. intros n t j o H. destruct n as [|n]; [discriminate|]. exact (seq_result_shape Sg pystr _ t j o H). Qed.
Theorem C03_tuple_result_shape : forall n ts j o, structure Sg pystr n (PyTuple ts) j = Ok o -> exists l, o = VTuple l /\ length l = length ts.
Proof. intros n ts j o H. destruct n as [|n]; [discriminate|]. exact (tuple_result_shape Sg pystr _ ts j o H). Qed.
(* closed-enumeration positions hold a member *)
Theorem C03_enum_result_is_member : forall n e d j o, lookup_enum Sg e = Some d ->
  structure Sg pystr n (PyEnum e) j = Ok o -> exists m, o = VEnum e m /\ In m (evals d).
Proof. intros n e d j o L H. destruct n as [|n]; [discriminate|]. exact (enum_result_is_member Sg pystr _ e d j o L H). Qed.
End AnyStr.

(* the typing judgment [has_type] (Denote.v) with its executable twin typed_b: sound, and every well-typed value
   serialises successfully to its denotation — so a structured result that is well-typed can always be written back.
   On every run the correspondence stream evaluates typed_b on the model's result for EVERY generated valid input (and the
   model's result equals the real converter's object graph), see lib/conv_stream.py / Corr.judge codes 6 and 7. *)
Theorem C03_typed_b_sound : forall n P o, typed_b Sg n P o = true -> has_type Sg P o.
Proof. intros n P o. exact (proj2 (typed_b_sound Sg n) P o). Qed.
Theorem C03_well_typed_values_serialise : forall P o, has_type Sg P o -> exists m, unstr Sg m (Some P) o = Ok (den Sg o).
Proof. exact (unstr_typed Sg). Qed.

(* ------------------------------------------------------------ the statement, covered part *)
Section Typed.
Variable pystr : json -> string.
Lemma same_result P j n1 n2 o1 o2 : structure Sg pystr n1 P j = Ok o1 -> structure Sg pystr n2 P j = Ok o2 -> o1 = o2.
Proof.
  intros H1 H2. pose proof (structure_mono_le Sg pystr n1 (Nat.max n1 n2) P j o1 (Nat.le_max_l _ _) H1) as A.
  pose proof (structure_mono_le Sg pystr n2 (Nat.max n1 n2) P j o2 (Nat.le_max_r _ _) H2) as B. congruence.
Qed.
Theorem C03_whenever_structuring_succeeds : forall s st j, find_struct mm s = Some st -> String.eqb s "LSPObject" = false ->
  mem s (fst cov) = true -> cvalid mm (TRef s) j ->
  (exists n o, structure Sg pystr n (PyCls s) j = Ok o) /\ (forall n o, structure Sg pystr n (PyCls s) j = Ok o -> has_type Sg (PyCls s) o).
Proof.
  intros s st j F O G V. destruct (mm_covered_roundtrip_structures pystr s st j F O G V) as [n0 [o0 [j' [S0 [T0 _]]]]].
  split; [exists n0, o0; exact S0|]. intros n o S. rewrite (same_result _ _ _ _ _ _ S S0). exact T0.
Qed.
Theorem C03_whenever_structuring_succeeds_any_type : forall T j p k n0, cvalid mm T j -> wfp p = true ->
  smatch mm Sg alias_objects k (py_of mm n0 T) p = true -> okty Sg (fst cov) (snd cov) p = true ->
  (exists n o, structure Sg pystr n p j = Ok o) /\ (forall n o, structure Sg pystr n p j = Ok o -> has_type Sg p o).
Proof.
  intros T j p k n0 V W M O. destruct (mm_covered_roundtrip pystr T j p k n0 V W M O) as [n1 [o1 [j' [S1 [T1 _]]]]].
  split; [exists n1, o1; exact S1|]. intros n o S. rewrite (same_result _ _ _ _ _ _ S S1). exact T1.
Qed.
Theorem C03_whenever_structuring_succeeds_messages : forall tp j, In tp covered_msg_pairs -> cvalid mm (TLit (snd (fst tp))) j ->
  (exists n o, structure Sg pystr n (PyCls (snd tp)) j = Ok o) /\ (forall n o, structure Sg pystr n (PyCls (snd tp)) j = Ok o -> has_type Sg (PyCls (snd tp)) o).
Proof.
  intros tp j I V. destruct (mm_covered_roundtrip_messages pystr tp j I V) as [n0 [o0 [j' [S0 [T0 _]]]]].
  split; [exists n0, o0; exact S0|]. intros n o S. rewrite (same_result _ _ _ _ _ _ S S0). exact T0.
Qed.
End Typed.

Example C03_example : exists c fs, lookup_cls Sg c = Some fs /\ length fs >= 2.
Proof. exists "Position". eexists. split; [vm_compute; reflexivity | repeat constructor]. Qed.

Print Assumptions C03_class_result_shape.
Print Assumptions C03_seq_result_shape.
Print Assumptions C03_tuple_result_shape.
Print Assumptions C03_enum_result_is_member.
Print Assumptions C03_typed_b_sound.
Print Assumptions C03_well_typed_values_serialise.
Print Assumptions C03_whenever_structuring_succeeds.
Print Assumptions C03_whenever_structuring_succeeds_any_type.
Print Assumptions C03_whenever_structuring_succeeds_messages.
