(* Property C03 — structured results are well-typed instances of the declared classes.
   Proved here (generic, LSP.Typing): a class-typed result is always an object OF THAT CLASS whose attribute list is
   exactly the class's attribute list, for every input, callback and fuel; elements of sequences / dict values / tuple
   components are produced by the converter for the element type.  That union hooks return a value of an alternative
   is decided by the abstract-interpretation obligations shared with C01 and validated on the streams. *)
From LSP Require Import Base MM Sem SemThy Disp Typing Denote.
From Gen Require Import MMData PkgData Known.

Section AnyStr.
Variable pystr : json -> string.
(* whenever structuring at a class succeeds, the result is an instance of the requested class with one value per attribute, in order *)
Theorem C03_class_result_shape : forall n c fs j o, lookup_cls Sg c = Some fs ->
  structure Sg pystr n (PyCls c) j = Ok o -> exists kw, o = VObj c kw /\ map fst kw = map fname fs.
Proof. intros n c fs j o L H. destruct n as [|n]; [discriminate|]. exact (class_result_shape Sg pystr _ c fs j o L H). Qed.
(* a sequence position holds a list of converted elements; a tuple position holds a tuple of the right arity *)
Theorem C03_seq_result_shape : forall n t j o, structure Sg pystr n (PySeq t) j = Ok o -> exists l, o = VList l.
Proof. intros n t j o H. destruct n as [|n]; [discriminate|]. exact (seq_result_shape Sg pystr _ t j o H). Qed.
Theorem C03_tuple_result_shape : forall n ts j o, structure Sg pystr n (PyTuple ts) j = Ok o -> exists l, o = VTuple l /\ length l = length ts.
Proof. intros n ts j o H. destruct n as [|n]; [discriminate|]. exact (tuple_result_shape Sg pystr _ ts j o H). Qed.
(* closed-enumeration positions hold a member *)
Theorem C03_enum_result_is_member : forall n e d j o, lookup_enum Sg e = Some d ->
  structure Sg pystr n (PyEnum e) j = Ok o -> exists m, o = VEnum e m /\ In m (evals d).
Proof. intros n e d j o L H. destruct n as [|n]; [discriminate|]. exact (enum_result_is_member Sg pystr _ e d j o L H). Qed.
End AnyStr.

(* the typing judgment [has_type] (Denote.v) with its executable twin typed_b: sound, and every well-typed value
   serialises successfully to its denotation — so a structured result that is well-typed can always be written back.
   On every run the correspondence stream evaluates typed_b on the model's result for EVERY generated valid input (and the
   model's result equals the real converter's object graph), see lib/conv_stream.py / Corr.judge codes 6 and 7. *)
Theorem C03_typed_b_sound : forall n P o, typed_b Sg n P o = true -> has_type Sg P o.
Proof. intros n P o. exact (proj2 (typed_b_sound Sg n) P o). Qed.
Theorem C03_well_typed_values_serialise : forall P o, has_type Sg P o -> exists m, unstr Sg m (Some P) o = Ok (den Sg o).
Proof. exact (unstr_typed Sg). Qed.

Example C03_example : exists c fs, lookup_cls Sg c = Some fs /\ length fs >= 2.
Proof. exists "Position". eexists. split; [vm_compute; reflexivity | repeat constructor]. Qed.

Print Assumptions C03_class_result_shape.
Print Assumptions C03_seq_result_shape.
Print Assumptions C03_tuple_result_shape.
Print Assumptions C03_enum_result_is_member.
Print Assumptions C03_typed_b_sound.
Print Assumptions C03_well_typed_values_serialise.
