(* Property C19, refutation side: compiled by the harness only when `lock_ok once_prog` does not hold.
   `find_witness` searches the 2-thread macro schedules (K = 4) for a reached state in which a thread has crashed
   (RuntimeError out of the dict iteration), or has returned while the classes are not all resolved, or a class was
   resolved twice.  The witness is printed for the harness, which replays it on the real code. *)
From Coq Require Import List Arith Bool.
Import ListNotations.
From LSP Require Import Once.
From Gen Require Import OnceData.

Definition wit := Eval vm_compute in find_witness once_prog.
Eval vm_compute in wit.

Theorem C19_refuted : refuted once_prog.
Proof.
  assert (E : find_witness once_prog = wit) by (vm_compute; reflexivity).
  unfold wit in E.
  match type of E with _ = Some (?k, ?w) => exact (find_witness_sound _ k w E) end.
Qed.
Print Assumptions C19_refuted.
