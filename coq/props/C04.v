(* Property C04 — the generated Python package is a complete, faithful image of the metamodel.
   Instance obligation over the tables regenerated from the current tree (Gen.MMData from lsp.json, Gen.PkgData from
   the imported package), plus its meaning through the reflection lemmas of LSP.ImageThy, plus the ∀-metamodel facts
   about the flattening specification. *)
From LSP Require Import Base MM Sem Image ImageThy Catalog.
From Gen Require Import MMData PkgData.

Theorem C04_image : W_img mm Sg alias_objects plain_classes = true.
Proof. vm_compute. reflexivity. Qed.

(* every structure: a same-named class with exactly one attribute per flattened property, each satisfying FieldSpec
   (wire name, required/default, annotation under the documented mapping, validator, omit flag); nothing extra *)
Theorem C04_structures : forall s, In s (structures mm) -> s_name s <> "LSPObject" ->
  exists fs, assoc (s_name s) (classes Sg) = Some fs /\ NoDup (map fwire fs) /\
    (forall q, In q (flat mm (s_name s)) -> exists f, In f fs /\ FieldSpec mm Sg alias_objects q f) /\
    (forall f, In f fs -> In (fwire f) (map p_name (flat mm (s_name s)))).
Proof. exact (W_img_structures mm Sg alias_objects plain_classes C04_image). Qed.

Theorem C04_enumerations : forall e, In e (enumerations mm) -> enum_ok Sg e = true.
Proof. exact (W_img_enums mm Sg alias_objects plain_classes C04_image). Qed.

Theorem C04_aliases : forall a, In a (aliases mm) -> alias_ok mm Sg alias_objects plain_classes a = true.
Proof. exact (W_img_aliases mm Sg alias_objects plain_classes C04_image). Qed.

(* anonymous 'and' / literal types that only messages use (registration options, params, results): the class the catalogue names
   for them is the image of the merged property list (same per-attribute rule: smatch at SLitCls) *)
Definition anon_ty (t : ty) : bool := match t with TAnd _ | TLit (_ :: _) => true | _ => false end.
Definition anon_ok (t : option ty) (p : option pty) : bool :=
  match t with
  | Some t' => if anon_ty t' then match p with Some p' => smatch mm Sg alias_objects SM_FUEL (py_of mm PY_FUEL t') p' | None => false end else true
  | None => true end.
Definition row_of (m : string) : option Catalog.catrow := find (fun r => String.eqb (Catalog.cm_method r) m) catalogue.
Definition anon_message_types_bad : list string :=
  flat_map (fun r => match row_of (r_method r) with
                     | Some row => if anon_ok (r_regopts r) (Catalog.cm_regopts row) && anon_ok (r_params r) (Catalog.cm_params row) then [] else [r_method r]
                     | None => [r_method r] end) (requests mm)
  ++ flat_map (fun n => match row_of (n_method n) with
                     | Some row => if anon_ok (n_regopts n) (Catalog.cm_regopts row) && anon_ok (n_params n) (Catalog.cm_params row) then [] else [n_method n]
                     | None => [n_method n] end) (notifications mm).
Theorem C04_anonymous_message_types : anon_message_types_bad = [].
Proof. vm_compute. reflexivity. Qed.
Example C04_anonymous_message_types_nonvacuous :
  existsb (fun r => match r_regopts r with Some t => anon_ty t | None => false end) (requests mm) = true.
Proof. vm_compute. reflexivity. Qed.

(* specification side, for every metamodel: flattening yields unique names and the nearest (own) declaration wins *)
Theorem C04_flat_names_unique : forall name, NoDup (map p_name (flat mm name)).
Proof. exact (flat_names_unique mm). Qed.
Theorem C04_flat_own_wins : forall M name s p, find_struct M name = Some s -> NoDup (map p_name (s_props s)) -> In p (s_props s) ->
  In p (flat M name) /\ forall q, In q (flat M name) -> p_name q = p_name p -> q = p.
Proof. exact flat_own_wins. Qed.

(* non-vacuity: there are structures with a non-empty flattened property list, and classes for them *)
Example C04_example :
  existsb (fun s => negb (String.eqb (s_name s) "LSPObject") && negb (is_nil_b (flat mm (s_name s)))
                    && match assoc (s_name s) (classes Sg) with Some (_ :: _) => true | _ => false end) (structures mm) = true.
Proof. vm_compute. reflexivity. Qed.

Print Assumptions C04_image.
Print Assumptions C04_structures.
Print Assumptions C04_enumerations.
Print Assumptions C04_aliases.
Print Assumptions C04_anonymous_message_types.
Print Assumptions C04_flat_names_unique.
Print Assumptions C04_flat_own_wins.
