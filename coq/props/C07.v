(* Property C07 — the generated Rust crate declares the metamodel's wire schema.
   Gen.MMData    = generator/lsp.json translated by lib/x_mm.py
   Gen.RustData  = generated_items : lib.rs as emitted by the rust plugin of the CURRENT tree (lib/x_rs.py runs it)
                   committed_items : packages/rust/lsprotocol/src/lib.rs as committed
                   msg_hints       : UNTRUSTED (method, candidate struct name) pairs for the requests/notifications WITHOUT
                                     typeName (empty for the committed metamodel); rust_ok only LOOKS there, every fact about
                                     the struct is checked on the item found, and no two messages may share a struct
   LSP.Rust      = the checker rust_ok, its explain twin, and the proved specification theorem rust_ok_spec.
   The ground facts are decided by vm_compute over ALL items; what the boolean means is given by rust_ok_spec (a proof,
   for every metamodel and every item list), instantiated below. *)
From Coq Require Import String List ZArith Bool.
From LSP Require Import Base MM Rust.
From Gen Require Import MMData RustData.
Open Scope string_scope.

Theorem C07_generated : rust_ok mm generated_items msg_hints = true.
Proof. vm_compute. reflexivity. Qed.

Theorem C07_committed : rust_ok mm committed_items msg_hints = true.
Proof. vm_compute. reflexivity. Qed.

(* every structure / enumeration / alias / request / notification of the metamodel, every item of lib.rs *)
Theorem C07_generated_spec : rust_spec mm generated_items msg_hints.
Proof. exact (rust_ok_spec mm generated_items msg_hints C07_generated). Qed.

Theorem C07_committed_spec : rust_spec mm committed_items msg_hints.
Proof. exact (rust_ok_spec mm committed_items msg_hints C07_committed). Qed.

(* the mapping FUNCTION rs_of is defined on every flattened property whose type is simple (LSP.Rust.simple_ty: no anonymous
   non-empty literal and none of the shapes the mapping does not cover); for the other properties the relation rs_rel
   applies (the helper struct of a literal is found by structure, its generated name is not part of the specification) *)
Theorem C07_rs_of_total : rs_of_total mm = true.
Proof. vm_compute. reflexivity. Qed.

(* the struct clause, spelled out: same-named struct, serde names = flattened property names, the field type is in the mapping
   relation and IS rs_of's value when the property type is simple, Option iff optional or null-admitting, field gated iff the
   property is proposed *)
Definition struct_clause (items : list ritem) : Prop :=
  forall s, In s (structures mm) ->
  exists camel fs, In (RStruct (s_name s) true camel (s_proposed s) fs) items /\
    NoDup (map (serde_name camel) fs) /\
    (forall k, In k (map (serde_name camel) fs) <-> In k (map p_name (flat mm (s_name s)))) /\
    (forall p, In p (flat mm (s_name s)) -> exists f, In f fs /\ serde_name camel f = p_name p /\
       rs_rel mm items (p_opt p) (p_type p) (unbox (f_ty f)) /\
       (simple_ty mm (p_type p) = true -> rs_of mm (p_opt p) (p_type p) = Some (unbox (f_ty f))) /\
       (is_option (unbox (f_ty f)) = true <-> p_opt p || null_admitting (p_type p) = true) /\
       f_gated f = p_proposed p).

Lemma struct_clause_of_ok items hints : rust_ok mm items hints = true -> struct_clause items.
Proof.
  intros H s Is. destruct (rust_ok_spec mm items hints H) as [_ [S _]].
  destruct (struct_spec_fields mm items s (S s Is)) as [camel [fs [I [N [Q F]]]]].
  exists camel, fs. repeat split; try assumption; try (apply Q).
  intros p Ip. destruct (F p Ip) as [f [If [Nm [Rl [O [R G]]]]]].
  exists f. repeat split; try assumption; try (apply O).
  intros Sp. destruct (rs_of_total_spec mm C07_rs_of_total s Is p Ip Sp) as [r Er]. rewrite (R r Er). exact Er.
Qed.

Theorem C07_generated_structs : struct_clause generated_items.
Proof. exact (struct_clause_of_ok generated_items msg_hints C07_generated). Qed.

Theorem C07_committed_structs : struct_clause committed_items.
Proof. exact (struct_clause_of_ok committed_items msg_hints C07_committed). Qed.

(* non-vacuity: the metamodel has structures with properties, the check list is long, and the checker does reject:
   the empty crate, and the crate with every Option<..> stripped from its struct fields *)
Definition deopt (r : rty) : rty := match r with RApp a [x] => if String.eqb a "Option" then x else r | _ => r end.
Definition strip_options (i : ritem) : ritem :=
  match i with
  | RStruct n s c g fs => RStruct n s c g (map (fun f => {| f_ident := f_ident f; f_rename := f_rename f; f_ty := deopt (f_ty f); f_gated := f_gated f |}) fs)
  | _ => i end.
Example C07_nonvacuous :
  existsb (fun s => negb (is_nil_b (flat mm (s_name s)))) (structures mm) = true /\
  Nat.leb 1000 (length (all_checks mm generated_items msg_hints)) = true /\
  rust_ok mm [] msg_hints = false /\
  rust_ok mm (map strip_options generated_items) msg_hints = false.
Proof. vm_compute. repeat split; reflexivity. Qed.

Print Assumptions C07_generated.
Print Assumptions C07_committed.
Print Assumptions C07_generated_spec.
Print Assumptions C07_committed_spec.
Print Assumptions C07_rs_of_total.
Print Assumptions C07_generated_structs.
Print Assumptions C07_committed_structs.
Print Assumptions C07_nonvacuous.

(* size of the ground obligation, recorded in the evidence file *)
Eval vm_compute in (length (all_checks mm generated_items msg_hints), length (all_checks mm committed_items msg_hints)).
