(* Property C08 — .NET classes declare the metamodel's wire schema and message metadata.

   Gen.MMData      the committed metamodel (lib/x_mm.py from generator/lsp.json)
   Gen.DotnetData  what the dotnet plugin of the CURRENT tree emits (lib/x_cs.py: plugin run + parse of every .cs file)
   LSP.Dotnet      cs_of (the documented mapping), the checker `explain`/`dotnet_ok`, and the proved reading of the boolean

   C08_generated is the ground obligation (kernel-checked computation over all ~650 files); everything below it is the
   property statement itself, obtained from the generic soundness theorem — for EVERY structure, flattened property,
   enumeration, request and notification of the metamodel, no sampling. *)
From Coq Require Import String List ZArith Bool.
Import ListNotations.
From LSP Require Import Base MM Dotnet.
From Gen Require Import MMData DotnetData.
Open Scope string_scope.

Theorem C08_generated : dotnet_ok mm files = true.
Proof. vm_compute. reflexivity. Qed.

Theorem C08_spec :
  NoDup (map file_name files) /\ structures_P mm files /\ enumerations_P mm files /\ requests_P mm files
  /\ notifications_P mm files /\ catalogue_P mm files.
Proof. exact (dotnet_ok_spec mm files C08_generated). Qed.

(* For every structure: a [DataContract] class of that name with exactly one data member per flattened property, wire name
   = metamodel name, type = cs_of, nullable / Ignore exactly by the rule, assigned in the [JsonConstructor]. *)
Corollary C08_structures :
  forall s, In s (structures mm) -> skipped mm s = false ->
  exists c, In (FClass c) files /\ c_name c = cs_class_name (s_name s) /\ c_contract c = true
    /\ NoDup (map m_wire (c_members c))
    /\ (forall k, In k (map m_wire (c_members c)) <-> In k (map p_name (flat mm (s_name s))))
    /\ (forall p, In p (flat mm (s_name s)) -> exists m,
          In m (c_members c) /\ m_wire m = p_name p
          /\ cs_match files (cs_of mm (p_type p)) (m_type m) = true
          /\ (m_nullable m = true <->
              (p_opt p = true \/ null_admitting (p_type p) = true) /\ is_coll (cs_of mm (p_type p)) = false)
          /\ (m_ignore m = true <->
              p_opt p = true /\ null_admitting (p_type p) = false /\ is_coll (cs_of mm (p_type p)) = false)
          /\ exists k rhs, c_ctor c = Some k /\ In (m_ident m, rhs) (k_assigns k) /\ In rhs (k_params k)
                           /\ ~ In rhs cs_reserved).
Proof. exact (proj1 (proj2 C08_spec)). Qed.

(* the only structures without a class of their own: "_"-prefixed and used in no type position (pinned exception) *)
Corollary C08_skipped_only_private_bases :
  forall s, In s (structures mm) -> skipped mm s = true ->
  String.prefix "_" (s_name s) = true /\ ~ In (s_name s) (type_positions mm).
Proof.
  intros s _ H. unfold skipped in H. destruct (String.prefix "_" (s_name s)); [|discriminate]. split; [reflexivity|].
  intro I. apply mem_in in I. rewrite I in H. discriminate.
Qed.

(* where the mapped type mentions no generated helper class the declared type IS cs_of, syntactically *)
Corollary C08_types_exact :
  forall s, In s (structures mm) -> skipped mm s = false ->
  forall p, In p (flat mm (s_name s)) -> hole_free (cs_of mm (p_type p)) = true ->
  exists c m, In (FClass c) files /\ c_name c = cs_class_name (s_name s) /\ In m (c_members c)
              /\ m_wire m = p_name p /\ m_type m = cs_of mm (p_type p).
Proof.
  intros s Is Sk p Ip HF. destruct (C08_structures s Is Sk) as [c [Ic [Nc [_ [_ [_ Hp]]]]]].
  destruct (Hp p Ip) as [m [Im [W [M _]]]]. exists c, m. repeat split; auto.
  apply (cs_match_exact files _ HF _ M).
Qed.

Corollary C08_enumerations :
  forall e, In e (enumerations mm) ->
  exists ce, In (FEnum ce) files /\ en_name ce = e_name e /\ length (en_values ce) = length (e_values e)
    /\ (forall v, In v (en_values ce) <-> In v (enum_vals e)).
Proof. exact (proj1 (proj2 (proj2 C08_spec))). Qed.

(* every request: its class carries [LSPRequest(<exact method>, typeof(Resp))], Resp exists and names the request back in
   [LSPResponse], every [Direction] on the class is the metamodel's, and LSPMethods holds the method string *)
Corollary C08_requests :
  forall r, In r (requests mm) ->
  exists n c resp rc, msg_name files (r_typename r) "Request" (r_method r) = Some n
    /\ In (FClass c) files /\ c_name c = n /\ c_request c = Some (r_method r, resp)
    /\ In (FClass rc) files /\ c_name rc = resp /\ c_response rc = Some n
    /\ (c_dirs c <> [] /\ forall d, In d (c_dirs c) -> d = r_dir r)
    /\ exists const, In (const, r_method r) (methods_tbl files).
Proof. exact (proj1 (proj2 (proj2 (proj2 C08_spec)))). Qed.

Corollary C08_notifications :
  forall x, In x (notifications mm) ->
  exists n c, msg_name files (n_typename x) "Notification" (n_method x) = Some n
    /\ In (FClass c) files /\ c_name c = n
    /\ (c_dirs c <> [] /\ forall d, In d (c_dirs c) -> d = n_dir x)
    /\ exists const, In (const, n_method x) (methods_tbl files).
Proof. exact (proj1 (proj2 (proj2 (proj2 (proj2 C08_spec))))). Qed.

(* the method catalogue holds nothing but metamodel methods *)
Corollary C08_catalogue :
  forall const v, In (const, v) (methods_tbl files) ->
  (exists r, In r (requests mm) /\ r_method r = v) \/ (exists x, In x (notifications mm) /\ n_method x = v).
Proof. exact (proj2 (proj2 (proj2 (proj2 (proj2 C08_spec))))). Qed.

(* what a match against an anonymous literal / a generated union class means (generic, instantiated at the current files) *)
(* a union of "variant" literals is merged by the plugin into one record: it has exactly one data member per property name of every
   alternative (names only: what type / optionality a merged member should have is not pinned) *)
Corollary C08_variant_meaning : forall ks a, cs_match files (CsVarOf ks) a = true ->
  exists v c, a = CsN v /\ In (FClass c) files /\ c_name c = v /\ c_contract c = true
    /\ NoDup (map m_wire (c_members c))
    /\ (forall k, In k (map m_wire (c_members c)) -> In k ks)
    /\ (forall k, In k ks -> exists m, In m (c_members c) /\ m_wire m = k /\ lit_assignable c m = true).
Proof. exact (cs_match_var files). Qed.
Example C08_variant_example :
  cs_of mm (TOr [TLit [("notebook", TBase BString, false); ("cells", TBase BString, true)];
                 TLit [("notebook", TBase BString, true); ("cells", TBase BString, false); ("extra", TBase BBoolean, true)]])
  = CsVarOf ["notebook"; "cells"; "extra"].
Proof. vm_compute. reflexivity. Qed.

Corollary C08_literal_meaning : forall ms a, cs_match files (CsLitOf ms) a = true ->
  exists v c, a = CsN v /\ In (FClass c) files /\ c_name c = v /\ c_contract c = true
    /\ NoDup (map m_wire (c_members c))
    /\ (forall k, In k (map m_wire (c_members c)) -> In k (lit_names ms))
    /\ (forall k t nl ig, In (k, t, nl, ig) ms ->
        exists m, In m (c_members c) /\ m_wire m = k /\ cs_match files t (m_type m) = true
                  /\ m_nullable m = nl /\ m_ignore m = ig /\ lit_assignable c m = true).
Proof. exact (cs_match_lit files). Qed.

(* ---------------------------------------------------------------------------------------------- non-vacuity *)
(* the quantifiers range over a large, non-degenerate population (lower bounds, so a harmless metamodel update keeps them) *)
Example C08_population :
  (300 <=? length (filter (fun s => negb (skipped mm s)) (structures mm)))%nat = true
  /\ (900 <=? length (flat_map (fun s => if skipped mm s then [] else flat mm (s_name s)) (structures mm)))%nat = true
  /\ (30 <=? length (enumerations mm))%nat = true
  /\ (60 <=? length (requests mm))%nat = true /\ (20 <=? length (notifications mm))%nat = true
  /\ (90 <=? length (methods_tbl files))%nat = true
  (* every rule has instances on both sides *)
  /\ existsb (fun s => existsb (fun p => nullable_exp mm p && ignore_exp mm p) (flat mm (s_name s))) (structures mm) = true
  /\ existsb (fun s => existsb (fun p => nullable_exp mm p && negb (ignore_exp mm p)) (flat mm (s_name s))) (structures mm) = true
  /\ existsb (fun s => existsb (fun p => p_opt p && negb (nullable_exp mm p)) (flat mm (s_name s))) (structures mm) = true
  /\ existsb (fun s => existsb (fun p => negb (hole_free (cs_of mm (p_type p)))) (flat mm (s_name s))) (structures mm) = true
  /\ existsb (fun x => dir_eqb (n_dir x) ClientToServer) (notifications mm) = true
  /\ existsb (fun x => dir_eqb (n_dir x) ServerToClient) (notifications mm) = true.
Proof. vm_compute. repeat split. Qed.

(* the statement instantiated at the first notification and the first request of the metamodel *)
Example C08_first_notification :
  match notifications mm with
  | x :: _ => exists n c, msg_name files (n_typename x) "Notification" (n_method x) = Some n /\ In (FClass c) files /\ c_name c = n
                          /\ (c_dirs c <> [] /\ forall d, In d (c_dirs c) -> d = n_dir x)
                          /\ exists const, In (const, n_method x) (methods_tbl files)
  | [] => False end.
Proof. exact (C08_notifications _ (or_introl eq_refl)). Qed.

(* the mapping on metamodel-independent types *)
Example C08_cs_of_examples :
  cs_of mm (TOr [TBase BString; TBase BNull]) = CsN "string"
  /\ cs_of mm (TArr (TBase BUInteger)) = CsG "ImmutableArray" [CsN "long"]
  /\ cs_of mm (TMap (TBase BDocumentUri) (TArr (TBase BInteger))) = CsG "ImmutableDictionary" [CsN "Uri"; CsG "ImmutableArray" [CsN "int"]]
  /\ cs_of mm (TOr [TBase BInteger; TBase BString; TBase BNull]) = CsG "OrType" [CsN "int"; CsN "string"]
  /\ cs_of mm (TTuple [TBase BUInteger; TBase BUInteger]) = CsTup [CsN "long"; CsN "long"]
  /\ cs_of mm (TLit []) = CsN "LSPObject"
  (* an anonymous literal: any generated record with exactly these members (wire name, type, nullable, Ignore) *)
  /\ cs_of mm (TArr (TLit [("a", TBase BString, false); ("b", TBase BUInteger, true); ("c", TOr [TBase BURI; TBase BNull], false)]))
     = CsG "ImmutableArray" [CsLitOf [("a", CsN "string", false, false); ("b", CsN "long", true, true); ("c", CsN "Uri", true, false)]]
  /\ cs_of mm (TOr [TBase BString; TLit [("k", TBase BBoolean, false)]]) = CsG "OrType" [CsN "string"; CsLitOf [("k", CsN "bool", false, false)]].
Proof. repeat split; reflexivity. Qed.

Print Assumptions C08_generated.
Print Assumptions C08_spec.
Print Assumptions C08_structures.
Print Assumptions C08_skipped_only_private_bases.
Print Assumptions C08_types_exact.
Print Assumptions C08_literal_meaning.
Print Assumptions C08_variant_meaning.
Print Assumptions C08_enumerations.
Print Assumptions C08_requests.
Print Assumptions C08_notifications.
Print Assumptions C08_catalogue.
Print Assumptions C08_population.
Print Assumptions C08_first_notification.
Print Assumptions C08_cs_of_examples.
