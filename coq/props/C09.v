(* Property C09 — method catalogue and type registry agree with the metamodel. *)
From LSP Require Import Base MM Sem Catalog Image CatSpec CatThy.
From Gen Require Import MMData PkgData.

Notation Wc := (W_cat mm Sg alias_objects catalogue method_constants registry_names defined_types).
Theorem C09_catalogue : Wc = true.
Proof. vm_compute. reflexivity. Qed.

(* every request: a catalogue row whose request class / response class / params / registration options / direction are
   the metamodel's, characterised semantically (the class whose `method` default is the method string, ...), and an
   exported constant holding the method string *)
Theorem C09_requests : forall r, In r (requests mm) -> RequestSpec mm Sg alias_objects catalogue method_constants r.
Proof. exact (W_cat_requests mm Sg alias_objects catalogue method_constants registry_names defined_types C09_catalogue). Qed.
Theorem C09_notifications : forall n, In n (notifications mm) ->
  exists row, row_of catalogue (n_method n) = Some row /\
    (exists c, cm_cls row = Some c /\ notification_class_ok mm Sg alias_objects c n = true) /\ cm_resp row = None /\
    opt_ty_ok mm Sg alias_objects (n_params n) (cm_params row) = true /\
    opt_ty_ok mm Sg alias_objects (n_regopts n) (cm_regopts row) = true /\
    cm_dir row = Some (dir_str (n_dir n)) /\ has_constant method_constants (n_method n) = true.
Proof. exact (W_cat_notifications mm Sg alias_objects catalogue method_constants registry_names defined_types C09_catalogue). Qed.
Theorem C09_nothing_else :
  (forall row, In row catalogue -> In (cm_method row) (mm_methods mm)) /\ NoDup (map cm_method catalogue) /\
  (forall c, In c method_constants -> In (snd c) (mm_methods mm)).
Proof. exact (W_cat_nothing_else mm Sg alias_objects catalogue method_constants registry_names defined_types C09_catalogue). Qed.
Theorem C09_registry_complete :
  forall n, In n (defined_types ++ map fst (classes Sg) ++ map ename (enums Sg) ++ map fst alias_objects) -> In n registry_names.
Proof. exact (W_cat_registry mm Sg alias_objects catalogue method_constants registry_names defined_types C09_catalogue). Qed.
(* no unresolved forward reference survives in any attribute type, so cattrs can dispatch on all of them *)
Fixpoint has_fwd (p : pty) : bool :=
  match p with
  | PyFwd _ => true | PyUnion l | PyTuple l => existsb has_fwd l | PySeq t => has_fwd t | PyDict k v => has_fwd k || has_fwd v | _ => false end.
Theorem C09_forward_refs_resolved : forallb (fun c => forallb (fun f => negb (has_fwd (ftype f))) (snd c)) (classes Sg) = true.
Proof. vm_compute. reflexivity. Qed.

Example C09_example : (length (requests mm) + length (notifications mm) = length catalogue) /\ (length catalogue >= 1).
Proof. vm_compute. split; [reflexivity | repeat constructor]. Qed.

Print Assumptions C09_catalogue.
Print Assumptions C09_requests.
Print Assumptions C09_notifications.
Print Assumptions C09_nothing_else.
Print Assumptions C09_registry_complete.
Print Assumptions C09_forward_refs_resolved.
