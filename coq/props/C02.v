(* Property C02 — objects built with the public constructors serialise to the exact spec JSON.
   STATUS: partial.  No hook is involved on the way out, so the proof obligations are about [ustep] only.  Proved:
   (1) every keyword argument (attribute name) maps to its wire name by the translated camel-casing rule, and that wire
       name is the metamodel property name, for every attribute of every class (ground, exhaustive);
   (2) which keys are written (C10_key_rule, shared): unset optional properties omitted, null-admitting properties and
       literal discriminators always present — for EVERY object whose unstructuring succeeds, however it was built;
   (3) generic: unstructuring an object of class c at class c writes exactly the non-omitted attributes, each as the
       unstructuring of its value at the annotated type, in attribute order (unstr_class_spec).
   ROUND 4 — the statement itself: [C02_valid_value_built_serialises] / [C02_structures]: for EVERY class of the package (no
   coverage restriction: no hook is involved), every Python-valid / metamodel-valid value j and every object o the constructors build
   from the values of j (LSP.Build.bld: attributes under the snake_case names, absent optional members at their default, enumeration
   values as members, at a union any alternative the value is valid for), unstructuring o yields the normal form of j: equal to j up to
   null-valued members (unset optional members omitted, null-admitting ones written as null).  The constructor stream checks the
   same on the real classes (every structure and message, every alternative, shapes). *)
From LSP Require Import Base MM Sem SemThy Image ImageThy Names Denote RoundTrip HookFrag Built Build Link MMRound.
From Gen Require Import MMData PkgData Known.
From Props Require Import Cover.

Theorem C02_image : W_img mm Sg alias_objects plain_classes = true.
Proof. vm_compute. reflexivity. Qed.
(* (1) kwargs are snake_case names whose camel-casing is the wire name read AND written *)
Theorem C02_kwargs_camel_to_wire :
  forallb (fun c => forallb (fun f => String.eqb (camel (fname f)) (fwire f) && String.eqb (fwire f) (fwireo f)) (snd c)) (classes Sg) = true.
Proof. vm_compute. reflexivity. Qed.
Theorem C02_wire_is_metamodel_name : forall (s : MM.structure), In s (structures mm) -> s_name s <> "LSPObject" ->
  exists fs, assoc (s_name s) (classes Sg) = Some fs /\
    (forall q, In q (flat mm (s_name s)) -> exists f, In f fs /\ camel (fname f) = p_name q /\ fwireo f = p_name q) /\
    (forall f, In f fs -> In (fwire f) (map p_name (flat mm (s_name s)))).
Proof.
  intros s Is Hn. destruct (W_img_structures mm Sg alias_objects plain_classes C02_image s Is Hn) as [fs [A [_ [P X]]]].
  exists fs. split; [exact A|]. split; [|exact X]. intros q Iq. destruct (P q Iq) as [f [If F]]. exists f. split; [exact If|].
  destruct F as [Fw Fo _ _ _ _ _]. split; [|exact Fo].
  pose proof C02_kwargs_camel_to_wire as K. rewrite forallb_forall in K. apply assoc_in in A. specialize (K _ A).
  cbn [snd] in K. rewrite forallb_forall in K. specialize (K f If). apply andb_true_iff in K. destruct K as [K _].
  apply String.eqb_eq in K. congruence.
Qed.

(* (3) what unstructuring a class instance produces, generically *)
Theorem C02_unstr_class_spec : forall rec c c' fds vals j,
  lookup_cls Sg c = Some fds -> ustep Sg rec (Some (PyCls c)) (VObj c' vals) = Ok j ->
  exists kvs, mapM (ufield rec vals) fds = Ok kvs /\ j = JObj (somes kvs).
Proof.
  intros rec c c' fds vals j L H. cbn [ustep] in H. rewrite L in H.
  destruct (mapM (ufield rec vals) fds) as [kvs| |]; cbn in H; try discriminate. inversion H. eauto.
Qed.

(* (4) serialisation of ANY well-typed object — however it was built, constructors included — succeeds and yields its
   denotation [den]: attributes under their wire names unless (omit-if-default and equal to the default), enum members as
   their value, tuples and lists as arrays (generic theorem Denote.unstr_typed, by induction on the typing derivation) *)
Theorem C02_well_typed_objects_serialise_to_their_denotation : forall P o, has_type Sg P o -> exists m, unstr Sg m (Some P) o = Ok (den Sg o).
Proof. exact (unstr_typed Sg). Qed.
Theorem C02_fuel_monotone : forall n m ot v j, n <= m -> unstr Sg n ot v = Ok j -> unstr Sg m ot v = Ok j.
Proof. exact (unstr_mono_le Sg). Qed.

(* (5) ROUND 2 — the statement itself, at the model level, for the covered part of the package (props/Cover.v): a value as the
   generated constructors produce it (LSP.Built.built: well-typed at every depth, enum members genuine, attrs validators passed, a
   None is written only where null is permitted) of a covered annotation serialises to its denotation, and that JSON structures
   again into a value of the same type which serialises to the same JSON up to null-valued members.  No parsing on the way in. *)
Theorem C02_class_tables_ok : all_cls_ok Sg = true.
Proof. vm_compute. reflexivity. Qed.
Theorem C02_built_serialises_and_reparses (pystr : json -> string) : forall P o,
  okty Sg (fst cov) (snd cov) P = true -> built Sg NLm P o ->
  exists n o' j', unstr Sg n (Some P) o = Ok (den Sg o) /\
                  structure Sg pystr n P (den Sg o) = Ok o' /\ has_type Sg P o' /\ unstr Sg n (Some P) o' = Ok j' /\ RoundTrip.NEq (den Sg o) j'.
Proof. exact (built_serialises_and_reparses Sg pystr NLm (fst cov) (snd cov) C02_class_tables_ok cover_table_ok cover_hooks_ok). Qed.
(* (6) ROUND 4 — from the valid value to the serialised normal form, every class, every choice of alternatives *)
Theorem C02_class_tables_ok2 : all_cls_ok2 Sg NLm = true.
Proof. vm_compute. reflexivity. Qed.
Theorem C02_valid_value_built_serialises : forall P j o, pvalid Sg NLm P j -> bld Sg NLm P j o ->
  built Sg NLm P o /\ RoundTrip.NEq j (den Sg o) /\ exists n, unstr Sg n (Some P) o = Ok (den Sg o).
Proof. exact (bld_serialises Sg NLm C02_class_tables_ok C02_class_tables_ok2). Qed.
(* metamodel-valid values of every structure, at the class of the same name *)
Theorem C02_structures : forall s st j o, find_struct mm s = Some st -> String.eqb s "LSPObject" = false -> cvalid mm (TRef s) j ->
  bld Sg NLm (PyCls s) j o ->
  built Sg NLm (PyCls s) o /\ RoundTrip.NEq j (den Sg o) /\ exists n, unstr Sg n (Some (PyCls s)) o = Ok (den Sg o).
Proof.
  intros s st j o F O V B. apply C02_valid_value_built_serialises; [|exact B]. rewrite <- nl_eq.
  exact (mm_pvalid_structure mm Sg alias_objects plain_classes cover_image cover_names_ok cover_fields_ok2 s st j F O V).
Qed.
(* message envelopes (requests, responses, notifications) at their message classes *)
Theorem C02_messages : forall tp j o, In tp covered_msg_pairs -> cvalid mm (TLit (snd (fst tp))) j -> bld Sg NLm (PyCls (snd tp)) j o ->
  built Sg NLm (PyCls (snd tp)) o /\ RoundTrip.NEq j (den Sg o) /\ exists n, unstr Sg n (Some (PyCls (snd tp))) o = Ok (den Sg o).
Proof.
  intros tp j o I V B. apply C02_valid_value_built_serialises; [|exact B]. rewrite <- nl_eq.
  pose proof covered_msg_pairs_ok as H. rewrite forallb_forall in H. specialize (H tp I). unfold msg_pair_ok in H.
  destruct (lookup_cls Sg (snd tp)) as [fs|] eqn:L; [|discriminate].
  apply andb_true_iff in H. destruct H as [H _]. apply andb_true_iff in H. destruct H as [NS CB]. apply none_eq in NS.
  exact (mm_pvalid_literal mm Sg alias_objects plain_classes cover_image cover_names_ok cover_fields_ok2 (snd (fst tp)) (snd tp) fs j L NS CB V).
Qed.
(* non-vacuity: the object built from a concrete valid value *)
Example C02_bld_example : bld Sg NLm (PyCls "Position") (JObj [("line", JInt 1); ("character", JInt 2)]) (VObj "Position" [("line", VInt 1); ("character", VInt 2)]).
Proof.
  apply (bl_cls Sg NLm "Position" pos_fs); [vm_compute; reflexivity|].
  repeat constructor; cbn; try (intros v E; inversion E; constructor); try discriminate.
Qed.

(* non-vacuity: a concrete constructor-built value *)
Example C02_built_example : built Sg NLm (PyCls "Position") (VObj "Position" [("line", VInt 1); ("character", VInt 2)]).
Proof.
  eapply b_cls; [vm_compute; reflexivity|]. intros f If. vm_compute in If.
  destruct If as [<-|[<-|[]]]; eexists; (split; [vm_compute; reflexivity | split; [constructor | split; [vm_compute; reflexivity | intros E; discriminate E]]]).
Qed.

Example C02_example : camel "text_document" = "textDocument" /\ length (classes Sg) >= 100.
Proof. split; [reflexivity | vm_compute; repeat constructor]. Qed.

Print Assumptions C02_kwargs_camel_to_wire.
Print Assumptions C02_wire_is_metamodel_name.
Print Assumptions C02_unstr_class_spec.
Print Assumptions C02_well_typed_objects_serialise_to_their_denotation.
Print Assumptions C02_built_serialises_and_reparses.
Print Assumptions C02_class_tables_ok2.
Print Assumptions C02_valid_value_built_serialises.
Print Assumptions C02_structures.
Print Assumptions C02_messages.
