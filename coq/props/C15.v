(* Property C15 — unknown properties are ignored (forward compatibility).
   STATUS: partial.  Proved: (1) generic, every class / callback / object: undeclared keys appended to an object are
   invisible to structuring at a class (SemThy.class_ignores_extras: the result is EQUAL, so re-serialisation is too);
   (2) instance: the converter does not forbid extra keys, and every key any registered hook probes is a property name
   of the metamodel — so a FRESH name (one the metamodel does not declare) is never probed by a hook and never matches a
   wire name;  (3) ROUND 4 — AT EVERY DEPTH, for the covered part of the package (props/Cover.v: 553 of 554 classes, 83 of 88 hooked
   unions, 163 of 164 message classes): [C15_unknown_properties_ignored_everywhere] / [.._messages] — for every covered structure /
   message class, EVERY closed-valid value j of the metamodel and EVERY j' obtained from j by adding properties with undeclared names to
   protocol objects anywhere inside it (LSP.Ext.xt: through arrays, maps, attributes and unions, through every registered hook),
   structuring j' succeeds with exactly the value structuring j gives, which serialises to j up to nulls — no bound on size, depth or
   the number / payload of the added properties.  Outside the covered part (the class that reaches the one hook outside the
   proved fragment) and for positions of the extras other than the end of the object: validated on every run by the extras stream
   (fresh properties at one node / every node / nested payloads; model = real; result and re-serialisation equal to the
   un-extended run). *)
From LSP Require Import Base MM Sem SemThy Image Denote RoundTrip HookFrag Link Ext MMRound.
From Gen Require Import MMData PkgData Known.
From Props Require Import Cover.

Theorem C15_extra_keys_not_forbidden : forbid_extra Sg = false.
Proof. vm_compute. reflexivity. Qed.

(* all property names the metamodel declares anywhere (structures, literals) + the envelope names *)
Fixpoint lit_names (n : nat) (t : ty) : list string :=
  match n with O => [] | S n =>
  match t with
  | TLit ps => map (fun x => fst (fst x)) ps ++ flat_map (fun x => lit_names n (snd (fst x))) ps
  | TArr t' => lit_names n t' | TMap k v => lit_names n k ++ lit_names n v
  | TOr l | TAnd l | TTuple l => flat_map (lit_names n) l | _ => [] end end.
Definition declared_names : list string :=
  ["jsonrpc"; "id"; "method"; "params"; "result"; "error"; "code"; "message"; "data"]
  ++ flat_map (fun s => flat_map (fun p => p_name p :: lit_names 6 (p_type p)) (s_props s)) (structures mm)
  ++ flat_map (fun a => lit_names 6 (a_type a)) (aliases mm).
Definition fresh (k : string) : Prop := ~ In k declared_names.

Fixpoint cond_keys (c : hcond) : list string :=
  match c with CHasKey k _ => [k] | CNot x | CAnyItem _ x => cond_keys x | COr a b | CAnd a b => cond_keys a ++ cond_keys b | _ => [] end.
Fixpoint hexpr_keys (e : hexpr) : list string := match e with HKey e' k => k :: hexpr_keys e' | HIdx e' _ => hexpr_keys e' | _ => [] end.
Fixpoint cond_exprs (c : hcond) : list hexpr :=
  match c with
  | CIsNone e | CIsPrim e | CIsStr e | CIsList e | CHasKey _ e | CEqStr e _ | CLenEq0 e => [e]
  | CNot x => cond_exprs x | COr a b | CAnd a b => cond_exprs a ++ cond_exprs b
  | CAnyItem e x => e :: cond_exprs x end.
Fixpoint hret_keys (r : hret) : list string :=
  match r with
  | RSelf e | RStruct e _ | RStr e | RIntOf e => hexpr_keys e
  | RMap e b => hexpr_keys e ++ hret_keys b
  | RIf c a b => cond_keys c ++ flat_map hexpr_keys (cond_exprs c) ++ hret_keys a ++ hret_keys b
  | RTuple l => flat_map hret_keys l | _ => [] end.
Fixpoint hook_keys (h : hook) : list string :=
  match h with
  | TIf c a b => cond_keys c ++ flat_map hexpr_keys (cond_exprs c) ++ hook_keys a ++ hook_keys b
  | TRet r => hret_keys r | TRaise => [] end.
Definition probed_keys : list string := flat_map (fun uh => hook_keys (snd uh)) (uhooks Sg).
Theorem C15_hooks_probe_only_declared_names : subset probed_keys declared_names = true.
Proof. vm_compute. reflexivity. Qed.
Theorem C15_wire_names_are_declared : forallb (fun c => subset (map fwire (snd c)) declared_names) (classes Sg) = true.
Proof. vm_compute. reflexivity. Qed.

Lemma subset_in a b x : subset a b = true -> In x a -> In x b.
Proof. unfold subset. rewrite forallb_forall. intros H I. apply mem_in. apply H. exact I. Qed.

(* a fresh name is never a key a hook looks at ... *)
Theorem C15_fresh_never_probed : forall k, fresh k -> ~ In k probed_keys.
Proof. intros k F I. apply F. exact (subset_in _ _ _ C15_hooks_probe_only_declared_names I). Qed.

(* ... and fresh properties appended to an object are invisible to structuring at any class: same result, for every
   payload of the added properties, every callback, hence every fuel *)
Section AnyStr.
Variable pystr : json -> string.
Theorem C15_class_ignores_fresh_properties : forall rec c fs m ex,
  lookup_cls Sg c = Some fs -> (forall k, In k (keys ex) -> fresh k) ->
  step Sg pystr rec (PyCls c) (JObj (m ++ ex)) = step Sg pystr rec (PyCls c) (JObj m).
Proof.
  intros rec c fs m ex L F. apply (class_ignores_extras Sg pystr rec c fs m ex L C15_extra_keys_not_forbidden).
  intros f If I. apply (F _ I).
  pose proof C15_wire_names_are_declared as W. rewrite forallb_forall in W.
  apply assoc_in in L. specialize (W _ L). cbn [snd] in W. apply (subset_in _ _ _ W). apply in_map. exact If.
Qed.
End AnyStr.

(* ------------------------------------------------------------ (3) every depth, through every hook: the covered part *)
Theorem C15_names_declared : names_declared Sg declared_names = true.
Proof. vm_compute. reflexivity. Qed.

Section Deep.
Variable pystr : json -> string.
Theorem C15_unknown_properties_ignored_everywhere : forall s st j,
  find_struct mm s = Some st -> String.eqb s "LSPObject" = false -> mem s (fst cov) = true -> cvalid mm (TRef s) j ->
  forall j', xt Sg NLm declared_names (PyCls s) j j' ->
  exists n o jj, structure Sg pystr n (PyCls s) j = Ok o /\ structure Sg pystr n (PyCls s) j' = Ok o /\ has_type Sg (PyCls s) o /\
                 unstr Sg n (Some (PyCls s)) o = Ok jj /\ RoundTrip.NEq j jj.
Proof.
  pose proof cover_hooks_ok as H. rewrite <- nl_eq in H. rewrite <- nl_eq.
  exact (mm_ext_structure mm Sg alias_objects plain_classes pystr (fst cov) (snd cov) cover_image cover_names_ok cover_fields_ok2 cover_table_ok H
           declared_names C15_names_declared).
Qed.
(* any metamodel type at any covered annotation that is its image (aliases, arrays, unions ...) *)
Theorem C15_unknown_properties_ignored_any_type : forall T j p k n,
  cvalid mm T j -> wfp p = true -> smatch mm Sg alias_objects k (py_of mm n T) p = true -> okty Sg (fst cov) (snd cov) p = true ->
  forall j', xt Sg NLm declared_names p j j' ->
  exists n' o jj, structure Sg pystr n' p j = Ok o /\ structure Sg pystr n' p j' = Ok o /\ has_type Sg p o /\
                  unstr Sg n' (Some p) o = Ok jj /\ RoundTrip.NEq j jj.
Proof.
  pose proof cover_hooks_ok as H. rewrite <- nl_eq in H. rewrite <- nl_eq.
  exact (mm_ext mm Sg alias_objects plain_classes pystr (fst cov) (snd cov) cover_image cover_names_ok cover_fields_ok2 cover_table_ok H
           declared_names C15_names_declared).
Qed.
(* message envelopes *)
Theorem C15_unknown_properties_ignored_messages : forall tp j, In tp covered_msg_pairs -> cvalid mm (TLit (snd (fst tp))) j ->
  forall j', xt Sg NLm declared_names (PyCls (snd tp)) j j' ->
  exists n o jj, structure Sg pystr n (PyCls (snd tp)) j = Ok o /\ structure Sg pystr n (PyCls (snd tp)) j' = Ok o /\ has_type Sg (PyCls (snd tp)) o /\
                 unstr Sg n (Some (PyCls (snd tp))) o = Ok jj /\ RoundTrip.NEq j jj.
Proof.
  intros tp j I V. pose proof covered_msg_pairs_ok as H. rewrite forallb_forall in H. specialize (H tp I). unfold msg_pair_ok in H.
  destruct (lookup_cls Sg (snd tp)) as [fs|] eqn:L; [|discriminate].
  apply andb_true_iff in H. destruct H as [H G]. apply andb_true_iff in H. destruct H as [NS CB]. apply none_eq in NS.
  pose proof cover_hooks_ok as HK. rewrite <- nl_eq in HK. rewrite <- nl_eq.
  exact (mm_ext_literal mm Sg alias_objects plain_classes pystr (fst cov) (snd cov) cover_image cover_names_ok cover_fields_ok2 cover_table_ok HK
           declared_names C15_names_declared (snd (fst tp)) (snd tp) fs j L NS CB G V).
Qed.
End Deep.

(* non-vacuity of the extension relation: unknown properties at the top AND inside a nested protocol object of a Range *)
Definition range_fs : list fld := Eval vm_compute in match lookup_cls Sg "Range" with Some fs => fs | None => [] end.
Definition pos_j (l c : Z) : json := JObj [("line", JInt l); ("character", JInt c)].
Example C15_deep_example :
  xt Sg NLm declared_names (PyCls "Range")
     (JObj [("start", pos_j 1 2); ("end", pos_j 3 4)])
     (JObj [("zzFirst", JBool true); ("start", JObj [("line", JInt 1); ("zzInner", JArr [JNull]); ("character", JInt 2)]); ("zzOuter", JObj [("k", JInt 1)]); ("end", pos_j 3 4)]).
Proof.
  apply (xt_cls Sg NLm declared_names "Range" range_fs); [vm_compute; reflexivity|].
  match goal with |- Forall2 _ _ (kn _ ?m) =>
    assert (K : kn declared_names m = [("start", JObj [("line", JInt 1); ("zzInner", JArr [JNull]); ("character", JInt 2)]); ("end", pos_j 3 4)]) by (vm_compute; reflexivity);
    rewrite K; clear K end.
  constructor; [|constructor; [|constructor]].
  - split; [reflexivity|]. intros f If Ef. vm_compute in If. destruct If as [<-|[<-|[]]]; try discriminate Ef. cbn [ftype snd].
    apply (xt_cls Sg NLm declared_names "Position" pos_fs); [vm_compute; reflexivity|].
    match goal with |- Forall2 _ _ (kn _ ?m) =>
      assert (K : kn declared_names m = [("line", JInt 1); ("character", JInt 2)]) by (vm_compute; reflexivity); rewrite K; clear K end.
    repeat constructor; intros; apply xt_refl.
  - split; [reflexivity|]. intros; apply xt_refl.
Qed.

Lemma not_mem_fresh k : mem k declared_names = false -> fresh k.
Proof. intros H I. apply mem_in in I. congruence. Qed.
Example C15_example : fresh "zzExtraProperty" /\ length probed_keys >= 20.
Proof. split; [apply not_mem_fresh; vm_compute; reflexivity | vm_compute; repeat constructor]. Qed.

Print Assumptions C15_extra_keys_not_forbidden.
Print Assumptions C15_hooks_probe_only_declared_names.
Print Assumptions C15_fresh_never_probed.
Print Assumptions C15_class_ignores_fresh_properties.
Print Assumptions C15_names_declared.
Print Assumptions C15_unknown_properties_ignored_everywhere.
Print Assumptions C15_unknown_properties_ignored_any_type.
Print Assumptions C15_unknown_properties_ignored_messages.
