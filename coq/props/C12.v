(* Property C12 — LSP integer ranges are enforced exactly at construction and parse time.
   Over the validator bodies translated from validators.py (Gen.ValData), the package tables (Gen.PkgData) and the
   metamodel (Gen.MMData).  All statements are for every integer / every Python value of the model universe [pv]. *)
From Coq Require Import Lia.
From LSP Require Import Base MM Sem Val Image ImageThy.
From Gen Require Import MMData PkgData ValData.
Open Scope Z_scope.

(* the validators with their constants folded (2**31 - 1 ↦ 2147483647); equal in behaviour by fold_validator_ok *)
Definition iv := Eval vm_compute in fold_validator integer_validator.
Definition uv := Eval vm_compute in fold_validator uinteger_validator.
Lemma iv_ok v : run integer_validator v = run iv v.
Proof. symmetry. exact (fold_validator_ok integer_validator v). Qed.
Lemma uv_ok v : run uinteger_validator v = run uv v.
Proof. symmetry. exact (fold_validator_ok uinteger_validator v). Qed.

Ltac zc := repeat match goal with
                  | |- context [Z.leb ?a ?b] => destruct (Z.leb_spec a b)
                  | |- context [Z.ltb ?a ?b] => destruct (Z.ltb_spec a b)
                  | |- context [Z.eqb ?a ?b] => destruct (Z.eqb_spec a b) end.
Ltac exact_range := intros z; cbv -[Z.leb Z.ltb Z.eqb Z.le Z.lt]; zc; split; intros; try lia; try discriminate; try reflexivity.

(* 1. the translated validators accept exactly the LSP ranges, on every int *)
Theorem C12_integer_exact : forall z, run integer_validator (VInt z) = VTrue <-> (-2147483648 <= z <= 2147483647).
Proof. intros z. rewrite iv_ok. revert z. exact_range. Qed.
Theorem C12_uinteger_exact : forall z, run uinteger_validator (VInt z) = VTrue <-> (0 <= z <= 2147483647).
Proof. intros z. rewrite uv_ok. revert z. exact_range. Qed.

(* 2. for ANY argument they return True or raise ValueError with a message naming class and attribute *)
Definition well_behaved (vd : validator) : Prop :=
  forall v : pv, run vd v = VTrue \/ (exists m, run vd v = VRaiseValueError m /\ names_class_and_attr m = true).
Ltac total_case :=
  cbv -[cmp_q];
  repeat match goal with |- context [cmp_q ?c ?x ?y] => destruct (cmp_q c x y) end;
  first [left; reflexivity | right; eexists; split; reflexivity].
Ltac total := intros v; destruct v as [| b | z | n d | s | l | l | m | c fs | c x]; try total_case; destruct x; total_case.
Theorem C12_integer_total : well_behaved integer_validator.
Proof. intros v. rewrite iv_ok. revert v. total. Qed.
Theorem C12_uinteger_total : well_behaved uinteger_validator.
Proof. intros v. rewrite uv_ok. revert v. total. Qed.

Ltac fin := zc; repeat split; intros; try lia; try discriminate; try reflexivity.
Ltac model_case :=
  first [ solve [cbv -[Z.leb Z.ltb Z.eqb Z.le Z.lt]; fin]
        | solve [cbv -[Z.leb Z.ltb Z.eqb Z.le Z.lt cmp_q];
                 repeat match goal with |- context [cmp_q ?c ?x ?y] => destruct (cmp_q c x y) end; fin] ].
(* 3. the converter model's built-in range test (Sem.validate1, used by every theorem about structuring) IS the
      translated validator: the hand-written model and validators.py agree on every value *)
Theorem C12_model_uses_real_validators : forall v,
  (validate1 VInteger v = true <-> run integer_validator v = VTrue) /\
  (validate1 VUInteger v = true <-> run uinteger_validator v = VTrue).
Proof.
  intros v. rewrite iv_ok, uv_ok.
  destruct v as [| b | z | n d | s | l | l | m | c fs | c x]; try solve [model_case].
  - destruct b; model_case.
  - destruct x as [| b | z | n d | s | l | l | m | c' fs | c' x]; try solve [model_case]; try (destruct b; model_case).
Qed.

(* 4. instance: every property whose metamodel type is integer / uinteger carries that validator, optional-wrapped iff
      optional, on an int-typed attribute without a union hook in the way *)
Definition int_kind (t : ty) : option vkind :=
  match t with TBase BInteger => Some VInteger | TBase BUInteger => Some VUInteger | _ => None end.
Definition opt_int_shape (t : pty) : bool := match t with PyUnion [PyInt; PyNone] => true | _ => false end.
Definition int_shape (t : pty) : bool := match t with PyInt => true | _ => false end.
Lemma opt_int_shape_eq t : opt_int_shape t = true -> t = PyUnion [PyInt; PyNone].
Proof.
  intros H. destruct t as [| | | | | |l| | | | | | | |]; try discriminate H.
  destruct l as [|a [|b [|c l]]]; try discriminate H; destruct a; try discriminate H; destruct b; try discriminate H. reflexivity.
Qed.
Lemma int_shape_eq t : int_shape t = true -> t = PyInt.
Proof. destruct t; try discriminate; reflexivity. Qed.
Definition int_field_ok (q : prop) (f : fld) : bool :=
  match int_kind (p_type q) with
  | None => true
  | Some k => vkind_eqb (fval f) k && Bool.eqb (fvalopt f) (is_optional q)
              && (if is_optional q
                  then opt_int_shape (ftype f) && match lookup_uhook Sg (ftype f) with None => true | Some _ => false end
                  else int_shape (ftype f)) end.
Definition int_fields_bad : list (string * string) :=
  flat_map (fun s => match assoc (s_name s) (classes Sg) with
                     | None => if String.eqb (s_name s) "LSPObject" then [] else [(s_name s, "")]
                     | Some fs => flat_map (fun q => match int_kind (p_type q) with None => [] | Some _ =>
                                              match find (fun f => String.eqb (fwire f) (p_name q)) fs with
                                              | Some f => if int_field_ok q f then [] else [(s_name s, p_name q)]
                                              | None => [(s_name s, p_name q)] end end) (flat mm (s_name s)) end) (structures mm).
Definition int_fields_count : nat :=
  length (flat_map (fun s => filter (fun q => match int_kind (p_type q) with Some _ => true | None => false end) (flat mm (s_name s))) (structures mm)).
Theorem C12_every_integer_property_validated : int_fields_bad = [].
Proof. vm_compute. reflexivity. Qed.

(* 5. both entry points give the same verdict, equal to the range test, for every int:
      constructor = attrs __init__ running the validator on the argument; converter = int(obj) then __init__ *)
Definition ctor_accepts (f : fld) (z : Z) : bool := validate (fval f) (fvalopt f) (VInt z).
Definition conv_accepts (f : fld) (z : Z) : bool :=
  match structure Sg (fun _ => "") 3 (ftype f) (JInt z) with
  | Ok v => validate (fval f) (fvalopt f) v | _ => false end.
Theorem C12_same_verdict_at_both_entry_points : forall q f z,
  int_kind (p_type q) <> None -> int_field_ok q f = true ->
  ctor_accepts f z = conv_accepts f z /\
  (ctor_accepts f z = true <-> match int_kind (p_type q) with Some VUInteger => 0 <= z <= 2147483647 | _ => -2147483648 <= z <= 2147483647 end).
Proof.
  intros q f z Hk Hok. unfold int_field_ok in Hok. destruct (int_kind (p_type q)) as [k|] eqn:K; [|congruence].
  assert (Kk : k = VInteger \/ k = VUInteger) by (unfold int_kind in K; destruct (p_type q) as [[]| | | | | | | | | |]; inversion K; auto).
  apply andb_true_iff in Hok. destruct Hok as [Hok Hty]. apply andb_true_iff in Hok. destruct Hok as [Hv Ho].
  apply vkind_eqb_eq in Hv. apply eqb_prop in Ho.
  assert (Hconv : conv_accepts f z = ctor_accepts f z).
  { unfold conv_accepts, ctor_accepts. destruct (is_optional q).
    - apply andb_true_iff in Hty. destruct Hty as [Hty Hh]. apply opt_int_shape_eq in Hty. rewrite Hty in *.
      cbn [structure step]. destruct (lookup_uhook Sg (PyUnion [PyInt; PyNone])); [discriminate|].
      cbn [filter negb is_none length Nat.eqb py_int]. reflexivity.
    - apply int_shape_eq in Hty. rewrite Hty. cbn [structure step py_int]. reflexivity. }
  split; [symmetry; exact Hconv|].
  unfold ctor_accepts. rewrite Hv, Ho. unfold validate.
  destruct Kk as [-> | ->]; cbv -[Z.leb Z.ltb Z.eqb Z.le Z.lt]; zc; split; intros; try lia; try discriminate; reflexivity.
Qed.

(* non-vacuity *)
Example C12_example : (int_fields_count >= 20)%nat /\ run integer_validator (VInt 2147483648) <> VTrue /\ run uinteger_validator (VInt 0) = VTrue.
Proof. vm_compute. repeat split; try discriminate. repeat constructor. Qed.

Print Assumptions C12_integer_exact.
Print Assumptions C12_uinteger_exact.
Print Assumptions C12_integer_total.
Print Assumptions C12_uinteger_total.
Print Assumptions C12_model_uses_real_validators.
Print Assumptions C12_every_integer_property_validated.
Print Assumptions C12_same_verdict_at_both_entry_points.
