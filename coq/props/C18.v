(* Property C18 — model loading is lossless, merge is concatenation, equality of models, invalid models write nothing.

   Everything below is about the program AS TRANSLATED on this run:
     Gen.ModelPyData.model_py   generator/model.py     (lib/x_modelpy.py)
     Gen.MainData               generator/__main__.py  (lib/x_main.py: order of effects, the object passed to jsonschema.validate)
     Gen.SchemaData.defs        generator/lsp.schema.json (lib/x_schema.py)
     Gen.C18X                   the exclusions read from known_findings.txt (empty lists when nothing is recorded) and the
                                (definition, callee) pairs the compatibility checker is asked to check
   under the hand-written semantics LSP.JSchema (JSON-Schema subset) and LSP.Loader (attrs __init__, Python ==, main).

   Readings pinned here (they narrow "schema-valid", they are not findings):
     - a JSON `number` in the metamodel (enumeration entry value, integer literal) is an integer;
     - the values of an enumeration agree with its declared base type (strings iff type.name = "string") — the loader's
       enum_validator is a legitimate semantic check the schema language cannot express.
   `~` (read-back equals the document) is LSP.Loader.jeqv: equality up to the order of object keys, where a key bound to
   null counts as absent (an unset optional attribute is None) and an empty `extends` / `mixins` list counts as absent
   (the loader's default for them is []). *)
From LSP Require Import Base JSchema Loader.
From Gen Require Import SchemaData ModelPyData MainData C18X.
Open Scope string_scope. Open Scope list_scope.

Definition ROOT := "MetaModel".
Definition pinned : list rop := [RNarrowNumber; REnumTyped "Enumeration"].
Definition defs_of (X : list rop) := restrict (pinned ++ X) defs.

(* what the property means by schema-valid: the unrestricted file, root MetaModel *)
Definition schema_valid (d : json) : bool := jsv defs (fuel_for defs d) (SRef ROOT) d.
(* the documents a loading theorem with exclusions X covers: as parsed (unique keys), valid for the schema minus X *)
Definition doc_wf (X : list rop) (d : json) : bool := jwf d && jsv (defs_of X) (fuel_for (defs_of X) d) (SRef ROOT) d.
(* what main checks: the object it hands to jsonschema.validate, read as a schema *)
Definition gate_accepts (d : json) : bool := jsv defs (fuel_for defs d) gate_root d.

Definition load := Loader.load model_py.
Definition model_eq := py_eq model_py.
Definition create := Loader.create model_py.
Definition SK := sk_table model_py.
Definition same_skeleton := skeq SK.
Definition main_model (plugin : lv -> list string -> status * list string) := main model_py gate_accepts plugin main_effects.

(* ---------------------------------------------------------------------------------------------------------------- *)
(* the property, in full *)
Definition load_readback_stmt (X : list rop) : Prop :=
  forall d, doc_wf X d = true -> exists m, load d = Ok m /\ jeqv (rb m) d.
Definition eq_total_stmt (xc : list string) : Prop :=
  forall a b ma mb, jwf a = true -> jwf b = true -> load a = Ok ma -> load b = Ok mb ->
    no_cls xc ma = true -> no_cls xc mb = true -> exists r, model_eq ma mb = Ok r.
Definition eq_refl_load_stmt (xc : list string) : Prop :=
  forall d m m', jwf d = true -> load d = Ok m -> load d = Ok m' -> no_cls xc m = true -> model_eq m m' = Ok true.
Definition eq_skeleton_stmt (xc : list string) : Prop :=
  forall a b ma mb, jwf a = true -> jwf b = true -> load a = Ok ma -> load b = Ok mb ->
    no_cls xc ma = true -> no_cls xc mb = true -> same_skeleton ma mb = false -> model_eq ma mb = Ok false.
Definition gate_stmt : Prop :=
  forall plugin docs fs, (exists d, In d docs /\ schema_valid d = false) -> main_model plugin docs fs = (SError, fs).
(* with X = [] and xc = [] these are the statements of the property; C18X carries what known_findings.txt records *)

(* ---------------------------------------------------------------------------------------------------------------- *)
(* instance obligations, recomputed against the regenerated data *)
Lemma compat_current : compat (defs_of x_rops) model_py cpairs = true.
Proof. vm_compute. reflexivity. Qed.
Lemma root_pair_current : in_cp cpairs ROOT (CClass (t_root model_py)) = true.
Proof. vm_compute. reflexivity. Qed.
Lemma tables_ok_current : tables_ok model_py = true.
Proof. vm_compute. reflexivity. Qed.
Lemma eqs_ok_current : eqs_ok model_py x_eqcls = true.
Proof. vm_compute. reflexivity. Qed.
Lemma eq_covers_current : eq_covers model_py x_eqcls SK = true.
Proof. vm_compute. reflexivity. Qed.
(* the fields create_lsp_model extends are exactly the declaration lists of the root class, each once *)
Definition decl_fields : list string :=
  match find_cls model_py (t_root model_py) with
  | Some C => map f_name (filter (fun f => match f_conv f with KList _ => true | _ => false end) (c_fields C))
  | None => [] end.
Lemma merge_fields_current : nodupb (t_merge model_py) && seteq (t_merge model_py) decl_fields && negb (is_nil_b decl_fields) = true.
Proof. vm_compute. reflexivity. Qed.
Lemma order_current : order_ok main_effects = true.
Proof. vm_compute. reflexivity. Qed.

(* ---------------------------------------------------------------------------------------------------------------- *)
Theorem C18_load_readback : load_readback_stmt x_rops.
Proof.
  intros d H. apply andb_true_iff in H. destruct H as [W V].
  apply (load_readback_generic (defs_of x_rops) model_py cpairs ROOT compat_current (in_cp_In _ _ _ root_pair_current) d W).
  exists (fuel_for (defs_of x_rops) d). exact V.
Qed.

Theorem C18_merge_concat : forall d0 ds m, create (d0 :: ds) = Ok m ->
  exists m0 ms, bld model_py (t_root model_py) d0 = Ok m0 /\ mapM (bld model_py (t_root model_py)) ds = Ok ms /\
    (forall g, In g decl_fields -> field_list m g = field_list m0 g ++ flat_map (fun a => field_list a g) ms) /\
    (forall g, ~ In g decl_fields -> getattr m g = getattr m0 g).
Proof.
  intros d0 ds m E. pose proof merge_fields_current as MF. rewrite !andb_true_iff in MF. destruct MF as [[ND SE] _].
  apply nodupb_NoDup in ND. unfold seteq in SE. apply andb_true_iff in SE. destruct SE as [S1 S2].
  unfold subset in S1, S2. rewrite forallb_forall in S1, S2.
  destruct (merge_concat model_py ND d0 ds m E) as [m0 [ms [E0 [Es Hg]]]]. exists m0, ms. repeat split; auto.
  - intros g I. apply (proj1 (Hg g)). apply S2. exact I.
  - intros g NI. apply (proj2 (Hg g)). destruct (mem g (t_merge model_py)) eqn:M; [|reflexivity].
    exfalso. apply NI. apply mem_in. apply S1. apply mem_in. exact M.
Qed.

Theorem C18_eq_total : eq_total_stmt x_eqcls.
Proof.
  intros a b ma mb Wa Wb La Lb Na Nb.
  apply (py_eq_total model_py x_eqcls eqs_ok_current ma (load_wfv model_py tables_ok_current a ma Wa La) Na
                     mb (load_wfv model_py tables_ok_current b mb Wb Lb) Nb).
Qed.

Theorem C18_eq_refl_load : eq_refl_load_stmt x_eqcls.
Proof.
  intros d m m' W L L' N. unfold load in *. rewrite L in L'. inversion L'; subst m'.
  apply (py_eq_refl model_py x_eqcls eqs_ok_current m (load_wfv model_py tables_ok_current d m W L) N).
Qed.

Theorem C18_eq_skeleton : eq_skeleton_stmt x_eqcls.
Proof.
  intros a b ma mb Wa Wb La Lb Na Nb S.
  pose proof (load_wfv model_py tables_ok_current a ma Wa La) as Wma. pose proof (load_wfv model_py tables_ok_current b mb Wb Lb) as Wmb.
  destruct (py_eq_total model_py x_eqcls eqs_ok_current ma Wma Na mb Wmb Nb) as [[|] E]; [|exact E].
  pose proof (py_eq_skeleton model_py x_eqcls SK eqs_ok_current eq_covers_current ma Wma Na mb Wmb Nb E) as S'.
  unfold same_skeleton in S. rewrite S in S'. discriminate.
Qed.

(* holds whatever main passes as the schema: a file the gate OR the loader rejects stops main before the plugin, nothing written *)
Theorem C18_gate_partial : forall plugin docs fs,
  (exists d, In d docs /\ (gate_accepts d = false \/ is_ok (load d) = false)) -> main_model plugin docs fs = (SError, fs).
Proof. intros plugin docs fs H. apply (gate_partial model_py gate_accepts plugin main_effects docs fs order_current H). Qed.

(* BEGIN UNLESS-KNOWN gate *)
(* what main checks implies schema validity (it IS the schema with root MetaModel) *)
Lemma gate_sound_current : forall d, gate_accepts d = true -> schema_valid d = true.
Proof. intros d H. exact H. Qed.
Theorem C18_gate : gate_stmt.
Proof.
  intros plugin docs fs H.
  apply (gate_generic model_py gate_accepts plugin schema_valid main_effects docs fs order_current gate_sound_current H).
Qed.
Print Assumptions C18_gate.

(* process histories: the command run several times in one process, the files written so far threaded through.  In the MODEL a call
   depends on the documents handed to THAT call only - the translated main has no state (lib/x_main.py rejects what would give it one:
   a decorator such as functools.lru_cache on a helper it follows, module-level rebinding), and the history stream of the check
   (lib/c18_history.py) ties exactly this to the real process.  So an invalid call anywhere in a history fails and leaves the files
   as the calls before it left them, whatever ran before and whatever runs after. *)
Fixpoint run_history (plugin : lv -> list string -> status * list string) (calls : list (list json)) (fs : list string) : list status * list string :=
  match calls with
  | [] => ([], fs)
  | docs :: r => match main_model plugin docs fs with
                 | (s, fs1) => match run_history plugin r fs1 with (ss, fs2) => (s :: ss, fs2) end end
  end.
Theorem C18_gate_history : forall plugin before docs after fs,
  (exists d, In d docs /\ schema_valid d = false) ->
  run_history plugin (before ++ docs :: after) fs =
    match run_history plugin before fs with
    | (s1, fs1) => match run_history plugin after fs1 with (s2, fs2) => (s1 ++ SError :: s2, fs2) end end.
Proof.
  intros plugin before docs after fs H. revert fs. induction before as [|c r IH]; intros fs; cbn [run_history app].
  - rewrite (C18_gate plugin docs fs H). destruct (run_history plugin after fs) as [s2 fs2]. reflexivity.
  - destruct (main_model plugin c fs) as [s fs1]. rewrite IH. destruct (run_history plugin r fs1) as [s1 fs1'].
    destruct (run_history plugin after fs1') as [s2 fs2]. reflexivity.
Qed.
Print Assumptions C18_gate_history.
(* END UNLESS-KNOWN gate *)

(* non-vacuity: a small document that is covered, loads, reads back, merges and compares *)
Definition ex_ty : json := JObj [("kind", JStr "or"); ("items", JArr [JObj [("kind", JStr "base"); ("name", JStr "string")];
                                                                      JObj [("kind", JStr "reference"); ("name", JStr "S")]])].
Definition ex_doc : json := JObj [
  ("metaData", JObj [("version", JStr "3.17.0")]);
  ("requests", JArr [JObj [("method", JStr "a/b"); ("messageDirection", JStr "both"); ("result", ex_ty); ("documentation", JStr "doc")]]);
  ("notifications", JArr []);
  ("structures", JArr [JObj [("name", JStr "S"); ("properties", JArr [JObj [("name", JStr "p"); ("type", ex_ty); ("optional", JBool true)]])]]);
  ("enumerations", JArr [JObj [("name", JStr "E"); ("type", JObj [("kind", JStr "base"); ("name", JStr "uinteger")]);
                               ("values", JArr [JObj [("name", JStr "one"); ("value", JInt 1)]])]]);
  ("typeAliases", JArr [])].
Example C18_example :
  doc_wf x_rops ex_doc = true /\ schema_valid ex_doc = true /\ is_ok (load ex_doc) = true /\
  match load ex_doc with Ok m => jsim_b (rb m) ex_doc && (match model_eq m m with Ok true => true | _ => false end) | _ => false end = true /\
  match create [embed ex_doc; embed ex_doc] with Ok m => Nat.eqb (length (field_list m "structures")) 2 | _ => false end = true.
Proof. vm_compute. repeat split. Qed.

Print Assumptions C18_load_readback.
Print Assumptions C18_merge_concat.
Print Assumptions C18_eq_total.
Print Assumptions C18_eq_refl_load.
Print Assumptions C18_eq_skeleton.
Print Assumptions C18_gate_partial.
