(* Property C05 — committed packages are exactly what the generator emits for the committed model.
   A GROUND theorem about the tree at check time: the per-item digest lists of the generated and the committed files are
   equal (Python: every top-level statement of types.py, syntax tree with docstring whitespace normalised; Rust: every
   item of lib.rs after rustfmt).  The digests are computed by lib/x_gen.py (trusted); the kernel checks the comparison,
   in both directions and in order.  See DESIGN.md C05 for the honest limit of proof here. *)
From LSP Require Import Base.
From Gen Require Import GenCmp.

Fixpoint items_eqb (a b : list (string * string)) : bool :=
  match a, b with
  | [], [] => true
  | (n, h) :: a', (n', h') :: b' => String.eqb n n' && String.eqb h h' && items_eqb a' b'
  | _, _ => false end.
Lemma items_eqb_eq a b : items_eqb a b = true -> a = b.
Proof.
  revert b. induction a as [|[n h] a IH]; intros [|[n' h'] b] H; try discriminate; [reflexivity|].
  cbn in H. apply andb_true_iff in H. destruct H as [H H3]. apply andb_true_iff in H. destruct H as [H1 H2].
  apply String.eqb_eq in H1. apply String.eqb_eq in H2. rewrite (IH b H3). congruence.
Qed.

Theorem C05_python_generated_eq_committed : py_generated = py_committed.
Proof. apply items_eqb_eq. vm_compute. reflexivity. Qed.
Theorem C05_rust_generated_eq_committed : rs_generated = rs_committed.
Proof. apply items_eqb_eq. vm_compute. reflexivity. Qed.

Example C05_example : length py_committed >= 100 /\ length rs_committed >= 100.
Proof. vm_compute. split; repeat constructor. Qed.

Print Assumptions C05_python_generated_eq_committed.
Print Assumptions C05_rust_generated_eq_committed.
