(* Property C13 — enums carry exactly the metamodel's values; open ones accept custom values.
   (a) ground: the enum table of the package equals the metamodel's (with multiplicity, in order), from W_img;
   (b) instance: every direct use site (property, array element, map value whose type IS the enumeration) has the
       Python type and hook the generic lemmas need;  (c) generic lemmas of LSP.SemThy instantiated at every site. *)
From Coq Require Import Lia.
From LSP Require Import Base MM Sem SemThy Image ImageThy HookFrag.
From Gen Require Import MMData PkgData.

Theorem C13_image : W_img mm Sg alias_objects plain_classes = true.
Proof. vm_compute. reflexivity. Qed.
(* (a) *)
Theorem C13_values_exact : forall e, In e (enumerations mm) -> enum_ok Sg e = true.
Proof. exact (W_img_enums mm Sg alias_objects plain_classes C13_image). Qed.

(* use sites of an enumeration inside a flattened property *)
Inductive site := SiteProp | SiteElem | SiteMapVal.
Definition strip_none (t : pty) : pty :=
  match t with PyUnion l => match filter (fun x => negb (is_none x)) l with [x] => x | l' => PyUnion l' end | _ => t end.
Definition site_type (k : site) (f : fld) : option pty :=
  match k with
  | SiteProp => Some (ftype f)
  | SiteElem => match strip_none (ftype f) with PySeq t => Some t | _ => None end
  | SiteMapVal => match strip_none (ftype f) with PyDict _ t => Some t | _ => None end end.
Definition site_enum (q : prop) : option (site * string) :=
  match p_type q with
  | TRef n => Some (SiteProp, n) | TArr (TRef n) => Some (SiteElem, n) | TMap _ (TRef n) => Some (SiteMapVal, n) | _ => None end.
(* pass-through on primitives, decided semantically: the hook's leaf at both primitive shapes is the value itself
   (LSP.HookFrag.prim_passthrough_b, sound by prim_passthrough_sound) — whatever its conditions look like *)
Definition passthrough_b (h : hook) : bool := prim_passthrough_b h.
Definition has_enum_member (ms : list pty) (e : string) : bool := existsb (fun t => pty_eqb t (PyEnum e)) ms.
Definition site_ok (q : prop) (f : fld) : bool :=
  match site_enum q with
  | None => true
  | Some (k, n) =>
      match find_enum mm n with
      | None => true
      | Some e =>
          match site_type k f with
          | None => false
          | Some t =>
              if enum_open e
              then match t with
                   | PyUnion ms => has_enum_member ms n && not_optional_pair ms
                                   && match lookup_uhook Sg t with Some h => passthrough_b h | None => false end
                   | _ => false end
              else match k with SiteProp => direct_b Sg t (PyEnum n) | _ => pty_eqb t (PyEnum n) end
          end end end.
Definition c13_ok (s : MM.structure) (q : prop) : bool :=
  match assoc (s_name s) (classes Sg) with
  | None => String.eqb (s_name s) "LSPObject"
  | Some fs => match find (fun f => String.eqb (fwire f) (p_name q)) fs with Some f => site_ok q f | None => false end end.
(* (b) *)
Theorem C13_use_sites : forallb (fun s => forallb (c13_ok s) (flat mm (s_name s))) (structures mm) = true.
Proof. vm_compute. reflexivity. Qed.

Section AnyStr.
Variable pystr : json -> string.

(* (c1) open enumeration, any site: EVERY primitive value (declared or custom, of the base type or not) is accepted
   unchanged and serialises back to itself — for every callback *)
Theorem C13_open_site_accepts_and_roundtrips : forall ms h rec urec j,
  lookup_uhook Sg (PyUnion ms) = Some h -> passthrough_b h = true -> not_optional_pair ms = true -> is_prim j = true ->
  step Sg pystr rec (PyUnion ms) j = Ok (embed j) /\ ustep Sg urec (Some (PyUnion ms)) (embed j) = Ok j.
Proof.
  intros ms h rec urec j L P N J. split.
  - cbn [Sem.step]. rewrite L. apply prim_passthrough_sound; assumption.
  - apply open_site_roundtrip; assumption.
Qed.

(* (c2) closed enumeration: each declared value is accepted as the member carrying that value ... *)
Theorem C13_closed_accepts_declared : forall e d rec x,
  In e (enumerations mm) -> lookup_enum Sg (e_name e) = Some d -> In x (e_values e) ->
  let j := match snd (fst x) with EVStr s => JStr s | EVInt z => JInt z end in
  exists m, step Sg pystr rec (PyEnum (e_name e)) j = Ok (VEnum (e_name e) m) /\ pv_eqb_prim (embed j) m = true.
Proof.
  intros e d rec x Ie L Ix j. pose proof (C13_values_exact e Ie) as V. unfold enum_ok in V.
  unfold lookup_enum in L. rewrite L in V. apply andb_true_iff in V. destruct V as [V _].
  assert (Em : exists m, In m (evals d) /\ pv_eqb_prim (embed j) m = true).
  { exists (evalue_pv (snd (fst x))). split.
    - assert (E : evals d = map (fun x => evalue_pv (snd (fst x))) (e_values e)).
      { clear -V. revert V. generalize (map (fun x => evalue_pv (snd (fst x))) (e_values e)). generalize (evals d).
        induction l as [|a l IH]; intros [|b l'] H; try discriminate; [reflexivity|]. cbn in H. apply andb_true_iff in H. destruct H as [H1 H2].
        f_equal; [|apply IH; exact H2]. destruct a, b; try discriminate; cbn in H1; [apply Z.eqb_eq in H1 | apply String.eqb_eq in H1]; congruence. }
      rewrite E. apply in_map with (f := fun x => evalue_pv (snd (fst x))). exact Ix.
    - unfold j. destruct (snd (fst x)); cbn; [apply String.eqb_refl | apply Z.eqb_refl]. }
  destruct (enum_accepts_member Sg pystr rec (e_name e) d j L Em) as [m [S [_ E]]]. exists m. split; assumption.
Qed.
(* ... and a value of the base type that is not declared is rejected (see also C11_closed_enum_outside for the
   property-level statement inside any object) *)
Theorem C13_closed_rejects_other : forall e d rec j,
  lookup_enum Sg (e_name e) = Some d -> (forall mb, In mb (evals d) -> pv_eqb_prim (embed j) mb = false) ->
  forall o, step Sg pystr rec (PyEnum (e_name e)) j <> Ok o.
Proof. intros e d rec j L H o. eapply step_enum_reject; eauto. Qed.
End AnyStr.

(* non-vacuity *)
Definition count_sites (p : enumeration -> bool) : nat :=
  length (flat_map (fun s => filter (fun q => match site_enum q with Some (_, n) => match find_enum mm n with Some e => p e | None => false end | None => false end)
                                           (flat mm (s_name s))) (structures mm)).
Example C13_example : (count_sites enum_open >= 5)%nat /\ (count_sites (fun e => negb (enum_open e)) >= 20)%nat /\ (length (enumerations mm) >= 1)%nat.
Proof. vm_compute. repeat split; repeat constructor. Qed.

Print Assumptions C13_values_exact.
Print Assumptions C13_use_sites.
Print Assumptions C13_open_site_accepts_and_roundtrips.
Print Assumptions C13_closed_accepts_declared.
Print Assumptions C13_closed_rejects_other.
