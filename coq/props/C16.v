(* Property C16 — generation is a deterministic function of the model files alone.     LABEL: PARTIAL.
   Proved: the theorems of LSP.Emit about the ABSTRACT emission pipeline (all id assignments, all set iteration orders, all
   directory listings, all prior directory states), instantiated at strings; and, by computation on the site table translated
   from the current plugins (Gen.EmitData), that every source of run-to-run variation found by lib/x_emit.py belongs to a
   class covered by one of those theorems — in particular that no module-level state of generator/ can be changed by a function
   (no_module_state), so that the n-th generation of a process is the first generation of a fresh one — and that every plugin
   cleans its owned pattern before writing or writes fixed names.
   NOT proved: that each Python expression is an instance of its class (syntactic classification + differential runs). *)
From Coq Require Import List String Bool Permutation.
Import ListNotations.
From LSP Require Import Emit.
From Gen Require Import EmitData.
Open Scope string_scope.

(* ---- instance obligations (recomputed on every run) *)
(* no module-level name / class attribute / default value / functools cache of generator/ that a function can change *)
Lemma no_module_state : state_ok sites = true.
Proof. vm_compute. reflexivity. Qed.
Lemma sites_covered : sites_ok sites = true.
Proof. vm_compute. reflexivity. Qed.
Lemma plugins_owned : plugins_ok plugins = true.
Proof. vm_compute. reflexivity. Qed.
Lemma four_plugins : map p_name plugins = ["python"; "rust"; "dotnet"; "testdata"].
Proof. vm_compute. reflexivity. Qed.

Definition content := string.
Definition entry := (string * list string)%type.       (* (type name, lines) *)

(* ---- ids: uuid strings as keys of TypeData *)
Theorem C16_emit_id_invariant : forall ida ida' : nat -> string,
  injective string ida -> injective string ida' ->
  forall prog : list (op entry),
  option_map (lines entry) (gen string String.eqb entry ida prog) = option_map (lines entry) (gen string String.eqb entry ida' prog).
Proof. intros. apply (emit_id_invariant string String.eqb String.eqb_spec entry); assumption. Qed.
Print Assumptions C16_emit_id_invariant.

(* ---- sets of strings under Python's string order *)
Theorem C16_emit_perm_invariant : forall (O : Type) (c : consumer string O) (l l' : list string),
  Permutation l l' -> consume string String.leb String.eqb c l = consume string String.leb String.eqb c l'.
Proof.
  intros. apply emit_perm_invariant; try assumption.
  - apply String.leb_total.
  - apply String.leb_antisym.
  - apply string_leb_trans.
Qed.
Print Assumptions C16_emit_perm_invariant.

(* ---- sorted(S, key=k): a stable sort by the keys.  Covered only for an injective key (site class SSorted with a key that
   contains the element itself); every other keyed sort of a set is site class SSortedByKey, which `sites_covered` rejects *)
Theorem C16_key_sorted_invariant : forall (key : string -> string), (forall a b, key a = key b -> a = b) ->
  forall l l' : list string, Permutation l l' ->
  sort_by_key string string String.leb key l = sort_by_key string string String.leb key l'.
Proof.
  intros key inj l l' H. apply key_sorted_perm_invariant; try assumption.
  - apply String.leb_total.
  - apply String.leb_antisym.
  - apply string_leb_trans.
Qed.
Print Assumptions C16_key_sorted_invariant.

(* why SSortedByKey is not covered: two LSP methods with the same derived constant name, sorted by that name, come out in the
   iteration order of the set — the output depends on the hash seed *)
Definition constant_name_of (m : string) : string :=
  if String.eqb m "workspaceSymbol/resolve" || String.eqb m "workspace/symbol/resolve" then "WORKSPACE_SYMBOL_RESOLVE" else m.
Theorem C16_key_sorted_ties_exposed :
  Permutation ["workspaceSymbol/resolve"; "workspace/symbol/resolve"] ["workspace/symbol/resolve"; "workspaceSymbol/resolve"] /\
  sort_by_key string string String.leb constant_name_of ["workspaceSymbol/resolve"; "workspace/symbol/resolve"]
  <> sort_by_key string string String.leb constant_name_of ["workspace/symbol/resolve"; "workspaceSymbol/resolve"].
Proof. apply key_sorted_ties_exposed; [vm_compute; reflexivity | vm_compute; reflexivity | discriminate]. Qed.
Print Assumptions C16_key_sorted_ties_exposed.

(* ---- directory listings *)
Theorem C16_glob_delete_invariant : forall l l' : list string, Permutation l l' ->
  forall (f : fs string content) n, delete_all string String.eqb content l f n = delete_all string String.eqb content l' f n.
Proof. intros. apply glob_delete_invariant. assumption. Qed.
Print Assumptions C16_glob_delete_invariant.

(* a cleanup that first copies the listing into a local and then deletes its elements (x_emit.snapshot_delete): whatever order the
   copy has, it is the cleanup step of `run` — so C16_run_history_independent applies to it as to the direct loop *)
Theorem C16_snapshot_delete_is_cleanup : forall (owned : string -> bool) (l : list string) (outs : list (string * content)) (f : fs string content),
  (forall n, In n l <-> (owned n = true /\ f n <> None)) ->
  forall n, write_all string String.eqb content outs (delete_all string String.eqb content l f) n = run string String.eqb content true owned outs f n.
Proof. intros. apply (snapshot_cleanup_run string String.eqb String.eqb_spec). assumption. Qed.
Print Assumptions C16_snapshot_delete_is_cleanup.

Theorem C16_glob_write_invariant : forall outs outs' : list (string * content), Permutation outs outs' -> NoDup (map fst outs) ->
  forall (f : fs string content) n, write_all string String.eqb content outs f n = write_all string String.eqb content outs' f n.
Proof. intros. apply (glob_write_invariant string String.eqb String.eqb_spec); assumption. Qed.
Print Assumptions C16_glob_write_invariant.

(* ---- run histories: for each of the translated plugins, whatever the output directory contained before *)
Theorem C16_run_history_independent : forall p, In p plugins ->
  forall (owned : string -> bool) (outs : list (string * content)),
  (p_fixed_names p = true -> forall n, owned n = true -> In n (map fst outs)) ->
  forall (f1 f2 : fs string content) n, owned n = true ->
  run string String.eqb content (p_cleanup_first p) owned outs f1 n = run string String.eqb content (p_cleanup_first p) owned outs f2 n.
Proof.
  intros p Hp owned outs Hfix f1 f2 n On.
  apply (run_history_independent string String.eqb String.eqb_spec); [|exact On].
  pose proof plugins_owned as H. unfold plugins_ok in H. rewrite forallb_forall in H. specialize (H p Hp).
  unfold plugin_ok in H. apply andb_true_iff in H. destruct H as [H _]. apply orb_true_iff in H.
  destruct H as [C|F]; [left; exact C|right; exact (Hfix F)].
Qed.
Print Assumptions C16_run_history_independent.

Theorem C16_foreign_files_untouched : forall p, In p plugins ->
  forall (owned : string -> bool) (outs : list (string * content)),
  (p_writes_owned p = true -> forall n, In n (map fst outs) -> owned n = true) ->
  forall (f : fs string content) n, owned n = false -> run string String.eqb content (p_cleanup_first p) owned outs f n = f n.
Proof.
  intros p Hp owned outs W f n On.
  apply (run_preserves_foreign string String.eqb String.eqb_spec); [|exact On].
  pose proof plugins_owned as H. unfold plugins_ok in H. rewrite forallb_forall in H. specialize (H p Hp).
  unfold plugin_ok in H. apply andb_true_iff in H. destruct H as [_ H]. exact (W H).
Qed.
Print Assumptions C16_foreign_files_untouched.

(* ---- process histories: the n-th generation inside one Python process *)
(* module state constant after import (every SModConst site; no SModState site exists by no_module_state) *)
Theorem C16_process_history_independent : forall (St M : Type) (step : St -> M -> St * list (string * content)),
  (forall s m, fst (step s m) = s) ->
  forall s0 (earlier : list M) m, snd (step (after St M _ step s0 earlier) m) = snd (step s0 m).
Proof. intros St M step C s0 earlier m. apply const_state_history_independent. exact C. Qed.
Print Assumptions C16_process_history_independent.

(* state the output does not look at (loggers, library caches) may change *)
Theorem C16_view_history_independent : forall (St M W : Type) (step : St -> M -> St * list (string * content)) (view : St -> W),
  (forall s m, view (fst (step s m)) = view s) ->
  (forall s s' m, view s = view s' -> snd (step s m) = snd (step s' m)) ->
  forall s0 (earlier : list M) m, snd (step (after St M _ step s0 earlier) m) = snd (step s0 m).
Proof. intros St M W step view C V s0 earlier m. apply (view_state_history_independent St M _ step W view); assumption. Qed.
Print Assumptions C16_view_history_independent.

(* functools caches over pure functions of strings (every SMemoPure site) *)
Theorem C16_memo_history_independent : forall (V : Type) (f : string -> V) (left_by_earlier_runs : table string V) (ks : list string),
  consistent string V String.eqb f left_by_earlier_runs ->
  snd (calls string V String.eqb f left_by_earlier_runs ks) = snd (calls string V String.eqb f [] ks).
Proof.
  intros V f c ks H. apply memo_same_as_fresh; [|exact H].
  intros a b E. apply String.eqb_eq. exact E.
Qed.
Print Assumptions C16_memo_history_independent.

(* the instance: the translated site table contains no state a generation can change *)
Theorem C16_no_history_sites : history_sites sites = [].
Proof. apply state_ok_no_history_sites. exact no_module_state. Qed.
Print Assumptions C16_no_history_sites.
