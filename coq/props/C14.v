(* Property C14 — every union in the protocol can be parsed in each of its alternatives.
   Proved here: (1) dispatch totality — W_disp over the current package table (every union that dispatch can meet from a
   class has a handler; exhaustive) and, by the generic theorem Disp.disp_total, structuring any class target on ANY input
   with ANY fuel never ends in an unsupported-type error; (2) the alias objects that are NOT usable as top-level targets
   are exactly inside the committed known-findings list.  That each handler picks an alternative for which the value is
   valid is decided by the abstract-interpretation obligations of C01 (shared) and validated on the per-site stream. *)
From LSP Require Import Base MM Sem SemThy Disp.
From Gen Require Import MMData PkgData Known.

Theorem C14_no_union_without_handler : W_disp Sg = true.
Proof. vm_compute. reflexivity. Qed.

Section AnyStr.
Variable pystr : json -> string.
Theorem C14_never_unsupported : forall n c fs j, lookup_cls Sg c = Some fs ->
  forall e, structure Sg pystr n (PyCls c) j = Err e -> unsupported e = false.
Proof.
  intros n c fs j L. apply (disp_total Sg pystr C14_no_union_without_handler n (PyCls c) j).
  exact (class_targets_good Sg C14_no_union_without_handler c fs L).
Qed.
(* also for every dispatchable module-level alias object used as a top-level target *)
Theorem C14_alias_never_unsupported : forall n a t j, In (a, t) alias_objects -> good Sg t = true ->
  forall e, structure Sg pystr n t j = Err e -> unsupported e = false.
Proof. intros n a t j _ G. exact (disp_total Sg pystr C14_no_union_without_handler n t j G). Qed.
End AnyStr.

(* alias objects that cattrs cannot dispatch on (unresolved forward references): all of them are recorded findings *)
Definition bad_alias_targets : list string :=
  map fst (filter (fun a => match find_alias mm (fst a) with Some _ => negb (good Sg (snd a)) | None => false end) alias_objects).
Theorem C14_bad_alias_targets_are_known : subset bad_alias_targets known_alias_targets_C14 = true.
Proof. vm_compute. reflexivity. Qed.

Example C14_example : (length (uhooks Sg) >= 50) /\ (length (filter (fun a => good Sg (snd a)) alias_objects) >= 20).
Proof. vm_compute. split; repeat constructor. Qed.

Print Assumptions C14_no_union_without_handler.
Print Assumptions C14_never_unsupported.
Print Assumptions C14_alias_never_unsupported.
Print Assumptions C14_bad_alias_targets_are_known.
