(* Property C14 — every union in the protocol can be parsed in each of its alternatives.
   Proved here: (1) dispatch totality — W_disp over the current package table (every union that dispatch can meet from a
   class has a handler; exhaustive) and, by the generic theorem Disp.disp_total, structuring any class target on ANY input
   with ANY fuel never ends in an unsupported-type error; (2) the alias objects that are NOT usable as top-level targets
   are exactly inside the committed known-findings list.  That each handler picks an alternative for which the value is
   valid is PROVED for the covered part (props/Cover.v) — [C14_every_alternative_parses]: wherever the metamodel uses an `or` type
   whose Python image is a covered annotation, a closed-valid value of ANY of its alternatives is structured (no error at all) into a
   value of the union's type — a value of one of the alternatives (Denote.has_type, t_union) — that serialises back to the input up to
   nulls; the or-typed members of covered structures are all such places ([C14_or_members_of_covered_structures]).  Elsewhere: the
   per-site stream. *)
From LSP Require Import Base MM Sem SemThy Disp Denote RoundTrip HookFrag Image ImageThy Link MMRound.
From Gen Require Import MMData PkgData Known.
From Props Require Import Cover.

Theorem C14_no_union_without_handler : W_disp Sg = true.
Proof. vm_compute. reflexivity. Qed.

Section AnyStr.
Variable pystr : json -> string.
Theorem C14_never_unsupported : forall n c fs j, lookup_cls Sg c = Some fs ->
  forall e, structure Sg pystr n (PyCls c) j = Err e -> unsupported e = false.
Proof.
  intros n c fs j L. apply (disp_total Sg pystr C14_no_union_without_handler n (PyCls c) j).
  exact (class_targets_good Sg C14_no_union_without_handler c fs L).
Qed.
(* also for every dispatchable module-level alias object used as a top-level target *)
Theorem C14_alias_never_unsupported : forall n a t j, In (a, t) alias_objects -> good Sg t = true ->
  forall e, structure Sg pystr n t j = Err e -> unsupported e = false.
Proof. intros n a t j _ G. exact (disp_total Sg pystr C14_no_union_without_handler n t j G). Qed.
End AnyStr.

(* alias objects that cattrs cannot dispatch on (unresolved forward references): all of them are recorded findings *)
Definition bad_alias_targets : list string :=
  map fst (filter (fun a => match find_alias mm (fst a) with Some _ => negb (good Sg (snd a)) | None => false end) alias_objects).
Theorem C14_bad_alias_targets_are_known : subset bad_alias_targets known_alias_targets_C14 = true.
Proof. vm_compute. reflexivity. Qed.

(* ------------------------------------------------------------ each alternative, covered part *)
Theorem C14_every_alternative_parses (pystr : json -> string) : forall items alt j p k n0,
  In alt items -> cvalid mm alt j -> wfp p = true -> smatch mm Sg alias_objects k (py_of mm n0 (TOr items)) p = true ->
  okty Sg (fst cov) (snd cov) p = true ->
  exists n o jj, structure Sg pystr n p j = Ok o /\ has_type Sg p o /\ unstr Sg n (Some p) o = Ok jj /\ RoundTrip.NEq j jj.
Proof.
  intros items alt j p k n0 I V W M O.
  exact (mm_covered_roundtrip pystr (TOr items) j p k n0 (c_or mm items alt j I V) W M O).
Qed.
(* the or-typed members of the covered structures: their attribute's annotation is a covered annotation (so the theorem above applies
   with p := that annotation once it is the image of the member's type, which W_img establishes) *)
Definition or_members : list (string * string) :=
  flat_map (fun s => if mem (s_name s) (fst cov)
                     then flat_map (fun q => match p_type q with TOr _ => [(s_name s, p_name q)] | _ => [] end) (flat mm (s_name s)) else []) (structures mm).
Definition or_member_ok (sq : string * string) : bool :=
  match lookup_cls Sg (fst sq) with
  | Some fs => match find (fun f => String.eqb (fwire f) (snd sq)) fs with
               | Some f => okty Sg (fst cov) (snd cov) (ftype f) | None => false end
  | None => false end.
Theorem C14_or_members_of_covered_structures : forallb or_member_ok or_members = true /\ Nat.leb 80 (length or_members) = true.
Proof. split; vm_compute; reflexivity. Qed.

Example C14_example : (length (uhooks Sg) >= 50) /\ (length (filter (fun a => good Sg (snd a)) alias_objects) >= 20).
Proof. vm_compute. split; repeat constructor. Qed.

Print Assumptions C14_no_union_without_handler.
Print Assumptions C14_never_unsupported.
Print Assumptions C14_alias_never_unsupported.
Print Assumptions C14_bad_alias_targets_are_known.
Print Assumptions C14_every_alternative_parses.
Print Assumptions C14_or_members_of_covered_structures.
